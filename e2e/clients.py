"""End-to-end scenarios for C16 (byte-stream handling), C17 (operator actions, terminal) and C18 (what the screen shows)."""
import os, sys, time, re, random
sys.path.insert(0, os.path.join(os.path.dirname(os.path.abspath(__file__)), "..", "tools"))
from e2elib import *
from vlib import Rng, run_ops, DRIVER
import gentrack, cprspec
from gens import put, rand_frame, get
from fractions import Fraction as Fr

def split_lines(stream):
    """spec: complete newline-terminated lines of a byte stream"""
    parts = stream.split(b"\n")
    return [p + b"\n" for p in parts[:-1]]

def parse_line(line):
    """spec of a well-formed `*<hex>;` line: returns frame bytes or None"""
    try: s = line.decode("utf-8")
    except UnicodeDecodeError: return None
    if len(line) < 2: return None
    try: h = line[1:len(line) - 2].decode("utf-8")      # byte slice must fall on char boundaries
    except UnicodeDecodeError: return None
    if line[1:len(line) - 2] != h.encode("utf-8"): return None
    try: b = bytes.fromhex(h) if re.fullmatch(r"[0-9a-fA-F]*", h) and len(h) % 2 == 0 else None
    except ValueError: b = None
    if b is None or all(x == 0 for x in b): return None
    return b

def decodable(frames):
    """which byte strings decode (asked of the proven Lean model through the driver)"""
    if not frames: return []
    out = run_ops(DRIVER, ["F " + f.hex() for f in frames])
    return [o.startswith("OK") for o in out]

def fline(b): return b"*" + bytes(b).hex().encode() + b";\n"

MALFORMED = [b"\n", b"*\n", b";\n", b"*;\n", b"x\n", b"*8;\n", b"*8d4;\n", b"*zz112233445566;\n", b"*8d40621d58c382d690c8ac2863a;\n",
             b"*\xc3\xa9\xc3\xa9;\n", b"\xc3\xa9\n", b"*\xff\xfe\xfd;\n", b"\xff\n", b"*00000000000000;\n", b"*0000000000000000000000000000;\n",
             b"*0aabcdef123456;\n", b"*" + b"11" * 150 + b";\n", b"garbage without star or semicolon\n", b"\r\n", b"*8D40621D58C382D690C8AC2863A7;\r\n"]

# very long lines: longer than any plausible line-buffer bound (4 KiB, BufReader's 8 KiB, 64 KiB); malformed or not, each is one line
LONG = [b"x" * 4096 + b"\n", b"*" + b"zz" * 2048 + b";\n", b"*" + b"5" * 9001 + b";\n", b"*" + b"00" * 5000 + b";\n", b"*" + b"8d" * 35000 + b";\n"]

def corpus(rng, n, planes=3):
    """a feed: valid frames of a few aircraft mixed with malformed lines"""
    flights = [gentrack.Flight(rng, 0xA00000 + rng.below(0xFFFFF), (39.0, -77.0)) for _ in range(planes)]
    lines = []
    for i in range(n):
        r = rng.below(10)
        f = rng.choice(flights)
        if r < 5: f.step(rng); lines.append(fline(f.position(rng)))
        elif r < 6: lines.append(fline(f.frame(gentrack.me_ident(4, 0, rng.choice(["KLM1023", "N3550U", "BAW12"])))))
        elif r < 7: lines.append(fline(f.frame(gentrack.me_velocity(1, 0, 100 + rng.below(300), 1, 50 + rng.below(300), 0, 10))))
        elif r < 8: lines.append(fline(rand_frame(rng, rng.choice([0, 4, 5, 11, 20, 21]))))
        else: lines.append(rng.choice(MALFORMED))
    for l in LONG: lines.insert(2 + rng.below(max(1, len(lines) - 4)), l)       # each long line once, never first or last
    return lines

def segmentations(rng, lines):
    """(name, script) pairs: the same stream under different segmentations and delays"""
    stream = b"".join(lines)
    out = [("whole", [("send", stream)]),
           ("per-line", sum(([("send", l), ("sleep", 0.002)] for l in lines), [])),
           ("per-line-gaps", sum(([("send", l), ("sleep", 0.16 if i % 7 == 3 else 0.0)] for i, l in enumerate(lines)), []))]
    # the terminating newline of every (short) line arrives alone, after a gap longer than the read timeout
    out.insert(2, ("newline-late", sum(([("send", l[:-1]), ("sleep", 0.16 if len(l) < 200 and i % 2 == 0 else 0.0), ("send", l[-1:])] for i, l in enumerate(lines)), [])))
    k = len(stream) // 3
    out.append(("per-byte-prefix", [("send", stream[i:i + 1]) for i in range(min(k, 400))] + [("send", stream[min(k, 400):])]))
    # random chunking with long gaps in the middle of lines
    sc = []; i = 0
    while i < len(stream):
        nl = stream.find(b"\n", i)
        far = nl < 0 or nl - i > 400                      # inside one of the very long lines: larger chunks, or the run takes minutes
        n = 1 + (rng.below(40) if not far else 300 + rng.below(3000)); sc.append(("send", stream[i:i + n])); i += n
        if rng.chance(1, 12 if not far else 4): sc.append(("sleep", 0.16))
    out.append(("random-chunks-gaps", sc))
    return out

def parse_1090_stdout(out):
    """-> list of hex strings that were echoed and followed by a frame rendering"""
    res = []; cur = None
    for l in out.split("\n"):
        if re.fullmatch(r"[0-9a-f]+", l): cur = l
        elif l.startswith(" ") and cur is not None: res.append(cur); cur = None
        elif l == "": pass
        else: cur = None
    return res

def check_1090(rng, tier, report):
    n = 40 if tier == "quick" else 120
    lines = corpus(rng, n)
    stream = b"".join(lines)
    spec_frames = [parse_line(l) for l in split_lines(stream)]
    good = [f for f in spec_frames if f is not None]
    dec = decodable(good)
    want = [f.hex() for f, d in zip(good, dec) if d]
    scen = segmentations(rng, lines)
    # every split point of one valid line with a long gap
    one = fline(gentrack.adsb(0xABCDEF, gentrack.me_ident(4, 0, "SPLIT")))
    # quick: every 4th split point plus the structurally special ones (after '*', before ';', between ';' and the newline)
    pts = range(1, len(one)) if tier != "quick" else sorted(set(range(1, len(one), 4)) | {1, 2, len(one) - 3, len(one) - 2, len(one) - 1})
    for name, script in scen:
        out, alive, rc, err, ferr = run_1090(script + [("sleep", 0.15)])
        got = parse_1090_stdout(out)
        report("1090/" + name, alive and got == want, {"alive": alive, "returncode": rc, "stderr": err[-300:], "decoded": len(got), "expected": len(want),
               "first_difference": next(((i, a, b) for i, (a, b) in enumerate(zip(got + [None] * len(want), want + [None] * len(got))) if a != b), None)})
    for p in pts:
        script = [("send", lines[0] + one[:p]), ("sleep", 0.17), ("send", one[p:] + lines[1])]
        w = [f.hex() for f, d in zip(*[[x for x in [parse_line(lines[0]), parse_line(one), parse_line(lines[1])] if x is not None]] * 1 + [decodable([x for x in [parse_line(lines[0]), parse_line(one), parse_line(lines[1])] if x is not None])]) if d]
        out, alive, rc, err, ferr = run_1090(script + [("sleep", 0.12)], settle=0.2)
        got = parse_1090_stdout(out)
        report("1090/split-at-%d" % p, alive and got == w, {"alive": alive, "stderr": err[-200:], "got": got, "expected": w})
    # a malformed line that arrives in two segments separated by more than the read timeout, with bytes that are not UTF-8 in the *second*
    # segment (a reader that validates each segment on arrival must not lose the line ending that came with the invalid bytes), an empty
    # second segment, and an invalid first segment - each followed by valid lines that must all be decoded (seed C16_g)
    v1 = fline(gentrack.adsb(0x4840D6, gentrack.me_ident(4, 0, "KLM1023"))); v2 = fline(gentrack.adsb(0x406B90, gentrack.me_ident(4, 0, "BAW12")))
    wantv = [parse_line(v1).hex(), parse_line(v2).hex()]
    for name, a, b in (("non-utf8-second-segment", b"*8D40", b"\xff\xfe621D;\n"), ("non-utf8-first-segment", b"*8D\xff\xfe", b"40621D;\n"),
                       ("non-utf8-both", b"\xc3", b"\x28;\n"), ("utf8-split-inside-a-character", b"*\xc3", b"\xa9;\n"), ("lone-newline-late", b"*8D40\xff", b"\n")):
        out, alive, rc, err, ferr = run_1090([("send", v1 + a), ("sleep", 0.3), ("send", b + v2), ("sleep", 0.15)], settle=0.2)
        got = parse_1090_stdout(out)
        report("1090/" + name, alive and got == wantv, {"alive": alive, "stderr": err[-200:], "got": got, "expected": wantv})
    # malformed only: must stay alive
    out, alive, rc, err, ferr = run_1090([("send", b"".join(MALFORMED))] + [("sleep", 0.2)])
    report("1090/malformed-only", alive and parse_1090_stdout(out) == [], {"alive": alive, "stderr": err[-300:], "rendered": parse_1090_stdout(out)})

def airplanes_rows(screen_text):
    """rows of the Airplanes tab: {icao: msgs}"""
    rows = {}
    for l in screen_text.split("\n"):
        m = re.search(r"\b([0-9a-f]{6})\b.*?(\d+)\s*│?\s*$", l)
        if m and "ICAO" not in l: rows[m.group(1)] = int(m.group(2))
    return rows

def expected_counts(lines, formats=(17, 18)):
    good = [f for f in (parse_line(l) for l in split_lines(b"".join(lines))) if f is not None]
    dec = decodable(good)
    cnt = {}
    for f, d in zip(good, dec):
        if d and get(bytearray(f), 0, 5) in formats:
            k = "%06x" % get(bytearray(f), 8, 24); cnt[k] = cnt.get(k, 0) + 1
    return cnt

def run_radar_feed(script, keys_after=(b"\x1bOR",), args=(), wait=1.0, rows=40, cols=140, quit_keys=None):
    f = Feed(); f.run([("accept",)] + script)
    r = Radar(f.port, args=args, rows=rows, cols=cols)
    try:
        r.pump(0.6)
        for k in keys_after: r.send(k); r.pump(0.15)
        f.done.wait(60)
        r.pump(wait)
        snap = r.screen.text()
        if quit_keys is not None:
            r.send(quit_keys); r.pump(1.0)
        st = r.poll()
        return r, f, snap, st
    finally:
        pass

def check_radar_stream(rng, tier, report):
    lines = corpus(rng, 30 if tier == "quick" else 80)
    want = expected_counts(lines)
    for name, script in segmentations(rng, lines)[:4 if tier == "quick" else 6]:
        r, f, snap, st = run_radar_feed(script + [("sleep", 2.0)], wait=0.8)
        got = airplanes_rows(snap)
        alive = st is None
        r.send(b"q"); st2 = r.wait_exit(); r.kill(); f.stop()
        report("radar/" + name, alive and got == want and st2 == 0, {"alive_during_feed": alive, "rows": got, "expected": want, "exit_after_q": st2,
               "panic": "panicked" in r.raw.decode(errors="ignore")})
    # --limit-parsing: only DF17 lines are parsed - each of them exactly once, whatever lines of other formats stand before or after it
    want17 = expected_counts(lines, formats=(17,))
    for name, script in segmentations(rng, lines)[:1 if tier == "quick" else 3]:
        r, f, snap, st = run_radar_feed(script + [("sleep", 2.0)], args=("--limit-parsing",), wait=0.8)
        got = airplanes_rows(snap)
        alive = st is None
        r.send(b"q"); st2 = r.wait_exit(); r.kill(); f.stop()
        report("radar/limit-parsing-" + name, alive and got == want17 and st2 == 0, {"alive_during_feed": alive, "rows": got, "expected": want17, "exit_after_q": st2})
    # every malformed line of the list, by construction (not by the corpus' dice), before valid traffic: with and without --limit-parsing the client
    # must skip them all, stay alive, and count the valid frames that follow (seed C16_f: `*;` under --limit-parsing indexed an empty payload)
    tail = [l for l in lines if l not in MALFORMED and l not in LONG][:12]
    for args, formats, name in ((("--limit-parsing",), (17,), "limit-parsing-"), ((), (17, 18), "")):
        feed_lines = list(MALFORMED) + tail
        wantm = expected_counts(feed_lines, formats=formats)
        r, f, snap, st = run_radar_feed([("send", b"".join(feed_lines)), ("sleep", 2.0)], args=args, wait=0.8)
        got = airplanes_rows(snap)
        alive = st is None
        r.send(b"q"); st2 = r.wait_exit(); r.kill(); f.stop()
        report("radar/" + name + "every-malformed-line", alive and got == wantm and st2 == 0, {"alive_during_feed": alive, "rows": got, "expected": wantm, "exit_after_q": st2,
               "panic": "panicked" in r.raw.decode(errors="ignore")})
    # the same two-segment malformed lines (non-UTF-8 bytes after a pause) for radar: the valid lines around them are counted
    v1 = fline(gentrack.adsb(0x4840D6, gentrack.me_ident(4, 0, "KLM1023"))); v2 = fline(gentrack.adsb(0x406B90, gentrack.me_ident(4, 0, "BAW12")))
    script = []
    for a, b in ((b"*8D40", b"\xff\xfe621D;\n"), (b"*8D\xff\xfe", b"40621D;\n"), (b"*\xc3", b"\xa9;\n"), (b"*8D40\xff", b"\n")):
        script += [("send", v1 + a), ("sleep", 0.3), ("send", b + v2), ("sleep", 0.1)]
    r, f, snap, st = run_radar_feed(script + [("sleep", 2.0)], wait=0.8)
    got = airplanes_rows(snap); alive = st is None
    r.send(b"q"); st2 = r.wait_exit(); r.kill(); f.stop()
    report("radar/non-utf8-after-a-pause", alive and got == {"4840d6": 4, "406b90": 4} and st2 == 0, {"alive_during_feed": alive, "rows": got, "expected": {"4840d6": 4, "406b90": 4}, "exit_after_q": st2})
    # disconnect without retry: clean exit
    r, f, snap, st = run_radar_feed([("send", b"".join(lines[:10])), ("sleep", 1.0), ("close",)], wait=1.5)
    st = r.wait_exit()
    txt = r.raw.decode(errors="ignore")
    report("radar/disconnect-exits", st == 0 and "TCP connection aborted" in txt, {"status": st, "tail": txt[-200:]})
    r.kill(); f.stop()
    # the same when the server goes away abortively (connection reset instead of an orderly end of stream)
    r, f, snap, st = run_radar_feed([("send", b"".join(lines[:10])), ("sleep", 1.0), ("abort",)], wait=1.5)
    st = r.wait_exit()
    txt = r.raw.decode(errors="ignore")
    report("radar/reset-exits", st == 0 and "TCP connection aborted" in txt, {"status": st, "tail": txt[-200:]})
    r.kill(); f.stop()
    # disconnect with retry: reconnects and keeps the tracked aircraft
    half = len(lines) // 2
    script = [("send", b"".join(lines[:half])), ("sleep", 1.5), ("close",), ("sleep", 0.5), ("accept",), ("send", b"".join(lines[half:])), ("sleep", 2.0)]
    r, f, snap, st = run_radar_feed(script, args=("--retry-tcp",), wait=0.8)
    # the selected tab may have been redrawn by the waiting screen: press F3 again
    r.send(b"\x1bOR"); r.pump(0.6)
    got = airplanes_rows(r.screen.text())
    report("radar/retry-keeps-aircraft", st is None and got == want and f.accepted == 2, {"status": st, "rows": got, "expected": want, "accepted": f.accepted})
    r.send(b"q"); r.pump(0.8); r.kill(); f.stop()
    # ... also after a connection reset
    script = [("send", b"".join(lines[:half])), ("sleep", 1.5), ("abort",), ("sleep", 0.5), ("accept",), ("send", b"".join(lines[half:])), ("sleep", 2.0)]
    r, f, snap, st = run_radar_feed(script, args=("--retry-tcp",), wait=0.8)
    r.send(b"\x1bOR"); r.pump(0.6)
    got = airplanes_rows(r.screen.text())
    report("radar/retry-after-reset", st is None and got == want and f.accepted == 2, {"status": st, "rows": got, "expected": want, "accepted": f.accepted})
    r.send(b"q"); r.pump(0.8); r.kill(); f.stop()
    # the connection drops in the middle of a line: the fragment is not a complete line and must not swallow the first
    # complete line of the next connection (every complete line exactly once, across reconnects)
    addr = int(sorted(want)[0], 16) if want else 0xABCDEF
    extra = fline(gentrack.adsb(addr, gentrack.me_ident(4, 0, "DROPPED")))
    first = fline(gentrack.adsb(addr, gentrack.me_ident(4, 0, "FIRST")))       # the first complete line of the new connection: a counted frame
    want2 = expected_counts(lines[:half] + [first] + lines[half:])
    for cut in ((9,) if tier == "quick" else (1, 9, len(extra) - 1)):
        script = [("send", b"".join(lines[:half]) + extra[:cut]), ("sleep", 1.2), ("close",), ("sleep", 0.5), ("accept",), ("send", first + b"".join(lines[half:])), ("sleep", 2.0)]
        r, f, snap, st = run_radar_feed(script, args=("--retry-tcp",), wait=0.8)
        r.send(b"\x1bOR"); r.pump(0.6)
        got = airplanes_rows(r.screen.text())
        report("radar/retry-midline-drop-%d" % cut, st is None and got == want2 and f.accepted == 2, {"status": st, "rows": got, "expected": want2, "accepted": f.accepted,
               "fragment_before_drop": extra[:cut].decode()})
        r.send(b"q"); r.pump(0.8); r.kill(); f.stop()
