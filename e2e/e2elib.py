"""End-to-end drivers for the two client binaries: a scripted loopback feed server, a runner for `1090`, a pty driver and
a small VT screen reconstructor for `radar`. Standard library only."""
import os, sys, socket, threading, time, subprocess, pty, select, struct, fcntl, termios, re, signal, errno

VERIF = os.path.dirname(os.path.dirname(os.path.abspath(__file__)))
BUILD = os.path.join(VERIF, ".build")

def build_apps():
    env = dict(os.environ, CARGO_NET_OFFLINE="true", CARGO_TARGET_DIR=BUILD)
    p = subprocess.run(["cargo", "build", "--release", "--offline", "-p", "rsadsb_apps"], cwd="/repo", env=env,
                       stdout=subprocess.PIPE, stderr=subprocess.STDOUT)
    return p.returncode == 0, p.stdout.decode(errors="replace")

def app(name): return os.path.join(BUILD, "release", name)

class Feed:
    """loopback server; script = list of steps: ('send', bytes) | ('sleep', seconds) | ('close',) | ('abort',) | ('accept',) | ('repeat_until_flag', bytes, period)"""
    def __init__(self):
        self.sock = socket.socket(socket.AF_INET, socket.SOCK_STREAM)
        self.sock.setsockopt(socket.SOL_SOCKET, socket.SO_REUSEADDR, 1)
        self.sock.bind(("127.0.0.1", 0)); self.sock.listen(4)
        self.port = self.sock.getsockname()[1]
        self.conn = None; self.done = threading.Event(); self.err = None; self.accepted = 0
        self.flag = threading.Event()       # set by the driver: ends a ('repeat_until_flag', ..) step
    def run(self, script):
        def work():
            try:
                for step in script:
                    if step[0] == "accept":
                        self.sock.settimeout(20); self.conn, _ = self.sock.accept(); self.accepted += 1
                        self.conn.setsockopt(socket.IPPROTO_TCP, socket.TCP_NODELAY, 1)
                    elif step[0] == "send": self.conn.sendall(step[1])
                    elif step[0] == "sleep": time.sleep(step[1])
                    elif step[0] == "repeat_until_flag":
                        # ('repeat_until_flag', bytes, period): keep sending until the driver says stop (traffic that keeps aircraft alive
                        # exactly as long as the scenario wants them alive, whatever the machine's speed)
                        while not self.flag.is_set():
                            self.conn.sendall(step[1]); self.flag.wait(step[2])
                    elif step[0] == "close":
                        try: self.conn.shutdown(socket.SHUT_RDWR)
                        except OSError: pass
                        self.conn.close(); self.conn = None
                    elif step[0] == "abort":
                        # abortive close: the peer sees a connection reset (RST), not an orderly end of stream
                        self.conn.setsockopt(socket.SOL_SOCKET, socket.SO_LINGER, struct.pack("ii", 1, 0))
                        self.conn.close(); self.conn = None
            except Exception as e:
                self.err = repr(e)
            finally:
                self.done.set()
        self.t = threading.Thread(target=work, daemon=True); self.t.start()
    def stop(self):
        try:
            if self.conn: self.conn.close()
        except OSError: pass
        self.sock.close()

def run_1090(script, settle=0.4, extra_args=()):
    """runs `1090` against a scripted feed; returns (stdout text, alive_at_end, returncode or None)"""
    f = Feed(); f.run([("accept",)] + script)
    # stdout and stderr go to files, not pipes: a pipe that nobody drains blocks the client once it has printed 64 KiB
    import tempfile
    os.makedirs(os.path.join(VERIF, ".work"), exist_ok=True)
    fo = tempfile.TemporaryFile(dir=os.path.join(VERIF, ".work")); fe = tempfile.TemporaryFile(dir=os.path.join(VERIF, ".work"))
    p = subprocess.Popen([app("1090"), "--host", "127.0.0.1", "--port", str(f.port)] + list(extra_args), stdout=fo, stderr=fe)
    f.done.wait(60)
    time.sleep(settle)
    alive = p.poll() is None
    p.kill(); p.wait()
    fo.seek(0); out = fo.read(); fe.seek(0); err = fe.read(); fo.close(); fe.close()
    f.stop()
    return out.decode(errors="replace"), alive, p.returncode, err.decode(errors="replace"), f.err

# ------------------------------------------------------------------ radar under a pty
class Screen:
    """minimal VT100 screen: CUP, ED, EL, SGR ignored, UTF-8 cells"""
    def __init__(self, rows, cols):
        self.rows, self.cols = rows, cols
        self.cells = [[" "] * cols for _ in range(rows)]
        self.r = self.c = 0
        self.buf = b""
    def feed(self, data):
        self.buf += data
        text = self.buf.decode("utf-8", errors="ignore")
        # keep incomplete trailing escape / utf8 in buffer: simple approach, re-decode everything consumed
        i = 0; n = len(text)
        consumed_upto = 0
        while i < n:
            ch = text[i]
            if ch == "\x1b":
                m = re.match(r"\x1b\[([0-9;?]*)([A-Za-z])", text[i:])
                if not m:
                    if n - i < 12: break           # incomplete sequence, wait for more
                    i += 1; continue
                args, cmd = m.group(1), m.group(2)
                nums = [int(x) if x.isdigit() else 0 for x in args.replace("?", "").split(";")] if args else []
                if cmd == "H" or cmd == "f":
                    self.r = max(0, (nums[0] if len(nums) > 0 and nums[0] else 1) - 1); self.c = max(0, (nums[1] if len(nums) > 1 and nums[1] else 1) - 1)
                elif cmd == "J":
                    if (nums[0] if nums else 0) in (2, 3): self.cells = [[" "] * self.cols for _ in range(self.rows)]
                elif cmd == "K":
                    if self.r < self.rows:
                        for c in range(self.c, self.cols): self.cells[self.r][c] = " "
                elif cmd == "A": self.r = max(0, self.r - (nums[0] if nums and nums[0] else 1))
                elif cmd == "B": self.r += (nums[0] if nums and nums[0] else 1)
                elif cmd == "C": self.c += (nums[0] if nums and nums[0] else 1)
                elif cmd == "D": self.c = max(0, self.c - (nums[0] if nums and nums[0] else 1))
                i += len(m.group(0))
            elif ch == "\r": self.c = 0; i += 1
            elif ch == "\n": self.r += 1; i += 1
            elif ch == "\x08": self.c = max(0, self.c - 1); i += 1
            elif ord(ch) < 32: i += 1
            else:
                if self.r < self.rows and self.c < self.cols: self.cells[self.r][self.c] = ch
                self.c += 1; i += 1
            consumed_upto = i
        self.buf = text[consumed_upto:].encode("utf-8")
    def lines(self): return ["".join(r).rstrip() for r in self.cells]
    def text(self): return "\n".join(self.lines())

class Radar:
    def __init__(self, port, args=(), rows=40, cols=140, cwd=None, latlon=(39.0, -77.0)):
        self.rows, self.cols = rows, cols
        self.screen = Screen(rows, cols)
        self.raw = b""
        pid, fd = pty.fork()
        if pid == 0:
            os.chdir(cwd or os.path.join(VERIF, ".work"))
            os.environ["TERM"] = "xterm-256color"; os.environ.pop("RUST_LOG", None)
            os.execv(app("radar"), [app("radar"), "--host=127.0.0.1", "--port=%d" % port, "--lat=%s" % latlon[0], "--long=%s" % latlon[1], "--log-folder=" + os.path.join(VERIF, ".work", "logs")] + list(args))
        self.pid, self.fd = pid, fd
        self.resize(rows, cols)
        self.saved = termios.tcgetattr(fd)
        self.status = None
    def resize(self, rows, cols):
        fcntl.ioctl(self.fd, termios.TIOCSWINSZ, struct.pack("HHHH", rows, cols, 0, 0))
        self.rows, self.cols = rows, cols
        s = Screen(rows, cols); self.screen = s
        try: os.kill(self.pid, signal.SIGWINCH)
        except OSError: pass
    def pump(self, secs):
        end = time.time() + secs
        while time.time() < end:
            r, _, _ = select.select([self.fd], [], [], 0.05)
            if r:
                try: d = os.read(self.fd, 65536)
                except OSError: d = b""
                if not d: break
                self.raw += d; self.screen.feed(d)
            if self.poll() is not None and not r: break
    def send(self, data):
        try: os.write(self.fd, data)
        except OSError: pass
    def poll(self):
        if self.status is not None: return self.status
        try:
            pid, st = os.waitpid(self.pid, os.WNOHANG)
        except ChildProcessError:
            self.status = -999; return self.status
        if pid == 0: return None
        self.status = os.WEXITSTATUS(st) if os.WIFEXITED(st) else -os.WTERMSIG(st)
        return self.status
    def wait_exit(self, secs=4.0):
        """pump until the process has exited (or the time is up); returns the exit status or None"""
        end = time.time() + secs
        while time.time() < end:
            if self.poll() is not None: break
            self.pump(0.2)
            time.sleep(0.02)
        return self.poll()
    def termios_now(self):
        try: return termios.tcgetattr(self.fd)
        except termios.error: return None
    def kill(self):
        if self.poll() is None:
            try: os.kill(self.pid, signal.SIGKILL)
            except OSError: pass
            try: os.waitpid(self.pid, 0)
            except OSError: pass
        try: os.close(self.fd)
        except OSError: pass

KEYS = {"F1": b"\x1bOP", "F2": b"\x1bOQ", "F3": b"\x1bOR", "F4": b"\x1bOS", "F5": b"\x1b[15~", "Tab": b"\t", "Up": b"\x1b[A", "Down": b"\x1b[B",
        "Right": b"\x1b[C", "Left": b"\x1b[D", "Enter": b"\r", "q": b"q", "^C": b"\x03", "l": b"l", "i": b"i", "h": b"h", "t": b"t", "n": b"n",
        "+": b"+", "-": b"-"}
def mouse(kind, col, row):
    """SGR mouse: kind in down/up/drag/scrollup/scrolldown; 0-based col,row"""
    code = {"down": 0, "up": 0, "drag": 32, "scrollup": 64, "scrolldown": 65}[kind]
    return ("\x1b[<%d;%d;%d%s" % (code, col + 1, row + 1, "m" if kind == "up" else "M")).encode()
