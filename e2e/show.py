"""End-to-end scenarios for C18: the Airplanes table / tab title / statistics against the tracker model, and the Map placement
against the projection model, under arbitrary view controls.

Expected values come from the proven Lean models through the driver: `T act …` / `T dump` / `T stats` (tracker + statistics),
`U …` (view state after the operator's history), `M …` (to_xy). The cell a canvas coordinate lands on is ratatui's own label
formula (modelled, not verified)."""
import os, sys, time, re
sys.path.insert(0, os.path.join(os.path.dirname(os.path.abspath(__file__)), "..", "tools"))
from fractions import Fraction as Fr
from e2elib import *
from vlib import Rng, run_ops, DRIVER
import gentrack
from gens import rand_frame
from clients import fline, parse_line, split_lines, MALFORMED
import ui as uimod

RX = (39.0, -77.0)

# ------------------------------------------------------------------ traffic
def quadrant_flights(rng, n):
    fl = []
    for i in range(n):
        f = gentrack.Flight(rng, 0xA20000 + 0x1357 * i + rng.below(0x80), RX, df=18 if i % 4 == 3 else 17, plain=True)
        sy, sx = [(1, 1), (1, -1), (-1, 1), (-1, -1)][i % 4]
        f.lat = Fr(RX[0]) + sy * Fr(150 + rng.below(450), 1000); f.lon = Fr(RX[1]) + sx * Fr(150 + rng.below(650), 1000)
        f.callsign = "Q%s%d" % ("NE NW SE SW".split()[i % 4], i)
        # every second aircraft climbs or descends: the two stored reports of its pair carry different altitudes, and the table must show the one
        # the tracker reports (seed C18_f: the table re-derived the altitude from the other report)
        if i % 2 == 0: f.climb = [100, -25, 1000, -500, 25][(i // 2) % 5]
        fl.append(f)
    return fl

def traffic(rng, flights, n, malformed=True):
    lines = []
    for f in flights[: max(1, len(flights) * 2 // 3)]:
        lines += [fline(f.position(rng, odd=0)), fline(f.position(rng, odd=1))]
    for i in range(n):
        f = rng.choice(flights); r = rng.below(12)
        if r < 5: f.step(rng); lines.append(fline(f.position(rng)))
        elif r < 7: lines.append(fline(f.frame(gentrack.me_ident(4, 0, f.callsign))))
        elif r < 9: lines.append(fline(f.frame(gentrack.me_velocity(1, rng.below(2), 1 + rng.below(400), rng.below(2), 1 + rng.below(400), rng.below(2), 1 + rng.below(100)))))
        elif r < 10: lines.append(fline(rand_frame(rng, rng.choice([0, 4, 5, 11, 20, 21]))))
        elif malformed: lines.append(rng.choice(MALFORMED))
    return lines

def model_tracker(lines, pre=(), rx=None):
    """tracker digest + statistics of the Lean model after the decodable lines, in order"""
    ops = ["T reset %s %s 500" % (rx or RX)] + list(pre)
    for l in split_lines(b"".join(lines)):
        b = parse_line(l)
        if b is not None: ops.append("T act " + b.hex())
    ops += ["T dump", "T stats"]
    out = run_ops(DRIVER, ops)
    return out[-2], out[-1], out

def parse_digest(dump):
    recs = []
    for part in dump.split(" | ")[1:]:
        m = re.match(r"([0-9a-f]{6}) msgs=(\d+) cs=(-|\"[^\"]*\") vel=(\S+) .* details=(\S+)$", part)
        if not m: continue
        d = {"icao": m.group(1), "msgs": int(m.group(2)), "cs": None if m.group(3) == "-" else m.group(3)[1:-1], "vel": None, "details": None}
        if m.group(4) != "-": h, g, v = m.group(4).split(","); d["vel"] = (float(h), float(g), int(v))
        if m.group(5) != "-":
            a, dist, pos = m.group(5).split("/"); la, lo = pos.split(",")
            d["details"] = (int(a), float(dist), float(la) / 1000.0, float(lo) / 1000.0)
        recs.append(d)
    return recs

# ------------------------------------------------------------------ reading the Airplanes and Stats tabs
# column start / end offsets from the "ICAO" header, from the widths of `build_tab_airplanes` (6 9 7 8 7 8 6 5 8 6, one cell between columns);
# the Long column is 8 cells wide since /repo 2f73ca7
COLS = [("icao", 0, 6), ("cs", 7, 16), ("lat", 17, 24), ("lon", 25, 33), ("heading", 34, 41), ("alt", 42, 50), ("fpm", 51, 57), ("speed", 58, 63), ("dist", 64, 72), ("msgs", 73, 79)]
def table_rows(text):
    lines = text.split("\n")
    hdr = next((i for i, l in enumerate(lines) if "ICAO" in l and "Call sign" in l), None)
    if hdr is None: return None
    c0 = lines[hdr].index("ICAO")
    rows = []
    for l in lines[hdr + 2:]:
        cell = {n: l[c0 + a:c0 + b].strip() for n, a, b in COLS}
        if re.fullmatch(r"[0-9a-f]{6}", cell["icao"]): rows.append(cell)
    return rows

def near(txt, val, tol):
    try: return abs(float(txt) - val) <= tol
    except ValueError: return False

def compare_table(rows, recs):
    """differences between the table on screen and the tracker model's records"""
    diffs = []
    if rows is None: return ["no table on screen"]
    if [r["icao"] for r in rows] != [d["icao"] for d in recs]: return ["rows %s vs records %s" % ([r["icao"] for r in rows], [d["icao"] for d in recs])]
    for r, d in zip(rows, recs):
        k = d["icao"]
        if r["cs"].rstrip() != (d["cs"] or "").strip(): diffs.append("%s callsign '%s' vs '%s'" % (k, r["cs"], d["cs"]))
        if int(r["msgs"] or -1) != d["msgs"]: diffs.append("%s msgs %s vs %d" % (k, r["msgs"], d["msgs"]))
        if d["details"] is None:
            for c in ("lat", "lon", "alt", "dist"):
                if r[c] != "": diffs.append("%s %s '%s' shown before a position is known" % (k, c, r[c]))
        else:
            a, dist, la, lo = d["details"]
            if not near(r["lat"], la, 0.00056): diffs.append("%s lat %s vs %.4f" % (k, r["lat"], la))
            if not near(r["lon"], lo, 0.00056): diffs.append("%s lon %s vs %.4f" % (k, r["lon"], lo))
            if r["alt"] != str(a): diffs.append("%s altitude %s vs %d" % (k, r["alt"], a))
            if not near(r["dist"], dist, 0.00056): diffs.append("%s distance %s vs %.4f" % (k, r["dist"], dist))
        if d["vel"] is None:
            for c in ("heading", "fpm", "speed"):
                if r[c] != "": diffs.append("%s %s '%s' shown without a velocity" % (k, c, r[c]))
        else:
            h, g, v = d["vel"]
            if not near(r["heading"], h, 0.056): diffs.append("%s heading %s vs %.2f" % (k, r["heading"], h))
            if r["fpm"] != str(v): diffs.append("%s fpm %s vs %d" % (k, r["fpm"], v))
            if not near(r["speed"], g, 0.51): diffs.append("%s speed %s vs %.2f" % (k, r["speed"], g))
    return diffs

def start_many_messages(rng, tier, report):
    """one aircraft heard more than ten thousand times (a few hours of one nearby aircraft): the count on screen must be the tracker's count,
    whatever its number of digits (seed C18_g: a column narrower than the number drops its last digits). radar waits 10 ms for operator input
    after every line, so 10 050 lines take about two minutes: the scenario runs in its own thread beside the other scenarios."""
    import threading
    n = 10050
    def run():
        name = "table/many-messages"
        one = fline(gentrack.Flight(Rng(41), 0x4840d6, RX, plain=True).frame(gentrack.me_ident(4, 0, "KLM1023")))
        two = fline(gentrack.Flight(Rng(43), 0x406b90, RX, plain=True).frame(gentrack.me_ident(4, 0, "BAW12")))
        f = Feed(); f.run([("accept",), ("send", one * n + two), ("sleep", 900)])
        r = Radar(f.port)
        try:
            r.pump(0.8); r.send(KEYS["F3"])
            deadline = time.time() + 420
            rows = None
            while time.time() < deadline:
                r.pump(2.0)
                rows = table_rows(r.screen.text())
                if rows and len(rows) == 2: break              # the second aircraft shows up once every line before it has been processed
                if r.poll() is not None: break
            r.pump(0.6)
            rows = table_rows(r.screen.text())
            got = {x["icao"]: x["msgs"] for x in (rows or [])}
            want = {"4840d6": str(n), "406b90": "1"}
            alive = r.poll() is None
            report(name, alive and got == want, {"message_counts_on_screen": got, "tracker": want, "alive": alive})
        except Exception as e:
            report(name, False, {"exception": repr(e)})
        finally:
            r.send(b"q"); r.wait_exit(3.0); r.kill(); f.stop()
    t = threading.Thread(target=run, daemon=True); t.start()
    return t

def check_table_far_longitudes(rng, tier, report):
    """receivers whose longitudes need every character of the column: west of 100 W ("-122.419" has eight characters; the column was seven
    cells wide until /repo 2f73ca7 and the table showed "-122.41"), next to the antimeridian on both sides, east of 100 E, far south"""
    sites = [(37.6, -122.4), (61.2, -149.9), (-17.5, -179.6), (-36.8, 174.8), (35.5, 139.8), (-77.8, 166.7)]
    for k, rx in enumerate(sites if tier != "quick" else sites[:4]):
        sub = Rng(rng.next())
        fls = []
        for i in range(3):
            fl = gentrack.Flight(sub, 0xA30000 + 0x111 * i + k, rx, plain=True)
            fl.lat = Fr(rx[0]) + Fr(sub.below(600) - 300, 1000); fl.lon = ((Fr(rx[1]) + Fr(sub.below(600) - 300, 1000) + 180) % 360) - 180
            fl.callsign = "W%d%d" % (k, i); fls.append(fl)
        lines = []
        for fl in fls: lines += [fline(fl.position(sub, odd=0)), fline(fl.position(sub, odd=1)), fline(fl.frame(gentrack.me_ident(4, 0, fl.callsign)))]
        f = Feed(); f.run([("accept",), ("send", b"".join(lines)), ("sleep", 600)])
        r = Radar(f.port, latlon=rx)
        name = "table/longitude-%s" % ("%.1f" % rx[1]).replace("-", "w")
        try:
            r.pump(1.0); r.send(KEYS["F3"]); r.pump(0.8)
            dump, stats, _ = model_tracker(lines, rx=rx)
            recs = parse_digest(dump)
            rows = table_rows(r.screen.text())
            diffs = compare_table(rows, recs)
            alive = r.poll() is None
            report(name, alive and not diffs and len(recs) == 3 and all(d["details"] for d in recs), {"differences": diffs[:8], "receiver": rx, "rows": [(x["icao"], x["lat"], x["lon"]) for x in rows or []],
                   "records_with_position": sum(1 for d in recs if d["details"]), "alive": alive})
        except Exception as e:
            report(name, False, {"exception": repr(e)})
        finally:
            r.send(b"q"); r.wait_exit(3.0); r.kill(); f.stop()

def stats_values(text):
    most = total = None
    for l in text.split("\n"):
        m = re.search(r"Most Airplanes\s+(None|\S+ \S+)\s*(\d*)", l)
        if m: most = int(m.group(2)) if m.group(2) else 0
        m = re.search(r"Total Airplanes\s+All Time\s+(\d+)", l)
        if m: total = int(m.group(1))
    return most, total

def view_events(rng, n):
    """operator actions that must not change any data: everything except quit"""
    return [uimod.random_event(rng, 40, 140) for _ in range(n)]

def check_table_and_stats(rng, tier, report):
    for k, n_planes in enumerate([1, 4] if tier == "quick" else [0, 1, 2, 4, 4, 6, 8]):
        sub = Rng(rng.next())
        flights = quadrant_flights(sub, n_planes)
        lines = traffic(sub, flights, 30 if tier == "quick" else 70) if flights else [sub.choice(MALFORMED) for _ in range(10)]
        touch = k % 2 == 1
        script = []
        for i in range(0, len(lines), 5): script += [("send", b"".join(lines[i:i + 5])), ("sleep", 0.25)]
        script += [("sleep", 600)]
        f = Feed(); f.run([("accept",)] + script)
        r = Radar(f.port, args=["--touchscreen"] if touch else [])
        name = "table/%dplanes-%d" % (n_planes, k)
        try:
            r.pump(0.8)
            evs = view_events(sub, 3 * (len(lines) // 5 + 2))
            for tok, data in evs: r.send(data); r.pump(0.09)
            r.pump(1.0)
            dump, stats, _ = model_tracker(lines)
            recs = parse_digest(dump)
            r.send(KEYS["F3"]); r.pump(0.5)
            scr = r.screen.text()
            rows = table_rows(scr)
            diffs = compare_table(rows, recs)
            st = uimod.screen_state(scr)
            if st["count"] != len(recs): diffs.append("tab title Airplanes(%s) vs %d tracked" % (st["count"], len(recs)))
            m = re.search(r"┌Airplanes\((\d+)\)", scr)
            if not m or int(m.group(1)) != len(recs): diffs.append("table title vs %d tracked" % len(recs))
            r.send(KEYS["F4"]); r.pump(0.5)
            most, total = stats_values(r.screen.text())
            ms = dict(kv.split("=") for kv in stats.split()[1:])
            if most != int(ms["most"]): diffs.append("Most Airplanes %s vs %s" % (most, ms["most"]))
            if total != int(ms["total"]): diffs.append("Total Airplanes %s vs %s" % (total, ms["total"]))
            alive = r.poll() is None
            report(name, alive and not diffs, {"differences": diffs[:8], "rows_on_screen": len(rows or []), "records": len(recs), "with_position": sum(1 for d in recs if d["details"]),
                   "stats_screen": [most, total], "stats_model": stats, "view_events": [t for t, _ in evs][:30], "lines": len(lines), "alive": alive})
        except Exception as e:
            report(name, False, {"exception": repr(e)})
        finally:
            r.send(b"q"); r.wait_exit(3.0); r.kill(); f.stop()

def check_stats_expiry(rng, tier, report):
    """an aircraft that expires and comes back is counted as newly added again; the largest simultaneous count stays"""
    sub = Rng(rng.next())
    fa, fb, fc = quadrant_flights(sub, 3)
    ia = fline(fa.frame(gentrack.me_ident(4, 0, "KEEPA"))); ib = fline(fb.frame(gentrack.me_ident(4, 0, "GONEB"))); ic = fline(fc.frame(gentrack.me_ident(4, 0, "GONEC")))
    script = [("send", ia + ib + ic)]
    pre = ["T act " + parse_line(x).hex() for x in (ia, ib, ic)]
    for i in range(8): script += [("sleep", 0.7), ("send", ia)]; pre += ["T age 700", "T act " + parse_line(ia).hex(), "T prune 3"]
    script += [("send", ib)]; pre += ["T act " + parse_line(ib).hex()]
    for i in range(40): script += [("sleep", 0.7), ("send", ia + ib)]       # both stay alive while the screen is read
    script += [("sleep", 600)]
    f = Feed(); f.run([("accept",)] + script)
    r = Radar(f.port, args=["--filter-time=3"])
    try:
        r.pump(7.0)
        for tok, data in view_events(sub, 10): r.send(data); r.pump(0.08)
        out = run_ops(DRIVER, ["T reset %s %s 500" % RX] + pre + ["T dump", "T stats"])
        ms = dict(kv.split("=") for kv in out[-1].split()[1:])
        recs = parse_digest(out[-2])
        r.send(KEYS["F4"]); r.pump(0.5)
        most, total = stats_values(r.screen.text())
        r.send(KEYS["F3"]); r.pump(0.5)
        st = uimod.screen_state(r.screen.text())
        ok = most == int(ms["most"]) == 3 and total == int(ms["total"]) == 4 and st["count"] == len(recs) == 2 and st["rows"] == [d["icao"] for d in recs]
        report("stats/expire-and-return", ok and r.poll() is None, {"screen": {"most": most, "total": total, "count": st["count"], "rows": st["rows"]}, "model": out[-1], "model_rows": [d["icao"] for d in recs]})
    finally:
        r.send(b"q"); r.wait_exit(3.0); r.kill(); f.stop()

# ------------------------------------------------------------------ the Map tab
def canvas_geom(rows, cols, touch=False):
    left = 2 + (10 if touch else 0)
    return {"left": left, "top": 5, "w": cols - 2 - left, "h": rows - 7}

def label_cell(x, y, g):
    """ratatui's Canvas label placement for bounds [-400, 400]^2"""
    if not (-400.0 <= x <= 400.0 and -400.0 <= y <= 400.0): return None
    return (int((400.0 - y) * (g["h"] - 1) / 800.0) + g["top"], int((x + 400.0) * (g["w"] - 1) / 800.0) + g["left"])

def find_label(text, name):
    for i, l in enumerate(text.split("\n")):
        j = l.find(name)
        if j >= 0: return (i, j)
    return None

def model_xy(view, pts, scale=0.12):
    """to_xy of the points for a view state (zoom steps, view centre) from the Lean model"""
    ops = ["M %s %d %.6f %.6f %.6f %.6f" % (scale, view["zoom"], view["lat0"], view["lon0"], la, lo) for la, lo in pts]
    return [tuple(float(v) for v in o.split()[1:]) for o in run_ops(DRIVER, ops)]

def view_of(tokens):
    raw = run_ops(DRIVER, ["U " + " ".join(tokens)])[0]
    d = dict(kv.split("=") for kv in raw[3:].split())
    return {"zoom": int(d["zoom"]), "lat0": RX[0] + 0.005 * int(d["plat"]), "lon0": RX[1] + 0.01 * int(d["plon"]), "raw": raw, "tab": d["tab"]}

LOCS = [("RXC", 0.0, 0.0), ("NN1", 0.4, 0.0), ("NN2", 0.75, 0.0), ("SS1", -0.4, 0.0), ("SS2", -0.75, 0.0), ("EE1", 0.0, 0.6), ("EE2", 0.0, 1.2), ("WW1", 0.0, -0.6), ("WW2", 0.0, -1.2),
        ("NE1", 0.55, 0.9), ("SW1", -0.55, -0.9)]

def placement_diffs(text, names_pts, view, geom, dy=0.0):
    diffs = []; seen = {}
    xy = model_xy(view, [p for _, p in names_pts])
    for (name, p), (x, y) in zip(names_pts, xy):
        want = label_cell(x, y + dy, geom)
        got = find_label(text, name)
        seen[name] = got
        if want is None:
            if got is not None: diffs.append("%s drawn at %s although outside the view" % (name, got))
        elif want[0] >= geom["top"] + geom["h"] or want[1] + len(name) > geom["left"] + geom["w"]: pass     # clipped at the edge
        elif got is None: diffs.append("%s not drawn, expected at %s" % (name, want))
        elif abs(got[0] - want[0]) > 1 or abs(got[1] - want[1]) > 1: diffs.append("%s at %s, expected %s" % (name, got, want))
    return diffs, seen

def check_map(rng, tier, report):
    rows, cols = 50, 160
    sub = Rng(rng.next())
    args = ["--locations"] + ["(%s,%.3f,%.3f)" % (n, RX[0] + a, RX[1] + b) for n, a, b in LOCS]
    pts = [(n, (RX[0] + a, RX[1] + b)) for n, a, b in LOCS]
    f = Feed(); f.run([("accept",), ("sleep", 600)])
    r = Radar(f.port, args=args, rows=rows, cols=cols)
    geom = canvas_geom(rows, cols)
    try:
        r.pump(1.0)
        tokens = ["rows:0:-", "left:1"]
        text = r.screen.text()
        diffs, seen = placement_diffs(text, pts, view_of(tokens), geom)
        # sign conventions stated directly: the receiver in the middle, north above, east to the right, proportional offsets
        c = seen.get("RXC")
        conv = []
        if c:
            mid = (geom["top"] + (geom["h"] - 1) // 2, geom["left"] + (geom["w"] - 1) // 2)
            if abs(c[0] - mid[0]) > 1 or abs(c[1] - mid[1]) > 1: conv.append("receiver at %s, canvas centre %s" % (c, mid))
            for n, rel in (("NN1", "above"), ("NN2", "above"), ("SS1", "below"), ("SS2", "below"), ("EE1", "right"), ("EE2", "right"), ("WW1", "left"), ("WW2", "left")):
                p = seen.get(n)
                if not p: continue
                good = {"above": p[0] < c[0] and abs(p[1] - c[1]) <= 1, "below": p[0] > c[0] and abs(p[1] - c[1]) <= 1,
                        "right": p[1] > c[1] and abs(p[0] - c[0]) <= 1, "left": p[1] < c[1] and abs(p[0] - c[0]) <= 1}[rel]
                if not good: conv.append("%s at %s is not %s the receiver at %s" % (n, p, rel, c))
            for a, b in (("EE1", "EE2"), ("WW1", "WW2")):
                if seen.get(a) and seen.get(b) and abs((seen[b][1] - c[1]) - 2 * (seen[a][1] - c[1])) > 2: conv.append("%s/%s offsets are not proportional" % (a, b))
        else: conv.append("receiver label not drawn")
        report("map/initial", not diffs and not conv, {"differences": diffs, "conventions": conv, "cells": seen})
        # view controls: zoom, pan, reset; after each batch the labels are where the model's view puts them
        for step in range(4 if tier == "quick" else 12):
            batch = []
            for _ in range(1 + sub.below(5)):
                batch.append(sub.choice([("k:c:45:0", b"-"), ("k:c:43:0", b"+"), ("k:up", KEYS["Up"]), ("k:down", KEYS["Down"]), ("k:left", KEYS["Left"]), ("k:right", KEYS["Right"]),
                                         ("m:su", uimod.mouse_bytes(64, 30, 20)), ("m:sd", uimod.mouse_bytes(65, 30, 20))] * 3 + [("k:enter", b"\r")]))
            if step == (3 if tier == "quick" else 11): batch.append(("k:enter", b"\r"))
            for tok, data in batch: r.send(data); r.pump(0.15); tokens += ["draw", tok]
            r.pump(0.3)
            v = view_of(tokens)
            diffs, seen = placement_diffs(r.screen.text(), pts, v, geom)
            report("map/view-%d" % step, not diffs and r.poll() is None, {"differences": diffs, "events": [t for t, _ in batch], "view": v["raw"], "cells": seen})
    finally:
        r.send(b"q"); r.wait_exit(3.0); r.kill(); f.stop()

def check_map_sites(rng, tier, report):
    """the same conventions at other receiver sites - far north and far south, where the Mercator scale grows quickly: the receiver in the
    middle, places to the north above it and to the south below it on *different* rows, east right, west left, each label where the model's
    projection (evaluated for that site) puts it"""
    rows, cols = 50, 160
    geom = canvas_geom(rows, cols)
    locs = [("RXC", 0.0, 0.0), ("NN1", 0.1, 0.0), ("NN2", 0.2, 0.0), ("SS1", -0.1, 0.0), ("SS2", -0.2, 0.0), ("EE1", 0.0, 3.0), ("WW1", 0.0, -3.0)]
    for rx in ([(86.0, 10.0), (-86.0, 151.0)] if tier == "quick" else [(86.0, 10.0), (-86.0, 151.0), (70.0, 25.0), (88.5, -120.0), (-60.0, -45.0)]):
        args = ["--locations"] + ["(%s,%.3f,%.3f)" % (n, rx[0] + a, rx[1] + b) for n, a, b in locs]
        pts = [(n, (rx[0] + a, rx[1] + b)) for n, a, b in locs]
        f = Feed(); f.run([("accept",), ("sleep", 600)])
        r = Radar(f.port, args=args, rows=rows, cols=cols, latlon=rx)
        try:
            r.pump(1.0)
            view = {"zoom": 0, "lat0": rx[0], "lon0": rx[1]}
            diffs, seen = placement_diffs(r.screen.text(), pts, view, geom)
            conv = []
            c = seen.get("RXC")
            if c:
                for n, rel in (("NN1", "above"), ("NN2", "above"), ("SS1", "below"), ("SS2", "below"), ("EE1", "right"), ("WW1", "left")):
                    p = seen.get(n)
                    if not p: continue
                    good = {"above": p[0] < c[0], "below": p[0] > c[0], "right": p[1] > c[1], "left": p[1] < c[1]}[rel]
                    if not good: conv.append("%s at %s is not %s the receiver at %s" % (n, p, rel, c))
                if seen.get("NN1") and seen.get("NN2") and not seen["NN2"][0] < seen["NN1"][0]: conv.append("NN2 is not above NN1")
                if seen.get("SS1") and seen.get("SS2") and not seen["SS2"][0] > seen["SS1"][0]: conv.append("SS2 is not below SS1")
            else: conv.append("receiver label not drawn")
            report("map/site-%s,%s" % rx, not diffs and not conv and r.poll() is None, {"differences": diffs, "conventions": conv, "cells": seen, "receiver": rx})
        finally:
            r.send(b"q"); r.wait_exit(3.0); r.kill(); f.stop()

def check_map_aircraft(rng, tier, report):
    """aircraft in the four quadrants: each label sits where its *tracked* position projects (20 units above the dot)"""
    rows, cols = 50, 160
    for k in range(1 if tier == "quick" else 3):
        sub = Rng(rng.next())
        flights = quadrant_flights(sub, 4)
        lines = []
        for f_ in flights: lines += [fline(f_.frame(gentrack.me_ident(4, 0, f_.callsign))), fline(f_.position(sub, odd=0)), fline(f_.position(sub, odd=1))]
        f = Feed(); f.run([("accept",), ("send", b"".join(lines)), ("sleep", 600)])
        r = Radar(f.port, args=["--disable-lat-long"], rows=rows, cols=cols)
        try:
            r.pump(1.5)
            dump, stats, _ = model_tracker(lines)
            recs = parse_digest(dump)
            pts = [(d["cs"].strip(), (d["details"][2], d["details"][3])) for d in recs if d["details"]]
            tokens = ["rows:4:1111", "left:1"]
            evs = [sub.choice([("k:c:45:0", b"-"), ("k:up", KEYS["Up"]), ("k:right", KEYS["Right"]), ("k:c:43:0", b"+")]) for _ in range(sub.below(4))] if k else []
            for tok, data in evs: r.send(data); r.pump(0.15); tokens += ["draw", tok]
            r.pump(0.3)
            v = view_of(tokens)
            diffs, seen = placement_diffs(r.screen.text(), pts, v, canvas_geom(rows, cols), dy=20.0)
            quad = []
            for d in recs:
                if not d["details"]: continue
                nm = d["cs"].strip(); p = seen.get(nm)
                if not p or evs: continue
                # the label is 20 units above the dot: compare against the centre row shifted accordingly
                c = label_cell(0.0, 20.0, canvas_geom(rows, cols))
                if ("N" in nm[1:3]) != (p[0] < c[0]) and abs(p[0] - c[0]) > 1: quad.append("%s north/south side wrong: %s vs centre %s" % (nm, p, c))
                if ("E" in nm[1:3]) != (p[1] > c[1]) and abs(p[1] - c[1]) > 1: quad.append("%s east/west side wrong: %s vs centre %s" % (nm, p, c))
            report("map/aircraft-%d" % k, len(pts) == 4 and not diffs and not quad, {"differences": diffs, "quadrants": quad, "cells": seen, "view": v["raw"], "positions": pts})
        finally:
            r.send(b"q"); r.wait_exit(3.0); r.kill(); f.stop()
