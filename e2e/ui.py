"""End-to-end scenarios for C17: operator actions, terminal sizes, quit / terminal restoration, command-line values.

Every scenario drives the real `radar` binary under a pty with a scripted history of keys, mouse events, resizes and traffic, and
 - checks that the process is alive until quit is requested, exits 0 afterwards and restores the terminal;
 - for histories at a readable terminal size, replays the same history on the proven Lean handler model (driver op `U`) and compares
   what the screen shows (selected tab, CUSTOM marker and view centre in the title, selected table row) with the model state."""
import os, sys, time, re, termios, subprocess
sys.path.insert(0, os.path.join(os.path.dirname(os.path.abspath(__file__)), "..", "tools"))
from e2elib import *
from vlib import Rng, run_ops, DRIVER
import gentrack
from clients import fline
from fractions import Fraction as Fr

RX = (39.0, -77.0)

# ------------------------------------------------------------------ event alphabet: (model token, bytes for the pty)
def key_events():
    ev = [("k:F%d" % i, KEYS["F%d" % i]) for i in range(1, 6)]
    ev += [("k:tab", b"\t"), ("k:up", KEYS["Up"]), ("k:down", KEYS["Down"]), ("k:left", KEYS["Left"]), ("k:right", KEYS["Right"]), ("k:enter", b"\r")]
    ev += [("k:c:%d:0" % ord(c), c.encode()) for c in "lihtn+-xQ0 "]
    ev += [("k:c:%d:1" % ord("a"), b"\x01"), ("k:other", b"\x1b[H"), ("k:other", b"\x1b[5~"), ("k:other", b"\x7f")]
    return ev
KEY_EVENTS = key_events()

def mouse_bytes(code, col, row, release=False):
    return ("\x1b[<%d;%d;%d%s" % (code, col + 1, row + 1, "m" if release else "M")).encode()

def random_event(rng, rows, cols, tab_bias=True):
    """one operator action -> (token, bytes)"""
    r = rng.below(100)
    if r < 50:
        # keys, biased to the ones with arithmetic behind them
        if rng.chance(1, 2): return rng.choice([e for e in KEY_EVENTS if e[0] in ("k:down", "k:up", "k:enter", "k:F3", "k:F1", "k:tab", "k:F4")])
        return rng.choice(KEY_EVENTS)
    if r < 62:
        # click on the tab bar
        col = rng.choice([0, 2, 3, 6, 7, 8, 16, 17, 20, 34, 35, 36, 42, 43, 48, 49, rng.below(max(cols, 1))]); row = rng.choice([0, 1, 2, 3, 4])
        return ("m:down:%d:%d" % (col, row), mouse_bytes(0, col, row))
    if r < 72:
        col = rng.below(max(cols, 1) + 3); row = rng.below(max(rows, 1) + 3)
        return ("m:down:%d:%d" % (col, row), mouse_bytes(0, col, row))
    if r < 86:
        col = rng.below(max(cols, 1) + 3); row = rng.below(max(rows, 1) + 3)
        return ("m:drag:%d:%d" % (col, row), mouse_bytes(32, col, row))
    if r < 90: return ("m:up", mouse_bytes(0, rng.below(max(cols, 1)), rng.below(max(rows, 1)), release=True))
    if r < 94: return ("m:su", mouse_bytes(64, 5, 5))
    if r < 98: return ("m:sd", mouse_bytes(65, 5, 5))
    return ("m:other", rng.choice([mouse_bytes(2, 5, 5), mouse_bytes(35, 7, 7), mouse_bytes(1, 3, 2)]))

# ------------------------------------------------------------------ reading the screen
def screen_state(text):
    """what a drawn screen says about the handler state"""
    lines = text.split("\n")
    st = {"tab": None, "custom": None, "lat": None, "lon": None, "sel": None, "count": None, "rows": []}
    if len(lines) > 1:
        m = re.search(r"\((-?\d+\.\d+),(-?\d+\.\d+)\)\s*(\(CUSTOM\))?", lines[1])
        if m: st["lat"], st["lon"], st["custom"] = float(m.group(1)), float(m.group(2)), m.group(3) is not None
    m = re.search(r"Airplanes\((\d+)\)", lines[2] if len(lines) > 2 else "")
    if m: st["count"] = int(m.group(1))
    if len(lines) > 4:
        for name, pat in (("Map", "┌Map"), ("Coverage", "┌Coverage"), ("Airplanes", "┌Airplanes("), ("Stats", "┌Stats"), ("Help", "┌Key Bindings")):
            if pat in lines[4] or (name == "Help" and any("┌Key Bindings" in l for l in lines[4:8])): st["tab"] = name
    if st["tab"] == "Airplanes":
        i = 0
        for l in lines[5:]:
            m = re.search(r"(>>)?\s*\b([0-9a-f]{6})\b", l)
            if m and "ICAO" not in l:
                st["rows"].append(m.group(2))
                if m.group(1): st["sel"] = i
                i += 1
    return st

def button_rows(text):
    """the touchscreen buttons as drawn: (y0, h0, y1, y2) or None"""
    ys = {}
    for i, l in enumerate(text.split("\n")):
        for name in ("Zoom Out", "Zoom In", "Reset"):
            if l.startswith(" ┌" + name): ys[name] = i
    if len(ys) == 3: return ys["Zoom Out"], ys["Zoom In"] - ys["Zoom Out"], ys["Zoom In"], ys["Reset"]
    return None

def compare_state(scr, raw, icaos):
    """differences between what the screen shows and the model state printed by the driver"""
    if not raw.startswith("UI "): return ["model: " + raw]
    mod = dict(kv.split("=") for kv in raw[3:].split())
    diffs = []
    if scr["tab"] != mod["tab"]: diffs.append("tab")
    if scr["custom"] is not None and scr["custom"] != (mod["custom"] == "true"): diffs.append("custom marker")
    if mod["base"] == "none" and scr["lat"] is not None:
        if abs(scr["lat"] - (RX[0] + 0.005 * int(mod["plat"]))) > 0.0015 or abs(scr["lon"] - (RX[1] + 0.01 * int(mod["plon"]))) > 0.0015: diffs.append("view centre")
    if scr["tab"] == "Airplanes" and mod["tab"] == "Airplanes":
        want = None if mod["sel"] == "none" else int(mod["sel"])
        if scr["sel"] != want: diffs.append("selected row")
        if icaos is not None and scr["rows"] != icaos: diffs.append("table rows")
    return diffs

def model_state(tokens):
    out = run_ops(DRIVER, ["U " + " ".join(tokens)])[0]
    if not out.startswith("UI "): return {"raw": out}
    d = dict(kv.split("=") for kv in out[3:].split())
    d["raw"] = out
    return d

# ------------------------------------------------------------------ traffic
def make_planes(rng, n, with_pos):
    """n aircraft; with_pos[i] says whether a position pair is sent; returns (sorted icaos, lines, det bits in row order, flights)"""
    flights = []
    for i in range(n):
        f = gentrack.Flight(rng, 0xA10000 + 0x1111 * i + rng.below(0x100), RX, plain=True)
        f.lat = Fr(RX[0]) + Fr(rng.below(1000) - 500, 1000); f.lon = Fr(RX[1]) + Fr(rng.below(1000) - 500, 1000)
        flights.append(f)
    lines = []
    for f, p in zip(flights, with_pos):
        lines.append(fline(f.frame(gentrack.me_ident(4, 0, "TST%04d" % (f.icao & 0xFFF)))))
        if p:
            lines.append(fline(f.position(rng, odd=0))); lines.append(fline(f.position(rng, odd=1)))
    order = sorted(range(n), key=lambda i: flights[i].icao)
    return ["%06x" % flights[i].icao for i in order], lines, "".join("1" if with_pos[i] else "0" for i in order) or "-", flights

def restored(r, init_termios):
    """the terminal after radar has exited: cooked mode, cursor shown, mouse reporting off"""
    raw = r.raw
    t = r.termios_now()
    lflag_ok = t is not None and (t[3] & termios.ICANON) and (t[3] & termios.ECHO) and (t[1] & termios.OPOST)
    mouse_off = all(s in raw for s in (b"\x1b[?1000l", b"\x1b[?1002l", b"\x1b[?1003l", b"\x1b[?1006l"))
    last_on = max(raw.rfind(s) for s in (b"\x1b[?1000h", b"\x1b[?1002h", b"\x1b[?1003h", b"\x1b[?1006h"))
    mouse_off = mouse_off and raw.rfind(b"\x1b[?1000l") > last_on
    cursor = raw.rfind(b"\x1b[?25h") > raw.rfind(b"\x1b[?25l")
    return {"cooked": bool(lflag_ok), "mouse_off": bool(mouse_off), "cursor_visible": bool(cursor), "same_termios": t is not None and t[:4] == init_termios[:4]}

def start(args, rows, cols, script):
    f = Feed(); f.run([("accept",)] + script)
    # the pty's initial settings are read before the program changes them
    r = Radar(f.port, args=args, rows=rows, cols=cols)
    return r, f

def finish(r, f, quit_bytes, name, report, info, ok=True):
    """request quit, check exit status and terminal restoration"""
    alive = r.poll() is None
    r.send(quit_bytes); st = r.wait_exit(5.0)
    r.pump(0.2)
    rest = restored(r, r.saved)
    txt = r.raw.decode(errors="ignore")
    info.update({"alive_before_quit": alive, "exit_status": st, "restored": rest, "quit_message": "user requested quit" in txt, "panic": re.findall(r"panicked at[^\n]*", txt)[:1]})
    good = ok and alive and st == 0 and rest["cooked"] and rest["mouse_off"] and rest["cursor_visible"] and info["quit_message"] and not info["panic"]
    r.kill(); f.stop()
    report(name, good, info)
    return good

def history_scenario(rng, name, report, n_events, n_planes, args=(), size=(40, 140), spacing=0.2, compare=True, expire=False, touch=False, resize_sizes=(), quit_bytes=b"q"):
    """a random history; spaced events (one per loop iteration) so that the model's draw / event interleaving is the program's"""
    rows, cols = size
    with_pos = [rng.chance(2, 3) for _ in range(n_planes)]
    icaos, lines, det, flights = make_planes(rng, n_planes, with_pos)
    args = list(args) + (["--touchscreen"] if touch else []) + (["--filter-time=3"] if expire else [])
    # traffic keeps the aircraft alive: the feed thread repeats identification frames while the history runs
    keep = [fline(f.frame(gentrack.me_ident(4, 0, "TST%04d" % (f.icao & 0xFFF)))) for f in flights]
    script = [("send", b"".join(lines))]
    if expire:
        # the aircraft are kept alive until the driver reaches the scripted expiry, then the feed falls silent
        script += [("repeat_until_flag", b"".join(keep) if keep else b"*00;\n", 0.5), ("sleep", 600)]
    else:
        n_keep = int((n_events * spacing + 6) / 0.5)
        for i in range(n_keep): script += [("sleep", 0.5), ("send", b"".join(keep) if keep else b"*00;\n")]
        script += [("sleep", 600)]
    r, f = start(args, rows, cols, script)
    info = {"planes": n_planes, "with_position": det, "args": args, "size": size}
    tokens = ["rows:%d:%s" % (n_planes, det), "left:%d" % (11 if touch else 1)]
    sent = []
    try:
        r.pump(1.0)
        btn = None
        if touch:
            btn = button_rows(r.screen.text())
            if btn: tokens.append("btn:%d:%d:%d:%d" % btn)
        comparable = compare and size[0] >= 20 and size[1] >= 100 and not resize_sizes
        checkpoints = []
        for i in range(n_events):
            if r.poll() is not None: break
            if resize_sizes and rng.chance(1, 6):
                rows, cols = rng.choice(resize_sizes); r.resize(rows, cols); r.pump(spacing); tokens += ["draw", "rs"]; sent.append("resize %dx%d" % (rows, cols)); continue
            if expire and i == n_events // 2:
                # let every aircraft expire: the table shrinks to nothing under the selection
                f.flag.set(); r.pump(4.5); tokens += ["draw", "rows:0:-"]; sent.append("expire"); continue
            tok, data = random_event(rng, rows, cols)
            # the buttons exist only while Map / Coverage are shown: tell the model what the last draw produced
            if touch and compare:
                b2 = button_rows(r.screen.text())
                tokens.append("btn:%d:%d:%d:%d" % b2 if b2 else "btn:none")
                tokens.append("left:%d" % (11 if b2 else 1))
            tokens += ["draw", tok]; sent.append(tok)
            r.send(data); r.pump(spacing)
            if comparable and i % 4 == 3 and r.poll() is None:
                r.pump(0.15); checkpoints.append((len(tokens), screen_state(r.screen.text())))
        tokens.append("draw")
        alive = r.poll() is None
        info["events"] = sent[-40:]
        ok = alive
        if alive and comparable:
            r.pump(0.3)
            checkpoints.append((len(tokens), screen_state(r.screen.text())))
            mods = run_ops(DRIVER, ["U " + " ".join(tokens[:n] + ["draw"]) for n, _ in checkpoints])
            info["checkpoints"] = len(checkpoints)
            for (n, scr), raw in zip(checkpoints, mods):
                diffs = compare_state(scr, raw, icaos if not expire else None)
                if diffs:
                    info["differences"] = diffs; info["at_token"] = n
                    info["screen"] = {k: scr[k] for k in ("tab", "custom", "lat", "lon", "sel", "count")}; info["model"] = raw
                    info["model_tokens"] = " ".join(tokens[:n] + ["draw"])
                    ok = False; break
            else:
                info["screen"] = {k: scr[k] for k in ("tab", "custom", "lat", "lon", "sel", "count")}; info["model"] = raw
        return finish(r, f, quit_bytes, name, report, info, ok=ok), info
    except Exception as e:
        r.kill(); f.stop()
        report(name, False, {"exception": repr(e), **info}); return False, info

def check_histories(rng, tier, report):
    quick = tier == "quick"
    n_ev = 30 if quick else 60
    plan = []
    # tracked-set sizes 0, 1, 3 x option combinations, readable size: compared with the model
    for k, planes in enumerate([0, 1, 3] if quick else [0, 0, 1, 1, 2, 3, 3, 5]):
        opts = [[], ["--disable-lat-long", "--disable-icao"], ["--locations", "(home,39.1,-77.2)", "(b,38.5,-76.5)"], ["--disable-callsign", "--disable-heading", "--disable-track", "--limit-parsing"]][k % 4]
        plan.append(("history/model-%dplanes-%d" % (planes, k), dict(n_events=n_ev, n_planes=planes, args=opts, touch=(k % 2 == 1))))
    # aircraft expiring under a selection
    for k in range(1 if quick else 3):
        plan.append(("history/expire-%d" % k, dict(n_events=n_ev, n_planes=1 + k, expire=True)))
    # terminal sizes down to 1x1, with resizes on the way
    tiny = [(1, 1), (1, 10), (2, 2), (3, 3), (4, 12), (5, 50), (6, 11), (10, 3), (24, 80), (40, 140), (7, 200), (60, 5)]
    for k, sz in enumerate(([(1, 1), (4, 12), (24, 80)] if quick else tiny)):
        plan.append(("history/size-%dx%d" % sz, dict(n_events=n_ev, n_planes=(0, 2, 3)[k % 3], size=sz, compare=False, touch=(k % 2 == 0), resize_sizes=tiny, spacing=0.12)))
    # quit by Ctrl-C
    plan.append(("history/ctrl-c", dict(n_events=8, n_planes=1, quit_bytes=b"\x03")))
    for name, kw in plan:
        seed_state = rng.next()
        got = []
        ok, info = history_scenario(Rng(seed_state), name, lambda n, o, i: got.append((n, o, i)), **kw)
        if not ok and info.get("differences"):
            # a slow machine can merge two spaced events into one loop iteration: repeat once with wide spacing before reporting
            history_scenario(Rng(seed_state), name, report, **dict(kw, spacing=0.6))
        else:
            for n, o, i in got: report(n, o, i)

def check_batched(rng, tier, report):
    """all events written at once: the handlers see them as one batch between two draws (liveness + quit only)"""
    for k, planes in enumerate([0, 2] if tier == "quick" else [0, 0, 1, 2, 3, 4]):
        sub = Rng(rng.next())
        icaos, lines, det, flights = make_planes(sub, planes, [True] * planes)
        r, f = start(["--touchscreen"] if k % 2 else [], 40, 140, [("send", b"".join(lines)), ("sleep", 600)])
        try:
            r.pump(1.0)
            evs = [random_event(sub, 40, 140) for _ in range(200)]
            r.send(b"".join(d for _, d in evs)); r.pump(1.5)
            # a long run of Down then Enter on a short table: the selection is far past the end when Enter is handled
            r.send(KEYS["F3"] + KEYS["Down"] * 50 + b"\r" + KEYS["Up"] * 60 + b"\r"); r.pump(1.0)
            finish(r, f, b"q", "batched/%dplanes-%d" % (planes, k), report, {"events": 312, "planes": planes})
        except Exception as e:
            r.kill(); f.stop(); report("batched/%dplanes-%d" % (planes, k), False, {"exception": repr(e)})

def check_coverage(rng, tier, report):
    """the Coverage tab's heat map while several aircraft report from the same 0.01-degree cell: simultaneously (the cell's counter grows with
    every pass of the main loop) and one after another (it grows with every new aircraft); every tab is visited and the terminal resized meanwhile"""
    for name, n, reps in (("two-in-one-cell", 2, 25), ("nine-through-one-cell", 9, 2)) if tier == "quick" else (("two-in-one-cell", 2, 120), ("nine-through-one-cell", 9, 3), ("three-in-one-cell", 3, 60)):
        sub = Rng(rng.next())
        flights = []
        for i in range(n):
            f = gentrack.Flight(sub, 0xA20000 + 0x101 * i, RX, plain=True); f.lat = Fr(RX[0]) + Fr(1, 10); f.lon = Fr(RX[1]) + Fr(1, 10); flights.append(f)
        script = []
        for rep in range(reps):
            for f in flights:
                script += [("send", fline(f.position(sub, odd=0)) + fline(f.position(sub, odd=1))), ("sleep", 0.01)]
        script.append(("sleep", 600))
        r, f = start([], 40, 140, script)
        try:
            r.pump(1.0)
            seen = []
            for key in (KEYS["F2"], KEYS["F1"], KEYS["F2"], b"-", b"+", KEYS["F3"], KEYS["F4"], KEYS["F2"]):
                r.send(key); r.pump(0.5); seen.append(screen_state(r.screen.text())["tab"])
            r.resize(12, 60); r.pump(0.4); r.resize(40, 140); r.pump(0.4)
            finish(r, f, b"q", "coverage/" + name, report, {"aircraft_in_one_cell": n, "position_pairs_each": reps, "tabs_seen": seen}, ok=seen[-1] == "Coverage")
        except Exception as e:
            r.kill(); f.stop(); report("coverage/" + name, False, {"exception": repr(e)})

def check_edges(rng, tier, report):
    """mouse events on the borders of the terminal - top row, tab bar rows, bottom row, first and last column, one past the edge - on every tab:
    presses, drags that start inside and end on a border, releases, scrolls; one event per loop iteration"""
    for size in ([(24, 80)] if tier == "quick" else [(24, 80), (40, 140), (10, 30)]):
        rows, cols = size
        r, f = start(["--touchscreen"] if size == (40, 140) else [], rows, cols, [("sleep", 600)])
        try:
            r.pump(1.0)
            sent = 0
            for tabkey in (KEYS["F1"], KEYS["F2"], KEYS["F3"], KEYS["F4"], KEYS["F5"]):
                r.send(tabkey); r.pump(0.2)
                pts = [(0, 0), (0, cols // 2), (0, cols - 1), (1, 5), (2, 5), (3, 5), (4, 5), (rows - 1, 0), (rows - 1, cols - 1), (rows // 2, 0), (rows // 2, cols - 1), (rows, cols)]
                for (row, col) in pts:
                    if r.poll() is not None: break
                    # press in the middle, drag to the border point, release there; then a press and a scroll on the border point itself
                    for data in (mouse_bytes(0, cols // 2, rows // 2), mouse_bytes(32, col, row), mouse_bytes(0, col, row, release=True),
                                 mouse_bytes(0, col, row), mouse_bytes(0, col, row, release=True), mouse_bytes(64, col, row), mouse_bytes(65, col, row)):
                        r.send(data); r.pump(0.05); sent += 1
            finish(r, f, b"q", "edges/%dx%d" % size, report, {"size": size, "events": sent})
        except Exception as e:
            r.kill(); f.stop(); report("edges/%dx%d" % size, False, {"exception": repr(e)})

def check_waiting(rng, tier, report):
    """quit while radar is still waiting for its TCP connection (nothing listens)"""
    import socket
    s = socket.socket(); s.bind(("127.0.0.1", 0)); port = s.getsockname()[1]; s.close()
    for qb, nm in ((b"q", "q"), (b"\x03", "ctrl-c")):
        r = Radar(port)
        r.pump(0.8); alive = r.poll() is None
        r.send(b"x\x1b[A"); r.pump(0.3)
        r.send(qb); st = r.wait_exit(5.0)
        r.pump(0.2)
        txt = r.raw.decode(errors="ignore")
        rest = restored(r, r.saved)
        report("waiting/quit-" + nm, alive and st == 0 and "panicked" not in txt and rest["cooked"] and rest["mouse_off"] and rest["cursor_visible"],
               {"alive": alive, "exit_status": st, "restored": rest, "tail": txt[-120:]})
        r.kill()

CLI_BAD = [["--lat=abc", "--long=1"], ["--lat=1"], ["--long=1"], ["--lat=1", "--long=2", "--port=99999"], ["--lat=1", "--long=2", "--port=-1"],
           ["--lat=1", "--long=2", "--host=example"], ["--lat=1", "--long=2", "--scale=x"], ["--lat=1", "--long=2", "--filter-time=-3"],
           ["--lat=1", "--long=2", "--filter-time=1.5"], ["--lat=1", "--long=2", "--max-range=far"], ["--lat=1", "--long=2", "--locations", "x"],
           ["--lat=1", "--long=2", "--locations", "(x,1)"], ["--lat=1", "--long=2", "--locations", "(x,1,)"], ["--lat=1", "--long=2", "--locations", "(x,a,b)"],
           ["--lat=1", "--long=2", "--locations", ""], ["--lat=1", "--long=2", "--locations", "()"], ["--lat=1", "--long=2", "--locations", ",,"],
           ["--lat=1", "--long=2", "--locations", "(x,1,2)", "(y)"], ["--lat=1", "--long=2", "--nonsense"], ["--lat", "--long"], ["--lat=1", "--long=2", "--locations", "(é,é,é)"],
           ["--lat=1", "--long=2", "--filter-time=99999999999999999999999"],
           # files and folders named on the command line that cannot be used
           ["--lat=1", "--long=2", "--airports=/nonexistent/airports.csv"], ["--lat=1", "--long=2", "--airports=" + os.path.join(VERIF, ".work", "not_airports.csv")],
           ["--lat=1", "--long=2", "--log-folder=/proc/nonexistent/x"], ["--lat=1", "--long=2", "--log-folder=/dev/null/x"]]

def check_cli(rng, tier, report):
    """invalid command-line values: usage error (exit status 2, message on stderr), no panic"""
    os.makedirs(os.path.join(VERIF, ".work"), exist_ok=True)
    open(os.path.join(VERIF, ".work", "not_airports.csv"), "w").write("icao,iata\nKJFK,JFK\n")
    for i, args in enumerate(CLI_BAD):
        p = subprocess.run([app("radar")] + args, stdout=subprocess.PIPE, stderr=subprocess.PIPE, stdin=subprocess.DEVNULL, timeout=20, cwd=os.path.join(VERIF, ".work"))
        err = p.stderr.decode(errors="replace")
        ok = p.returncode == 2 and err.startswith("error:") and "panicked" not in err      # clap's usage-error convention
        report("cli/bad-%d" % i, ok, {"args": args, "exit_status": p.returncode, "stderr": err[:200]})
    # valid values with extreme but legal numbers start (and wait for a connection): quit at once
    import socket
    s = socket.socket(); s.bind(("127.0.0.1", 0)); port = s.getsockname()[1]; s.close()
    for i, extra in enumerate([["--locations", "(a,1e308,-1e308)", "(b,NaN,inf)"], ["--scale=0"], ["--scale=-1e300", "--max-range=NaN"], ["--filter-time=0"]]):
        f = Feed(); f.run([("accept",), ("sleep", 600)])
        r = Radar(f.port, args=extra)
        r.pump(1.0)
        for k in (KEYS["F1"], b"+", b"-", KEYS["F2"], KEYS["Up"], KEYS["F4"], KEYS["F3"]): r.send(k); r.pump(0.15)
        finish(r, f, b"q", "cli/extreme-%d" % i, report, {"args": extra})
