import sys, time, os
sys.path.insert(0, "/verif/e2e"); sys.path.insert(0, "/verif/tools")
from e2elib import *
from show import table_rows
from clients import fline
from vlib import Rng
from fractions import Fraction as Fr
import gentrack
RX = (37.6, -122.4)
fl = gentrack.Flight(Rng(41), 0xA0B0C0, RX, plain=True)
fl.lat = Fr(37700, 1000); fl.lon = Fr(-122419, 1000)
lines = [fline(fl.position(Rng(1), odd=0)), fline(fl.position(Rng(2), odd=1))]
f = Feed(); f.run([("accept",), ("send", b"".join(lines)), ("sleep", 60)])
r = Radar(f.port, latlon=RX)
r.pump(1.0); r.send(KEYS["F3"]); r.pump(1.0)
txt = r.screen.text()
for l in txt.split("\n"):
    if "a0b0c0" in l or "ICAO" in l: print(repr(l))
r.send(b"q"); r.wait_exit(3.0); r.kill(); f.stop()
