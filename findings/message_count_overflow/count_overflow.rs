// one aircraft heard 2^32 times: `Airplanes::incr_messages` is what `action` calls for every DF17 / DF18 frame
use adsb_deku::ICAO;
use rsadsb_common::Airplanes;

#[test]
fn message_count_at_u32_max() {
    let mut a = Airplanes::new();
    let icao = ICAO([0xab, 0xcd, 0xef]);
    for _ in 0..u32::MAX {
        a.incr_messages(icao);
    }
    assert_eq!(a.get(icao).unwrap().num_messages, u32::MAX);
    // the 2^32-th frame
    a.incr_messages(icao);
    assert_eq!(a.get(icao).unwrap().num_messages, u32::MAX);
}
