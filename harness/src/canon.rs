//! Canonical one-line text of a decoded frame. The Lean driver prints the same text from the model.
//! Every match over one of the repository's enums ends in a catch-all arm, so that a change which *adds* a variant still
//! compiles here and is then found as a difference in the output rather than as a harness that no longer builds.
#![allow(unreachable_patterns)]
use adsb_deku::adsb::*;
use adsb_deku::bds::*;
use adsb_deku::*;
use deku::prelude::*;

fn hex3(i: &ICAO) -> String { format!("{:02x}{:02x}{:02x}", i.0[0], i.0[1], i.0[2]) }
fn hexb(b: &[u8]) -> String { b.iter().map(|x| format!("{x:02x}")).collect() }

/// value of `name: ` in a `{:?}` rendering (for private fields)
fn dbg_field(dbg: &str, name: &str) -> String {
    let key = format!("{name}: ");
    let i = dbg.find(&key).unwrap_or_else(|| panic!("no field {name} in {dbg}")) + key.len();
    let rest = &dbg[i..];
    let end = rest.find(|c: char| c == ',' || c == ' ' || c == '}').unwrap_or(rest.len());
    rest[..end].to_string()
}
fn b2n(s: &str) -> u32 { match s { "true" => 1, "false" => 0, x => x.parse().unwrap() } }

pub fn cap(c: &Capability) -> String {
    // by name (see above); `Reserved(v)`: the id is not stored, it equals the value after the repair, print the value as id too
    let d = format!("{c:?}");
    match d.as_str() {
        "AG_UNCERTAIN" => "0:0".into(), "AG_GROUND" => "4:0".into(), "AG_AIRBORNE" => "5:0".into(),
        "AG_UNCERTAIN2" => "6:0".into(), "AG_UNCERTAIN3" => "7:0".into(),
        x if x.starts_with("Reserved(") && x.ends_with(')') => { let v = &x[9..x.len() - 1]; format!("{v}:{v}") }
        _ => format!("?{d}"),
    }
}
fn dr(d: &DownlinkRequest) -> String {
    let t = format!("{d:?}");
    match t.as_str() {
        "None" => "0".into(), "RequestSendCommB" => "1".into(), "CommBBroadcastMsg1" => "4".into(), "CommBBroadcastMsg2" => "5".into(),
        x if x.starts_with("Unknown(") && x.ends_with(')') => format!("U{}", &x[8..x.len() - 1]),
        _ => format!("?{t}"),
    }
}
fn um(u: &UtilityMessage) -> String { format!("{}:{}", u.iis, u.ids as u8) }
fn opt(a: Option<u16>) -> String { a.map_or("-".into(), |x| x.to_string()) }
fn alt(a: &Altitude) -> String {
    format!("tc={} ss={} saf={} alt={} t={} f={} lat={} lon={}", a.tc, a.ss as u8, a.saf_or_imf, opt(a.alt),
        a.t as u8, a.odd_flag as u8, a.lat_cpr, a.lon_cpr)
}
fn om(o: &OperationalMode) -> String {
    let d = format!("{o:?}");
    format!("{},{},{},{},{}", b2n(&dbg_field(&d, "tcas_ra_active")), b2n(&dbg_field(&d, "ident_switch_active")),
        b2n(&dbg_field(&d, "reserved_recv_atc_service")), b2n(&dbg_field(&d, "single_antenna_flag")),
        b2n(&dbg_field(&d, "system_design_assurance")))
}
fn version(v: &ADSBVersion) -> u8 { v.deku_id().unwrap_or(99) }
pub fn me(m: &ME) -> String {
    match m {
        ME::AirbornePositionBaroAltitude(a) => format!("AirPosBaro {}", alt(a)),
        ME::AirbornePositionGNSSAltitude(a) => format!("AirPosGnss {}", alt(a)),
        ME::AirborneVelocity(v) => {
            let sub = match &v.sub_type {
                AirborneVelocitySubType::Reserved0(r) => format!("R0 {r}"),
                AirborneVelocitySubType::Reserved1(r) => format!("R1 {r}"),
                AirborneVelocitySubType::GroundSpeedDecoding(g) => format!("GS {} {} {} {}", g.ew_sign as u8, g.ew_vel, g.ns_sign as u8, g.ns_vel),
                AirborneVelocitySubType::AirspeedDecoding(a) => format!("AS {} {} {} {}", a.status_heading, a.mag_heading, a.airspeed_type, a.airspeed),
                other => format!("?{other:?}"),
            };
            format!("Velocity st={} nacv={} sub=[{}] src={} sgn={} vr={} rsv={} gs={} gd={}", v.st, v.nac_v, sub,
                v.vrate_src as u8, v.vrate_sign as u8, v.vrate_value, v.reverved, v.gnss_sign as u8, v.gnss_baro_diff)
        }
        ME::NoPosition(d) => format!("NoPosition d={}", hexb(d)),
        ME::Reserved0(d) => format!("Reserved0 d={}", hexb(d)),
        ME::SurfaceSystemStatus(d) => format!("SurfaceSystemStatus d={}", hexb(d)),
        ME::Reserved1(d) => format!("Reserved1 d={}", hexb(d)),
        ME::AircraftOperationalCoordination(d) => format!("OpCoord d={}", hexb(d)),
        ME::AircraftIdentification(i) => format!("Ident tc={} ca={} cn=\"{}\"", i.tc as u8, i.ca, i.cn),
        ME::SurfacePosition(s) => format!("Surface mov={} s={} trk={} t={} f={} lat={} lon={}", s.mov, s.s as u8, s.trk, s.t as u8, s.f as u8, s.lat_cpr, s.lon_cpr),
        ME::AircraftStatus(s) => {
            // by name, not by pattern: a variant that gains a field must not stop this file from compiling
            let st = match format!("{:?}", s.sub_type).as_str() {
                "NoInformation" => 0, "EmergencyPriorityStatus" => 1, "ACASRaBroadcast" => 2, x if x.starts_with("Reserved") => 3, _ => 99 };
            format!("Status st={} em={} sq={:04x}", st, s.emergency_state as u8, s.squawk)
        }
        ME::TargetStateAndStatusInformation(t) => format!(
            "TSS subtype={} fms={} alt={} qnh={:08x} ih={} hdg={:08x} nacp={} nicbaro={} sil={} mv={} ap={} vnav={} ah={} imf={} app={} tcas={} lnav={}",
            t.subtype, t.is_fms as u8, t.altitude, t.qnh.to_bits(), t.is_heading as u8, t.heading.to_bits(), t.nacp, t.nicbaro, t.sil,
            t.mode_validity as u8, t.autopilot as u8, t.vnac as u8, t.alt_hold as u8, t.imf as u8, t.approach as u8, t.tcas as u8, t.lnav as u8),
        ME::AircraftOperationStatus(OperationStatus::Airborne(a)) => {
            let c = &a.capability_class;
            format!("OpAir acas={} cdti={} arv={} ts={} tc={} om={} ver={} nica={} nacp={} gva={} sil={} nicbaro={} hrd={} ss={}",
                c.acas, c.cdti, c.arv, c.ts, c.tc, om(&a.operational_mode), version(&a.version_number), a.nic_supplement_a,
                a.navigational_accuracy_category, a.geometric_vertical_accuracy, a.source_integrity_level,
                a.barometric_altitude_integrity, a.horizontal_reference_direction, a.sil_supplement)
        }
        ME::AircraftOperationStatus(OperationStatus::Surface(a)) => {
            let c = &a.capability_class;
            format!("OpSurf poe={} es={} b2={} uat={} nacv={} nicc={} lw={} om={} gps={} ver={} nica={} nacp={} sil={} nicbaro={} hrd={} ss={}",
                c.poe, c.es1090, c.b2_low, c.uat_in, c.nac_v, c.nic_supplement_c, a.lw_codes, om(&a.operational_mode), a.gps_antenna_offset,
                version(&a.version_number), a.nic_supplement_a, a.navigational_accuracy_category, a.source_integrity_level,
                a.barometric_altitude_integrity, a.horizontal_reference_direction, a.sil_supplement)
        }
        ME::AircraftOperationStatus(OperationStatus::Reserved(v, d)) => format!("OpRes v={} d={}", v, hexb(d)),
        other => format!("?{other:?}"),
    }
}
pub fn bds(b: &BDS) -> String {
    match b {
        BDS::Empty(d) => format!("Empty d={}", hexb(d)),
        BDS::DataLinkCapability(c) => format!(
            "DLC cont={} ov={} acas={} sub={} enh={} spec={} up={} down={} ic={} sc={} sic={} gicb={} ra={} ba={:04x}",
            c.continuation_flag as u8, c.overlay_command_capability as u8, c.acas as u8, c.mode_s_subnetwork_version_number,
            c.transponder_enhanced_protocol_indicator as u8, c.mode_s_specific_services_capability as u8,
            c.uplink_elm_average_throughput_capability, c.downlink_elm, c.aircraft_identification_capability as u8,
            c.squitter_capability_subfield as u8, c.surveillance_identifier_code as u8, c.common_usage_gicb_capability_report as u8,
            c.reserved_acas, c.bit_array),
        BDS::AircraftIdentification(s) => format!("Ident cn=\"{s}\""),
        BDS::Unknown((i, d)) => format!("Unknown id={:02x} d={}", i, hexb(d)),
        other => format!("?{other:?}"),
    }
}
fn cf_type(cf: &ControlField) -> u8 {
    let d = format!("{cf:?}");
    match dbg_field(&d, "t").as_str() {
        "ADSB_ES_NT" => 0, "ADSB_ES_NT_ALT" => 1, "TISB_FINE" => 2, "TISB_COARSE" => 3, "TISB_MANAGE" => 4,
        "TISB_ADSB_RELAY" => 5, "TISB_ADSB" => 6, "Reserved" => 7, _ => 99,
    }
}
pub fn frame(f: &Frame) -> String {
    let crc = f.crc;
    let body = match &f.df {
        DF::ADSB(a) => format!("DF17 ca={} aa={} me={{{}}} pi={}", cap(&a.capability), hex3(&a.icao), me(&a.me), hex3(&a.pi)),
        DF::AllCallReply { capability, icao, p_icao, .. } => format!("DF11 ca={} aa={} pi={}", cap(capability), hex3(icao), hex3(p_icao)),
        DF::ShortAirAirSurveillance { vs, cc, unused, sl, unused1, ri, unused2, altitude, parity, .. } =>
            format!("DF0 vs={vs} cc={cc} u0={unused} sl={sl} u1={unused1} ri={ri} u2={unused2} alt={} ap={}", altitude.0, hex3(parity)),
        DF::SurveillanceAltitudeReply { fs, dr: d, um: u, ac, ap, .. } =>
            format!("DF4 fs={} dr={} um={} alt={} ap={}", *fs as u8, dr(d), um(u), ac.0, hex3(ap)),
        DF::SurveillanceIdentityReply { fs, dr: d, um: u, id, ap, .. } =>
            format!("DF5 fs={} dr={} um={} id={:04x} ap={}", *fs as u8, dr(d), um(u), id.0, hex3(ap)),
        DF::LongAirAir { vs, spare1, sl, spare2, ri, spare3, altitude, mv, parity, .. } =>
            format!("DF16 vs={vs} s1={spare1} sl={sl} s2={spare2} ri={ri} s3={spare3} alt={} mv={} ap={}", altitude.0, hexb(mv), hex3(parity)),
        DF::TisB { cf, pi, .. } => format!("DF18 cf={} aa={} me={{{}}} pi={}", cf_type(cf), hex3(&cf.aa), me(&cf.me), hex3(pi)),
        DF::ExtendedQuitterMilitaryApplication { af, .. } => format!("DF19 af={af}"),
        DF::CommBAltitudeReply { flight_status, dr: d, um: u, alt, bds: b, .. } =>
            format!("DF20 fs={} dr={} um={} alt={} bds={{{}}}", *flight_status as u8, dr(d), um(u), alt.0, bds(b)),
        DF::CommBIdentityReply { fs, dr: d, um: u, id, bds: b, parity, .. } =>
            format!("DF21 fs={} dr={} um={} id={:04x} bds={{{}}} ap={}", *fs as u8, dr(d), um(u), id, bds(b), hex3(parity)),
        DF::ModeSExtendedSquitter { df, capability, icao, type_code, adsb_data, parity, .. } =>
            format!("DF24+ df={df} ca={} aa={} tc={type_code} data={adsb_data} ap={}", cap(capability), hex3(icao), hex3(parity)),
        other => format!("?{other:?}"),
    };
    format!("OK {body} crc={crc:06x}")
}
pub fn err(e: &DekuError) -> String {
    let k = match e {
        DekuError::Incomplete(_) => "Incomplete",
        DekuError::Parse(_) => "Parse",
        DekuError::Assertion(_) => "Assertion",
        DekuError::Io(_) => "Io",
        _ => "Other",
    };
    format!("ERR {k}")
}
