//! Correspondence harness: runs the real adsb_deku / rsadsb_common code on one operation per input
//! line and prints one canonical line per operation. The Lean driver consumes the same lines.
mod canon;
#[cfg(feature = "std")]
mod sched;
mod track;

use adsb_deku::Frame;
use std::io::{BufRead, Write};
use std::panic::{catch_unwind, AssertUnwindSafe};

fn esc(s: &str) -> String { s.replace('\\', "\\\\").replace('\n', "\\n") }

fn op_frame(hex: &str) -> String {
    let Ok(b) = hex::decode(hex) else { return "BADOP".into() };
    match Frame::from_bytes(&b) {
        Ok(f) => canon::frame(&f),
        Err(e) => canon::err(&e),
    }
}

fn op_display(hex: &str) -> String {
    let Ok(b) = hex::decode(hex) else { return "BADOP".into() };
    match Frame::from_bytes(&b) {
        Ok(f) => format!("TXT {}", esc(&f.to_string())),
        Err(e) => canon::err(&e),
    }
}

/// velocity: `V <hex>` prints calculate() of a DF17/18 type-19 frame: exact integers + floats
fn op_velocity(hex: &str) -> String {
    use adsb_deku::adsb::ME;
    use adsb_deku::DF;
    let Ok(b) = hex::decode(hex) else { return "BADOP".into() };
    match Frame::from_bytes(&b) {
        Ok(f) => {
            let me = match &f.df { DF::ADSB(a) => Some(&a.me), DF::TisB { cf, .. } => Some(&cf.me), _ => None };
            match me {
                Some(ME::AirborneVelocity(v)) => match v.calculate() {
                    Some((h, gs, vr)) => format!("VEL some hdg={:.6} gs={:.6} vr={}", h, gs, vr),
                    None => "VEL none".into(),
                },
                _ => "VEL n/a".into(),
            }
        }
        Err(e) => canon::err(&e),
    }
}

/// CPR: `P <hexA> <hexB>` pairs the position payloads of two frames in the given order
fn op_cpr(a: &str, b: &str) -> String {
    use adsb_deku::adsb::ME;
    use adsb_deku::{cpr, Altitude, DF};
    fn alt(hex: &str) -> Option<Altitude> {
        let b = hex::decode(hex).ok()?;
        let f = Frame::from_bytes(&b).ok()?;
        let me = match f.df { DF::ADSB(a) => a.me, DF::TisB { cf, .. } => cf.me, _ => return None };
        match me { ME::AirbornePositionBaroAltitude(a) | ME::AirbornePositionGNSSAltitude(a) => Some(a), _ => None }
    }
    match (alt(a), alt(b)) {
        (Some(x), Some(y)) => match cpr::get_position((&x, &y)) {
            // `rng` is decided on the f64 values themselves (the printed decimals round: 179.99999999999997 prints as 180.000000)
            Some(p) => format!("POS some lat={:.6} lon={:.6} rng={}", p.latitude * 1000.0, p.longitude * 1000.0,
                if p.latitude >= -90.0 && p.latitude <= 90.0 && p.longitude >= -180.0 && p.longitude < 180.0 { "ok" } else { "out" }),
            None => "POS none".into(),
        },
        _ => "POS n/a".into(),
    }
}

/// `I <hex6>`: ICAO text round trip
fn op_icao(hex: &str) -> String {
    use adsb_deku::ICAO;
    use std::str::FromStr;
    let Ok(b) = hex::decode(hex) else { return "BADOP".into() };
    if b.len() != 3 { return "BADOP".into(); }
    let i = ICAO([b[0], b[1], b[2]]);
    let s = i.to_string();
    match ICAO::from_str(&s) {
        Ok(j) => format!("ICAO {} {}", s, if j == i { "same" } else { "DIFF" }),
        Err(_) => format!("ICAO {} parse-error", s),
    }
}

/// `S <hex>`: serde_json round trip of a decoded frame (Debug text must survive)
#[cfg(feature = "serde")]
fn op_serde(hex: &str) -> String {
    let Ok(b) = hex::decode(hex) else { return "BADOP".into() };
    match Frame::from_bytes(&b) {
        Ok(f) => {
            let js = match serde_json::to_string(&f) { Ok(j) => j, Err(e) => return format!("SERDE ser-error {e}") };
            match serde_json::from_str::<Frame>(&js) {
                Ok(g) => if format!("{f:?}") == format!("{g:?}") { "SERDE same".into() } else { format!("SERDE DIFF {js}") },
                Err(e) => format!("SERDE de-error {e} {js}"),
            }
        }
        Err(e) => canon::err(&e),
    }
}

fn run_op(line: &str, st: &mut track::State) -> String {
    let parts: Vec<&str> = line.split_whitespace().collect();
    match parts.as_slice() {
        ["F", h] => op_frame(h),
        ["D", h] => op_display(h),
        ["V", h] => op_velocity(h),
        ["P", a, b] => op_cpr(a, b),
        ["I", h] => op_icao(h),
        #[cfg(feature = "serde")]
        ["S", h] => op_serde(h),
        #[cfg(feature = "std")]
        ["R", h, s] => sched::op_reader(h, s, 0),
        #[cfg(feature = "std")]
        ["R", h, s, off] => match off.parse::<usize>() { Ok(o) => sched::op_reader(h, s, o), Err(_) => "BADOP".into() },
        #[cfg(all(feature = "std", rsadsb_adsb_deku_verif))]
        ["RC", pre, h, s, calls] => sched::op_rc(pre, h, s, calls),
        ["T", rest @ ..] => track::op(st, rest),
        _ => "BADOP".into(),
    }
}

fn main() {
    std::panic::set_hook(Box::new(|_| {}));
    let stdin = std::io::stdin();
    let out = std::io::stdout();
    let mut out = std::io::BufWriter::new(out.lock());
    let mut st = track::State::new();
    for line in stdin.lock().lines() {
        let line = line.unwrap();
        let line = line.trim();
        if line.is_empty() || line.starts_with('#') { continue; }
        let r = catch_unwind(AssertUnwindSafe(|| run_op(line, &mut st)));
        let s = match r {
            Ok(s) => s,
            Err(p) => {
                let msg = p.downcast_ref::<String>().cloned().or_else(|| p.downcast_ref::<&str>().map(|s| s.to_string())).unwrap_or_default();
                format!("PANIC {}", esc(&msg))
            }
        };
        writeln!(out, "{s}").unwrap();
    }
}
