use adsb_deku::Frame;
use deku::no_std_io::{Read, Seek, SeekFrom};

pub struct Sched { data: Vec<u8>, pos: u64, sched: Vec<Option<usize>>, i: usize }
impl Read for Sched {
    fn read(&mut self, buf: &mut [u8]) -> deku::no_std_io::Result<usize> {
        let step = if self.i < self.sched.len() { let s = self.sched[self.i]; self.i += 1; s } else { Some(usize::MAX) };
        match step {
            None => Err(std::io::Error::from(std::io::ErrorKind::Interrupted)),
            Some(k) => {
                let avail = self.data.len().saturating_sub(self.pos as usize);
                let n = buf.len().min(k).min(avail);
                buf[..n].copy_from_slice(&self.data[self.pos as usize..self.pos as usize + n]);
                self.pos += n as u64;
                Ok(n)
            }
        }
    }
}
impl Seek for Sched {
    fn seek(&mut self, p: SeekFrom) -> deku::no_std_io::Result<u64> {
        let np = match p { SeekFrom::Start(x) => x as i64, SeekFrom::Current(d) => self.pos as i64 + d, SeekFrom::End(d) => self.data.len() as i64 + d };
        if np < 0 { return Err(std::io::Error::from(std::io::ErrorKind::InvalidInput)); }
        self.pos = np as u64; Ok(self.pos)
    }
}
fn main() {
    let args: Vec<String> = std::env::args().skip(1).collect();
    let a = &args[0];
    let b = hex::decode(a).unwrap();
    match Frame::from_bytes(&b) {
        Ok(f) => println!("{a}: {f:?}"),
        Err(e) => println!("{a}: ERR {e:?}"),
    }
    if args.len() > 1 {
        let sched = args[1].split(',').map(|t| if t == "I" { None } else { Some(t.parse().unwrap()) }).collect();
        let r = Sched { data: b.clone(), pos: 0, sched, i: 0 };
        match Frame::from_reader(r) {
            Ok(f) => println!("R {a}: {f:?}"),
            Err(e) => println!("R {a}: ERR {e:?}"),
        }
    }
}
