//! A `Read + Seek` over a byte vector that follows a schedule: each `read` call takes the next
//! schedule entry: `I` = fail with Interrupted, `k` = return at most k bytes. After the schedule
//! is exhausted reads are served in full.
use adsb_deku::Frame;
use deku::no_std_io::{Read, Seek, SeekFrom};

pub struct Sched { pub data: Vec<u8>, pub pos: u64, pub sched: Vec<Option<usize>>, pub i: usize, pub calls: usize }
impl Read for Sched {
    fn read(&mut self, buf: &mut [u8]) -> std::io::Result<usize> {
        self.calls += 1;
        let step = if self.i < self.sched.len() { let s = self.sched[self.i]; self.i += 1; s } else { Some(usize::MAX) };
        match step {
            None => Err(std::io::Error::from(std::io::ErrorKind::Interrupted)),
            Some(k) => {
                let p = (self.pos as usize).min(self.data.len());
                let n = buf.len().min(k).min(self.data.len() - p);
                buf[..n].copy_from_slice(&self.data[p..p + n]);
                self.pos += n as u64;
                Ok(n)
            }
        }
    }
}
impl Seek for Sched {
    fn seek(&mut self, p: SeekFrom) -> std::io::Result<u64> {
        let np = match p { SeekFrom::Start(x) => x as i64, SeekFrom::Current(d) => self.pos as i64 + d, SeekFrom::End(d) => self.data.len() as i64 + d };
        if np < 0 { return Err(std::io::Error::from(std::io::ErrorKind::InvalidInput)); }
        self.pos = np as u64;
        Ok(self.pos)
    }
}

/// `R <hex> <sched>`; sched is comma separated, `-` for the empty schedule
pub fn op_reader(hex: &str, s: &str) -> String {
    let Ok(b) = hex::decode(hex) else { return "BADOP".into() };
    let mut sched = vec![];
    if s != "-" {
        for t in s.split(',') {
            if t == "I" { sched.push(None) } else if let Ok(k) = t.parse::<usize>() { if k == 0 { return "BADOP".into() } sched.push(Some(k)) } else { return "BADOP".into() }
        }
    }
    let r = Sched { data: b, pos: 0, sched, i: 0, calls: 0 };
    match Frame::from_reader(r) {
        Ok(f) => crate::canon::frame(&f),
        Err(e) => crate::canon::err(&e),
    }
}
