//! A `Read + Seek` over a byte vector that follows a schedule: each `read` call takes the next
//! schedule entry: `I` = fail with Interrupted, `k` = return at most k bytes. After the schedule
//! is exhausted reads are served in full.
use adsb_deku::Frame;
use deku::no_std_io::{Read, Seek, SeekFrom};

pub struct Sched { pub data: Vec<u8>, pub pos: u64, pub sched: Vec<Option<usize>>, pub i: usize, pub calls: usize }
impl Read for Sched {
    fn read(&mut self, buf: &mut [u8]) -> std::io::Result<usize> {
        self.calls += 1;
        let step = if self.i < self.sched.len() { let s = self.sched[self.i]; self.i += 1; s } else { Some(usize::MAX) };
        match step {
            None => Err(std::io::Error::from(std::io::ErrorKind::Interrupted)),
            Some(k) => {
                let p = (self.pos as usize).min(self.data.len());
                let n = buf.len().min(k).min(self.data.len() - p);
                buf[..n].copy_from_slice(&self.data[p..p + n]);
                self.pos += n as u64;
                Ok(n)
            }
        }
    }
}
impl Seek for Sched {
    fn seek(&mut self, p: SeekFrom) -> std::io::Result<u64> {
        let np = match p { SeekFrom::Start(x) => x as i64, SeekFrom::Current(d) => self.pos as i64 + d, SeekFrom::End(d) => self.data.len() as i64 + d };
        if np < 0 { return Err(std::io::Error::from(std::io::ErrorKind::InvalidInput)); }
        self.pos = np as u64;
        Ok(self.pos)
    }
}

fn parse_sched(s: &str) -> Option<Vec<Option<usize>>> {
    let mut sched = vec![];
    if s != "-" {
        for t in s.split(',') {
            if t == "I" { sched.push(None) } else if let Ok(k) = t.parse::<usize>() { if k == 0 { return None } sched.push(Some(k)) } else { return None }
        }
    }
    Some(sched)
}

/// `R <hex> <sched> [off]`; sched is comma separated, `-` for the empty schedule; with `off` the frame stands
/// `off` bytes into the reader (a frame inside a longer stream), the reader positioned at its first byte
pub fn op_reader(hex: &str, s: &str, off: usize) -> String {
    let Ok(b) = hex::decode(hex) else { return "BADOP".into() };
    let Some(sched) = parse_sched(s) else { return "BADOP".into() };
    let mut data: Vec<u8> = (0..off).map(|i| (0x5a ^ (i * 37)) as u8).collect();
    data.extend_from_slice(&b);
    let r = Sched { data, pos: off as u64, sched, i: 0, calls: 0 };
    match Frame::from_reader(r) {
        Ok(f) => crate::canon::frame(&f),
        Err(e) => crate::canon::err(&e),
    }
}

/// `RC <prehex|-> <hex> <sched> <calls>`: the real `ReaderCrc` (through the cfg-guarded hook) on an explicit call sequence
/// (`r<k>` = read_exact of k bytes, `s<j>` = seek back j bytes) over a scheduled reader standing after the prefix
#[cfg(rsadsb_adsb_deku_verif)]
pub fn op_rc(pre: &str, hex: &str, s: &str, calls: &str) -> String {
    use adsb_deku::verif_hooks::{reader_crc_trace, Call};
    let pre = if pre == "-" { vec![] } else { match hex::decode(pre) { Ok(p) => p, Err(_) => return "BADOP".into() } };
    let Ok(b) = hex::decode(hex) else { return "BADOP".into() };
    let Some(sched) = parse_sched(s) else { return "BADOP".into() };
    let mut cs = vec![];
    if calls != "-" {
        for t in calls.split(',') {
            let (k, n) = t.split_at(1.min(t.len()));
            let Ok(n) = n.parse::<usize>() else { return "BADOP".into() };
            match k { "r" => cs.push(Call::ReadExact(n)), "s" => cs.push(Call::SeekBack(n)), _ => return "BADOP".into() }
        }
    }
    let off = pre.len();
    let mut data = pre; data.extend_from_slice(&b);
    let r = Sched { data, pos: off as u64, sched, i: 0, calls: 0 };
    match reader_crc_trace(r, &cs) {
        Some((outs, cache, pos)) => format!("RCT outs={} cache={} pos={}", outs.iter().map(hex::encode).collect::<Vec<_>>().join(";"), hex::encode(cache), pos),
        None => "RCT FAIL".into(),
    }
}
