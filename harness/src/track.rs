//! tracker operations (filled in with the tracker model)
pub struct State {}
impl State { pub fn new() -> Self { State {} } }
pub fn op(_st: &mut State, _args: &[&str]) -> String { "BADOP".into() }
