//! tracker operations: `T reset <lat> <lon> <range>`, `T rx <lat> <lon>`, `T act <hex>`, `T age <ms>`, `T prune <secs>`, `T dump`
use adsb_deku::Frame;
use rsadsb_common::{Added, AirplaneCoor, AirplaneState, Airplanes};

pub struct State { pub a: Airplanes, pub rx: (f64, f64), pub range: f64 }
impl State { pub fn new() -> Self { State { a: Airplanes::new(), rx: (0.0, 0.0), range: 500.0 } } }

fn alt(a: &Option<adsb_deku::Altitude>) -> String {
    match a {
        None => "-".into(),
        Some(a) => format!("{}/{}/{}/{}/{}/{}/{}/{}", a.tc, a.ss as u8, a.saf_or_imf, a.alt.map_or("-".into(), |x| x.to_string()), a.t as u8, a.odd_flag as u8, a.lat_cpr, a.lon_cpr),
    }
}
fn pos(p: &Option<adsb_deku::cpr::Position>) -> String {
    match p { None => "-".into(), Some(p) => format!("{:.6},{:.6}", p.latitude * 1000.0, p.longitude * 1000.0) }
}
fn coor(c: &AirplaneCoor) -> String {
    format!("e={} o={} pos={} kd={}", alt(&c.altitudes[0]), alt(&c.altitudes[1]), pos(&c.position), c.kilo_distance.map_or("-".into(), |d| format!("{:.6}", d)))
}
fn state(a: &Airplanes, k: adsb_deku::ICAO, s: &AirplaneState) -> String {
    let vel = match (s.heading, s.speed, s.vert_speed) {
        (Some(h), Some(sp), Some(v)) => format!("{:.4},{:.3},{}", h, sp, v),
        (None, None, None) => "-".into(),
        _ => "PARTIAL".into(),
    };
    let track = match &s.track { None => "-".into(), Some(t) => format!("[{}]", t.iter().map(|c| pos(&c.position)).collect::<Vec<_>>().join(";")) };
    let det = a.aircraft_details(k);
    let details = match &det { None => "-".into(), Some(d) => format!("{}/{:.6}/{}", d.altitude, d.kilo_distance, pos(&Some(d.position))) };
    format!("{} msgs={} cs={} vel={} {} track={} details={}", k, s.num_messages, s.callsign.as_ref().map_or("-".into(), |c| format!("\"{c}\"")), vel, coor(&s.coords), track, details)
}
pub fn dump(a: &Airplanes) -> String {
    let recs: Vec<String> = a.iter().map(|(k, s)| state(a, *k, s)).collect();
    let allpos: Vec<String> = a.all_position().iter().map(|(k, _)| k.to_string()).collect();
    // `Display for Airplanes`: one line per aircraft that has details, `<address>: AirplaneDetails {..}`; the addresses in print order
    let shown: Vec<String> = a.to_string().lines().map(|l| l.split(':').next().unwrap_or("").to_string()).collect();
    format!("MAP n={} allpos={} shown={} | {}", a.len(), allpos.join(","), shown.join(","), recs.join(" | "))
}

pub fn op(st: &mut State, args: &[&str]) -> String {
    match args {
        ["reset", lat, lon, range] => {
            let (Ok(la), Ok(lo), Ok(r)) = (lat.parse::<f64>(), lon.parse::<f64>(), range.parse::<f64>()) else { return "BADOP".into() };
            *st = State { a: Airplanes::new(), rx: (la, lo), range: r };
            "OK".into()
        }
        // the receiver moves (radar refreshes its position from gpsd): later calls of `action` get the new position, the tracked set stays
        ["rx", lat, lon] => {
            let (Ok(la), Ok(lo)) = (lat.parse::<f64>(), lon.parse::<f64>()) else { return "BADOP".into() };
            st.rx = (la, lo);
            "OK".into()
        }
        ["act", h] => {
            let Ok(b) = hex::decode(h) else { return "BADOP".into() };
            match Frame::from_bytes(&b) {
                Ok(f) => {
                    let added = st.a.action(f, st.rx, st.range);
                    format!("ADDED {} {}", if added == Added::Yes { "yes" } else { "no" }, dump(&st.a))
                }
                Err(e) => crate::canon::err(&e),
            }
        }
        // like `act`, but prints only the answer and the size of the tracked set (histories with more than a thousand aircraft)
        ["actq", h] => {
            let Ok(b) = hex::decode(h) else { return "BADOP".into() };
            match Frame::from_bytes(&b) {
                Ok(f) => {
                    let added = st.a.action(f, st.rx, st.range);
                    format!("ADDEDQ {} n={}", if added == Added::Yes { "yes" } else { "no" }, st.a.len())
                }
                Err(e) => crate::canon::err(&e),
            }
        }
        #[cfg(all(rsadsb_adsb_deku_verif, feature = "std"))]
        ["age", ms] => {
            let Ok(ms) = ms.parse::<u64>() else { return "BADOP".into() };
            st.a.verif_age_all(std::time::Duration::from_millis(ms));
            "OK".into()
        }
        #[cfg(feature = "std")]
        ["prune", secs] => {
            let Ok(s) = secs.parse::<u64>() else { return "BADOP".into() };
            st.a.prune(s);
            dump(&st.a)
        }
        ["dump"] => dump(&st.a),
        #[cfg(feature = "serde")]
        ["serde"] => {
            let js = match serde_json::to_string(&st.a) { Ok(j) => j, Err(e) => return format!("SERDE ser-error {e}") };
            match serde_json::from_str::<Airplanes>(&js) {
                Ok(b) => {
                    let (x, y) = (format!("{:?}", st.a), format!("{b:?}"));
                    if x == y { "SERDE same".into() } else {
                        let i = x.bytes().zip(y.bytes()).position(|(p, q)| p != q).unwrap_or(0);
                        format!("SERDE DIFF at {}: ...{} | ...{}", i, &x[i.saturating_sub(60)..(i + 40).min(x.len())], &y[i.saturating_sub(60)..(i + 40).min(y.len())])
                    }
                }
                Err(e) => format!("SERDE de-error {e}"),
            }
        }
        _ => "BADOP".into(),
    }
}
