import Adsb.Print
