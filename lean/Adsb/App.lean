import Adsb.Ui
import Adsb.Tracker
/-! # radar: what is shown — table rows, tab title, statistics, map projection — and the whole loop state

`App` is the state of radar's main loop: the tracker, the statistics and the operator-facing view state (`UI`).
One `Step` is one iteration: an optional decoded frame (`action` + `Stats::update`), `prune`, the draw (selection
clamp), then the pending operator events. The tracker is always fed with the *receiver* position (inside `Geo`), never with
the view centre. -/

namespace Adsb

/-- `Stats` (the two counters of the statistics tab; `most = 0` stands for `None`) -/
structure Stats where
  most : Nat := 0
  total : Nat := 0
  deriving Repr, DecidableEq

/-- `Stats::update(&airplanes, added)` as far as the two totals go -/
def Stats.update (st : Stats) (len : Nat) (added : Bool) : Stats :=
  { most := if st.most < len then len else st.most, total := if added then st.total + 1 else st.total }

section
variable {P D : Type}

structure App (P D : Type) where
  planes : Airplanes P D := []
  stats : Stats := {}
  ui : UI := {}

/-- one iteration of the main loop -/
structure Step where
  frame : Option DF            -- a line that decoded to a frame, if any
  now : Nat                    -- clock reading of the iteration (ms)
  events : List Event          -- operator events pending after the draw
  buttons : Option (Rect × Rect × Rect) := none
  lb : Nat := 1

/-- whether the i-th row has details (what `Enter` on the Airplanes tab looks at) -/
def rowHasDetails (s : Airplanes P D) (i : Nat) : Bool :=
  match s[i]? with
  | some kv => hasDetails s kv.1
  | none => false

def feed (g : Geo P D) (a : App P D) (frame : Option DF) (now : Nat) : Airplanes P D × Stats :=
  match frame with
  | some df =>
    let r := action g true now a.planes df
    (r.1, a.stats.update r.1.length r.2)
  | none => (a.planes, a.stats)

def appStep (g : Geo P D) (T : Nat) (a : App P D) (s : Step) : Res (App P D) :=
  let fs := feed g a s.frame s.now
  let planes := prune T s.now fs.1
  match handleBatch (drawClamp a.ui planes.length) s.events planes.length (rowHasDetails planes) s.buttons s.lb with
  | .ok ui => .ok { planes := planes, stats := fs.2, ui := ui }
  | .err x => .err x
  | .panic p => .panic p

def appRun (g : Geo P D) (T : Nat) (a : App P D) : List Step → Res (App P D)
  | [] => .ok a
  | s :: rest =>
    match appStep g T a s with
    | .ok a' => if a'.ui.quit then .ok a' else appRun g T a' rest
    | .err x => .err x
    | .panic p => .panic p

/-! ## the Airplanes tab -/

/-- one table row: the cells that come from the tracker (text formatting of the numbers is the renderer's) -/
structure Row (P D : Type) where
  icao : Nat
  callsign : Option (List Nat)
  pos : Option P            -- Lat / Long cells: blank when `none`
  alt : Option Nat          -- Altitude cell
  dist : Option D           -- Distance cell
  vel : Option Velocity     -- Heading / FPM / Speed cells
  msgs : Nat

/-- `aircraft_details`: position, altitude and distance, all three or nothing -/
def details (p : Plane P D) : Option (P × Nat × D) :=
  match p.coords.pos, p.coords.altitude, p.coords.kd with
  | some ps, some a, some d => some (ps, a, d)
  | _, _, _ => none

def rowOf (kv : Nat × Plane P D) : Row P D :=
  let d := details kv.2
  { icao := kv.1, callsign := kv.2.callsign, pos := d.map (·.1), alt := d.map (·.2.1), dist := d.map (·.2.2), vel := kv.2.vel, msgs := kv.2.numMessages }

/-- rows of the table, top to bottom: `for key in adsb_airplanes.keys()` -/
def tableRows (s : Airplanes P D) : List (Row P D) := s.map rowOf
/-- the number in the tab title `Airplanes(n)` and in the table's block title -/
def titleCount (s : Airplanes P D) : Nat := s.length

end

/-! ## the Coverage tab: heat-map cells and their brightness (`coverage.rs`)

A cell is a position rounded to 0.01° (the rounding is the caller's: `key`), a `u32` counter and the aircraft last seen
there. The Rust arithmetic is written out: `u32` operations panic on overflow (`overflow-checks = true` in every profile)
unless they are the saturating ones. -/


structure Cell where
  key : Int × Int            -- (round(lat·100), round(lon·100))
  seen : Nat
  icao : Nat
  deriving Repr, DecidableEq

/-- `populate_coverage` for one `(aircraft, position)` of `all_position()`: first cell with the same key wins -/
def coverOne (cells : List Cell) (key : Int × Int) (icao : Nat) : List Cell :=
  match cells with
  | [] => [{ key := key, seen := 0, icao := icao }]
  | c :: cs =>
    if c.key = key ∧ icao ≠ c.icao then { c with seen := min (c.seen + 1) u32Max, icao := icao } :: cs     -- `saturating_add(1)`
    else if c.key = key then c :: cs
    else c :: coverOne cs key icao

/-- one pass of the main loop over all aircraft with a position -/
def coverPass (cells : List Cell) (ps : List ((Int × Int) × Nat)) : List Cell :=
  ps.foldl (fun cs p => coverOne cs p.1 p.2) cells

/-- the brightness of a cell as `build_tab_coverage` computes it today: `saturating_mul(50).saturating_add(100)`, capped at 255 -/
def cellColour (seen : Nat) : Res Nat :=
  let n := min (min (seen * 50) u32Max + 100) u32Max
  .ok (if n > 255 then 255 else n)

/-- the same before the repair (`100 + seen * 50` in checked `u32` arithmetic) -/
def cellColourOld (seen : Nat) : Res Nat :=
  if seen * 50 > u32Max then .panic "coverage.rs: attempt to multiply with overflow"
  else if 100 + seen * 50 > u32Max then .panic "coverage.rs: attempt to add with overflow"
  else .ok (if 100 + seen * 50 > 255 then 255 else 100 + seen * 50)

/-- `Stats::update`'s counter of newly added aircraft in `u32` arithmetic as written today (`saturating_add(1)`) -/
def totalIncr (total : Nat) : Res Nat := .ok (min (total + 1) u32Max)
/-- the same before the repair (`+= 1`, checked) -/
def totalIncrOld (total : Nat) : Res Nat := if total + 1 > u32Max then .panic "stats.rs: attempt to add with overflow" else .ok (total + 1)

/-! ## the map projection (`Settings::to_xy`), over any number type -/

structure Arith (α : Type) where
  add : α → α → α
  sub : α → α → α
  mul : α → α → α
  div : α → α → α
  neg : α → α
  lit : Nat → α

/-- `to_mercator(lat, long)`; `mercN lat = ln(tan(π/4 + lat_rad/2))`, `twoPi = 2π`, `scale = settings.scale * 500000` -/
def toMercator {α : Type} (A : Arith α) (mercN : α → α) (twoPi : α) (scale lat lon : α) : α × α :=
  (A.mul (A.add lon (A.lit 180)) (A.div scale (A.lit 360)),
   A.sub (A.div scale (A.lit 2)) (A.div (A.mul scale (mercN lat)) twoPi))

/-- `to_xy`: position relative to the view centre `(lat0, lon0)`, y flipped so that north is up -/
def toXY {α : Type} (A : Arith α) (mercN : α → α) (twoPi : α) (scale lat0 lon0 lat lon : α) : α × α :=
  let l := toMercator A mercN twoPi scale lat0 lon0
  let p := toMercator A mercN twoPi scale lat lon
  (A.sub p.1 l.1, A.mul (A.sub p.2 l.2) (A.neg (A.lit 1)))

/-- the operations `to_mercator` uses, for the definitions translated from the source (`Gen/Formulas.lean`) -/
structure MercOps (α : Type) where
  add : α → α → α
  sub : α → α → α
  mul : α → α → α
  div : α → α → α
  neg : α → α
  lit : Nat → α
  pi : α
  ln : α → α
  tan : α → α

/-- the arithmetic part of a `MercOps` -/
def MercOps.arith {α : Type} (H : MercOps α) : Arith α :=
  { add := H.add, sub := H.sub, mul := H.mul, div := H.div, neg := H.neg, lit := H.lit }

/-- `ln(tan(π/4 + lat_rad/2))` as `to_mercator` writes it -/
def MercOps.mercN {α : Type} (H : MercOps α) (lat : α) : α :=
  H.ln (H.tan (H.add (H.div H.pi (H.lit 4)) (H.div (H.mul lat (H.div H.pi (H.lit 180))) (H.lit 2))))

def floatArith : Arith Float := { add := (· + ·), sub := (· - ·), mul := (· * ·), div := (· / ·), neg := fun x => -x, lit := Float.ofNat }
def piApp : Float := 3.14159265358979323846264338327950288
def mercNF (lat : Float) : Float := Float.log (Float.tan (piApp / 4.0 + (lat * (piApp / 180.0)) / 2.0))

/-- the view after `zoom` zoom-out steps of 1.1 and the pans of the `UI` state, from the start values -/
def viewScale (scale0 : Float) (zoom : Int) : Float :=
  if zoom ≥ 0 then (List.range zoom.toNat).foldl (fun s _ => s / 1.1) scale0 else (List.range (-zoom).toNat).foldl (fun s _ => s * 1.1) scale0

end Adsb
