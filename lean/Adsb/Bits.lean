/-! # Bits: buffers and MSB-first bit fields

`Buf` is the byte string handed to `Frame::from_bytes`. Bit 0 is the most significant bit of
byte 0 (Annex 10 calls it "bit 1"). `bitsAt B off w` is the `w`-bit field starting at bit `off`,
most significant bit first; bits past the end of the buffer read as 0 (every reader guards the
length before using them). -/

namespace Adsb

structure Buf where
  bytes : List UInt8
  deriving Repr

def Buf.len (B : Buf) : Nat := B.bytes.length

def Buf.bit (B : Buf) (i : Nat) : Bool :=
  (B.bytes.getD (i / 8) 0).toNat.testBit (7 - i % 8)

def bitsAt (B : Buf) (off : Nat) : Nat → Nat
  | 0 => 0
  | w + 1 => 2 * bitsAt B off w + (B.bit (off + w)).toNat

/-- `k` whole bytes in little-endian order, then `r` more bits on top -/
def leGo (B : Buf) (off r : Nat) : Nat → Nat
  | 0 => bitsAt B off r
  | k + 1 => bitsAt B off 8 + 256 * leGo B (off + 8) r k

/-- deku's little-endian rule for an `n`-bit field without `endian = "big"` (only differs from
`bitsAt` for `n > 8`): whole bytes in little-endian order, the trailing partial byte on top. -/
def leBitsAt (B : Buf) (off n : Nat) : Nat := leGo B off (n % 8) (n / 8)

theorem bitsAt_lt (B : Buf) (off w : Nat) : bitsAt B off w < 2 ^ w := by
  induction w with
  | zero => simp [bitsAt]
  | succ w ih =>
    simp only [bitsAt]
    have : (B.bit (off + w)).toNat ≤ 1 := Bool.toNat_le _
    rw [Nat.pow_succ]; omega

def hexDigit (n : Nat) : Char :=
  if n < 10 then Char.ofNat (48 + n) else Char.ofNat (87 + n)

/-- `w` lower-case hex digits of `n`, most significant first -/
def toHex (n : Nat) : Nat → List Char
  | 0 => []
  | w + 1 => toHex (n / 16) w ++ [hexDigit (n % 16)]

def hexStr (n w : Nat) : String := String.ofList (toHex n w)

def hexVal (c : Char) : Option Nat :=
  if '0' ≤ c ∧ c ≤ '9' then some (c.toNat - 48)
  else if 'a' ≤ c ∧ c ≤ 'f' then some (c.toNat - 87)
  else if 'A' ≤ c ∧ c ≤ 'F' then some (c.toNat - 55)
  else none

def parseHexBytes : List Char → Option (List UInt8)
  | [] => some []
  | [_] => none
  | a :: b :: rest => do
    let x ← hexVal a
    let y ← hexVal b
    let r ← parseHexBytes rest
    pure (UInt8.ofNat (16 * x + y) :: r)

end Adsb
