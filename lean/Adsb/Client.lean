import Adsb.Frame
/-! # The clients' line loops (apps/src/1090/1090.rs and apps/src/radar/radar.rs, after the repairs)

Both clients call `read_until(b'\n', &mut input)` on a `BufReader<TcpStream>` with a 50 ms read timeout:
* bytes are appended to `input` as they arrive;
* a call returns `Ok(n)` at a newline (or at end of stream), `Err(WouldBlock)` when no byte arrives for 50 ms — the
  partial line stays in `input`;
* a line is processed only when `input` ends with `'\n'`, then `input` is cleared;
* `Ok(0)` is the end of the stream: `1090` clears `input` and keeps polling, `radar` records a disconnect.

The byte stream is a list of events: a chunk of bytes (however TCP segmented them), a gap longer than the timeout, the
end of the stream. -/

namespace Adsb

inductive Ev where
  | chunk (bs : List UInt8)
  | gap
  | eof
  deriving Repr

def NL : UInt8 := 10

/-- the complete lines of a byte string (each including its newline), in order, and the unterminated remainder -/
def splitLines : List UInt8 → List (List UInt8) × List UInt8
  | [] => ([], [])
  | b :: rest =>
    let (ls, r) := splitLines rest
    if b = NL then ([b] :: ls, r)
    else match ls with
      | [] => ([], b :: r)
      | l :: ls' => ((b :: l) :: ls', r)

/-- client state: the partial line in `input`, the outputs produced so far, whether the stream ended -/
structure CS (Out : Type) where
  input : List UInt8 := []
  outs : List Out := []
  ended : Bool := false

/-- one event of the loop; `process` is what the client does with a complete line -/
def clientStep {Out : Type} (process : List UInt8 → Out) (s : CS Out) (e : Ev) : CS Out :=
  match e with
  | .chunk bs =>
    let (ls, r) := splitLines (s.input ++ bs)
    { s with input := r, outs := s.outs ++ ls.map process }
  | .gap => s
  | .eof => { s with input := [], ended := true }

def clientRun {Out : Type} (process : List UInt8 → Out) (evs : List Ev) : CS Out :=
  evs.foldl (clientStep process) {}

/-- all bytes of the chunks of an event list -/
def streamOf : List Ev → List UInt8
  | [] => []
  | .chunk bs :: rest => bs ++ streamOf rest
  | _ :: rest => streamOf rest

/-- `*<hex>;\n` → the hex text: `line.get(1..len-2)` on valid UTF-8 (ASCII is what matters: a non-ASCII line has no
hex digits at the cut positions or fails `hex::decode`) -/
def hexPart (line : List UInt8) : Option (List UInt8) :=
  if line.length < 2 then none else
  let body := (line.drop 1).take (line.length - 3)
  if line.length < 3 then some [] else some body

def hexNibble (c : UInt8) : Option Nat :=
  if 48 ≤ c.toNat ∧ c.toNat ≤ 57 then some (c.toNat - 48)
  else if 97 ≤ c.toNat ∧ c.toNat ≤ 102 then some (c.toNat - 87)
  else if 65 ≤ c.toNat ∧ c.toNat ≤ 70 then some (c.toNat - 55)
  else none

def hexDecode : List UInt8 → Option (List UInt8)
  | [] => some []
  | [_] => none
  | a :: b :: rest => do
    let x ← hexNibble a
    let y ← hexNibble b
    let r ← hexDecode rest
    pure (UInt8.ofNat (16 * x + y) :: r)

/-- `parse_line`: the frame bytes of a well-formed line; `none` = skipped (too short, not hex, odd length, all zero) -/
def parseLine (line : List UInt8) : Option (List UInt8) := do
  let h ← hexPart line
  let bytes ← hexDecode h
  if bytes.all (· == 0) then none else some bytes

/-- what `radar` hands to the decoder for one complete line: the parsed bytes, unless `--limit-parsing` is given and the downlink
format (top five bits of the first byte) is not 17 -/
def radarProcess (limit : Bool) (line : List UInt8) : Option (List UInt8) :=
  match parseLine line with
  | some bytes => if limit && (bytes.headD 0).toNat / 8 != 17 then none else some bytes
  | none => none

/-- `--retry-tcp`: several connections in a row. A connection's events are followed by its end of stream; the partial line of a
dropped connection is discarded (`init_tcp_reader` starts with an empty buffer), everything processed so far stays -/
def sessionsRun {Out : Type} (process : List UInt8 → Out) (sessions : List (List Ev)) : CS Out :=
  sessions.foldl (fun s evs => clientStep process (evs.foldl (clientStep process) { s with ended := false }) .eof) {}

end Adsb
