import Adsb.Frame
/-! # cpr.rs: `cpr_nl` and `get_position`, generic in the number type

The same definition is evaluated over `Float` by the driver (mirroring the `f64` code) and over `Rat`
in the theorems (exact arithmetic). `NumOps` lists exactly the operations the Rust code uses. -/

namespace Adsb

class NumOps (α : Type) where
  ofNat : Nat → α
  add : α → α → α
  sub : α → α → α
  mul : α → α → α
  div : α → α → α
  floor : α → α
  ltb : α → α → Bool
  leb : α → α → Bool
  ofScaled : Nat → α        -- `n / 10^8` (the decimal literals of `cpr_nl`)
  half : α                   -- 0.5

namespace NumOps
variable {α : Type} [NumOps α]
instance : Add α := ⟨add⟩
instance : Sub α := ⟨sub⟩
instance : Mul α := ⟨mul⟩
instance : Div α := ⟨div⟩
end NumOps
open NumOps

instance : NumOps Float where
  ofNat := Float.ofNat
  add := (· + ·)
  sub := (· - ·)
  mul := (· * ·)
  div := (· / ·)
  floor := Float.floor
  ltb a b := a < b
  leb a b := a ≤ b
  ofScaled n := Float.ofScientific n true 8
  half := 0.5

instance : NumOps Rat where
  ofNat n := (n : Rat)
  add := (· + ·)
  sub := (· - ·)
  mul := (· * ·)
  div := (· / ·)
  floor q := (q.floor : Rat)
  ltb a b := decide (a < b)
  leb a b := decide (a ≤ b)
  ofScaled n := (n : Rat) / 100000000
  half := 1 / 2

section
variable {α : Type} [NumOps α]

def nOf (n : Nat) : α := NumOps.ofNat n
def negOf (x : α) : α := nOf 0 - x

-- evaluation of the statement tree of `cpr_nl` (first matching `if lat < t` returns)
mutual
def nlStmts : List Gen.NlStmt → α → Option Nat
  | [], _ => none
  | s :: rest, lat => match nlStmt s lat with
    | some n => some n
    | none => nlStmts rest lat
def nlStmt : Gen.NlStmt → α → Option Nat
  | .ret n, _ => some n
  | .ite thr body, lat => if ltb lat (NumOps.ofScaled thr) then nlStmts body lat else none
end

/-- `cpr_nl` -/
def cprNl (lat : α) : Nat :=
  let a := if ltb lat (nOf 0) then negOf lat else lat
  (nlStmts Gen.nlTree a).getD 1

/-- `positive_mod(a, b)` for `b > 0` -/
def pmod (a b : α) : α := a - b * NumOps.floor (a / b)

structure Position (α : Type) where
  lat : α
  lon : α

/-- `get_lat_lon` -/
def getLatLon (lat lonEven lonOdd : α) (latestOdd : Bool) : α × α :=
  let nl := cprNl lat
  let p := if latestOdd then 1 else 0
  let c := if latestOdd then lonOdd else lonEven
  let ni : α := nOf (max (nl - p) 1)
  let m := NumOps.floor (lonEven * nOf (nl - 1) - lonOdd * nOf nl + NumOps.half)
  let r := pmod m ni
  let lon := (nOf 360 / ni) * (r + c)
  let lon := if leb (nOf 180) lon then lon - nOf 360 else lon
  (lat, lon)

/-- the two candidate latitudes of `get_position` (even grid, odd grid) after the southern-hemisphere wrap -/
def latPair (ye yo : Nat) : α × α :=
  let cprMax : α := nOf Gen.cprMax
  let latE : α := nOf ye / cprMax
  let latO : α := nOf yo / cprMax
  let j := NumOps.floor (nOf 59 * latE - nOf 60 * latO + NumOps.half)
  let dE : α := nOf 360 / nOf (4 * Gen.nz)
  let dO : α := nOf 360 / nOf (4 * Gen.nz - 1)
  let le := dE * (pmod j (nOf 60) + latE)
  let lo := dO * (pmod j (nOf 59) + latO)
  let le := if leb (nOf 270) le then le - nOf 360 else le
  let lo := if leb (nOf 270) lo then lo - nOf 360 else lo
  (le, lo)

def inRange (x : α) : Bool := leb (negOf (nOf 90)) x && leb x (nOf 90)

/-- `get_position((a, b))`: `b` is the latest report -/
def getPosition (a b : Alt) : Option (Position α) :=
  if a.f = b.f then none else
  let even := if a.f = 0 then a else b
  let odd := if a.f = 0 then b else a
  let cprMax : α := nOf Gen.cprMax
  let lonE : α := nOf even.lon / cprMax
  let lonO : α := nOf odd.lon / cprMax
  let ll : α × α := latPair even.lat odd.lat
  if !(inRange ll.1 && inRange ll.2) then none
  else if cprNl ll.1 != cprNl ll.2 then none
  else
    let latestOdd := b.f != 0
    let lat := if latestOdd then ll.2 else ll.1
    let r := getLatLon lat lonE lonO latestOdd
    some { lat := r.1, lon := r.2 }

end
end Adsb

/-! ## the operations `get_position`, `get_lat_lon` and `positive_mod` use, as a structure

`Gen/CprFn.lean` (written by `tools/rust2lean.py` from `cpr.rs` on every run) is a term over this structure;
`Theorems/C05d` proves that, in exact arithmetic, the translated term is the hand-written `getPosition` above. -/
namespace Adsb
structure CprOps (α : Type) where
  lit : Nat → α              -- integral literals, `f64::from(u32)`, `u64 as f64`
  half : α                   -- `0.5`
  add : α → α → α
  sub : α → α → α
  mul : α → α → α
  div : α → α → α
  rem : α → α → α            -- `%` on `f64` (`fmod`: the remainder has the sign of the dividend)
  floor : α → α
  ltb : α → α → Bool
  leb : α → α → Bool
  nl : α → Nat               -- `cpr_nl`
end Adsb
