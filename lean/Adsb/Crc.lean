import Adsb.Res
import Adsb.Gen.Tables
/-! # crc.rs: `modes_checksum` (table driven, over the generated `CRC_TABLE`)

The Rust code keeps the remainder in a `u32` masked to 24 bits after every step; the model keeps it
in a `BitVec 24` (same arithmetic: `<< 8`, `^`, `& 0x00ff_ffff`, index `byte ^ (rem >> 16)`; a table
entry is truncated to 24 bits exactly as the mask does). -/

namespace Adsb

abbrev W := BitVec 24

/-- `CRC_TABLE[i]`, truncated to 24 bits -/
def tableBV (i : BitVec 8) : W := BitVec.ofNat 24 (Gen.crcTable.getD i.toNat 0)

/-- one iteration of the loop of `modes_checksum` -/
def crcStep (r : W) (b : UInt8) : W := (r <<< 8) ^^^ tableBV (b.toBitVec ^^^ (r >>> 16).setWidth 8)

def crcRem (msg : List UInt8) : W := msg.foldl crcStep 0

/-- the last three bytes of an `n`-byte frame as one 24-bit value -/
def tail24 (msg : List UInt8) (n : Nat) : W :=
  ((msg.getD (n - 3) 0).toBitVec.setWidth 24 <<< 16) ^^^ ((msg.getD (n - 2) 0).toBitVec.setWidth 24 <<< 8) ^^^
    (msg.getD (n - 1) 0).toBitVec.setWidth 24

/-- the value `modes_checksum` returns on the first `n` bytes -/
def crcVal (msg : List UInt8) (n : Nat) : Nat := (crcRem (msg.take (n - 3)) ^^^ tail24 msg n).toNat

/-- `modes_checksum(message, bits)` -/
def modesChecksum (msg : List UInt8) (bits : Nat) : Res Nat :=
  let n := bits / 8
  if n < 3 ∨ msg.length < n then .err .incomplete
  else .ok (crcVal msg n)

end Adsb
