import Adsb.Res
import Adsb.Gen.Tables
/-! # crc.rs: `modes_checksum` (table driven, over the generated `CRC_TABLE`) -/

namespace Adsb

def crcStep (rem byte : Nat) : Nat :=
  ((rem <<< 8) ^^^ Gen.crcTable.getD (byte ^^^ ((rem &&& 0xff0000) >>> 16)) 0) &&& 0xffffff

def crcRem (msg : List UInt8) : Nat := msg.foldl (fun r b => crcStep r b.toNat) 0

/-- `modes_checksum(message, bits)` -/
def modesChecksum (msg : List UInt8) (bits : Nat) : Res Nat :=
  let n := bits / 8
  if n < 3 ∨ msg.length < n then .err .incomplete
  else
    let rem := crcRem (msg.take (n - 3))
    let x := ((msg.getD (n - 3) 0).toNat <<< 16) ^^^ ((msg.getD (n - 2) 0).toNat <<< 8) ^^^ (msg.getD (n - 1) 0).toNat
    .ok (rem ^^^ x)

end Adsb
