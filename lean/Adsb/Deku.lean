import Adsb.Bits
import Adsb.Res
/-! # The deku 0.18.1 reader, as used by adsb_deku

Reader state is `(bp, hi)`:
* `bp`   – position of the next unread bit. deku's byte cursor and buffered "leftover" bits are
           functions of it: the inner cursor stands at byte `⌈bp/8⌉` and `8⌈bp/8⌉ - bp` bits of
           the last byte are buffered.
* `hi`   – number of leading bytes pulled from the inner reader so far. `ReaderCrc` (which saves
           only bytes past the end of its cache) therefore holds exactly `bytes.take hi`.

`read_bits(n)` needs bytes `[⌈bp/8⌉, ⌈(bp+n)/8⌉)`; it fails with `Incomplete` iff they are not all
there, i.e. iff `bp + n > 8·len`.

deku also keeps `last_bits_read_amt`, reset to 0 when a derived enum starts reading its id, and
`seek_last_read()` seeks the inner reader back `⌈last_bits_read_amt/8⌉` *whole bytes* and drops the
buffered bits. In the generated code a `seek_last_read()` always follows directly after the id read of
an enum (reset, read `k` id bits, match, restore), so the counter equals the id width `k` at that
point; the model therefore takes `k` as an argument of `seekBack` instead of carrying the counter. -/


namespace Adsb

structure RS where
  bp : Nat
  hi : Nat
  deriving Repr

def RS.init : RS := { bp := 0, hi := 0 }

def readBits (B : Buf) (n : Nat) (s : RS) : Res (Nat × RS) :=
  if s.bp + n ≤ 8 * B.len then
    .ok (bitsAt B s.bp n, { bp := s.bp + n, hi := max s.hi ((s.bp + n + 7) / 8) })
  else .err .incomplete

/-- an `n`-bit field read without `endian = "big"` (native = little endian) -/
def readBitsLE (B : Buf) (n : Nat) (s : RS) : Res (Nat × RS) :=
  if s.bp + n ≤ 8 * B.len then
    .ok (leBitsAt B s.bp n, { bp := s.bp + n, hi := max s.hi ((s.bp + n + 7) / 8) })
  else .err .incomplete

/-- `seek_last_read()` right after a `k`-bit enum id -/
def seekBack (k : Nat) (s : RS) : Res RS :=
  let pos := (s.bp + 7) / 8
  let back := (k + 7) / 8
  if back > pos then .err .io else .ok { s with bp := 8 * (pos - back) }

/-- padding (`pad_bits_*`, `pad_bytes_*`): read and drop -/
def skipBits (B : Buf) (n : Nat) (s : RS) : Res RS :=
  match readBits B n s with
  | .ok (_, s') => .ok s'
  | .err e => .err e
  | .panic p => .panic p

theorem readBits_ok (B : Buf) (n bp hi : Nat) (h : bp + n ≤ 8 * B.len) :
    readBits B n { bp := bp, hi := hi }
      = .ok (bitsAt B bp n, { bp := bp + n, hi := max hi ((bp + n + 7) / 8) }) := by
  simp [readBits, h]

theorem readBitsLE_ok (B : Buf) (n bp hi : Nat) (h : bp + n ≤ 8 * B.len) :
    readBitsLE B n { bp := bp, hi := hi }
      = .ok (leBitsAt B bp n, { bp := bp + n, hi := max hi ((bp + n + 7) / 8) }) := by
  simp [readBitsLE, h]

theorem readBits_short (B : Buf) (n bp hi : Nat) (h : 8 * B.len < bp + n) :
    readBits B n { bp := bp, hi := hi } = .err .incomplete := by
  have : ¬ (bp + n ≤ 8 * B.len) := by omega
  simp [readBits, this]

theorem seekBack_eq (k bp hi : Nat) (h : (k + 7) / 8 ≤ (bp + 7) / 8) :
    seekBack k { bp := bp, hi := hi } = .ok { bp := 8 * ((bp + 7) / 8 - (k + 7) / 8), hi := hi } := by
  have : ¬ ((k + 7) / 8 > (bp + 7) / 8) := by omega
  simp [seekBack, this]

theorem skipBits_ok (B : Buf) (n bp hi : Nat) (h : bp + n ≤ 8 * B.len) :
    skipBits B n { bp := bp, hi := hi } = .ok { bp := bp + n, hi := max hi ((bp + n + 7) / 8) } := by
  simp [skipBits, readBits, h]

/-- collapses the running maximum of byte offsets -/
theorem max_max_div (hi a b : Nat) (h : a ≤ b) : max (max hi (a / 8)) (b / 8) = max hi (b / 8) := by
  omega

end Adsb
