import Adsb.Print
import Adsb.Velocity
import Adsb.Icao
/-! # `impl fmt::Display for Frame` — the dump1090-style text report

A report is a list of lines; each line is a list of pieces: literal text or a *hole* filled with a decoded
value. `render` concatenates them. Numbers that the Rust code formats from floats (`libm::ceil(heading)`,
`libm::floor(speed)`, `f32` QNH / heading) are holes carrying the exact quantity they are computed from;
the driver evaluates them with `Float`. -/

namespace Adsb

inductive Piece where
  | lit (s : String)
  | nat (n : Nat)
  | int (i : Int)
  | hex (n w : Nat)          -- `{:0w x}`
  | hexNoPad (n : Nat)       -- `{:x?}`
  | text (cs : List Nat)     -- callsign characters
  | qnh (raw : Nat)          -- f32 `{}` of 800 + (raw-1)*0.8, 0 for raw = 0
  | heading (raw : Nat)      -- f32 `{}` of raw*180/256
  | trackCeil (v : Velocity) -- `libm::ceil(heading as f64)`
  | speedFloor (v : Velocity) -- `libm::floor(ground_speed)`
  deriving Repr

abbrev Line := List Piece
abbrev Report := List Line

def lit (s : String) : Piece := .lit s

def fsWord (fs : Nat) : String :=
  if fs = 0 ∨ fs = 4 ∨ fs = 5 then "airborne?" else if fs = 1 then "ground?" else if fs = 2 then "airborne"
  else if fs = 3 then "ground" else "reserved"

def capWord (c : Cap) : String :=
  if c.id = 0 then "uncertain1" else if c.id ≤ 3 then "reserved" else if c.id = 4 then "ground"
  else if c.id = 5 then "airborne" else if c.id = 6 then "uncertain2" else "airborne?"

def cfWord (cf : Nat) : String :=
  if cf = 0 ∨ cf = 1 then "(ADS-B)" else if cf = 2 ∨ cf = 3 ∨ cf = 5 then "(TIS-B)"
  else if cf = 4 ∨ cf = 6 then "(ADS-R)" else "(unknown addressing scheme)"

def emergencyWord (e : Nat) : String :=
  match e with
  | 0 => "no emergency" | 1 => "general" | 2 => "lifeguard" | 3 => "minimum fuel" | 4 => "no communication"
  | 5 => "unflawful interference" | 6 => "downed aircraft" | _ => "reserved2"

def tcLetter (tc : Nat) : String := match tc with | 1 => "D" | 2 => "C" | 3 => "B" | _ => "A"

def altLines (a : Alt) : Report :=
  [ [lit "  Altitude:      "] ++ (match a.alt with | none => [lit "None"] | some v => [.nat v, lit " ft barometric"]),
    [lit "  CPR type:      Airborne"],
    [lit "  CPR odd flag:  ", lit (if a.f = 0 then "even" else "odd")],
    [lit "  CPR latitude:  (", .nat a.lat, lit ")"],
    [lit "  CPR longitude: (", .nat a.lon, lit ")"] ]

def omPieces (o : OpMode) : Line :=
  (if o.ra = 1 then [lit " TCAS"] else []) ++ (if o.ident = 1 then [lit " IDENT_SWITCH_ACTIVE"] else []) ++
  (if o.atc = 1 then [lit " ATC"] else []) ++ (if o.saf = 1 then [lit " SAF"] else []) ++
  (if o.sda ≠ 0 then [lit " SDA=", .nat o.sda] else [])

def hrdLine (hrd : Nat) : Line := [lit (if hrd = 1 then "   Heading reference:  magnetic north" else "   Heading reference:  true north")]

/-- `ME::to_string(icao, address_type, capability, is_transponder)` -/
def meReport (me : ME) (icao : Nat) (addrType : String) (cap : Cap) (transponder : Bool) : Report :=
  let t := if transponder then " " else " (Non-Transponder) "
  let title (s : String) : Line := [lit (" Extended Squitter" ++ t ++ s)]
  let addr : Line := [lit "  Address:       ", .hex icao 6, lit (" " ++ addrType)]
  let ag : Line := [lit "  Air/Ground:    ", lit (capWord cap)]
  match me with
  | .noPosition _ => [title "No position information", addr, ag]
  | .ident i => [title "Aircraft identification and category", addr, ag, [lit "  Ident:         ", .text i.cn],
                 [lit "  Category:      ", lit (tcLetter i.tc), .nat i.ca]]
  | .surface _ => [title "Surface position", addr]
  | .airPosBaro a => [title "Airborne position (barometric altitude)", addr, ag] ++ altLines a
  | .velocity v =>
    (match v.sub with
    | .ground _ _ _ _ =>
      [title "Airborne velocity over ground, subsonic", addr, ag,
       [lit "  GNSS delta:    ", lit (if v.gnssSign = 0 then "" else "-"), .nat v.gnssDiff, lit " ft"]] ++
      (match v.calc with
       | some r => [[lit "  Heading:       ", .trackCeil r], [lit "  Speed:         ", .speedFloor r, lit " kt groundspeed"],
                    [lit "  Vertical rate: ", .int r.vrate, lit " ft/min ", lit (if v.vrateSrc = 0 then "barometric" else "GNSS")]]
       | none => [[lit "  Invalid packet"]])
    | .airspeed _ _ _ asp =>
      [title "Airspeed and heading, subsonic", addr, ag, [lit "  IAS:           ", .nat asp, lit " kt"]] ++
      (if v.vrate > 0 then [[lit "  Baro rate:     ", lit (if v.vrateSign = 0 then "" else "-"), .nat ((v.vrate - 1) * 64), lit " ft/min"]] else []) ++
      [[lit "  NACv:          ", .nat v.nacv]]
    | _ => [title "Airborne Velocity status (reserved)", addr])
  | .airPosGnss a => [title "Airborne position (GNSS altitude)", [lit "  Address:      ", .hex icao 6, lit (" " ++ addrType)]] ++ altLines a
  | .reserved0 _ => [title "Unknown", addr, ag]
  | .reserved1 _ => [title "Unknown", addr, ag]
  | .surfaceSystemStatus _ => [title "Reserved for surface system status", addr, ag]
  | .status s => [title "Emergency/priority status", addr, ag, [lit "  Squawk:        ", .hexNoPad s.squawk],
                  [lit "  Emergency/priority:    ", lit (emergencyWord s.emergency)]]
  | .tss x =>
    [title "Target state and status (V2)", addr, ag, [lit "  Target State and Status:"],
     [lit "    Target altitude:   MCP, ", .nat x.altitude, lit " ft"],
     [lit "    Altimeter setting: ", .qnh x.qnhRaw, lit " millibars"]] ++
    (if x.isHeading = 1 then [[lit "    Target heading:    ", .heading x.headingRaw]] else []) ++
    (if x.tcas = 1 then
      [[lit "    ACAS:              operational "] ++ (if x.autopilot = 1 then [lit "autopilot "] else []) ++
        (if x.vnav = 1 then [lit "vnav "] else []) ++ (if x.altHold = 1 then [lit "altitude-hold "] else []) ++
        (if x.approach = 1 then [lit " approach"] else [])]
     else [[lit "    ACAS:              NOT operational"]]) ++
    [[lit "    NACp:              ", .nat x.nacp], [lit "    NICbaro:           ", .nat x.nicbaro],
     [lit "    SIL:               ", .nat x.sil, lit " (per sample)"], [lit "    QNH:               ", .qnh x.qnhRaw, lit " millibars"]]
  | .opCoord _ => [title "Aircraft Operational Coordination", addr]
  | .opStatus (.airborne a) =>
    [title "Aircraft operational status (airborne)", addr, ag, [lit "  Aircraft Operational Status:"],
     [lit "   Version:            ", .nat a.version],
     [lit "   Capability classes:"] ++ (if a.acas = 1 then [lit " ACAS"] else []) ++ (if a.cdti = 1 then [lit " CDTI"] else []) ++
        (if a.arv = 1 then [lit " ARV"] else []) ++ (if a.ts = 1 then [lit " TS"] else []) ++ (if a.tc = 1 then [lit " TC"] else []),
     [lit "   Operational modes: "] ++ omPieces a.om,
     [lit "   NIC-A:              ", .nat a.nicA], [lit "   NACp:               ", .nat a.nacp], [lit "   GVA:                ", .nat a.gva],
     [lit "   SIL:                ", .nat a.sil, lit " (per hour)"], [lit "   NICbaro:            ", .nat a.nicbaro], hrdLine a.hrd]
  | .opStatus (.surface a) =>
    [title "Aircraft operational status (surface)", addr, ag, [lit "  Aircraft Operational Status:"],
     [lit "   Version:            ", .nat a.version], [lit "   NIC-A:              ", .nat a.nicA],
     [lit "   NIC-C:              ", .nat a.nicC], [lit "   NACv:               ", .nat a.nacv],
     [lit "   Capability classes:"] ++ (if a.lw ≠ 0 then [lit " L/W=", .nat a.lw] else []),
     [lit "   Operational modes: "] ++ omPieces a.om,
     [lit "   NACp:               ", .nat a.nacp], [lit "   SIL:                ", .nat a.sil, lit " (per hour)"],
     [lit "   NICbaro:            ", .nat a.nicbaro], hrdLine a.hrd]
  | .opStatus (.reserved _ _) => [title "Aircraft operational status (reserved)", addr]

def bdsReport : BDS → Report
  | .empty _ => [[lit "Comm-B format: empty response"]]
  | .ident cn => [[lit "Comm-B format: BDS2,0 Aircraft identification"], [lit "  Ident:         ", .text cn]]
  | .dataLink _ => [[lit "Comm-B format: BDS1,0 Datalink capabilities"]]
  | .unknown _ _ => [[lit "Comm-B format: unknown format"]]

/-- prefix the first line of a report (`write!(f, "  {bds}")`) -/
def indentFirst (p : String) : Report → Report
  | [] => []
  | l :: rest => (lit p :: l) :: rest

/-- `impl Display for Frame` -/
def report (f : Frame) : Report :=
  let icaoCrc : Line := [lit "  ICAO Address:  ", .hex f.crc 6, lit " (Mode S / ADS-B)"]
  match f.df with
  | .shortAirAir _ _ _ _ _ _ _ alt _ =>
    [[lit " Short Air-Air Surveillance"], icaoCrc] ++
    (if alt > 0 then [[lit "  Air/Ground:    airborne?"], [lit "  Altitude:      ", .nat alt, lit " ft barometric"]] else [[lit "  Air/Ground:    ground"]])
  | .survAlt fs _ _ ac _ =>
    [[lit " Surveillance, Altitude Reply"], icaoCrc, [lit "  Air/Ground:    ", lit (fsWord fs)]] ++
    (if ac > 0 then [[lit "  Altitude:      ", .nat ac, lit " ft barometric"]] else [])
  | .survId fs _ _ id _ =>
    [[lit " Surveillance, Identity Reply"], icaoCrc, [lit "  Air/Ground:    ", lit (fsWord fs)], [lit "  Identity:      ", .hex id 4]]
  | .allCall ca icao _ =>
    [[lit " All Call Reply"], [lit "  ICAO Address:  ", .hex icao 6, lit " (Mode S / ADS-B)"], [lit "  Air/Ground:    ", lit (capWord ca)]]
  | .longAirAir _ _ _ _ _ _ alt _ _ =>
    [[lit " Long Air-Air ACAS"], icaoCrc] ++
    (if alt > 0 then [[lit "  Air/Ground:    airborne?"], [lit "  Baro altitude: ", .nat alt, lit " ft"]] else [[lit "  Air/Ground:    ground"]])
  | .adsb ca icao me _ => meReport me icao "(Mode S / ADS-B)" ca true
  | .tisb cf aa me _ => meReport me aa (cfWord cf) ⟨7, 0⟩ false
  | .military _ => []
  | .commBAlt _ _ _ alt bds =>
    [[lit " Comm-B, Altitude Reply"], [lit "  ICAO Address:  ", .hexNoPad f.crc, lit " (Mode S / ADS-B)"],
     [lit "  Altitude:      ", .nat alt, lit " ft"]] ++ indentFirst "  " (bdsReport bds)
  | .commBId _ _ _ id bds _ =>
    [[lit " Comm-B, Identity Reply"], [lit "    ICAO Address:  ", .hexNoPad f.crc, lit " (Mode S / ADS-B)"],
     [lit "    Squawk:        ", .hexNoPad id]] ++ indentFirst "    " (bdsReport bds)
  | .modeS .. =>
    [[lit " Mode S Extended Squitter Message"], [lit "    ICAO Address:     ", .hexNoPad f.crc, lit " (Mode S / ADS-B)"]]

/-- lower-case hex without padding (`{:x?}`) -/
def hexNoPadStr (n : Nat) : String := String.ofList (Nat.toDigits 16 n)

def pi64' : Float := 3.14159265358979323846264338327950288

def pieceStr : Piece → String
  | .lit s => s
  | .nat n => toString n
  | .int i => toString i
  | .hex n w => hexStr n w
  | .hexNoPad n => hexNoPadStr n
  | .text cs => String.ofList (cs.map Char.ofNat)
  | .qnh raw => toString (Float32.toFloat (if raw == 0 then (0.0 : Float32) else (800.0 : Float32) + Float32.ofNat (raw - 1) * 0.8))
  | .heading raw => toString (Float32.toFloat (Float32.ofNat raw * 180.0 / 256.0))
  | .trackCeil v => toString (Float.ceil (headingG floatTrack v).toFloat32.toFloat)
  | .speedFloor v => toString (Float.floor (speedG floatTrack v))

def lineStr (l : Line) : String := String.join (l.map pieceStr)

/-- the rendered text: every line terminated by a newline -/
def render (f : Frame) : String := String.join ((report f).map (fun l => lineStr l ++ "\n"))

end Adsb
