import Adsb.Deku
import Adsb.ModeAC
import Adsb.Crc
/-! # The decoder: data types mirroring `DF`, `ME`, `BDS`, … and `decode`

Every reader follows the field order and attributes of the `#[derive(DekuRead)]` item it mirrors
(see `Gen/layout.txt`, which the translator regenerates and the check compares with the copy this
model was written against). Arrays of `u8` are read as one big-endian field of `8·k` bits (deku reads
them byte by byte; position, error and cache behaviour are identical). -/

namespace Adsb

/-- `Capability`: the 3-bit id; `reserved` is the payload of `Reserved(_)` (0 for the other variants) -/
structure Cap where
  id : Nat
  reserved : Nat
  deriving Repr, DecidableEq

/-- `DownlinkRequest`: the 5-bit id; `unknown` the payload of `Unknown(_)` -/
structure DR where
  id : Nat
  unknown : Option Nat
  deriving Repr, DecidableEq

structure UM where
  iis : Nat
  ids : Nat
  deriving Repr, DecidableEq

/-- `Altitude` (airborne position payload) -/
structure Alt where
  tc : Nat
  ss : Nat
  saf : Nat
  alt : Option Nat
  t : Nat
  f : Nat
  lat : Nat
  lon : Nat
  deriving Repr, DecidableEq

structure Ident where
  tc : Nat
  ca : Nat
  cn : List Nat      -- the characters (ASCII codes) after removing code 32 and table lookup
  deriving Repr, DecidableEq

structure Surf where
  mov : Nat
  s : Nat
  trk : Nat
  t : Nat
  f : Nat
  lat : Nat
  lon : Nat
  deriving Repr, DecidableEq

inductive VelSub where
  | reserved0 (raw : Nat)
  | ground (ewSign ewVel nsSign nsVel : Nat)
  | airspeed (statusHeading magHeading asType airspeed : Nat)
  | reserved1 (raw : Nat)
  deriving Repr, DecidableEq

structure Vel where
  st : Nat
  nacv : Nat
  sub : VelSub
  vrateSrc : Nat
  vrateSign : Nat
  vrate : Nat
  reserved : Nat
  gnssSign : Nat
  gnssDiff : Nat      -- after the map: (raw-1)*25, 0 for raw ≤ 1
  deriving Repr, DecidableEq

structure AcStatus where
  subType : Nat       -- 0,1,2 or 3 (= `Reserved`, any id ≥ 3)
  emergency : Nat
  squawk : Nat        -- `decode_id13_field` of the 13-bit code
  deriving Repr, DecidableEq

/-- `TargetStateAndStatusInformation`; `qnhRaw`/`headingRaw` are the raw codes, the `f32` maps are
`qnhHpa` / `headingDeg` below -/
structure TSS where
  subtype : Nat
  isFms : Nat
  altitude : Nat      -- after the map: (N-1)*32, 0 for N ≤ 1
  qnhRaw : Nat
  isHeading : Nat
  headingRaw : Nat
  nacp : Nat
  nicbaro : Nat
  sil : Nat
  modeValidity : Nat
  autopilot : Nat
  vnav : Nat
  altHold : Nat
  imf : Nat
  approach : Nat
  tcas : Nat
  lnav : Nat
  deriving Repr, DecidableEq

structure OpMode where
  ra : Nat
  ident : Nat
  atc : Nat
  saf : Nat
  sda : Nat
  deriving Repr, DecidableEq

structure OpAir where
  acas : Nat
  cdti : Nat
  arv : Nat
  ts : Nat
  tc : Nat
  om : OpMode
  version : Nat
  nicA : Nat
  nacp : Nat
  gva : Nat
  sil : Nat
  nicbaro : Nat
  hrd : Nat
  silSupp : Nat
  deriving Repr, DecidableEq

structure OpSurf where
  poe : Nat
  es1090 : Nat
  b2low : Nat
  uatIn : Nat
  nacv : Nat
  nicC : Nat
  lw : Nat
  om : OpMode
  gpsOffset : Nat
  version : Nat
  nicA : Nat
  nacp : Nat
  sil : Nat
  nicbaro : Nat
  hrd : Nat
  silSupp : Nat
  deriving Repr, DecidableEq

inductive OpStatus where
  | airborne (a : OpAir)
  | surface (s : OpSurf)
  | reserved (v : Nat) (data : Nat)
  deriving Repr, DecidableEq

inductive ME where
  | airPosBaro (a : Alt)
  | velocity (v : Vel)
  | noPosition (d : Nat)
  | ident (i : Ident)
  | surface (s : Surf)
  | airPosGnss (a : Alt)
  | reserved0 (d : Nat)
  | surfaceSystemStatus (d : Nat)
  | reserved1 (d : Nat)
  | status (s : AcStatus)
  | tss (t : TSS)
  | opCoord (d : Nat)
  | opStatus (o : OpStatus)
  deriving Repr, DecidableEq

structure DLC where
  continuation : Nat
  overlay : Nat
  acas : Nat
  subnet : Nat
  enhanced : Nat
  specific : Nat
  uplinkElm : Nat
  downlinkElm : Nat
  identCap : Nat
  squitterCap : Nat
  sic : Nat
  gicb : Nat
  reservedAcas : Nat
  bitArray : Nat
  deriving Repr, DecidableEq

inductive BDS where
  | empty (d : Nat)
  | dataLink (c : DLC)
  | ident (cn : List Nat)
  | unknown (id : Nat) (d : Nat)
  deriving Repr, DecidableEq

inductive DF where
  | adsb (ca : Cap) (icao : Nat) (me : ME) (pi : Nat)
  | allCall (ca : Cap) (icao : Nat) (pIcao : Nat)
  | shortAirAir (vs cc unused sl unused1 ri unused2 : Nat) (alt : Nat) (parity : Nat)
  | survAlt (fs : Nat) (dr : DR) (um : UM) (ac : Nat) (ap : Nat)
  | survId (fs : Nat) (dr : DR) (um : UM) (id : Nat) (ap : Nat)
  | longAirAir (vs spare1 sl spare2 ri spare3 : Nat) (alt : Nat) (mv : Nat) (parity : Nat)
  | tisb (cf : Nat) (aa : Nat) (me : ME) (pi : Nat)
  | military (af : Nat)
  | commBAlt (fs : Nat) (dr : DR) (um : UM) (alt : Nat) (bds : BDS)
  | commBId (fs : Nat) (dr : DR) (um : UM) (id : Nat) (bds : BDS) (parity : Nat)
  | modeS (df : Nat) (ca : Cap) (icao : Nat) (tc : Nat) (data : Nat) (parity : Nat)
  deriving Repr, DecidableEq

structure Frame where
  df : DF
  crc : Nat
  deriving Repr, DecidableEq

/-! ## readers

Each derived item has its own reader; an enum is a small dispatch function over the id that calls
one reader per variant (so a proof about one variant unfolds only that variant). `readBits` of an
enum id also stands for deku's reset of `last_bits_read_amt` (see `Deku.lean`). -/

/-- `Capability::Reserved`'s field reader (after the repair): restore the id (seek to the start of
its byte), skip the bits in front of the id, read the 3 id bits again. `start` = position of the id. -/
def readCapReserved (B : Buf) (id start : Nat) (s : RS) : Res (Cap × RS) := do
  let s ← seekBack 3 s
  let off := start % 8
  let s ← (if off = 0 then pure s else skipBits B off s)
  let (v, s) ← readBits B 3 s
  pure ({ id := id, reserved := v }, s)

/-- `Capability` -/
def readCap (B : Buf) (s : RS) : Res (Cap × RS) := do
  let start := s.bp
  let (id, s) ← readBits B 3 s
  if 1 ≤ id ∧ id ≤ 3 then readCapReserved B id start s
  else pure ({ id := id, reserved := 0 }, s)

/-- `DownlinkRequest::Unknown(_)`: restore the 5-bit id and read it as the value -/
def readDRUnknown (B : Buf) (id : Nat) (s : RS) : Res (DR × RS) := do
  let s ← seekBack 5 s
  let (v, s) ← readBits B 5 s
  pure ({ id := id, unknown := some v }, s)

/-- `DownlinkRequest` -/
def readDR (B : Buf) (s : RS) : Res (DR × RS) := do
  let (id, s) ← readBits B 5 s
  if id = 0 ∨ id = 1 ∨ id = 4 ∨ id = 5 then pure ({ id := id, unknown := none }, s)
  else readDRUnknown B id s

/-- `UtilityMessage` -/
def readUM (B : Buf) (s : RS) : Res (UM × RS) := do
  let (iis, s) ← readBits B 4 s
  let (ids, s) ← readBits B 2 s
  pure ({ iis := iis, ids := ids }, s)

/-- the 6-bit characters of `aircraft_identification_read`, before filtering -/
def readChars (B : Buf) : Nat → RS → Res (List Nat × RS)
  | 0, s => pure ([], s)
  | k + 1, s => do
    let (c, s) ← readBits B 6 s
    let (cs, s) ← readChars B k s
    pure (c :: cs, s)

def charOf (c : Nat) : Nat := Gen.charLookup.getD c 35

def identText (cs : List Nat) : List Nat := (cs.filter (· != 32)).map charOf

/-- `aircraft_identification_read` -/
def readIdent8 (B : Buf) (s : RS) : Res (List Nat × RS) := do
  let (cs, s) ← readChars B 8 s
  pure (identText cs, s)

/-- `Altitude` -/
def readAlt (B : Buf) (s : RS) : Res (Alt × RS) := do
  let (tc, s) ← readBits B 5 s
  let (ss, s) ← readBits B 2 s
  let (saf, s) ← readBits B 1 s
  let (ac, s) ← readBits B 12 s
  let (t, s) ← readBits B 1 s
  let (f, s) ← readBits B 1 s
  let (lat, s) ← readBits B 17 s
  let (lon, s) ← readBits B 17 s
  pure ({ tc := tc, ss := ss, saf := saf, alt := ac12 ac, t := t, f := f, lat := lat, lon := lon }, s)

/-- `Identification` -/
def readIdent (B : Buf) (s : RS) : Res (Ident × RS) := do
  let (tc, s) ← readBits B 5 s
  if ¬ (1 ≤ tc ∧ tc ≤ 4) then .err .parse else do
  let (ca, s) ← readBits B 3 s
  let (cn, s) ← readIdent8 B s
  pure ({ tc := tc, ca := ca, cn := cn }, s)

/-- `SurfacePosition` -/
def readSurf (B : Buf) (s : RS) : Res (Surf × RS) := do
  let (mov, s) ← readBits B 7 s
  let (st, s) ← readBits B 1 s
  let (trk, s) ← readBits B 7 s
  let (t, s) ← readBits B 1 s
  let (f, s) ← readBits B 1 s
  let (lat, s) ← readBits B 17 s
  let (lon, s) ← readBits B 17 s
  pure ({ mov := mov, s := st, trk := trk, t := t, f := f, lat := lat, lon := lon }, s)

def readVelReserved0 (B : Buf) (s : RS) : Res (VelSub × RS) := do
  let (raw, s) ← readBitsLE B 22 s
  pure (.reserved0 raw, s)

def readVelReserved1 (B : Buf) (s : RS) : Res (VelSub × RS) := do
  let (raw, s) ← readBitsLE B 22 s
  pure (.reserved1 raw, s)

/-- `GroundSpeedDecoding` -/
def readVelGround (B : Buf) (s : RS) : Res (VelSub × RS) := do
  let (ews, s) ← readBits B 1 s
  let (ewv, s) ← readBits B 10 s
  let (nss, s) ← readBits B 1 s
  let (nsv, s) ← readBits B 10 s
  pure (.ground ews ewv nss nsv, s)

/-- `AirspeedDecoding` -/
def readVelAirspeed (B : Buf) (s : RS) : Res (VelSub × RS) := do
  let (sh, s) ← readBits B 1 s
  let (mh, s) ← readBits B 10 s
  let (ty, s) ← readBits B 1 s
  let (asp, s) ← readBits B 10 s
  pure (.airspeed sh mh ty (if asp > 0 then asp - 1 else 0), s)

/-- `AirborneVelocitySubType` (id supplied by ctx: no id read, no restore) -/
def readVelSub (B : Buf) (st : Nat) (s : RS) : Res (VelSub × RS) :=
  if st = 0 then readVelReserved0 B s
  else if st ≤ 2 then readVelGround B s
  else if st ≤ 4 then readVelAirspeed B s
  else readVelReserved1 B s

/-- `AirborneVelocity` -/
def readVel (B : Buf) (s : RS) : Res (Vel × RS) := do
  let (st, s) ← readBits B 3 s
  let (nacv, s) ← readBits B 5 s
  let (sub, s) ← readVelSub B st s
  let (src, s) ← readBits B 1 s
  let (sgn, s) ← readBits B 1 s
  let (vr, s) ← readBits B 9 s
  let (rsv, s) ← readBits B 2 s
  let (gs, s) ← readBits B 1 s
  let (gd, s) ← readBits B 7 s
  pure ({ st := st, nacv := nacv, sub := sub, vrateSrc := src, vrateSign := sgn, vrate := vr, reserved := rsv,
          gnssSign := gs, gnssDiff := if gd > 1 then (gd - 1) * 25 else 0 }, s)

/-- `AircraftStatus` -/
def readAcStatus (B : Buf) (s : RS) : Res (AcStatus × RS) := do
  let (st, s) ← readBits B 3 s
  let (em, s) ← readBits B 3 s
  let (sq, s) ← readBits B 13 s
  let s ← skipBits B 32 s
  pure ({ subType := if st ≤ 2 then st else 3, emergency := em, squawk := decodeId13 sq }, s)

/-- `TargetStateAndStatusInformation` -/
def readTSS (B : Buf) (s : RS) : Res (TSS × RS) := do
  let (subtype, s) ← readBits B 2 s
  let s ← skipBits B 1 s
  let (isFms, s) ← readBits B 1 s
  let (alt, s) ← readBits B 11 s
  let (qnh, s) ← readBits B 9 s
  let (isHeading, s) ← readBits B 1 s
  let (heading, s) ← readBits B 9 s
  let (nacp, s) ← readBits B 4 s
  let (nicbaro, s) ← readBits B 1 s
  let (sil, s) ← readBits B 2 s
  let (mv, s) ← readBits B 1 s
  let (ap, s) ← readBits B 1 s
  let (vnav, s) ← readBits B 1 s
  let (ah, s) ← readBits B 1 s
  let (imf, s) ← readBits B 1 s
  let (app, s) ← readBits B 1 s
  let (tcas, s) ← readBits B 1 s
  let (lnav, s) ← readBits B 1 s
  let s ← skipBits B 2 s
  pure ({ subtype := subtype, isFms := isFms, altitude := if alt > 1 then (alt - 1) * 32 else 0, qnhRaw := qnh,
          isHeading := isHeading, headingRaw := heading, nacp := nacp, nicbaro := nicbaro, sil := sil,
          modeValidity := mv, autopilot := ap, vnav := vnav, altHold := ah, imf := imf, approach := app,
          tcas := tcas, lnav := lnav }, s)

/-- `OperationalMode` -/
def readOpMode (B : Buf) (s : RS) : Res (OpMode × RS) := do
  let (r, s) ← readBits B 2 s
  if r ≠ 0 then .err .assertion else do
  let (ra, s) ← readBits B 1 s
  let (ident, s) ← readBits B 1 s
  let (atc, s) ← readBits B 1 s
  let (saf, s) ← readBits B 1 s
  let (sda, s) ← readBits B 2 s
  pure ({ ra := ra, ident := ident, atc := atc, saf := saf, sda := sda }, s)

/-- `ADSBVersion` -/
def readVersion (B : Buf) (s : RS) : Res (Nat × RS) := do
  let (v, s) ← readBits B 3 s
  if v ≤ 2 then pure (v, s) else .err .parse

/-- `OperationStatusAirborne` -/
def readOpAir (B : Buf) (s : RS) : Res (OpAir × RS) := do
  let (r0, s) ← readBits B 2 s
  if r0 ≠ 0 then .err .assertion else do
  let (acas, s) ← readBits B 1 s
  let (cdti, s) ← readBits B 1 s
  let (r1, s) ← readBits B 2 s
  if r1 ≠ 0 then .err .assertion else do
  let (arv, s) ← readBits B 1 s
  let (ts, s) ← readBits B 1 s
  let (tc, s) ← readBits B 2 s
  let s ← skipBits B 6 s
  let (om, s) ← readOpMode B s
  let s ← skipBits B 8 s
  let (ver, s) ← readVersion B s
  let (nicA, s) ← readBits B 1 s
  let (nacp, s) ← readBits B 4 s
  let (gva, s) ← readBits B 2 s
  let (sil, s) ← readBits B 2 s
  let (nicbaro, s) ← readBits B 1 s
  let (hrd, s) ← readBits B 1 s
  let (ss, s) ← readBits B 1 s
  let s ← skipBits B 1 s
  pure ({ acas := acas, cdti := cdti, arv := arv, ts := ts, tc := tc, om := om, version := ver, nicA := nicA,
          nacp := nacp, gva := gva, sil := sil, nicbaro := nicbaro, hrd := hrd, silSupp := ss }, s)

/-- `OperationStatusSurface` -/
def readOpSurf (B : Buf) (s : RS) : Res (OpSurf × RS) := do
  let (r0, s) ← readBits B 2 s
  if r0 ≠ 0 then .err .assertion else do
  let (poe, s) ← readBits B 1 s
  let (es, s) ← readBits B 1 s
  let s ← skipBits B 2 s
  let (b2, s) ← readBits B 1 s
  let (uat, s) ← readBits B 1 s
  let (nacv, s) ← readBits B 3 s
  let (nicC, s) ← readBits B 1 s
  let (lw, s) ← readBits B 4 s
  let (om, s) ← readOpMode B s
  let (gps, s) ← readBits B 8 s
  let (ver, s) ← readVersion B s
  let (nicA, s) ← readBits B 1 s
  let (nacp, s) ← readBits B 4 s
  let s ← skipBits B 2 s
  let (sil, s) ← readBits B 2 s
  let (nicbaro, s) ← readBits B 1 s
  let (hrd, s) ← readBits B 1 s
  let (ss, s) ← readBits B 1 s
  let s ← skipBits B 1 s
  pure ({ poe := poe, es1090 := es, b2low := b2, uatIn := uat, nacv := nacv, nicC := nicC, lw := lw, om := om,
          gpsOffset := gps, version := ver, nicA := nicA, nacp := nacp, sil := sil, nicbaro := nicbaro, hrd := hrd,
          silSupp := ss }, s)

/-- `OperationStatus::Reserved`: restores the 3-bit subtype id, i.e. goes back to the start of the ME -/
def readOpReserved (B : Buf) (s : RS) : Res (OpStatus × RS) := do
  let s ← seekBack 3 s
  let (v, s) ← readBits B 5 s
  let (d, s) ← readBits B 40 s
  let s ← skipBits B 11 s
  pure (.reserved v d, s)

def readOpAirborne (B : Buf) (s : RS) : Res (OpStatus × RS) := do
  let (a, s) ← readOpAir B s
  pure (.airborne a, s)

def readOpSurface (B : Buf) (s : RS) : Res (OpStatus × RS) := do
  let (a, s) ← readOpSurf B s
  pure (.surface a, s)

/-- `OperationStatus` -/
def readOpStatus (B : Buf) (s : RS) : Res (OpStatus × RS) := do
  let (st, s) ← readBits B 3 s
  if st = 0 then readOpAirborne B s
  else if st = 1 then readOpSurface B s
  else readOpReserved B s

/-! ### `ME` variants -/

/-- type codes 9–18 and 20–22: restore the type code, read `Altitude` -/
def meAirPos (B : Buf) (s : RS) : Res (Alt × RS) := do
  let s ← seekBack 5 s
  readAlt B s

def meAirPosBaro (B : Buf) (s : RS) : Res (ME × RS) := do
  let (a, s) ← meAirPos B s
  pure (.airPosBaro a, s)

def meAirPosGnss (B : Buf) (s : RS) : Res (ME × RS) := do
  let (a, s) ← meAirPos B s
  pure (.airPosGnss a, s)

def meVelocity (B : Buf) (s : RS) : Res (ME × RS) := do
  let (v, s) ← readVel B s
  pure (.velocity v, s)

/-- type codes 0, 23, 30: 48 bits then 3 padding bits -/
def meRaw53 (B : Buf) (s : RS) : Res (Nat × RS) := do
  let (d, s) ← readBits B 48 s
  let s ← skipBits B 3 s
  pure (d, s)

def meNoPosition (B : Buf) (s : RS) : Res (ME × RS) := do
  let (d, s) ← meRaw53 B s
  pure (.noPosition d, s)

def meReserved0 (B : Buf) (s : RS) : Res (ME × RS) := do
  let (d, s) ← meRaw53 B s
  pure (.reserved0 d, s)

def meOpCoord (B : Buf) (s : RS) : Res (ME × RS) := do
  let (d, s) ← meRaw53 B s
  pure (.opCoord d, s)

/-- type codes 24–27: restore the type code, 48 bits, one padding byte -/
def meRaw56 (B : Buf) (s : RS) : Res (Nat × RS) := do
  let s ← seekBack 5 s
  let (d, s) ← readBits B 48 s
  let s ← skipBits B 8 s
  pure (d, s)

def meSurfaceSystemStatus (B : Buf) (s : RS) : Res (ME × RS) := do
  let (d, s) ← meRaw56 B s
  pure (.surfaceSystemStatus d, s)

def meReserved1 (B : Buf) (s : RS) : Res (ME × RS) := do
  let (d, s) ← meRaw56 B s
  pure (.reserved1 d, s)

def meIdent (B : Buf) (s : RS) : Res (ME × RS) := do
  let s ← seekBack 5 s
  let (i, s) ← readIdent B s
  pure (.ident i, s)

def meSurface (B : Buf) (s : RS) : Res (ME × RS) := do
  let (p, s) ← readSurf B s
  pure (.surface p, s)

def meStatus (B : Buf) (s : RS) : Res (ME × RS) := do
  let (a, s) ← readAcStatus B s
  pure (.status a, s)

def meTSS (B : Buf) (s : RS) : Res (ME × RS) := do
  let (t, s) ← readTSS B s
  pure (.tss t, s)

def meOpStatus (B : Buf) (s : RS) : Res (ME × RS) := do
  let (o, s) ← readOpStatus B s
  pure (.opStatus o, s)

/-- the variant selected by a type code, in the order of the `match` deku generates -/
def meBody (tc : Nat) (B : Buf) (s : RS) : Res (ME × RS) :=
  if 9 ≤ tc ∧ tc ≤ 18 then meAirPosBaro B s
  else if tc = 19 then meVelocity B s
  else if tc = 0 then meNoPosition B s
  else if tc ≤ 4 then meIdent B s
  else if tc ≤ 8 then meSurface B s
  else if 20 ≤ tc ∧ tc ≤ 22 then meAirPosGnss B s
  else if tc = 23 then meReserved0 B s
  else if tc = 24 then meSurfaceSystemStatus B s
  else if tc ≤ 27 then meReserved1 B s
  else if tc = 28 then meStatus B s
  else if tc = 29 then meTSS B s
  else if tc = 30 then meOpCoord B s
  else meOpStatus B s

/-- `ME` -/
def readME (B : Buf) (s : RS) : Res (ME × RS) := do
  let (tc, s) ← readBits B 5 s
  meBody tc B s

/-- `DataLinkCapability` -/
def readDLC (B : Buf) (s : RS) : Res (DLC × RS) := do
  let (cont, s) ← readBits B 1 s
  let s ← skipBits B 5 s
  let (ov, s) ← readBits B 1 s
  let (acas, s) ← readBits B 1 s
  let (sub, s) ← readBits B 7 s
  let (enh, s) ← readBits B 1 s
  let (spec, s) ← readBits B 1 s
  let (up, s) ← readBits B 3 s
  let (down, s) ← readBits B 4 s
  let (ic, s) ← readBits B 1 s
  let (sc, s) ← readBits B 1 s
  let (sic, s) ← readBits B 1 s
  let (gicb, s) ← readBits B 1 s
  let (ra, s) ← readBits B 4 s
  let (ba, s) ← readBits B 16 s
  pure ({ continuation := cont, overlay := ov, acas := acas, subnet := sub, enhanced := enh, specific := spec,
          uplinkElm := up, downlinkElm := down, identCap := ic, squitterCap := sc, sic := sic, gicb := gicb,
          reservedAcas := ra, bitArray := ba }, s)

def bdsEmpty (B : Buf) (s : RS) : Res (BDS × RS) := do
  let (d, s) ← readBits B 48 s
  pure (.empty d, s)

def bdsDataLink (B : Buf) (s : RS) : Res (BDS × RS) := do
  let (c, s) ← readDLC B s
  pure (.dataLink c, s)

def bdsIdent (B : Buf) (s : RS) : Res (BDS × RS) := do
  let (cn, s) ← readIdent8 B s
  pure (.ident cn, s)

/-- `BDS::Unknown`: restores the 8-bit id and reads it as the first element of the tuple -/
def bdsUnknown (B : Buf) (s : RS) : Res (BDS × RS) := do
  let s ← seekBack 8 s
  let (i, s) ← readBits B 8 s
  let (d, s) ← readBits B 48 s
  pure (.unknown i d, s)

def bdsBody (id : Nat) (B : Buf) (s : RS) : Res (BDS × RS) :=
  if id = 0x00 then bdsEmpty B s
  else if id = 0x10 then bdsDataLink B s
  else if id = 0x20 then bdsIdent B s
  else bdsUnknown B s

/-- `BDS` -/
def readBDS (B : Buf) (s : RS) : Res (BDS × RS) := do
  let (id, s) ← readBits B 8 s
  bdsBody id B s

/-! ### `DF` variants -/

def dfADSB (B : Buf) (s : RS) : Res (DF × RS) := do
  let (ca, s) ← readCap B s
  let (icao, s) ← readBits B 24 s
  let (me, s) ← readME B s
  let (pi, s) ← readBits B 24 s
  pure (.adsb ca icao me pi, s)

def dfAllCall (B : Buf) (s : RS) : Res (DF × RS) := do
  let (ca, s) ← readCap B s
  let (icao, s) ← readBits B 24 s
  let (p, s) ← readBits B 24 s
  pure (.allCall ca icao p, s)

def dfShortAirAir (B : Buf) (s : RS) : Res (DF × RS) := do
  let (vs, s) ← readBits B 1 s
  let (cc, s) ← readBits B 1 s
  let (u0, s) ← readBits B 1 s
  let (sl, s) ← readBits B 3 s
  let (u1, s) ← readBits B 2 s
  let (ri, s) ← readBits B 4 s
  let (u2, s) ← readBits B 2 s
  let (ac, s) ← readBits B 13 s
  let (p, s) ← readBits B 24 s
  pure (.shortAirAir vs cc u0 sl u1 ri u2 (ac13 ac) p, s)

def dfSurvAlt (B : Buf) (s : RS) : Res (DF × RS) := do
  let (fs, s) ← readBits B 3 s
  let (dr, s) ← readDR B s
  let (um, s) ← readUM B s
  let (ac, s) ← readBits B 13 s
  let (p, s) ← readBits B 24 s
  pure (.survAlt fs dr um (ac13 ac) p, s)

def dfSurvId (B : Buf) (s : RS) : Res (DF × RS) := do
  let (fs, s) ← readBits B 3 s
  let (dr, s) ← readDR B s
  let (um, s) ← readUM B s
  let (ic, s) ← readBits B 13 s
  let (p, s) ← readBits B 24 s
  pure (.survId fs dr um (identityCode ic) p, s)

def dfLongAirAir (B : Buf) (s : RS) : Res (DF × RS) := do
  let (vs, s) ← readBits B 1 s
  let (s1, s) ← readBits B 2 s
  let (sl, s) ← readBits B 3 s
  let (s2, s) ← readBits B 2 s
  let (ri, s) ← readBits B 4 s
  let (s3, s) ← readBits B 2 s
  let (ac, s) ← readBits B 13 s
  let (mv, s) ← readBits B 56 s
  let (p, s) ← readBits B 24 s
  pure (.longAirAir vs s1 sl s2 ri s3 (ac13 ac) mv p, s)

def dfTisB (B : Buf) (s : RS) : Res (DF × RS) := do
  let (cf, s) ← readBits B 3 s
  let (aa, s) ← readBits B 24 s
  let (me, s) ← readME B s
  let (pi, s) ← readBits B 24 s
  pure (.tisb cf aa me pi, s)

def dfMilitary (B : Buf) (s : RS) : Res (DF × RS) := do
  let (af, s) ← readBits B 3 s
  pure (.military af, s)

def dfCommBAlt (B : Buf) (s : RS) : Res (DF × RS) := do
  let (fs, s) ← readBits B 3 s
  let (dr, s) ← readDR B s
  let (um, s) ← readUM B s
  let (ac, s) ← readBits B 13 s
  let (bds, s) ← readBDS B s
  pure (.commBAlt fs dr um (ac13 ac) bds, s)

def dfCommBId (B : Buf) (s : RS) : Res (DF × RS) := do
  let (fs, s) ← readBits B 3 s
  let (dr, s) ← readDR B s
  let (um, s) ← readUM B s
  let (ic, s) ← readBits B 13 s
  let (bds, s) ← readBDS B s
  let (p, s) ← readBits B 24 s
  pure (.commBId fs dr um (decodeId13 ic) bds p, s)

/-- `DF::ModeSExtendedSquitter` (`id_pat = "24..=31"`): restore the format id, read it as `df` -/
def dfModeS (B : Buf) (s : RS) : Res (DF × RS) := do
  let s ← seekBack 5 s
  let (df, s) ← readBits B 5 s
  let (ca, s) ← readCap B s
  let (icao, s) ← readBits B 24 s
  let (tc, s) ← readBits B 5 s
  let (data, s) ← readBitsLE B 51 s
  let (p, s) ← readBits B 24 s
  pure (.modeS df ca icao tc data p, s)

/-- the variant selected by the 5-bit format code -/
def dfBody (id : Nat) (B : Buf) (s : RS) : Res (DF × RS) :=
  if id = 17 then dfADSB B s
  else if id = 11 then dfAllCall B s
  else if id = 0 then dfShortAirAir B s
  else if id = 4 then dfSurvAlt B s
  else if id = 5 then dfSurvId B s
  else if id = 16 then dfLongAirAir B s
  else if id = 18 then dfTisB B s
  else if id = 19 then dfMilitary B s
  else if id = 20 then dfCommBAlt B s
  else if id = 21 then dfCommBId B s
  else if 24 ≤ id then dfModeS B s
  else .err .parse

/-- `DF` -/
def readDF (B : Buf) (s : RS) : Res (DF × RS) := do
  let (id, s) ← readBits B 5 s
  dfBody id B s

/-- the 5-bit format code a decoded `DF` value stands for (`deku_id()`; `none` for the `id_pat` variant) -/
def DF.dekuId : DF → Option Nat
  | .adsb .. => some 17 | .allCall .. => some 11 | .shortAirAir .. => some 0 | .survAlt .. => some 4
  | .survId .. => some 5 | .longAirAir .. => some 16 | .tisb .. => some 18 | .military .. => some 19
  | .commBAlt .. => some 20 | .commBId .. => some 21 | .modeS .. => none

/-- bits of the frame the checksum covers, from the decoded format -/
def DF.bitLen (df : DF) : Nat :=
  match df.dekuId with
  | some id => if id &&& 0x10 != 0 then 112 else 56
  | none => 112

/-- `Frame::read_crc`: the checksum window is the `ReaderCrc` cache (the first `hi` bytes), extended by
`read_to_end` when it holds fewer bits than the format needs -/
def readCrc (B : Buf) (df : DF) (hi : Nat) : Res Nat :=
  let cache := if df.bitLen > hi * 8 then B.bytes else B.bytes.take hi
  modesChecksum cache df.bitLen

/-- `Frame::from_bytes` -/
def decode (B : Buf) : Res Frame := do
  let (df, s) ← readDF B RS.init
  let crc ← readCrc B df s.hi
  pure { df := df, crc := crc }

end Adsb
