import Adsb.Bits
/-! # Text form of an ICAO address (`Display` and `FromStr` of `ICAO`) -/

namespace Adsb

/-- `ICAO::fmt`: three `{:02x}` bytes = six lower-case hex digits of the 24-bit value -/
def icaoToString (a : Nat) : List Char := toHex a 6

def hexStep (acc : Option Nat) (c : Char) : Option Nat :=
  match acc, hexVal c with | some v, some d => some (16 * v + d) | _, _ => none

/-- `u32::from_str_radix(s, 16)` (digits in either case, optional leading `+`, no empty string, 32-bit overflow is
an error) followed by dropping the top byte of the big-endian representation -/
def stripPlus : List Char → List Char
  | '+' :: r => r
  | r => r

def parseRadix16 (s : List Char) : Option Nat :=
  let digits := stripPlus s
  if digits.isEmpty then none else
  match digits.foldl hexStep (some 0) with
  | some v => if v < 2 ^ 32 then some (v % 2 ^ 24) else none
  | none => none

end Adsb
