import Adsb.Lemmas.Reject
/-! # Bytes after the frame: every bit field inside the frame is unchanged by appending bytes -/

namespace Adsb
set_option linter.unusedSimpArgs false

theorem bit_append (b e : List UInt8) (i : Nat) (h : i < 8 * b.length) : (Buf.mk (b ++ e)).bit i = (Buf.mk b).bit i := by
  unfold Buf.bit
  have : i / 8 < b.length := by omega
  simp [List.getD_eq_getElem?_getD, List.getElem?_append_left this]

theorem bitsAt_append (b e : List UInt8) (off w : Nat) (h : off + w ≤ 8 * b.length) :
    bitsAt (Buf.mk (b ++ e)) off w = bitsAt (Buf.mk b) off w := by
  induction w with
  | zero => rfl
  | succ w ih =>
    simp only [bitsAt]
    rw [ih (by omega), bit_append b e (off + w) (by omega)]

theorem leGo_append (b e : List UInt8) (r k off : Nat) (h : off + 8 * k + r ≤ 8 * b.length) :
    leGo (Buf.mk (b ++ e)) off r k = leGo (Buf.mk b) off r k := by
  induction k generalizing off with
  | zero => exact bitsAt_append b e off r (by omega)
  | succ k ih =>
    simp only [leGo]
    rw [bitsAt_append b e off 8 (by omega), ih (off + 8) (by omega)]

theorem leBitsAt_append (b e : List UInt8) (off n : Nat) (h : off + n ≤ 8 * b.length) :
    leBitsAt (Buf.mk (b ++ e)) off n = leBitsAt (Buf.mk b) off n := by
  unfold leBitsAt
  exact leGo_append b e _ _ off (by omega)

theorem crcVal_append (b e : List UInt8) (n : Nat) (h3 : 3 ≤ n) (hn : n ≤ b.length) :
    crcVal (b ++ e) n = crcVal b n := by
  rw [← crcVal_take (b ++ e) n b.length h3 hn, List.take_left' rfl]

section
variable (b e : List UInt8)

theorem capAt_append (h : 7 ≤ b.length) : capAt (Buf.mk (b ++ e)) = capAt (Buf.mk b) := by
  simp (disch := omega) only [capAt, bitsAt_append]
theorem drAt_append (h : 7 ≤ b.length) : drAt (Buf.mk (b ++ e)) = drAt (Buf.mk b) := by
  simp (disch := omega) only [drAt, bitsAt_append]
theorem umAt_append (h : 7 ≤ b.length) : umAt (Buf.mk (b ++ e)) = umAt (Buf.mk b) := by
  simp (disch := omega) only [umAt, bitsAt_append]
theorem altAt_append (h : 14 ≤ b.length) : altAt (Buf.mk (b ++ e)) = altAt (Buf.mk b) := by
  simp (disch := omega) only [altAt, bitsAt_append]
theorem identAt_append (h : 14 ≤ b.length) : identAt (Buf.mk (b ++ e)) 40 = identAt (Buf.mk b) 40 := by
  simp (disch := omega) only [identAt, bitsAt_append]
theorem velAt_append (h : 14 ≤ b.length) : velAt (Buf.mk (b ++ e)) = velAt (Buf.mk b) := by
  simp (disch := omega) only [velAt, velSubAt, bitsAt_append, leBitsAt_append]
theorem surfAt_append (h : 14 ≤ b.length) : surfAt (Buf.mk (b ++ e)) = surfAt (Buf.mk b) := by
  simp (disch := omega) only [surfAt, bitsAt_append]
theorem statusAt_append (h : 14 ≤ b.length) : statusAt (Buf.mk (b ++ e)) = statusAt (Buf.mk b) := by
  simp (disch := omega) only [statusAt, bitsAt_append]
theorem tssAt_append (h : 14 ≤ b.length) : tssAt (Buf.mk (b ++ e)) = tssAt (Buf.mk b) := by
  simp (disch := omega) only [tssAt, bitsAt_append]
theorem opAirAt_append (h : 14 ≤ b.length) : opAirAt (Buf.mk (b ++ e)) = opAirAt (Buf.mk b) := by
  simp (disch := omega) only [opAirAt, bitsAt_append]
theorem opSurfAt_append (h : 14 ≤ b.length) : opSurfAt (Buf.mk (b ++ e)) = opSurfAt (Buf.mk b) := by
  simp (disch := omega) only [opSurfAt, bitsAt_append]
theorem opStatusAt_append (h : 14 ≤ b.length) : opStatusAt (Buf.mk (b ++ e)) = opStatusAt (Buf.mk b) := by
  unfold opStatusAt
  rw [opAirAt_append b e h, opSurfAt_append b e h, bitsAt_append b e 37 3 (by omega), bitsAt_append b e 32 5 (by omega),
    bitsAt_append b e 37 40 (by omega)]
theorem meAt_append (h : 14 ≤ b.length) : meAt (Buf.mk (b ++ e)) = meAt (Buf.mk b) := by
  unfold meAt
  simp (maxSteps := 4000000) (disch := omega) only [altAt_append b e h, identAt_append b e h, velAt_append b e h, surfAt_append b e h,
    statusAt_append b e h, tssAt_append b e h, opStatusAt_append b e h, bitsAt_append]
theorem dlcAt_append (h : 14 ≤ b.length) : dlcAt (Buf.mk (b ++ e)) = dlcAt (Buf.mk b) := by
  simp (disch := omega) only [dlcAt, bitsAt_append]
theorem bdsAt_append (h : 14 ≤ b.length) : bdsAt (Buf.mk (b ++ e)) = bdsAt (Buf.mk b) := by
  unfold bdsAt
  rw [dlcAt_append b e h, identAt_append b e h, bitsAt_append b e 32 8 (by omega), bitsAt_append b e 40 48 (by omega)]

/-- a 112-bit frame decodes to the same `DF` value whatever follows it -/
theorem dfAt_append_long (h : 14 ≤ b.length) : dfAt (Buf.mk (b ++ e)) = dfAt (Buf.mk b) := by
  unfold dfAt
  simp (maxSteps := 4000000) (disch := omega) only [meAt_append b e h, bdsAt_append b e h, capAt_append b e (by omega), drAt_append b e (by omega),
    umAt_append b e (by omega), bitsAt_append, leBitsAt_append]

/-- a 56-bit frame decodes to the same `DF` value whatever follows it -/
theorem dfAt_append_short (h : 7 ≤ b.length)
    (hs : bitsAt (Buf.mk b) 0 5 = 0 ∨ bitsAt (Buf.mk b) 0 5 = 4 ∨ bitsAt (Buf.mk b) 0 5 = 5 ∨ bitsAt (Buf.mk b) 0 5 = 11) :
    dfAt (Buf.mk (b ++ e)) = dfAt (Buf.mk b) := by
  have e0 : bitsAt (Buf.mk (b ++ e)) 0 5 = bitsAt (Buf.mk b) 0 5 := bitsAt_append b e 0 5 (by omega)
  unfold dfAt
  simp only [e0]
  rcases hs with c | c | c | c <;>
    simp (disch := omega) only [c, capAt_append b e h, drAt_append b e h, umAt_append b e h, bitsAt_append,
      Nat.reduceEqDiff, if_true, if_false, reduceIte]

theorem meOk_append (h : 14 ≤ b.length) : meOk (Buf.mk (b ++ e)) ↔ meOk (Buf.mk b) := by
  simp (disch := omega) only [meOk, opOk, opAirOk, opSurfOk, bitsAt_append]

end
end Adsb
