import Adsb.Lemmas.Paths
/-! # `decode_char`: `decode` in closed form, and the acceptance set -/

namespace Adsb
set_option maxRecDepth 4000
set_option linter.unusedSimpArgs false

def dlcAt (B : Buf) : DLC :=
  { continuation := bitsAt B 40 1, overlay := bitsAt B 46 1, acas := bitsAt B 47 1, subnet := bitsAt B 48 7,
    enhanced := bitsAt B 55 1, specific := bitsAt B 56 1, uplinkElm := bitsAt B 57 3, downlinkElm := bitsAt B 60 4,
    identCap := bitsAt B 64 1, squitterCap := bitsAt B 65 1, sic := bitsAt B 66 1, gicb := bitsAt B 67 1,
    reservedAcas := bitsAt B 68 4, bitArray := bitsAt B 72 16 }

/-- the Comm-B message field (frame bits 32–87) -/
def bdsAt (B : Buf) : BDS :=
  if bitsAt B 32 8 = 0x00 then .empty (bitsAt B 40 48)
  else if bitsAt B 32 8 = 0x10 then .dataLink (dlcAt B)
  else if bitsAt B 32 8 = 0x20 then .ident (identAt B 40)
  else .unknown (bitsAt B 32 8) (bitsAt B 40 48)

theorem readBDS_ok (B : Buf) (h : 11 ≤ B.len) : readBDS B ⟨32, 4⟩ = .ok (bdsAt B, ⟨88, 11⟩) := by
  have e : readBDS B ⟨32, 4⟩ = bdsBody (bitsAt B 32 8) B ⟨40, 5⟩ := by dk [readBDS]
  rw [e]
  by_cases c1 : bitsAt B 32 8 = 0x00
  · dk [bdsBody, bdsAt, c1, bdsEmpty]
  by_cases c2 : bitsAt B 32 8 = 0x10
  · dk [bdsBody, bdsAt, c2, bdsDataLink, readDLC_ok, dlcAt]
  by_cases c3 : bitsAt B 32 8 = 0x20
  · dk [bdsBody, bdsAt, c3, bdsIdent, readIdent8_ok, identAt]
  · dk [bdsBody, bdsAt, c1, c2, c3, bdsUnknown]

/-- the decoded `DF` as bit fields of the frame; same case order as the decoder's `match` -/
def dfAt (B : Buf) : DF :=
  let id := bitsAt B 0 5
  if id = 17 then .adsb (capAt B) (bitsAt B 8 24) (meAt B) (bitsAt B 88 24)
  else if id = 11 then .allCall (capAt B) (bitsAt B 8 24) (bitsAt B 32 24)
  else if id = 0 then .shortAirAir (bitsAt B 5 1) (bitsAt B 6 1) (bitsAt B 7 1) (bitsAt B 8 3) (bitsAt B 11 2)
      (bitsAt B 13 4) (bitsAt B 17 2) (ac13 (bitsAt B 19 13)) (bitsAt B 32 24)
  else if id = 4 then .survAlt (bitsAt B 5 3) (drAt B) (umAt B) (ac13 (bitsAt B 19 13)) (bitsAt B 32 24)
  else if id = 5 then .survId (bitsAt B 5 3) (drAt B) (umAt B) (identityCode (bitsAt B 19 13)) (bitsAt B 32 24)
  else if id = 16 then .longAirAir (bitsAt B 5 1) (bitsAt B 6 2) (bitsAt B 8 3) (bitsAt B 11 2) (bitsAt B 13 4)
      (bitsAt B 17 2) (ac13 (bitsAt B 19 13)) (bitsAt B 32 56) (bitsAt B 88 24)
  else if id = 18 then .tisb (bitsAt B 5 3) (bitsAt B 8 24) (meAt B) (bitsAt B 88 24)
  else if id = 19 then .military (bitsAt B 5 3)
  else if id = 20 then .commBAlt (bitsAt B 5 3) (drAt B) (umAt B) (ac13 (bitsAt B 19 13)) (bdsAt B)
  else if id = 21 then .commBId (bitsAt B 5 3) (drAt B) (umAt B) (decodeId13 (bitsAt B 19 13)) (bdsAt B) (bitsAt B 88 24)
  else .modeS (bitsAt B 0 5) (capAt B) (bitsAt B 8 24) (bitsAt B 32 5) (leBitsAt B 37 51) (bitsAt B 88 24)

theorem dfAt_17 (B : Buf) (c : bitsAt B 0 5 = 17) : dfAt B = .adsb (capAt B) (bitsAt B 8 24) (meAt B) (bitsAt B 88 24) := by
  simp [dfAt, c]
theorem dfAt_11 (B : Buf) (c : bitsAt B 0 5 = 11) : dfAt B = .allCall (capAt B) (bitsAt B 8 24) (bitsAt B 32 24) := by
  simp [dfAt, c]
theorem dfAt_0 (B : Buf) (c : bitsAt B 0 5 = 0) : dfAt B = .shortAirAir (bitsAt B 5 1) (bitsAt B 6 1) (bitsAt B 7 1) (bitsAt B 8 3)
    (bitsAt B 11 2) (bitsAt B 13 4) (bitsAt B 17 2) (ac13 (bitsAt B 19 13)) (bitsAt B 32 24) := by
  simp [dfAt, c]
theorem dfAt_4 (B : Buf) (c : bitsAt B 0 5 = 4) : dfAt B = .survAlt (bitsAt B 5 3) (drAt B) (umAt B) (ac13 (bitsAt B 19 13)) (bitsAt B 32 24) := by
  simp [dfAt, c]
theorem dfAt_5 (B : Buf) (c : bitsAt B 0 5 = 5) : dfAt B = .survId (bitsAt B 5 3) (drAt B) (umAt B) (identityCode (bitsAt B 19 13)) (bitsAt B 32 24) := by
  simp [dfAt, c]
theorem dfAt_16 (B : Buf) (c : bitsAt B 0 5 = 16) : dfAt B = .longAirAir (bitsAt B 5 1) (bitsAt B 6 2) (bitsAt B 8 3) (bitsAt B 11 2) (bitsAt B 13 4)
    (bitsAt B 17 2) (ac13 (bitsAt B 19 13)) (bitsAt B 32 56) (bitsAt B 88 24) := by
  simp [dfAt, c]
theorem dfAt_18 (B : Buf) (c : bitsAt B 0 5 = 18) : dfAt B = .tisb (bitsAt B 5 3) (bitsAt B 8 24) (meAt B) (bitsAt B 88 24) := by
  simp [dfAt, c]
theorem dfAt_19 (B : Buf) (c : bitsAt B 0 5 = 19) : dfAt B = .military (bitsAt B 5 3) := by
  simp [dfAt, c]
theorem dfAt_20 (B : Buf) (c : bitsAt B 0 5 = 20) : dfAt B = .commBAlt (bitsAt B 5 3) (drAt B) (umAt B) (ac13 (bitsAt B 19 13)) (bdsAt B) := by
  simp [dfAt, c]
theorem dfAt_21 (B : Buf) (c : bitsAt B 0 5 = 21) : dfAt B = .commBId (bitsAt B 5 3) (drAt B) (umAt B) (decodeId13 (bitsAt B 19 13)) (bdsAt B) (bitsAt B 88 24) := by
  simp [dfAt, c]
theorem dfAt_24 (B : Buf) (c : 24 ≤ bitsAt B 0 5) : dfAt B = .modeS (bitsAt B 0 5) (capAt B) (bitsAt B 8 24) (bitsAt B 32 5) (leBitsAt B 37 51) (bitsAt B 88 24) := by
  have n : ∀ k, k < 24 → ¬ bitsAt B 0 5 = k := fun k hk hc => by omega
  simp [dfAt, n 17, n 11, n 0, n 4, n 5, n 16, n 18, n 19, n 20, n 21]

/-- frame length in bytes of a 5-bit format code; `none` = unsupported format -/
def frameLen (id : Nat) : Option Nat :=
  if id = 0 ∨ id = 4 ∨ id = 5 ∨ id = 11 then some 7
  else if (16 ≤ id ∧ id ≤ 21) ∨ 24 ≤ id then some 14
  else none

/-- the acceptance set of the decoder -/
def Accept (B : Buf) : Prop :=
  match frameLen (bitsAt B 0 5) with
  | none => False
  | some L => L ≤ B.len ∧ ((bitsAt B 0 5 = 17 ∨ bitsAt B 0 5 = 18) → meOk B)

instance (B : Buf) : Decidable (Accept B) := by
  unfold Accept; cases frameLen (bitsAt B 0 5) <;> infer_instance

/-- bytes the decoder pulls from the reader while decoding the format (before `read_crc`) -/
def consumed (id : Nat) : Nat :=
  if id = 19 then 1 else if id = 20 then 11 else if id = 0 ∨ id = 4 ∨ id = 5 ∨ id = 11 then 7 else 14

theorem readDF_accept (B : Buf) (L : Nat) (hL : frameLen (bitsAt B 0 5) = some L) (hlen : L ≤ B.len)
    (hme : (bitsAt B 0 5 = 17 ∨ bitsAt B 0 5 = 18) → meOk B) :
    readDF B RS.init = .ok (dfAt B, ⟨8 * consumed (bitsAt B 0 5), consumed (bitsAt B 0 5)⟩) := by
  have hlt : bitsAt B 0 5 < 32 := bitsAt_lt B 0 5
  have hL7 : 7 ≤ L := by
    unfold frameLen at hL; split at hL
    · cases hL; omega
    · split at hL
      · cases hL; omega
      · cases hL
  have e : readDF B RS.init = dfBody (bitsAt B 0 5) B ⟨5, 1⟩ := by dk [readDF]
  rw [e]
  by_cases c17 : bitsAt B 0 5 = 17
  · have h14 : 14 ≤ B.len := by rw [c17] at hL; simp [frameLen] at hL; omega
    dk [dfBody, dfAt, consumed, c17, dfADSB, readCap_5, readME_ok B (by omega) (hme (Or.inl c17))]
  by_cases c11 : bitsAt B 0 5 = 11
  · dk [dfBody, dfAt, consumed, c11, dfAllCall, readCap_5]
  by_cases c0 : bitsAt B 0 5 = 0
  · dk [dfBody, dfAt, consumed, c0, dfShortAirAir]
  by_cases c4 : bitsAt B 0 5 = 4
  · dk [dfBody, dfAt, consumed, c4, dfSurvAlt, readDR_8, readUM_ok, umAt]
  by_cases c5 : bitsAt B 0 5 = 5
  · dk [dfBody, dfAt, consumed, c5, dfSurvId, readDR_8, readUM_ok, umAt]
  have h14 : 14 ≤ B.len := by
    unfold frameLen at hL
    have : ¬ (bitsAt B 0 5 = 0 ∨ bitsAt B 0 5 = 4 ∨ bitsAt B 0 5 = 5 ∨ bitsAt B 0 5 = 11) := by omega
    rw [if_neg this] at hL
    split at hL
    · cases hL; omega
    · cases hL
  by_cases c16 : bitsAt B 0 5 = 16
  · dk [dfBody, dfAt, consumed, c16, dfLongAirAir]
  by_cases c18 : bitsAt B 0 5 = 18
  · dk [dfBody, dfAt, consumed, c18, dfTisB, readME_ok B (by omega) (hme (Or.inr c18))]
  by_cases c19 : bitsAt B 0 5 = 19
  · dk [dfBody, dfAt, consumed, c19, dfMilitary]
  by_cases c20 : bitsAt B 0 5 = 20
  · dk [dfBody, dfAt, consumed, c20, dfCommBAlt, readDR_8, readUM_ok, umAt, readBDS_ok]
  by_cases c21 : bitsAt B 0 5 = 21
  · dk [dfBody, dfAt, consumed, c21, dfCommBId, readDR_8, readUM_ok, umAt, readBDS_ok]
  · have c24 : 24 ≤ bitsAt B 0 5 := by
      unfold frameLen at hL
      have : ¬ (bitsAt B 0 5 = 0 ∨ bitsAt B 0 5 = 4 ∨ bitsAt B 0 5 = 5 ∨ bitsAt B 0 5 = 11) := by omega
      rw [if_neg this] at hL
      split at hL
      · omega
      · cases hL
    dk [dfBody, dfAt, consumed, c17, c11, c0, c4, c5, c16, c18, c19, c20, c21, c24, dfModeS, readCap_5]

/-! ## rejected payloads -/

theorem readOpAir_bad (B : Buf) (bp hi : Nat) (h : bp + 48 ≤ 8 * B.len) (hn : ¬ opAirOk B bp) :
    ∃ e, readOpAir B ⟨bp, hi⟩ = .err e := by
  unfold opAirOk at hn
  by_cases h0 : bitsAt B bp 2 = 0
  · by_cases h1 : bitsAt B (bp + 4) 2 = 0
    · by_cases h2 : bitsAt B (bp + 16) 2 = 0
      · have h3 : ¬ bitsAt B (bp + 32) 3 ≤ 2 := fun h3 => hn ⟨h0, h1, h2, h3⟩
        exact ⟨_, by dk [readOpAir, readOpMode_ok, readVersion_bad, h0, h1, h2, h3]; rfl⟩
      · exact ⟨_, by dk [readOpAir, readOpMode_assert, h0, h1, h2]; rfl⟩
    · exact ⟨_, by dk [readOpAir, h0, h1]; rfl⟩
  · exact ⟨_, by dk [readOpAir, h0]; rfl⟩

theorem readOpSurf_bad (B : Buf) (bp hi : Nat) (h : bp + 48 ≤ 8 * B.len) (hn : ¬ opSurfOk B bp) :
    ∃ e, readOpSurf B ⟨bp, hi⟩ = .err e := by
  unfold opSurfOk at hn
  by_cases h0 : bitsAt B bp 2 = 0
  · by_cases h2 : bitsAt B (bp + 16) 2 = 0
    · have h3 : ¬ bitsAt B (bp + 32) 3 ≤ 2 := fun h3 => hn ⟨h0, h2, h3⟩
      exact ⟨_, by dk [readOpSurf, readOpMode_ok, readVersion_bad, h0, h2, h3]; rfl⟩
    · exact ⟨_, by dk [readOpSurf, readOpMode_assert, h0, h2]; rfl⟩
  · exact ⟨_, by dk [readOpSurf, h0]; rfl⟩

theorem readME_bad (B : Buf) (h : 11 ≤ B.len) (hn : ¬ meOk B) : ∃ e, readME B ⟨32, 4⟩ = .err e := by
  unfold meOk opOk at hn
  have h31 : bitsAt B 32 5 = 31 := by
    by_cases c : bitsAt B 32 5 = 31
    · exact c
    · exact absurd (fun c' => absurd c' c) hn
  have hno : ¬ ((bitsAt B 37 3 = 0 → opAirOk B 40) ∧ (bitsAt B 37 3 = 1 → opSurfOk B 40)) := fun x => hn (fun _ => x)
  have e : readME B ⟨32, 4⟩ = meOpStatus B ⟨37, 5⟩ := by dk [readME, meBody, h31]
  rw [e]
  by_cases c0 : bitsAt B 37 3 = 0
  · have hb : ¬ opAirOk B 40 := fun x => hno ⟨fun _ => x, fun c1 => by omega⟩
    obtain ⟨er, her⟩ := readOpAir_bad B 40 5 (by omega) hb
    exact ⟨er, by dk [meOpStatus, readOpStatus, readOpAirborne, c0, her]⟩
  · by_cases c1 : bitsAt B 37 3 = 1
    · have hb : ¬ opSurfOk B 40 := fun x => hno ⟨fun c => absurd c c0, fun _ => x⟩
      obtain ⟨er, her⟩ := readOpSurf_bad B 40 5 (by omega) hb
      exact ⟨er, by dk [meOpStatus, readOpStatus, readOpSurface, c0, c1, her]⟩
    · exact absurd ⟨fun c => absurd c c0, fun c => absurd c c1⟩ hno

/-! ## the checksum window -/

theorem DF.bitLen_cases (df : DF) : df.bitLen = 56 ∨ df.bitLen = 112 := by
  cases df <;> simp [DF.bitLen, DF.dekuId]

theorem readCrc_ok (B : Buf) (df : DF) (hi : Nat) (hl : df.bitLen / 8 ≤ B.bytes.length) :
    readCrc B df hi = .ok (crcVal B.bytes (df.bitLen / 8)) := by
  have h3 : 3 ≤ df.bitLen / 8 := by rcases DF.bitLen_cases df with h | h <;> rw [h] <;> decide
  unfold readCrc
  split
  · exact modesChecksum_ok _ _ h3 hl
  · exact modesChecksum_take _ _ _ h3 (by omega) hl

theorem modesChecksum_ok_len (msg : List UInt8) (bits c : Nat) (h : modesChecksum msg bits = .ok c) :
    bits / 8 ≤ msg.length := by
  by_cases hn : bits / 8 < 3 ∨ msg.length < bits / 8
  · simp [modesChecksum, hn] at h
  · omega

theorem readCrc_ok_len (B : Buf) (df : DF) (hi c : Nat) (h : readCrc B df hi = .ok c) : df.bitLen / 8 ≤ B.bytes.length := by
  unfold readCrc at h
  have h1 := modesChecksum_ok_len _ _ _ h
  have : (if df.bitLen > hi * 8 then B.bytes else List.take hi B.bytes).length ≤ B.bytes.length := by
    split
    · exact Nat.le_refl _
    · rw [List.length_take]; omega
  omega

theorem dfAt_bitLen (B : Buf) (L : Nat) (hL : frameLen (bitsAt B 0 5) = some L) : (dfAt B).bitLen = 8 * L := by
  have hlt : bitsAt B 0 5 < 32 := bitsAt_lt B 0 5
  unfold frameLen at hL
  unfold dfAt
  simp only []
  by_cases c17 : bitsAt B 0 5 = 17
  · rw [c17] at hL ⊢; simp at hL; subst hL; simp [DF.bitLen, DF.dekuId]
  by_cases c11 : bitsAt B 0 5 = 11
  · rw [c11] at hL ⊢; simp at hL; subst hL; simp [DF.bitLen, DF.dekuId]
  by_cases c0 : bitsAt B 0 5 = 0
  · rw [c0] at hL ⊢; simp at hL; subst hL; simp [DF.bitLen, DF.dekuId]
  by_cases c4 : bitsAt B 0 5 = 4
  · rw [c4] at hL ⊢; simp at hL; subst hL; simp [DF.bitLen, DF.dekuId]
  by_cases c5 : bitsAt B 0 5 = 5
  · rw [c5] at hL ⊢; simp at hL; subst hL; simp [DF.bitLen, DF.dekuId]
  by_cases c16 : bitsAt B 0 5 = 16
  · rw [c16] at hL ⊢; simp at hL; subst hL; simp [DF.bitLen, DF.dekuId]
  by_cases c18 : bitsAt B 0 5 = 18
  · rw [c18] at hL ⊢; simp at hL; subst hL; simp [DF.bitLen, DF.dekuId]
  by_cases c19 : bitsAt B 0 5 = 19
  · rw [c19] at hL ⊢; simp at hL; subst hL; simp [DF.bitLen, DF.dekuId]
  by_cases c20 : bitsAt B 0 5 = 20
  · rw [c20] at hL ⊢; simp at hL; subst hL; simp [DF.bitLen, DF.dekuId]
  by_cases c21 : bitsAt B 0 5 = 21
  · rw [c21] at hL ⊢; simp at hL; subst hL; simp [DF.bitLen, DF.dekuId]
  · have hno : ¬ (bitsAt B 0 5 = 0 ∨ bitsAt B 0 5 = 4 ∨ bitsAt B 0 5 = 5 ∨ bitsAt B 0 5 = 11) := by omega
    rw [if_neg hno] at hL
    split at hL
    · cases hL
      simp [c17, c11, c0, c4, c5, c16, c18, c19, c20, c21, DF.bitLen, DF.dekuId]
    · cases hL

/-- **closed form of `decode` on the acceptance set** -/
theorem decode_accept (B : Buf) (h : Accept B) :
    ∃ L, frameLen (bitsAt B 0 5) = some L ∧ L ≤ B.len ∧ decode B = .ok { df := dfAt B, crc := crcVal B.bytes L } := by
  unfold Accept at h
  cases hL : frameLen (bitsAt B 0 5) with
  | none => rw [hL] at h; exact absurd h (by intro x; exact x)
  | some L =>
    rw [hL] at h
    obtain ⟨hlen, hme⟩ := h
    refine ⟨L, rfl, hlen, ?_⟩
    rw [decode_of_readDF B _ _ (readDF_accept B L hL hlen hme)]
    have hb := dfAt_bitLen B L hL
    have hl' : (dfAt B).bitLen / 8 ≤ B.bytes.length := by rw [hb]; show 8 * L / 8 ≤ B.len; omega
    rw [readCrc_ok B _ _ hl', hb]
    have : 8 * L / 8 = L := by omega
    rw [this]
    simp only [Res.ok_bind, Res.pure_eq]

end Adsb
