import Mathlib.Algebra.Order.Floor.Ring
import Mathlib.Algebra.Order.Round
import Mathlib.Tactic.Linarith
import Mathlib.Tactic.Ring
import Mathlib.Tactic.LinearCombination
import Mathlib.Tactic.FieldSimp
import Mathlib.Data.Rat.Floor
/-! # The arithmetic core of CPR global decoding (Mathlib; used only by `Theorems/C05b`)

`cprEnc N x` is the transmitted value of a coordinate `x` measured in zone widths (`N = 2^17` bins per zone),
`cprZone N x` the zone the *rounded* coordinate lies in.  `cpr_j`: from the transmitted values of two coordinates
`u` (in a grid of `n` zones per turn) and `v` (in a grid of `n-1` zones per turn) that are close together, the
decoder's index `j = ⌊((n-1)·Y0 − n·Y1)/N + ½⌋` determines both zone numbers modulo the number of zones. -/

namespace Adsb.CprCore
open Int

def cprEnc (N : ℕ) (x : ℚ) : ℤ := ⌊(N : ℚ) * (x - ⌊x⌋) + 1/2⌋ % (N : ℤ)
def cprZone (N : ℕ) (x : ℚ) : ℤ := ⌊x⌋ + ⌊(N : ℚ) * (x - ⌊x⌋) + 1/2⌋ / (N : ℤ)

/-- the rounded coordinate in bins: `⌊N·x + ½⌋` -/
def gridIx (N : ℕ) (x : ℚ) : ℤ := ⌊(N : ℚ) * x + 1/2⌋

theorem gridIx_split (N : ℕ) (x : ℚ) : gridIx N x = (N : ℤ) * ⌊x⌋ + ⌊(N : ℚ) * (x - ⌊x⌋) + 1/2⌋ := by
  unfold gridIx
  have : (N : ℚ) * x + 1/2 = ((N : ℚ) * (x - ⌊x⌋) + 1/2) + (((N : ℤ) * ⌊x⌋ : ℤ) : ℚ) := by push_cast; ring
  rw [this, Int.floor_add_intCast]; ring

theorem cprEnc_eq (N : ℕ) (x : ℚ) : cprEnc N x = gridIx N x % (N : ℤ) := by
  rw [gridIx_split, cprEnc, Int.add_comm, Int.add_mul_emod_self_left]

theorem cprZone_eq (N : ℕ) (hN : 0 < N) (x : ℚ) : cprZone N x = gridIx N x / (N : ℤ) := by
  have hNz : (N : ℤ) ≠ 0 := by exact_mod_cast (Nat.pos_iff_ne_zero.mp hN)
  rw [gridIx_split, cprZone, Int.add_comm ((N : ℤ) * ⌊x⌋), Int.add_mul_ediv_left _ _ hNz, Int.add_comm]

theorem gridIx_decomp (N : ℕ) (x : ℚ) : gridIx N x = (N : ℤ) * cprZone N x + cprEnc N x := by
  rcases Nat.eq_zero_or_pos N with h | h
  · subst h; simp [gridIx, cprZone, cprEnc]
  · rw [cprEnc_eq, cprZone_eq N h]; exact (Int.mul_ediv_add_emod _ _).symm

theorem cprEnc_decomp (N : ℕ) (hN : 0 < N) (x : ℚ) :
    ∃ e : ℚ, |e| ≤ 1/2 ∧ ((cprEnc N x : ℤ) : ℚ) / N = x - cprZone N x + e / N ∧
      0 ≤ cprEnc N x ∧ cprEnc N x < N := by
  have hNq : (0 : ℚ) < N := by exact_mod_cast hN
  have hNz : (0 : ℤ) < N := by exact_mod_cast hN
  refine ⟨(⌊(N : ℚ) * (x - ⌊x⌋) + 1/2⌋ : ℚ) - N * (x - ⌊x⌋), ?_, ?_,
    Int.emod_nonneg _ (ne_of_gt hNz), Int.emod_lt_of_pos _ hNz⟩
  · have h1 := Int.floor_le ((N : ℚ) * (x - ⌊x⌋) + 1/2)
    have h2 := Int.lt_floor_add_one ((N : ℚ) * (x - ⌊x⌋) + 1/2)
    rw [abs_le]; constructor <;> linarith
  · unfold cprEnc cprZone
    rw [Int.emod_def]
    push_cast
    field_simp
    ring

theorem cpr_j (N : ℕ) (hN : 0 < N) (n : ℤ) (hn : 2 ≤ n) (u v : ℚ) (k : ℤ) (ε : ℚ)
    (hD : (n - 1 : ℚ) * u - n * v = n * (n - 1) * k + ε)
    (hε : |ε| + (2 * n - 1 : ℚ) / (2 * N) < 1 / 2) :
    let y0 := cprEnc N u
    let y1 := cprEnc N v
    let j := ⌊(((n - 1) * y0 - n * y1 : ℤ) : ℚ) / N + 1 / 2⌋
    j % n = cprZone N u % n ∧ j % (n - 1) = cprZone N v % (n - 1) := by
  intro y0 y1 j
  have hNq : (0 : ℚ) < N := by exact_mod_cast hN
  obtain ⟨e0, he0, hy0, -, -⟩ := cprEnc_decomp N hN u
  obtain ⟨e1, he1, hy1, -, -⟩ := cprEnc_decomp N hN v
  have hnq : (2 : ℚ) ≤ n := by exact_mod_cast hn
  set M : ℤ := n * (n - 1) * k - (n - 1) * cprZone N u + n * cprZone N v with hM
  set η : ℚ := ((n - 1) * e0 - n * e1) / N with hη
  have hηb : |η| ≤ (2 * n - 1 : ℚ) / (2 * N) := by
    rw [hη, abs_div, abs_of_pos hNq, div_le_div_iff₀ hNq (by positivity)]
    have a0 := abs_le.mp he0
    have a1 := abs_le.mp he1
    have : |((n:ℚ) - 1) * e0 - n * e1| ≤ (2 * n - 1) / 2 := by
      rw [abs_le]; constructor <;> nlinarith
    nlinarith
  have hX : (((n - 1) * y0 - n * y1 : ℤ) : ℚ) / N = (M : ℚ) + (ε + η) := by
    have e1' : ((y0 : ℤ) : ℚ) = N * (u - cprZone N u) + e0 := by
      have := hy0; field_simp at this; linarith
    have e2' : ((y1 : ℤ) : ℚ) = N * (v - cprZone N v) + e1 := by
      have := hy1; field_simp at this; linarith
    push_cast
    rw [e1', e2', hM, hη]
    push_cast
    field_simp
    linear_combination (N : ℚ) * hD
  have hsmall : |ε + η| < 1 / 2 := by
    calc |ε + η| ≤ |ε| + |η| := abs_add_le _ _
      _ ≤ |ε| + (2 * n - 1 : ℚ) / (2 * N) := by linarith
      _ < 1 / 2 := hε
  have hj : j = M := by
    show ⌊(((n - 1) * y0 - n * y1 : ℤ) : ℚ) / N + 1 / 2⌋ = M
    rw [hX, Int.floor_eq_iff]
    have := abs_lt.mp hsmall
    constructor <;> linarith
  rw [hj]
  constructor
  · have : M = cprZone N u + n * ((n - 1) * k - cprZone N u + cprZone N v) := by rw [hM]; ring
    rw [this, Int.add_mul_emod_self_left]
  · have : M = cprZone N v + (n - 1) * (n * k - cprZone N u + cprZone N v) := by rw [hM]; ring
    rw [this, Int.add_mul_emod_self_left]

end Adsb.CprCore
