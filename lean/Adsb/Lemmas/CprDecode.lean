import Adsb.Cpr
import Adsb.Theorems.C05
import Adsb.Lemmas.CprCore
import Mathlib.Order.Lattice
import Mathlib.Tactic.Linarith
import Mathlib.Tactic.Positivity
import Mathlib.Tactic.NormNum
import Mathlib.Data.Rat.Floor
/-! # Helper lemmas for C05b: the exact (`Rat`) instance of `get_position` in mathematical normal form, the encoder,
the latitude and longitude halves of the decoder, and the evaluation of the `cpr_nl` statement tree as a table lookup. -/

namespace Adsb.CprDecode
open Adsb Adsb.CprCore Adsb.C05


section bridge
theorem add_rat (a b : ℚ) : @HAdd.hAdd ℚ ℚ ℚ (@instHAdd ℚ NumOps.instAdd) a b = a + b := rfl
theorem sub_rat (a b : ℚ) : @HSub.hSub ℚ ℚ ℚ (@instHSub ℚ NumOps.instSub) a b = a - b := rfl
theorem mul_rat (a b : ℚ) : @HMul.hMul ℚ ℚ ℚ (@instHMul ℚ NumOps.instMul) a b = a * b := rfl
theorem div_rat (a b : ℚ) : @HDiv.hDiv ℚ ℚ ℚ (@instHDiv ℚ NumOps.instDiv) a b = a / b := rfl
theorem nOf_rat (n : ℕ) : (nOf n : ℚ) = (n : ℚ) := rfl
theorem floor_rat (q : ℚ) : (NumOps.floor q : ℚ) = ((⌊q⌋ : ℤ) : ℚ) := rfl
theorem leb_rat (a b : ℚ) : NumOps.leb a b = decide (a ≤ b) := rfl
theorem ltb_rat (a b : ℚ) : NumOps.ltb a b = decide (a < b) := rfl
theorem half_rat : (NumOps.half : ℚ) = 1 / 2 := rfl
theorem negOf_rat (x : ℚ) : negOf x = -x := by unfold negOf; rw [sub_rat, nOf_rat]; simp
end bridge

theorem pmod_int (m : ℤ) (n : ℕ) : pmod (m : ℚ) (n : ℚ) = ((m % (n : ℤ) : ℤ) : ℚ) := by
  unfold pmod
  rw [sub_rat, mul_rat, div_rat, floor_rat, Rat.floor_intCast_div_natCast, Int.emod_def]; push_cast; ring

def Nq : ℚ := 131072
def wrap (lim x : ℚ) : ℚ := if lim ≤ x then x - 360 else x
def inR (x : ℚ) : Prop := -90 ≤ x ∧ x ≤ 90
instance (x : ℚ) : Decidable (inR x) := by unfold inR; infer_instance

def decLat (ye yo : ℕ) : ℚ × ℚ :=
  let j : ℤ := ⌊59 * ((ye : ℚ) / Nq) - 60 * ((yo : ℚ) / Nq) + 1/2⌋
  (wrap 270 (6 * (((j % 60 : ℤ) : ℚ) + (ye : ℚ) / Nq)), wrap 270 (360 / 59 * (((j % 59 : ℤ) : ℚ) + (yo : ℚ) / Nq)))

def decLon (nl : ℕ) (le lo : ℚ) (latestOdd : Bool) : ℚ :=
  let ni : ℕ := max (nl - (if latestOdd then 1 else 0)) 1
  let m : ℤ := ⌊le * ((nl - 1 : ℕ) : ℚ) - lo * (nl : ℚ) + 1/2⌋
  wrap 180 (360 / (ni : ℚ) * (((m % (ni : ℤ) : ℤ) : ℚ) + (if latestOdd then lo else le)))

theorem latPair_rat (ye yo : ℕ) : latPair (α := ℚ) ye yo = decLat ye yo := by
  unfold latPair decLat wrap Nq
  simp only [add_rat, sub_rat, mul_rat, div_rat, nOf_rat, floor_rat, leb_rat, half_rat, pmod_int, Gen.cprMax, Gen.nz]
  norm_num

theorem getLatLon_rat (lat le lo : ℚ) (b : Bool) : getLatLon lat le lo b = (lat, decLon (cprNl lat) le lo b) := by
  unfold getLatLon decLon wrap
  simp only [add_rat, sub_rat, mul_rat, div_rat, nOf_rat, floor_rat, leb_rat, half_rat, pmod_int]
  cases b <;> simp

theorem inRange_rat (x : ℚ) : inRange x = decide (inR x) := by
  unfold inRange inR; rw [leb_rat, leb_rat, negOf_rat, nOf_rat]
  by_cases h1 : -90 ≤ x <;> by_cases h2 : x ≤ 90 <;> simp [h1, h2]

theorem getPosition_rat (a b : Alt) : getPosition (α := ℚ) a b =
    if a.f = b.f then none else
    let even := if a.f = 0 then a else b
    let odd := if a.f = 0 then b else a
    let ll := decLat even.lat odd.lat
    if ¬ (inR ll.1 ∧ inR ll.2) then none
    else if cprNl ll.1 ≠ cprNl ll.2 then none
    else
      let lat := if b.f != 0 then ll.2 else ll.1
      some ⟨lat, decLon (cprNl lat) (even.lon / Nq) (odd.lon / Nq) (b.f != 0)⟩ := by
  unfold getPosition
  simp only [latPair_rat, getLatLon_rat, inRange_rat, div_rat, nOf_rat, Gen.cprMax, Nq]
  split
  · rfl
  · generalize decLat (if a.f = 0 then a else b).lat (if a.f = 0 then b else a).lat = ll
    by_cases h1 : inR ll.1 <;> by_cases h2 : inR ll.2 <;> by_cases h3 : cprNl ll.1 = cprNl ll.2 <;> simp [h1, h2, h3]


/-! ## the encoder (DO-260B 2.2.3.2.3.7), in exact arithmetic -/
def dlat (i : ℕ) : ℚ := 360 / ((60 - i : ℕ) : ℚ)
def gridLat (i : ℕ) (φ : ℚ) : ℤ := gridIx 131072 (φ / dlat i)
def yz (i : ℕ) (φ : ℚ) : ℕ := (gridLat i φ % 131072).toNat
def rlat (i : ℕ) (φ : ℚ) : ℚ := dlat i * ((gridLat i φ : ℤ) : ℚ) / 131072

theorem gridIx_mono (N : ℕ) (x y : ℚ) (h : x ≤ y) : gridIx N x ≤ gridIx N y := by
  unfold gridIx; apply Int.floor_le_floor
  have : (0 : ℚ) ≤ N := by positivity
  nlinarith

theorem gridIx_grid (N : ℕ) (hN : 0 < N) (G : ℤ) : gridIx N ((G : ℚ) / N) = G := by
  unfold gridIx
  have hNq : (N : ℚ) ≠ 0 := by positivity
  rw [mul_div_cancel₀ _ hNq, Int.floor_eq_iff]; constructor <;> norm_num

theorem gridLat_bounds0 (φ : ℚ) (h : -90 ≤ φ ∧ φ ≤ 90) : -15 * 131072 ≤ gridLat 0 φ ∧ gridLat 0 φ ≤ 15 * 131072 := by
  unfold gridLat dlat
  have e1 := gridIx_grid 131072 (by norm_num) (-15 * 131072)
  have e2 := gridIx_grid 131072 (by norm_num) (15 * 131072)
  constructor
  · rw [← e1]; apply gridIx_mono; norm_num; linarith [h.1]
  · rw [← e2]; apply gridIx_mono; norm_num; linarith [h.2]

theorem gridLat_bounds1 (φ : ℚ) (h : -90 ≤ φ ∧ φ ≤ 90) : -1933312 ≤ gridLat 1 φ ∧ gridLat 1 φ ≤ 1933312 := by
  unfold gridLat dlat
  have e1 := gridIx_grid 131072 (by norm_num) (-1933312)
  have e2 := gridIx_grid 131072 (by norm_num) (1933312)
  constructor
  · rw [← e1]; apply gridIx_mono; norm_num; linarith [h.1]
  · rw [← e2]; apply gridIx_mono; norm_num; linarith [h.2]

theorem yz_cast (i : ℕ) (φ : ℚ) : ((yz i φ : ℕ) : ℚ) = ((cprEnc 131072 (φ / dlat i) : ℤ) : ℚ) := by
  unfold yz gridLat
  rw [cprEnc_eq]
  have h : 0 ≤ gridIx 131072 (φ / dlat i) % ((131072 : ℕ) : ℤ) := Int.emod_nonneg _ (by norm_num)
  have : (((gridIx 131072 (φ / dlat i) % 131072).toNat : ℕ) : ℤ) = gridIx 131072 (φ / dlat i) % 131072 := Int.toNat_of_nonneg (by simpa using h)
  exact_mod_cast this

theorem rlat_eq (i : ℕ) (φ : ℚ) : rlat i φ = dlat i * ((cprZone 131072 (φ / dlat i) : ℤ) + ((cprEnc 131072 (φ / dlat i) : ℤ) : ℚ) / 131072) := by
  unfold rlat gridLat
  rw [gridIx_decomp]; push_cast; ring

theorem rlat_bounds (i : ℕ) (hi : i ≤ 1) (φ : ℚ) (h : -90 ≤ φ ∧ φ ≤ 90) : -90 ≤ rlat i φ ∧ rlat i φ ≤ 90 := by
  have hi' : i = 0 ∨ i = 1 := by omega
  rcases hi' with rfl | rfl
  · have := gridLat_bounds0 φ h
    unfold rlat dlat
    have h1 : ((-15 * 131072 : ℤ) : ℚ) ≤ ((gridLat 0 φ : ℤ) : ℚ) := by exact_mod_cast this.1
    have h2 : ((gridLat 0 φ : ℤ) : ℚ) ≤ ((15 * 131072 : ℤ) : ℚ) := by exact_mod_cast this.2
    push_cast at h1 h2
    constructor <;> norm_num <;> linarith
  · have := gridLat_bounds1 φ h
    unfold rlat dlat
    have h1 : ((-1933312 : ℤ) : ℚ) ≤ ((gridLat 1 φ : ℤ) : ℚ) := by exact_mod_cast this.1
    have h2 : ((gridLat 1 φ : ℤ) : ℚ) ≤ ((1933312 : ℤ) : ℚ) := by exact_mod_cast this.2
    push_cast at h1 h2
    constructor <;> norm_num <;> linarith

theorem lat_hD (φe φo : ℚ) : ((60:ℤ) - 1 : ℚ) * (φe / dlat 0) - (60:ℤ) * (φo / dlat 1) = (60:ℤ) * ((60:ℤ) - 1) * (0:ℤ) + (59 * (φe - φo) / 6) := by
  unfold dlat; norm_num; ring
theorem lat_hε (φe φo : ℚ) (hd : |φe - φo| ≤ 1 / 20) : |59 * (φe - φo) / 6| + (2 * (60:ℤ) - 1 : ℚ) / (2 * (131072:ℕ)) < 1 / 2 := by
  rw [abs_div, abs_mul]; norm_num; linarith

theorem lat_j (φe φo : ℚ) (hd : |φe - φo| ≤ 1 / 20) :
    let y0 := cprEnc 131072 (φe / dlat 0)
    let y1 := cprEnc 131072 (φo / dlat 1)
    let j := ⌊((59 * y0 - 60 * y1 : ℤ) : ℚ) / 131072 + 1 / 2⌋
    j % 60 = cprZone 131072 (φe / dlat 0) % 60 ∧ j % 59 = cprZone 131072 (φo / dlat 1) % 59 := by
  have hj := cpr_j 131072 (by norm_num) 60 (by norm_num) (φe / dlat 0) (φo / dlat 1) 0 (59 * (φe - φo) / 6)
    (lat_hD φe φo) (lat_hε φe φo hd)
  simpa using hj

theorem wrap_lat (d : ℚ) (n z y : ℤ) (hd : d * n = 360) (hn : 0 < n) (hz1 : -n < z) (hz2 : z < n)
    (hy0 : 0 ≤ y) (hb : -90 ≤ d * ((z : ℚ) + (y : ℚ) / 131072) ∧ d * ((z : ℚ) + (y : ℚ) / 131072) ≤ 90) :
    wrap 270 (d * (((z % n : ℤ) : ℚ) + (y : ℚ) / 131072)) = d * ((z : ℚ) + (y : ℚ) / 131072) := by
  unfold wrap
  rcases lt_or_ge z 0 with hneg | hpos
  · have : z % n = z + n := by
      rw [← Int.add_emod_right, Int.emod_eq_of_lt (by omega) (by omega)]
    rw [this]; push_cast
    have e : d * ((z : ℚ) + n + (y : ℚ) / 131072) = d * ((z : ℚ) + (y : ℚ) / 131072) + 360 := by rw [← hd]; ring
    rw [e, if_pos (by linarith [hb.1])]; ring
  · have : z % n = z := Int.emod_eq_of_lt hpos hz2
    rw [this, if_neg (by linarith [hb.2])]

/-- latitude half of the decoder: the two candidate latitudes are the two reports' rounded latitudes -/
theorem decLat_correct (φe φo : ℚ) (he : -90 ≤ φe ∧ φe ≤ 90) (ho : -90 ≤ φo ∧ φo ≤ 90) (hd : |φe - φo| ≤ 1 / 20) :
    decLat (yz 0 φe) (yz 1 φo) = (rlat 0 φe, rlat 1 φo) := by
  obtain ⟨hj0, hj1⟩ := lat_j φe φo hd
  obtain ⟨_, _, _, y0nn, y0lt⟩ := cprEnc_decomp 131072 (by norm_num) (φe / dlat 0)
  obtain ⟨_, _, _, y1nn, y1lt⟩ := cprEnc_decomp 131072 (by norm_num) (φo / dlat 1)
  have be := rlat_bounds 0 (by norm_num) φe he
  have bo := rlat_bounds 1 (by norm_num) φo ho
  rw [rlat_eq] at be bo
  unfold decLat
  simp only [yz_cast, Nq]
  rw [rlat_eq, rlat_eq]
  set y0 := cprEnc 131072 (φe / dlat 0)
  set y1 := cprEnc 131072 (φo / dlat 1)
  set z0 := cprZone 131072 (φe / dlat 0)
  set z1 := cprZone 131072 (φo / dlat 1)
  have hjj : ⌊(59:ℚ) * ((y0 : ℚ) / 131072) - 60 * ((y1 : ℚ) / 131072) + 1 / 2⌋
      = ⌊((59 * y0 - 60 * y1 : ℤ) : ℚ) / 131072 + 1 / 2⌋ := by
    congr 1; push_cast; ring
  rw [hjj, hj0, hj1]
  have y0q : (0:ℚ) ≤ y0 ∧ (y0:ℚ) < 131072 := ⟨by exact_mod_cast y0nn, by exact_mod_cast y0lt⟩
  have y1q : (0:ℚ) ≤ y1 ∧ (y1:ℚ) < 131072 := ⟨by exact_mod_cast y1nn, by exact_mod_cast y1lt⟩
  have d0 : dlat 0 = 6 := by unfold dlat; norm_num
  have d1 : dlat 1 = 360 / 59 := by unfold dlat; norm_num
  rw [d0] at be ⊢; rw [d1] at bo ⊢
  have z0b : -60 < z0 ∧ z0 < 60 := by
    have h1 : (-16 : ℚ) < z0 := by linarith [be.1, y0q.2]
    have h2 : (z0 : ℚ) < 16 := by linarith [be.2, y0q.1]
    constructor
    · have : (-16 : ℤ) < z0 := by exact_mod_cast h1
      omega
    · have : z0 < (16 : ℤ) := by exact_mod_cast h2
      omega
  have z1b : -59 < z1 ∧ z1 < 59 := by
    have h1 : (-16 : ℚ) < z1 := by linarith [bo.1, y1q.2]
    have h2 : (z1 : ℚ) < 16 := by linarith [bo.2, y1q.1]
    constructor
    · have : (-16 : ℤ) < z1 := by exact_mod_cast h1
      omega
    · have : z1 < (16 : ℤ) := by exact_mod_cast h2
      omega
  have w0 := wrap_lat 6 60 z0 y0 (by norm_num) (by norm_num) z0b.1 z0b.2 y0nn be
  have w1 := wrap_lat (360/59) 59 z1 y1 (by norm_num) (by norm_num) z1b.1 z1b.2 y1nn bo
  rw [w0, w1]

/-! ## longitude -/
def nZones (i nl : ℕ) : ℕ := max (nl - i) 1
def gridLon (i nl : ℕ) (l : ℚ) : ℤ := gridIx 131072 (l * (nZones i nl : ℚ) / 360)
def xz (i nl : ℕ) (l : ℚ) : ℕ := (gridLon i nl l % 131072).toNat
def rlon (i nl : ℕ) (l : ℚ) : ℚ := 360 / (nZones i nl : ℚ) * ((gridLon i nl l : ℤ) : ℚ) / 131072

theorem xz_cast (i nl : ℕ) (l : ℚ) : ((xz i nl l : ℕ) : ℚ) = ((cprEnc 131072 (l * (nZones i nl : ℚ) / 360) : ℤ) : ℚ) := by
  unfold xz gridLon
  rw [cprEnc_eq]
  have h : 0 ≤ gridIx 131072 (l * (nZones i nl : ℚ) / 360) % ((131072 : ℕ) : ℤ) := Int.emod_nonneg _ (by norm_num)
  have : (((gridIx 131072 (l * (nZones i nl : ℚ) / 360) % 131072).toNat : ℕ) : ℤ) = gridIx 131072 (l * (nZones i nl : ℚ) / 360) % 131072 :=
    Int.toNat_of_nonneg (by simpa using h)
  exact_mod_cast this

def lonClose (nl : ℕ) (le lo : ℚ) : Prop :=
  nl ≤ 1 ∨ ∃ k : ℤ, |(nl : ℚ) * ((nl : ℚ) - 1) * (le - lo - 360 * k) / 360| + (2 * (nl : ℚ) - 1) / 262144 < 1 / 2

theorem lon_m (nl : ℕ) (hnl : 2 ≤ nl) (le lo : ℚ) (k : ℤ)
    (h : |(nl : ℚ) * ((nl : ℚ) - 1) * (le - lo - 360 * k) / 360| + (2 * (nl : ℚ) - 1) / 262144 < 1 / 2) :
    let x0 := cprEnc 131072 (le * (nZones 0 nl : ℚ) / 360)
    let x1 := cprEnc 131072 (lo * (nZones 1 nl : ℚ) / 360)
    let m := ⌊((((nl : ℤ) - 1) * x0 - (nl : ℤ) * x1 : ℤ) : ℚ) / 131072 + 1 / 2⌋
    m % (nl : ℤ) = cprZone 131072 (le * (nZones 0 nl : ℚ) / 360) % (nl : ℤ) ∧
    m % ((nl : ℤ) - 1) = cprZone 131072 (lo * (nZones 1 nl : ℚ) / 360) % ((nl : ℤ) - 1) := by
  have n0 : (nZones 0 nl : ℚ) = nl := by unfold nZones; simp; omega
  have n1 : (nZones 1 nl : ℚ) = (nl : ℚ) - 1 := by
    unfold nZones; rw [max_eq_left (by omega)]; push_cast [Nat.cast_sub (by omega : 1 ≤ nl)]; ring
  have hj := cpr_j 131072 (by norm_num) (nl : ℤ) (by exact_mod_cast hnl) (le * (nZones 0 nl : ℚ) / 360) (lo * (nZones 1 nl : ℚ) / 360) k
    ((nl : ℚ) * ((nl : ℚ) - 1) * (le - lo - 360 * k) / 360)
    (by rw [n0, n1]; push_cast; ring)
    (by push_cast; norm_num at h ⊢; linarith)
  simpa using hj

theorem wrap_lon (ni : ℕ) (hni : 0 < ni) (z y : ℤ) (hy0 : 0 ≤ y) (hy1 : y < 131072) :
    ∃ k : ℤ, wrap 180 (360 / (ni : ℚ) * (((z % (ni : ℤ) : ℤ) : ℚ) + (y : ℚ) / 131072))
        = 360 / (ni : ℚ) * ((z : ℚ) + (y : ℚ) / 131072) + 360 * k ∧
      -180 ≤ wrap 180 (360 / (ni : ℚ) * (((z % (ni : ℤ) : ℤ) : ℚ) + (y : ℚ) / 131072)) ∧
      wrap 180 (360 / (ni : ℚ) * (((z % (ni : ℤ) : ℤ) : ℚ) + (y : ℚ) / 131072)) < 180 := by
  have hniq : (0 : ℚ) < ni := by exact_mod_cast hni
  have hniz : (0 : ℤ) < ni := by exact_mod_cast hni
  have r0 : (0 : ℚ) ≤ ((z % (ni : ℤ) : ℤ) : ℚ) := by exact_mod_cast Int.emod_nonneg z (ne_of_gt hniz)
  have r1 : ((z % (ni : ℤ) : ℤ) : ℚ) ≤ (ni : ℚ) - 1 := by
    have := Int.emod_lt_of_pos z hniz
    have : z % (ni : ℤ) ≤ (ni : ℤ) - 1 := by omega
    exact_mod_cast this
  have yq0 : (0 : ℚ) ≤ y := by exact_mod_cast hy0
  have yq1 : (y : ℚ) < 131072 := by exact_mod_cast hy1
  have hmod : ((z % (ni : ℤ) : ℤ) : ℚ) = (z : ℚ) - ni * ((z / (ni : ℤ) : ℤ) : ℚ) := by
    rw [Int.emod_def]; push_cast; ring
  set w := 360 / (ni : ℚ) * (((z % (ni : ℤ) : ℤ) : ℚ) + (y : ℚ) / 131072) with hw
  have hw0 : 0 ≤ w := by rw [hw]; apply mul_nonneg (by positivity); linarith [div_nonneg yq0 (by norm_num : (0:ℚ) ≤ 131072)]
  have hw1 : w < 360 := by
    rw [hw, div_mul_eq_mul_div, div_lt_iff₀ hniq]
    have : (y : ℚ) / 131072 < 1 := by rw [div_lt_one (by norm_num)]; exact yq1
    nlinarith
  have hweq : w = 360 / (ni : ℚ) * ((z : ℚ) + (y : ℚ) / 131072) - 360 * ((z / (ni : ℤ) : ℤ) : ℚ) := by
    rw [hw, hmod]; field_simp; ring
  unfold wrap
  by_cases h180 : (180 : ℚ) ≤ w
  · rw [if_pos h180]
    refine ⟨-(z / (ni : ℤ)) - 1, ?_, by linarith, by linarith⟩
    rw [hweq]; push_cast; ring
  · rw [if_neg h180]
    refine ⟨-(z / (ni : ℤ)), ?_, by linarith, by linarith [not_le.mp h180]⟩
    rw [hweq]; push_cast; ring

theorem rlon_eq (i nl : ℕ) (l : ℚ) : rlon i nl l = 360 / (nZones i nl : ℚ) *
    ((cprZone 131072 (l * (nZones i nl : ℚ) / 360) : ℤ) + ((cprEnc 131072 (l * (nZones i nl : ℚ) / 360) : ℤ) : ℚ) / 131072) := by
  unfold rlon gridLon
  rw [gridIx_decomp]; push_cast; ring

/-- longitude half of the decoder -/
theorem decLon_correct (nl : ℕ) (le lo : ℚ) (h : lonClose nl le lo) (latestOdd : Bool) :
    let q := decLon nl ((xz 0 nl le : ℕ) / Nq) ((xz 1 nl lo : ℕ) / Nq) latestOdd
    (∃ k : ℤ, q = rlon (if latestOdd then 1 else 0) nl (if latestOdd then lo else le) + 360 * k) ∧ -180 ≤ q ∧ q < 180 := by
  intro q
  obtain ⟨_, _, _, x0nn, x0lt⟩ := cprEnc_decomp 131072 (by norm_num) (le * (nZones 0 nl : ℚ) / 360)
  obtain ⟨_, _, _, x1nn, x1lt⟩ := cprEnc_decomp 131072 (by norm_num) (lo * (nZones 1 nl : ℚ) / 360)
  -- the zone index modulo the number of zones of the latest report
  have key : ∀ m : ℤ, m = ⌊((xz 0 nl le : ℕ) / Nq) * ((nl - 1 : ℕ) : ℚ) - ((xz 1 nl lo : ℕ) / Nq) * (nl : ℚ) + 1 / 2⌋ →
      m % (nZones 0 nl : ℤ) = cprZone 131072 (le * (nZones 0 nl : ℚ) / 360) % (nZones 0 nl : ℤ) ∧
      m % (nZones 1 nl : ℤ) = cprZone 131072 (lo * (nZones 1 nl : ℚ) / 360) % (nZones 1 nl : ℤ) := by
    intro m hm
    rcases h with h1 | ⟨k, hk⟩
    · have e0 : nZones 0 nl = 1 := by unfold nZones; omega
      have e1 : nZones 1 nl = 1 := by unfold nZones; omega
      rw [e0, e1]; simp
    · by_cases hnl : 2 ≤ nl
      · have hm2 := lon_m nl hnl le lo k hk
        simp only [] at hm2
        have e0 : (nZones 0 nl : ℤ) = nl := by unfold nZones; simp; omega
        have e1 : (nZones 1 nl : ℤ) = (nl : ℤ) - 1 := by
          unfold nZones; rw [max_eq_left (by omega)]; push_cast [Nat.cast_sub (by omega : 1 ≤ nl)]; ring
        rw [e0, e1]
        have hmm : m = ⌊((((nl : ℤ) - 1) * cprEnc 131072 (le * (nZones 0 nl : ℚ) / 360) - (nl : ℤ) * cprEnc 131072 (lo * (nZones 1 nl : ℚ) / 360) : ℤ) : ℚ) / 131072 + 1 / 2⌋ := by
          rw [hm, xz_cast, xz_cast]; congr 1
          unfold Nq; push_cast [Nat.cast_sub (by omega : 1 ≤ nl)]; ring
        rw [hmm]; exact hm2
      · have e0 : nZones 0 nl = 1 := by unfold nZones; omega
        have e1 : nZones 1 nl = 1 := by unfold nZones; omega
        rw [e0, e1]; simp
  obtain ⟨k0, k1⟩ := key _ rfl
  cases latestOdd
  · have hni : 0 < nZones 0 nl := by unfold nZones; omega
    have W := wrap_lon (nZones 0 nl) hni (cprZone 131072 (le * (nZones 0 nl : ℚ) / 360)) (cprEnc 131072 (le * (nZones 0 nl : ℚ) / 360)) x0nn x0lt
    have hq : q = wrap 180 (360 / (nZones 0 nl : ℚ) * (((⌊((xz 0 nl le : ℕ) / Nq) * ((nl - 1 : ℕ) : ℚ) - ((xz 1 nl lo : ℕ) / Nq) * (nl : ℚ) + 1 / 2⌋ % (nZones 0 nl : ℤ) : ℤ) : ℚ) + ((xz 0 nl le : ℕ) : ℚ) / Nq)) := by
      show decLon _ _ _ false = _
      unfold decLon nZones
      simp only [Bool.false_eq_true, if_false]
    rw [hq, k0, xz_cast 0 nl le, rlon_eq]
    simpa [Nq] using W
  · have hni : 0 < nZones 1 nl := by unfold nZones; omega
    have W := wrap_lon (nZones 1 nl) hni (cprZone 131072 (lo * (nZones 1 nl : ℚ) / 360)) (cprEnc 131072 (lo * (nZones 1 nl : ℚ) / 360)) x1nn x1lt
    have hq : q = wrap 180 (360 / (nZones 1 nl : ℚ) * (((⌊((xz 0 nl le : ℕ) / Nq) * ((nl - 1 : ℕ) : ℚ) - ((xz 1 nl lo : ℕ) / Nq) * (nl : ℚ) + 1 / 2⌋ % (nZones 1 nl : ℤ) : ℤ) : ℚ) + ((xz 1 nl lo : ℕ) : ℚ) / Nq)) := by
      show decLon _ _ _ true = _
      unfold decLon nZones
      simp only [if_true]
    rw [hq, k1, xz_cast 1 nl lo, rlon_eq]
    simpa [Nq] using W


/-! ## the `cpr_nl` statement tree as a table lookup -/
def sat (bound : Option Nat) (a : ℚ) : Prop := ∀ b, bound = some b → a < (b : ℚ) / 100000000

def evalFlat : List (Option Nat × Nat) → ℚ → Option Nat
  | [], _ => none
  | (none, n) :: _, _ => some n
  | (some t, n) :: rest, a => if a < (t : ℚ) / 100000000 then some n else evalFlat rest a

theorem evalFlat_append (l1 l2 : List (Option Nat × Nat)) (a : ℚ) :
    evalFlat (l1 ++ l2) a = match evalFlat l1 a with | some n => some n | none => evalFlat l2 a := by
  induction l1 with
  | nil => rfl
  | cons e rest ih =>
    obtain ⟨b, n⟩ := e
    cases b with
    | none => rfl
    | some t => simp only [List.cons_append, evalFlat]; split <;> simp [ih]

theorem ofScaled_rat (n : ℕ) : (NumOps.ofScaled n : ℚ) = (n : ℚ) / 100000000 := rfl

theorem sat_min (thr : Nat) (bound : Option Nat) (a : ℚ) :
    sat (some (tighten thr bound)) a ↔ (a < (thr : ℚ) / 100000000 ∧ sat bound a) := by
  unfold sat tighten
  cases bound with
  | none => simp
  | some b =>
    simp only [Option.some.injEq, forall_eq']
    rw [Nat.cast_min, ← min_div_div_right (by norm_num), lt_min_iff]

open Classical in
mutual
theorem nlStmts_flat (ss : List Gen.NlStmt) (bound : Option Nat) (a : ℚ) :
    evalFlat (flattenStmts ss bound) a = if sat bound a then nlStmts ss a else none := by
  match ss with
  | [] => simp [flattenStmts, nlStmts, evalFlat]
  | s :: rest =>
    simp only [flattenStmts, nlStmts]
    rw [evalFlat_append, nlStmt_flat s bound a, nlStmts_flat rest bound a]
    by_cases h : sat bound a <;> simp [h]
    cases nlStmt s a <;> rfl
theorem nlStmt_flat (s : Gen.NlStmt) (bound : Option Nat) (a : ℚ) :
    evalFlat (flattenStmt s bound) a = if sat bound a then nlStmt s a else none := by
  match s with
  | .ret n =>
    simp only [flattenStmt, nlStmt]
    cases bound with
    | none => simp [evalFlat, sat]
    | some b => simp [evalFlat, sat]
  | .ite thr body =>
    simp only [flattenStmt, nlStmt]
    rw [nlStmts_flat body _ a, ltb_rat, ofScaled_rat]
    simp only [sat_min, decide_eq_true_eq]
    by_cases h1 : a < (thr : ℚ) / 100000000 <;> by_cases h2 : sat bound a <;> simp [h1, h2]
end

theorem evalFlat_chain (l : List (Option Nat × Nat)) (a : ℚ) :
    (evalFlat l a).getD 1 = chainNl (chainOf l).1 (chainOf l).2 a := by
  induction l with
  | nil => rfl
  | cons e rest ih =>
    obtain ⟨b, n⟩ := e
    cases b with
    | none => rfl
    | some t =>
      simp only [evalFlat, chainOf, chainNl]
      split
      · rfl
      · exact ih




/-- the DO-260B encoder: format `i` (0 even, 1 odd) report of the position `(φ, l)` (degrees) -/
def encode (i : ℕ) (φ l : ℚ) (base : Alt) : Alt :=
  { base with f := i, lat := yz i φ, lon := xz i (cprNl (rlat i φ)) l }


theorem gridLat_idem (i : ℕ) (hi : i ≤ 1) (φ : ℚ) : gridLat i (rlat i φ) = gridLat i φ := by
  have hd : dlat i ≠ 0 := by unfold dlat; have : i = 0 ∨ i = 1 := by omega
                             rcases this with rfl | rfl <;> norm_num
  unfold rlat
  have : dlat i * ((gridLat i φ : ℤ) : ℚ) / 131072 / dlat i = ((gridLat i φ : ℤ) : ℚ) / ((131072 : ℕ) : ℚ) := by
    push_cast; field_simp
  show gridIx 131072 (dlat i * ((gridLat i φ : ℤ) : ℚ) / 131072 / dlat i) = _
  rw [this, gridIx_grid 131072 (by norm_num)]


end Adsb.CprDecode
