import Adsb.Crc
import Adsb.Spec.Poly
/-! # The table-driven checksum is bit-serial polynomial division (GF(2)-linearity) -/

namespace Adsb
open Adsb.Spec
set_option linter.unusedSimpArgs false

theorem xor_cancel (a x : W) : a ^^^ (a ^^^ x) = x := by
  rw [← BitVec.xor_assoc, BitVec.xor_self, BitVec.zero_xor]

theorem mulX_xor (r s : W) : mulX (r ^^^ s) = mulX r ^^^ mulX s := by
  unfold mulX
  rw [BitVec.shiftLeft_xor_distrib, BitVec.msb_xor]
  cases r.msb <;> cases s.msb <;> simp
  · ac_rfl
  · ac_rfl
  · rw [show (r <<< 1 ^^^ G ^^^ (s <<< 1 ^^^ G)) = G ^^^ (G ^^^ (r <<< 1 ^^^ s <<< 1)) by ac_rfl, xor_cancel]

theorem mulX_zero : mulX 0 = 0 := by decide

theorem bitStep_lin (r s : W) (a b : Bool) : bitStep (r ^^^ s) (a != b) = bitStep r a ^^^ bitStep s b := by
  unfold bitStep
  rw [mulX_xor]
  cases a <;> cases b <;> simp
  · ac_rfl
  · ac_rfl
  · rw [show (mulX r ^^^ G ^^^ (mulX s ^^^ G)) = G ^^^ (G ^^^ (mulX r ^^^ mulX s)) by ac_rfl, xor_cancel]

/-- eight bit-serial steps on the bits of a byte, most significant first -/
def byteSpec (r : W) (x : BitVec 8) : W :=
  (List.range 8).foldl (fun r i => bitStep r (x.getMsbD i)) r

theorem byteSpec_lin (r s : W) (x y : BitVec 8) : byteSpec (r ^^^ s) (x ^^^ y) = byteSpec r x ^^^ byteSpec s y := by
  unfold byteSpec
  simp only [List.range, List.range.loop, List.foldl, BitVec.getMsbD_xor, bitStep_lin]

/-- a byte sitting in the top of the register acts like an input byte -/
theorem top_as_input : ∀ t : BitVec 8, byteSpec ((t.setWidth 24) <<< 16) 0 = byteSpec 0 t := by decide
/-- a byte in the middle of the register moves to the top -/
theorem mid_shifts : ∀ t : BitVec 8, byteSpec ((t.setWidth 24) <<< 8) 0 = (t.setWidth 24) <<< 16 := by decide
/-- a byte in the bottom of the register moves to the middle -/
theorem low_shifts : ∀ t : BitVec 8, byteSpec (t.setWidth 24) 0 = (t.setWidth 24) <<< 8 := by decide

def b2 (r : W) : BitVec 8 := (r >>> 16).setWidth 8
def b1 (r : W) : BitVec 8 := (r >>> 8).setWidth 8
def b0 (r : W) : BitVec 8 := r.setWidth 8

theorem split3 (r : W) : r = ((b2 r).setWidth 24 <<< 16) ^^^ ((b1 r).setWidth 24 <<< 8) ^^^ (b0 r).setWidth 24 := by
  apply BitVec.eq_of_getLsbD_eq
  intro i hi
  simp only [b2, b1, b0, BitVec.getLsbD_xor, BitVec.getLsbD_shiftLeft, BitVec.getLsbD_setWidth, BitVec.getLsbD_ushiftRight]
  by_cases h8 : i < 8
  · have h16 : i < 16 := by omega
    simp [h8, h16, hi]
  · by_cases h16 : i < 16
    · have e : 8 + (i - 8) = i := by omega
      have a1 : i - 8 < 8 := by omega
      have a2 : i - 8 < 24 := by omega
      have a3 : 8 ≤ i := by omega
      simp [h8, h16, hi, e, a1, a2, a3]
    · have e : 16 + (i - 16) = i := by omega
      have a1 : i - 16 < 8 := by omega
      have a2 : ¬ (i - 8 < 8) := by omega
      have a3 : i - 16 < 24 := by omega
      have a4 : 16 ≤ i := by omega
      have a5 : 8 ≤ i := by omega
      simp [h8, h16, hi, e, a1, a2, a3, a4, a5]

theorem shift8_split (r : W) : r <<< 8 = ((b1 r).setWidth 24 <<< 16) ^^^ ((b0 r).setWidth 24 <<< 8) := by
  apply BitVec.eq_of_getLsbD_eq
  intro i hi
  simp only [b1, b0, BitVec.getLsbD_xor, BitVec.getLsbD_shiftLeft, BitVec.getLsbD_setWidth, BitVec.getLsbD_ushiftRight]
  by_cases h8 : i < 8
  · have h16 : i < 16 := by omega
    simp [h8, h16, hi]
  · by_cases h16 : i < 16
    · have a1 : i - 8 < 8 := by omega
      have a2 : i - 8 < 24 := by omega
      have a3 : 8 ≤ i := by omega
      simp [h8, h16, hi, a1, a2, a3]
    · have e : 8 + (i - 16) = i - 8 := by omega
      have a1 : i - 16 < 8 := by omega
      have a2 : ¬ (i - 8 < 8) := by omega
      have a3 : i - 16 < 24 := by omega
      have a4 : 16 ≤ i := by omega
      have a5 : 8 ≤ i := by omega
      simp [h8, h16, hi, e, a1, a2, a3, a4, a5]
/-- **one table step = eight bit-serial steps**, for the table entry `byteSpec 0 i` -/
theorem byteSpec_zero_input (r s : W) (x : BitVec 8) : byteSpec (r ^^^ s) x = byteSpec r x ^^^ byteSpec s 0 := by
  have h := byteSpec_lin r s x 0
  have e : x ^^^ (0 : BitVec 8) = x := BitVec.xor_zero
  rw [e] at h
  exact h

theorem byteSpec_eq (r : W) (x : BitVec 8) : byteSpec r x = (r <<< 8) ^^^ byteSpec 0 (x ^^^ b2 r) := by
  have h1 : byteSpec ((b2 r).setWidth 24 <<< 16) x = byteSpec 0 (x ^^^ b2 r) := by
    have e := byteSpec_lin 0 ((b2 r).setWidth 24 <<< 16) x 0
    have z1 : (0 : W) ^^^ ((b2 r).setWidth 24 <<< 16) = (b2 r).setWidth 24 <<< 16 := BitVec.zero_xor
    have z2 : x ^^^ (0 : BitVec 8) = x := BitVec.xor_zero
    rw [z1, z2] at e
    rw [e, top_as_input]
    have e2 := byteSpec_lin 0 0 x (b2 r)
    have z3 : (0 : W) ^^^ 0 = 0 := BitVec.xor_self
    rw [z3] at e2
    exact e2.symm
  have e0 : byteSpec r x = byteSpec (((b2 r).setWidth 24 <<< 16) ^^^ ((b1 r).setWidth 24 <<< 8) ^^^ (b0 r).setWidth 24) x :=
    congrArg (fun t => byteSpec t x) (split3 r)
  rw [e0, byteSpec_zero_input, byteSpec_zero_input, h1, mid_shifts, low_shifts, shift8_split r]
  rw [BitVec.xor_assoc, BitVec.xor_comm]

/-- the generated `CRC_TABLE` holds the remainders of i·x^24 (all 256 entries, kernel computation) -/
theorem table_correct : ∀ i : BitVec 8, tableBV i = byteSpec 0 i := by decide +kernel

/-- **the loop body of `modes_checksum` is eight steps of bit-serial division** -/
theorem crcStep_eq (r : W) (b : UInt8) : crcStep r b = byteSpec r b.toBitVec := by
  rw [byteSpec_eq, crcStep, table_correct]; rfl

theorem crcStep_lin (r s : W) (a b : UInt8) : crcStep (r ^^^ s) (a ^^^ b) = crcStep r a ^^^ crcStep s b := by
  rw [crcStep_eq, crcStep_eq, crcStep_eq, ← byteSpec_lin]; rfl

/-- the bits of a byte, most significant first -/
def byteBits (b : UInt8) : List Bool := (List.range 8).map (fun i => b.toBitVec.getMsbD i)
def bitsOf (msg : List UInt8) : List Bool := msg.flatMap byteBits

theorem byteSpec_fold (r : W) (b : UInt8) : byteSpec r b.toBitVec = (byteBits b).foldl bitStep r := by
  unfold byteSpec byteBits
  rw [List.foldl_map]

/-- **(a) the table-driven remainder equals bit-serial division of the message by the generator** -/
theorem crcRem_eq_parity (msg : List UInt8) : crcRem msg = parity (bitsOf msg) := by
  unfold crcRem parity bitsOf
  generalize (0 : W) = r
  induction msg generalizing r with
  | nil => rfl
  | cons b rest ih =>
    simp only [List.foldl_cons, List.flatMap_cons, List.foldl_append]
    rw [crcStep_eq, byteSpec_fold, ih]

end Adsb
