import Adsb.Lemmas.CrcLin
/-! # parity(lead) ⊕ tail is the remainder of the whole frame; multiplication by x is injective -/

namespace Adsb
open Adsb.Spec
set_option linter.unusedSimpArgs false

/-- `r·x^k mod g` -/
def mulXn : Nat → W → W
  | 0, r => r
  | k + 1, r => mulXn k (mulX r)

theorem mulXn_xor (k : Nat) (r s : W) : mulXn k (r ^^^ s) = mulXn k r ^^^ mulXn k s := by
  induction k generalizing r s with
  | zero => rfl
  | succ k ih => simp only [mulXn, mulX_xor, ih]

theorem mulXn_zero (k : Nat) : mulXn k 0 = 0 := by
  induction k with
  | zero => rfl
  | succ k ih => simp only [mulXn, mulX_zero, ih]

theorem mulXn_succ' (k : Nat) (r : W) : mulXn (k + 1) r = mulX (mulXn k r) := by
  induction k generalizing r with
  | zero => rfl
  | succ k ih => rw [mulXn, ih (mulX r)]; rfl

theorem mulXn_add (j k : Nat) (r : W) : mulXn (j + k) r = mulXn j (mulXn k r) := by
  induction k generalizing r with
  | zero => rfl
  | succ k ih => rw [← Nat.add_assoc, mulXn, mulXn, ih]

/-- x^24 mod g is the generator's low part -/
theorem x24 : mulXn 24 1 = G := by decide

def bitW (b : Bool) : W := if b then 1 else 0

theorem bitStep_as (r : W) (b : Bool) : bitStep r b = mulX r ^^^ mulXn 24 (bitW b) := by
  cases b
  · show mulX r ^^^ (0 : W) = mulX r ^^^ mulXn 24 (0 : W)
    rw [mulXn_zero]
  · show mulX r ^^^ G = mulX r ^^^ mulXn 24 (1 : W)
    rw [x24]

theorem divStep_as (r : W) (b : Bool) : divStep r b = mulX r ^^^ bitW b := rfl

/-- message·x^24 division and plain division run in lock step: D = T·x^24 -/
theorem fold_bitStep_eq (bits : List Bool) (t : W) :
    bits.foldl bitStep (mulXn 24 t) = mulXn 24 (bits.foldl divStep t) := by
  induction bits generalizing t with
  | nil => rfl
  | cons b rest ih =>
    simp only [List.foldl_cons]
    rw [bitStep_as, divStep_as, ← mulXn_succ', mulXn, ← mulXn_xor, ih]

theorem parity_eq (bits : List Bool) : parity bits = mulXn 24 (syndrome bits) := by
  have := fold_bitStep_eq bits 0
  rw [mulXn_zero] at this
  exact this

/-- value of a bit string of length ≤ 24 as a polynomial of degree < 24 -/
def valOf : List Bool → W
  | [] => 0
  | b :: t => (bitW b <<< t.length) ^^^ valOf t

theorem mulXn_one : ∀ j, j < 24 → mulXn j 1 = (1 : W) <<< j := by decide

theorem mulXn_bitW (j : Nat) (h : j < 24) (b : Bool) : mulXn j (bitW b) = bitW b <<< j := by
  cases b
  · show mulXn j (0 : W) = (0 : W) <<< j
    rw [mulXn_zero]; simp
  · exact mulXn_one j h

/-- dividing on through at most 24 more bits: the old remainder times x^j, plus the new bits -/
theorem fold_divStep_tail (t : List Bool) (h : t.length ≤ 24) (r : W) :
    t.foldl divStep r = mulXn t.length r ^^^ valOf t := by
  induction t generalizing r with
  | nil => simp [valOf, mulXn]
  | cons b rest ih =>
    have hl : rest.length < 24 := by simp at h; omega
    simp only [List.foldl_cons, List.length_cons, valOf]
    rw [ih (by omega), divStep_as, mulXn_xor, mulXn_bitW _ hl, mulXn, BitVec.xor_assoc]

/-- **the checksum is the remainder of the whole frame**: for `|tail| = 24`,
`syndrome (lead ++ tail) = parity lead ⊕ tail` -/
theorem syndrome_append (lead tail : List Bool) (h : tail.length = 24) :
    syndrome (lead ++ tail) = parity lead ^^^ valOf tail := by
  unfold syndrome
  rw [List.foldl_append, fold_divStep_tail tail (by omega), h, parity_eq]
  rfl

/-! ## bytes ↔ bits ↔ 24-bit value -/

theorem valOf_byte : ∀ x : BitVec 8, valOf ((List.range 8).map (fun i => x.getMsbD i)) = x.setWidth 24 := by decide

theorem valOf_append (a b : List Bool) : valOf (a ++ b) = (valOf a <<< b.length) ^^^ valOf b := by
  induction a with
  | nil => simp [valOf]
  | cons x rest ih =>
    simp only [List.cons_append, valOf, List.length_append, ih, BitVec.shiftLeft_xor_distrib]
    rw [BitVec.xor_assoc]
    congr 1
    rw [← BitVec.shiftLeft_add]

theorem byteBits_length (b : UInt8) : (byteBits b).length = 8 := by simp [byteBits]

theorem valOf_3bytes (x y z : UInt8) :
    valOf (byteBits x ++ byteBits y ++ byteBits z) =
      (x.toBitVec.setWidth 24 <<< 16) ^^^ (y.toBitVec.setWidth 24 <<< 8) ^^^ z.toBitVec.setWidth 24 := by
  rw [valOf_append, valOf_append, byteBits_length, byteBits_length]
  simp only [byteBits, valOf_byte, BitVec.shiftLeft_xor_distrib]
  rw [← BitVec.shiftLeft_add]

/-! ## multiplication by x is injective (the generator has constant term 1) -/

theorem mulX_inj (r : W) (h : mulX r = 0) : r = 0 := by
  unfold mulX at h
  by_cases hm : r.msb = true
  · rw [if_pos hm] at h
    -- bit 0 of (r <<< 1) is 0 but bit 0 of G is 1
    have h0 : (r <<< 1 ^^^ G).getLsbD 0 = false := by rw [h]; rfl
    rw [BitVec.getLsbD_xor, BitVec.getLsbD_shiftLeft] at h0
    simp at h0
    exact absurd h0 (by decide)
  · have hm' : r.msb = false := by simpa using hm
    rw [if_neg hm] at h
    have e : r <<< 1 ^^^ (0 : W) = r <<< 1 := BitVec.xor_zero
    rw [e] at h
    apply BitVec.eq_of_getLsbD_eq
    intro i hi
    have z : BitVec.getLsbD (0 : W) i = false := by simp
    rw [z]
    by_cases h23 : i = 23
    · subst h23
      rw [BitVec.msb_eq_getLsbD_last] at hm'
      exact hm'
    · have : (r <<< 1).getLsbD (i + 1) = false := by rw [h]; simp
      rw [BitVec.getLsbD_shiftLeft] at this
      have hlt : i + 1 < 24 := by omega
      simpa [hlt] using this

theorem mulXn_inj (k : Nat) (r : W) (h : mulXn k r = 0) : r = 0 := by
  induction k generalizing r with
  | zero => exact h
  | succ k ih => exact mulX_inj r (ih (mulX r) h)

end Adsb
