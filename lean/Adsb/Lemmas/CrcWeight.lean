import Adsb.Lemmas.CrcSyn
/-! # Minimum distance of the Mode S parity code on 112 bits: no error pattern of 1…5 bits has syndrome 0

* the syndrome of a bit string is the XOR of `x^k mod g` over the positions `k` of its set bits (`syndrome_positions`);
* `g(1) = 0`, so an odd number of terms never sums to 0 (`par`: the sum of the coefficients is invariant under `·x mod g`);
* the 6329 sums of at most two of the 112 residues `x^0 … x^111` are pairwise different — checked by the kernel on a
  sorted copy (`vals_strict`, a structural merge sort) — so no 2 or 4 terms sum to 0 either.
These are facts about the generator polynomial alone; the tie to the code's table is `C03.table_is_polynomial_remainders`. -/

namespace Adsb
open Adsb.Spec
set_option linter.unusedSimpArgs false

/-! ## syndrome = XOR over the positions of the set bits -/

/-- `x^k mod g` -/
def xk (k : Nat) : W := mulXn k 1

/-- sum of `x^k mod g` over a list of exponents -/
def xorAt : List Nat → W
  | [] => 0
  | k :: rest => xk k ^^^ xorAt rest

/-- exponents of the set bits of a bit string (first bit = highest exponent); strictly decreasing -/
def posOf : List Bool → List Nat
  | [] => []
  | b :: t => if b then t.length :: posOf t else posOf t

theorem fold_divStep_positions (l : List Bool) (r : W) : l.foldl divStep r = mulXn l.length r ^^^ xorAt (posOf l) := by
  induction l generalizing r with
  | nil => simp [posOf, xorAt, mulXn]
  | cons b t ih =>
    rw [List.foldl_cons, ih, divStep_as, mulXn_xor]
    have e1 : mulXn t.length (mulX r) = mulXn (t.length + 1) r := rfl
    rw [e1]
    cases b
    · have : mulXn t.length (bitW false) = 0 := mulXn_zero _
      simp [posOf, this]
    · have : mulXn t.length (bitW true) = xk t.length := rfl
      simp only [posOf, if_true, xorAt, this, List.length_cons]
      ac_rfl

theorem syndrome_positions (l : List Bool) : syndrome l = xorAt (posOf l) := by
  unfold syndrome
  rw [fold_divStep_positions, mulXn_zero]; simp

theorem posOf_lt (l : List Bool) : ∀ k ∈ posOf l, k < l.length := by
  induction l with
  | nil => intro k hk; cases hk
  | cons b t ih =>
    intro k hk
    cases b
    · simp only [posOf] at hk
      have := ih k (by simpa using hk); simp; omega
    · simp only [posOf, if_true, List.mem_cons] at hk
      rcases hk with rfl | hk
      · simp
      · have := ih k hk; simp; omega

theorem posOf_desc (l : List Bool) : (posOf l).Pairwise (· > ·) := by
  induction l with
  | nil => exact List.Pairwise.nil
  | cons b t ih =>
    cases b
    · simpa [posOf] using ih
    · simp only [posOf, if_true]
      exact List.Pairwise.cons (fun k hk => posOf_lt t k hk) ih

/-- number of set bits -/
def weight (l : List Bool) : Nat := (posOf l).length

theorem xorAt_append (a b : List Nat) : xorAt (a ++ b) = xorAt a ^^^ xorAt b := by
  induction a with
  | nil => simp [xorAt]
  | cons k rest ih => simp only [List.cons_append, xorAt, ih]; ac_rfl

/-! ## a structural merge sort the kernel can run, and what a strictly increasing result means -/

def mergeF : Nat → List Nat → List Nat → List Nat
  | 0, l1, l2 => l1 ++ l2
  | f + 1, l1, l2 => match l1, l2 with
    | [], l2 => l2
    | l1, [] => l1
    | a :: r1, b :: r2 => if a ≤ b then a :: mergeF f r1 (b :: r2) else b :: mergeF f (a :: r1) r2

def halve : List Nat → List Nat × List Nat
  | [] => ([], [])
  | [a] => ([a], [])
  | a :: b :: rest => let r := halve rest; (a :: r.1, b :: r.2)

def msort : Nat → List Nat → List Nat
  | 0, l => l
  | f + 1, l => match l with
    | [] => []
    | [a] => [a]
    | _ => let h := halve l; mergeF l.length (msort f h.1) (msort f h.2)

def strictInc : List Nat → Bool
  | [] => true
  | [_] => true
  | a :: b :: rest => decide (a < b) && strictInc (b :: rest)

theorem mergeF_perm (f : Nat) : ∀ l1 l2 : List Nat, (mergeF f l1 l2).Perm (l1 ++ l2) := by
  induction f with
  | zero => intro l1 l2; exact List.Perm.refl _
  | succ f ih =>
    intro l1 l2
    cases l1 with
    | nil => simp [mergeF]
    | cons a r1 =>
      cases l2 with
      | nil => simp [mergeF]
      | cons b r2 =>
        simp only [mergeF]
        split
        · exact List.Perm.cons a (ih r1 (b :: r2))
        · have h := ih (a :: r1) r2
          exact (List.Perm.cons b h).trans (List.perm_middle.symm)

theorem halve_perm : ∀ l : List Nat, ((halve l).1 ++ (halve l).2).Perm l
  | [] => List.Perm.refl _
  | [a] => List.Perm.refl _
  | a :: b :: rest => by
    have ih := halve_perm rest
    simp only [halve, List.cons_append]
    exact List.Perm.cons a ((List.perm_middle).trans (List.Perm.cons b ih))

theorem msort_perm (f : Nat) : ∀ l : List Nat, (msort f l).Perm l := by
  induction f with
  | zero => intro l; exact List.Perm.refl _
  | succ f ih =>
    intro l
    match l with
    | [] => exact List.Perm.refl _
    | [a] => exact List.Perm.refl _
    | a :: b :: rest =>
      simp only [msort]
      exact (mergeF_perm _ _ _).trans ((List.Perm.append (ih _) (ih _)).trans (halve_perm _))

theorem strictInc_pairwise : ∀ l : List Nat, strictInc l = true → l.Pairwise (· < ·)
  | [], _ => List.Pairwise.nil
  | [a], _ => List.Pairwise.cons (fun _ h => by cases h) List.Pairwise.nil
  | a :: b :: rest, h => by
    simp only [strictInc, Bool.and_eq_true, decide_eq_true_eq] at h
    have ih := strictInc_pairwise (b :: rest) h.2
    refine List.Pairwise.cons ?_ ih
    intro c hc
    rcases List.mem_cons.mp hc with rfl | hc
    · exact h.1
    · exact Nat.lt_trans h.1 ((List.pairwise_cons.mp ih).1 c hc)

/-- a list whose sorted copy is strictly increasing has no duplicates -/
theorem nodup_of_sorted_strict (f : Nat) (l : List Nat) (h : strictInc (msort f l) = true) : l.Nodup := by
  have hp := strictInc_pairwise _ h
  have hn : (msort f l).Nodup := hp.imp (fun h => Nat.ne_of_lt h)
  exact (msort_perm f l).nodup_iff.mp hn

/-! ## all sums of at most two residues -/

def pairsL {α : Type} : List α → List (α × α)
  | [] => []
  | a :: rest => rest.map (fun b => (a, b)) ++ pairsL rest

theorem pairsL_map {α β : Type} (f : α → β) : ∀ l : List α, pairsL (l.map f) = (pairsL l).map (fun p => (f p.1, f p.2))
  | [] => rfl
  | a :: rest => by simp [pairsL, pairsL_map f rest, List.map_append, Function.comp_def]

/-- `[n-1, …, 1, 0]` -/
def desc : Nat → List Nat
  | 0 => []
  | n + 1 => n :: desc n

theorem mem_desc (n k : Nat) : k ∈ desc n ↔ k < n := by
  induction n with
  | zero => simp [desc]
  | succ n ih => simp only [desc, List.mem_cons, ih]; omega

theorem mem_pairsL_desc (n a b : Nat) (ha : a < n) (hb : b < a) : (a, b) ∈ pairsL (desc n) := by
  induction n with
  | zero => omega
  | succ n ih =>
    simp only [desc, pairsL, List.mem_append, List.mem_map]
    by_cases h : a = n
    · left; exact ⟨b, (mem_desc n b).mpr (by omega), by rw [h]⟩
    · right; exact ih (by omega)

/-- the exponent lists with at most two elements, in decreasing order, below `n` -/
def subs2 (n : Nat) : List (List Nat) :=
  [] :: (desc n).map (fun k => [k]) ++ (pairsL (desc n)).map (fun p => [p.1, p.2])

theorem mem_subs2_nil (n : Nat) : [] ∈ subs2 n := by simp [subs2]
theorem mem_subs2_one (n k : Nat) (h : k < n) : [k] ∈ subs2 n :=
  List.mem_cons_of_mem _ (List.mem_append_left _ (List.mem_map.mpr ⟨k, (mem_desc n k).mpr h, rfl⟩))
theorem mem_subs2_two (n a b : Nat) (ha : a < n) (hb : b < a) : [a, b] ∈ subs2 n :=
  List.mem_cons_of_mem _ (List.mem_append_right _ (List.mem_map.mpr ⟨(a, b), mem_pairsL_desc n a b ha hb, rfl⟩))

theorem nodup_of_nodup_map {α β : Type} (f : α → β) : ∀ l : List α, (l.map f).Nodup → l.Nodup
  | [], _ => List.nodup_nil
  | x :: rest, h => by
    rw [List.map_cons, List.nodup_cons] at h
    exact List.nodup_cons.mpr ⟨fun hx => h.1 (List.mem_map.mpr ⟨x, hx, rfl⟩), nodup_of_nodup_map f rest h.2⟩

theorem inj_of_nodup_map {α β : Type} (f : α → β) : ∀ l : List α, (l.map f).Nodup → ∀ a ∈ l, ∀ b ∈ l, f a = f b → a = b
  | [], _, a, ha, _, _, _ => by cases ha
  | x :: rest, h, a, ha, b, hb, hab => by
    rw [List.map_cons, List.nodup_cons] at h
    rcases List.mem_cons.mp ha with rfl | ha' <;> rcases List.mem_cons.mp hb with rfl | hb'
    · rfl
    · exact absurd (List.mem_map.mpr ⟨b, hb', hab.symm⟩) h.1
    · exact absurd (List.mem_map.mpr ⟨a, ha', hab⟩) h.1
    · exact inj_of_nodup_map f rest h.2 a ha' b hb' hab

/-- the residues `x^111 … x^0 mod g` as numbers (a constant of the generator polynomial; re-computed by the kernel in `TN_eq`) -/
def TNlit : List Nat :=
  [3749354, 1874677, 15841150, 7920575, 12818395, 10367465, 11592432, 5796216, 2898108, 1449054, 724527, 16416019,
   8569997, 12490818, 6245409, 13655060, 6827530, 3413765, 15069574, 7534787, 13010533, 10271030, 5135515, 14210121,
   9670688, 4835344, 2417672, 1208836, 604418, 302209, 16626756, 8313378, 4156689, 14699660, 7349830, 3674915, 14939029,
   9307086, 4653543, 14449399, 9553791, 11999675, 10778329, 11387240, 5693620, 2846810, 1423405, 16066066, 8033033,
   12759936, 6379968, 3189984, 1594992, 797496, 398748, 199374, 99687, 16726199, 8414815, 12568875, 10493585, 11531596,
   5765798, 2882899, 15336621, 9107538, 4553769, 14500880, 7250440, 3625220, 1812610, 906305, 16322596, 8161298, 4080649,
   14735360, 7367680, 3683840, 1841920, 920960, 460480, 230240, 115120, 57560, 28780, 14390, 7195, 16774153, 8388608,
   4194304, 2097152, 1048576, 524288, 262144, 131072, 65536, 32768, 16384, 8192, 4096, 2048, 1024, 512, 256, 128, 64, 32,
   16, 8, 4, 2, 1]

theorem TN_eq : (desc 112).map (fun k => (xk k).toNat) = TNlit := by decide +kernel

/-- 0, the 112 residues, and the 6216 sums of two of them -/
def valsN : List Nat := 0 :: TNlit ++ (pairsL TNlit).map (fun p => p.1 ^^^ p.2)

/-- **kernel computation**: the 6329 sums of at most two residues, sorted, are strictly increasing -/
theorem vals_strict : strictInc (msort 14 valsN) = true := by decide +kernel

theorem xorAt_one (k : Nat) : xorAt [k] = xk k := by simp [xorAt]
theorem xorAt_two (a b : Nat) : xorAt [a, b] = xk a ^^^ xk b := by simp [xorAt]

theorem subs2_vals : ((subs2 112).map xorAt).map BitVec.toNat = valsN := by
  unfold subs2 valsN
  rw [← TN_eq, pairsL_map]
  simp only [List.map_cons, List.map_append, List.map_map, Function.comp_def, xorAt_one, xorAt_two, BitVec.toNat_xor]
  rfl

/-- sums of at most two residues determine the exponents -/
theorem subs2_inj : ∀ A ∈ subs2 112, ∀ B ∈ subs2 112, xorAt A = xorAt B → A = B := by
  have h1 : valsN.Nodup := nodup_of_sorted_strict 14 valsN vals_strict
  rw [← subs2_vals] at h1
  exact inj_of_nodup_map xorAt (subs2 112) (nodup_of_nodup_map _ _ h1)

/-! ## g(1) = 0: the sum of the coefficients is invariant under multiplication by x modulo g -/

def par (r : W) : Bool := (List.range 24).foldl (fun acc i => acc ^^ r.getLsbD i) false

theorem par_fold_xor (a b : W) (l : List Nat) (x y : Bool) :
    l.foldl (fun acc i => acc ^^ (a ^^^ b).getLsbD i) (x ^^ y) =
      (l.foldl (fun acc i => acc ^^ a.getLsbD i) x ^^ l.foldl (fun acc i => acc ^^ b.getLsbD i) y) := by
  induction l generalizing x y with
  | nil => rfl
  | cons i rest ih =>
    rw [List.foldl_cons, List.foldl_cons, List.foldl_cons]
    have e : ((x ^^ y) ^^ (a ^^^ b).getLsbD i) = ((x ^^ a.getLsbD i) ^^ (y ^^ b.getLsbD i)) := by
      rw [BitVec.getLsbD_xor]
      cases x <;> cases y <;> cases a.getLsbD i <;> cases b.getLsbD i <;> rfl
    rw [e]
    exact ih _ _

theorem par_xor (a b : W) : par (a ^^^ b) = (par a ^^ par b) := by
  unfold par
  exact par_fold_xor a b (List.range 24) false false

theorem par_mulX_top : ∀ t : BitVec 8, par (mulX (t.setWidth 24 <<< 16)) = par (t.setWidth 24 <<< 16) := by decide +kernel
theorem par_mulX_mid : ∀ t : BitVec 8, par (mulX (t.setWidth 24 <<< 8)) = par (t.setWidth 24 <<< 8) := by decide +kernel
theorem par_mulX_low : ∀ t : BitVec 8, par (mulX (t.setWidth 24)) = par (t.setWidth 24) := by decide +kernel

theorem par_mulX (r : W) : par (mulX r) = par r := by
  have h := split3 r
  rw [h, mulX_xor, mulX_xor, par_xor, par_xor, par_xor, par_xor, par_mulX_top, par_mulX_mid, par_mulX_low]

theorem par_xk (k : Nat) : par (xk k) = true := by
  induction k with
  | zero => decide
  | succ k ih => unfold xk at ih ⊢; rw [mulXn_succ', par_mulX, ih]

theorem par_xorAt (ks : List Nat) : par (xorAt ks) = decide (ks.length % 2 = 1) := by
  induction ks with
  | nil => decide
  | cons k rest ih =>
    rw [xorAt, par_xor, par_xk, ih]
    simp only [List.length_cons]
    by_cases h : rest.length % 2 = 1
    · have : ¬ ((rest.length + 1) % 2 = 1) := by omega
      simp [h, this]
    · have : (rest.length + 1) % 2 = 1 := by omega
      simp [h, this]

/-- **no sum of 1 to 5 distinct residues among `x^0 … x^111` vanishes** -/
theorem xorAt_ne_zero (ks : List Nat) (hd : ks.Pairwise (· > ·)) (hlt : ∀ k ∈ ks, k < 112)
    (h1 : 1 ≤ ks.length) (h5 : ks.length ≤ 5) : xorAt ks ≠ 0 := by
  intro hz
  have hp := par_xorAt ks
  rw [hz] at hp
  have hp0 : par (0 : W) = false := by decide
  rw [hp0] at hp
  have heven : ks.length % 2 = 0 := by
    have : ¬ (ks.length % 2 = 1) := by simpa using hp.symm
    omega
  match ks, hd, hlt, h1, h5, heven, hz with
  | [a, b], hd, hlt, _, _, _, hz =>
    have hab : b < a := (List.pairwise_cons.mp hd).1 b (by simp)
    have := subs2_inj [a, b] (mem_subs2_two 112 a b (hlt a (by simp)) hab) [] (mem_subs2_nil 112) (by rw [hz]; rfl)
    cases this
  | [a, b, c, d], hd, hlt, _, _, _, hz =>
    have hab : b < a := (List.pairwise_cons.mp hd).1 b (by simp)
    have hac : c < a := (List.pairwise_cons.mp hd).1 c (by simp)
    have hcd : d < c := (List.pairwise_cons.mp (List.pairwise_cons.mp (List.pairwise_cons.mp hd).2).2).1 d (by simp)
    have hsplit : xorAt [a, b, c, d] = xorAt [a, b] ^^^ xorAt [c, d] := xorAt_append [a, b] [c, d]
    rw [hsplit] at hz
    have heq : xorAt [a, b] = xorAt [c, d] := by
      have := congrArg (· ^^^ xorAt [c, d]) hz
      simp only [BitVec.xor_assoc, BitVec.xor_self, BitVec.xor_zero, BitVec.zero_xor] at this
      simpa using this
    have := subs2_inj [a, b] (mem_subs2_two 112 a b (hlt a (by simp)) hab) [c, d] (mem_subs2_two 112 c d (hlt c (by simp)) hcd) heq
    injection this with h _
    omega
  | [], _, _, h1, _, _, _ => simp at h1
  | [_], _, _, _, _, he, _ => simp at he
  | [_, _, _], _, _, _, _, he, _ => simp at he
  | [_, _, _, _, _], _, _, _, _, he, _ => simp at he
  | _ :: _ :: _ :: _ :: _ :: _ :: _, _, _, _, h5, _, _ => simp at h5

end Adsb
