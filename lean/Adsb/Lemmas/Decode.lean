import Adsb.Frame
/-! # Lemmas for symbolic evaluation of `decode` on a buffer of sufficient length -/

namespace Adsb

theorem modesChecksum_ok (msg : List UInt8) (bits : Nat) (h3 : 3 ≤ bits / 8) (hl : bits / 8 ≤ msg.length) :
    modesChecksum msg bits = .ok (crcVal msg (bits / 8)) := by
  unfold modesChecksum
  have : ¬ (bits / 8 < 3 ∨ msg.length < bits / 8) := by omega
  simp [this]

theorem modesChecksum_short (msg : List UInt8) (bits : Nat) (hl : msg.length < bits / 8) :
    modesChecksum msg bits = .err .incomplete := by
  unfold modesChecksum
  simp [hl]

/-- the checksum only looks at the first `n` bytes -/
theorem crcVal_take (msg : List UInt8) (n k : Nat) (h3 : 3 ≤ n) (hk : n ≤ k) :
    crcVal (msg.take k) n = crcVal msg n := by
  unfold crcVal tail24
  have e1 : (msg.take k).take (n - 3) = msg.take (n - 3) := by
    rw [List.take_take]; congr 1; omega
  have g : ∀ i, i < k → (msg.take k).getD i 0 = msg.getD i 0 := by
    intro i hi
    simp [List.getD_eq_getElem?_getD, hi]
  rw [e1, g (n - 3) (by omega), g (n - 2) (by omega), g (n - 1) (by omega)]

/-- the checksum window when the decoder consumed `hi` bytes and the format needs `bits` bits -/
theorem modesChecksum_take (msg : List UInt8) (bits k : Nat) (h3 : 3 ≤ bits / 8) (hk : bits / 8 ≤ k)
    (hl : bits / 8 ≤ msg.length) : modesChecksum (msg.take k) bits = .ok (crcVal msg (bits / 8)) := by
  rw [modesChecksum_ok _ _ h3 (by rw [List.length_take]; omega), crcVal_take _ _ _ h3 hk]

theorem decode_of_readDF (B : Buf) (df : DF) (s : RS) (h : readDF B RS.init = .ok (df, s)) :
    decode B = (readCrc B df s.hi >>= fun crc => pure { df := df, crc := crc }) := by
  simp [decode, h]

theorem decode_of_readDF_err (B : Buf) (e : Err) (h : readDF B RS.init = .err e) : decode B = .err e := by
  simp [decode, h]

/-- symbolic evaluation of the reader model: rewrites each read whose length side condition `omega`
can discharge, reduces literal arithmetic and decided `if`s. Extra definitions / hypotheses in `[...]`. -/
macro "dk" "[" ts:Lean.Parser.Tactic.simpLemma,* "]" : tactic =>
  `(tactic| simp (maxSteps := 4000000) (disch := omega) only [readBits_ok, readBitsLE_ok, skipBits_ok, seekBack_eq,
      Res.ok_bind, Res.err_bind, Res.pure_eq, RS.init, Nat.add_assoc, Nat.reduceAdd, Nat.reduceMul, Nat.reduceDiv,
      Nat.reduceSub, Nat.reduceMod, Nat.reduceEqDiff, Nat.reduceLeDiff, Nat.reduceLT, Nat.reduceGT, Nat.reduceBNe,
      Nat.reduceBEq, Nat.reduceAnd, max_max_div, Nat.max_eq_right, Nat.max_eq_left, Nat.zero_add, Nat.add_zero,
      reduceIte, if_true, if_false, and_true, true_and, and_self, or_true, true_or, or_false, false_or, and_false,
      false_and, not_true_eq_false, not_false_eq_true, ne_eq, bne_iff_ne, $ts,*])

end Adsb
