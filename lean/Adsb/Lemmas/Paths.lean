import Adsb.Lemmas.Readers
/-! # Closed-form characterisation of `decode`

`dfAt B` is the decoded `DF` value written directly as bit fields of the buffer (no reader state, no
monad); `Accept B` is the decidable acceptance predicate. `decode_char` states that `decode` returns
`dfAt B` with the checksum of the first `L` bytes exactly on `Accept B`. -/

namespace Adsb
set_option maxRecDepth 4000
set_option linter.unusedSimpArgs false

/-! ## header pieces -/

def capAt (B : Buf) : Cap :=
  { id := bitsAt B 5 3, reserved := if 1 ≤ bitsAt B 5 3 ∧ bitsAt B 5 3 ≤ 3 then bitsAt B 5 3 else 0 }

theorem readCap_5 (B : Buf) (h : 1 ≤ B.len) : readCap B ⟨5, 1⟩ = .ok (capAt B, ⟨8, 1⟩) := by
  unfold capAt
  by_cases hr : 1 ≤ bitsAt B 5 3 ∧ bitsAt B 5 3 ≤ 3
  · dk [readCap, readCapReserved, hr]
  · dk [readCap, hr]

def drKnown (id : Nat) : Prop := id = 0 ∨ id = 1 ∨ id = 4 ∨ id = 5
instance (id : Nat) : Decidable (drKnown id) := by unfold drKnown; infer_instance

def drAt (B : Buf) : DR :=
  { id := bitsAt B 8 5, unknown := if drKnown (bitsAt B 8 5) then none else some (bitsAt B 8 5) }

theorem readDR_8 (B : Buf) (h : 2 ≤ B.len) : readDR B ⟨8, 1⟩ = .ok (drAt B, ⟨13, 2⟩) := by
  unfold drAt drKnown
  by_cases hd : bitsAt B 8 5 = 0 ∨ bitsAt B 8 5 = 1 ∨ bitsAt B 8 5 = 4 ∨ bitsAt B 8 5 = 5
  · dk [readDR, hd]
  · dk [readDR, readDRUnknown, hd]

def umAt (B : Buf) : UM := { iis := bitsAt B 13 4, ids := bitsAt B 17 2 }

/-! ## the ME field (frame bits 32–87) -/

def altAt (B : Buf) : Alt :=
  { tc := bitsAt B 32 5, ss := bitsAt B 37 2, saf := bitsAt B 39 1, alt := ac12 (bitsAt B 40 12),
    t := bitsAt B 52 1, f := bitsAt B 53 1, lat := bitsAt B 54 17, lon := bitsAt B 71 17 }

def identAt (B : Buf) (off : Nat) : List Nat :=
  identText [bitsAt B off 6, bitsAt B (off + 6) 6, bitsAt B (off + 12) 6, bitsAt B (off + 18) 6,
    bitsAt B (off + 24) 6, bitsAt B (off + 30) 6, bitsAt B (off + 36) 6, bitsAt B (off + 42) 6]

def velAt (B : Buf) : Vel :=
  { st := bitsAt B 37 3, nacv := bitsAt B 40 5, sub := velSubAt B (bitsAt B 37 3) 45,
    vrateSrc := bitsAt B 67 1, vrateSign := bitsAt B 68 1, vrate := bitsAt B 69 9,
    reserved := bitsAt B 78 2, gnssSign := bitsAt B 80 1,
    gnssDiff := if bitsAt B 81 7 > 1 then (bitsAt B 81 7 - 1) * 25 else 0 }

def surfAt (B : Buf) : Surf :=
  { mov := bitsAt B 37 7, s := bitsAt B 44 1, trk := bitsAt B 45 7, t := bitsAt B 52 1,
    f := bitsAt B 53 1, lat := bitsAt B 54 17, lon := bitsAt B 71 17 }

def statusAt (B : Buf) : AcStatus :=
  { subType := if bitsAt B 37 3 ≤ 2 then bitsAt B 37 3 else 3, emergency := bitsAt B 40 3,
    squawk := decodeId13 (bitsAt B 43 13) }

def tssAt (B : Buf) : TSS :=
  { subtype := bitsAt B 37 2, isFms := bitsAt B 40 1,
    altitude := if bitsAt B 41 11 > 1 then (bitsAt B 41 11 - 1) * 32 else 0,
    qnhRaw := bitsAt B 52 9, isHeading := bitsAt B 61 1, headingRaw := bitsAt B 62 9,
    nacp := bitsAt B 71 4, nicbaro := bitsAt B 75 1, sil := bitsAt B 76 2,
    modeValidity := bitsAt B 78 1, autopilot := bitsAt B 79 1, vnav := bitsAt B 80 1,
    altHold := bitsAt B 81 1, imf := bitsAt B 82 1, approach := bitsAt B 83 1,
    tcas := bitsAt B 84 1, lnav := bitsAt B 85 1 }

def opAirAt (B : Buf) : OpAir :=
  { acas := bitsAt B 42 1, cdti := bitsAt B 43 1, arv := bitsAt B 46 1, ts := bitsAt B 47 1, tc := bitsAt B 48 2,
    om := { ra := bitsAt B 58 1, ident := bitsAt B 59 1, atc := bitsAt B 60 1, saf := bitsAt B 61 1, sda := bitsAt B 62 2 },
    version := bitsAt B 72 3, nicA := bitsAt B 75 1, nacp := bitsAt B 76 4, gva := bitsAt B 80 2, sil := bitsAt B 82 2,
    nicbaro := bitsAt B 84 1, hrd := bitsAt B 85 1, silSupp := bitsAt B 86 1 }

def opSurfAt (B : Buf) : OpSurf :=
  { poe := bitsAt B 42 1, es1090 := bitsAt B 43 1, b2low := bitsAt B 46 1, uatIn := bitsAt B 47 1, nacv := bitsAt B 48 3,
    nicC := bitsAt B 51 1, lw := bitsAt B 52 4,
    om := { ra := bitsAt B 58 1, ident := bitsAt B 59 1, atc := bitsAt B 60 1, saf := bitsAt B 61 1, sda := bitsAt B 62 2 },
    gpsOffset := bitsAt B 64 8, version := bitsAt B 72 3, nicA := bitsAt B 75 1, nacp := bitsAt B 76 4, sil := bitsAt B 82 2,
    nicbaro := bitsAt B 84 1, hrd := bitsAt B 85 1, silSupp := bitsAt B 86 1 }

def opStatusAt (B : Buf) : OpStatus :=
  if bitsAt B 37 3 = 0 then .airborne (opAirAt B)
  else if bitsAt B 37 3 = 1 then .surface (opSurfAt B)
  else .reserved (bitsAt B 32 5) (bitsAt B 37 40)

/-- the only payloads the decoder rejects: operational status, subtype 0/1, outside the version 0–2 layout -/
def opOk (B : Buf) : Prop :=
  (bitsAt B 37 3 = 0 → opAirOk B 40) ∧ (bitsAt B 37 3 = 1 → opSurfOk B 40)

instance (B : Buf) (bp : Nat) : Decidable (opAirOk B bp) := by unfold opAirOk; infer_instance
instance (B : Buf) (bp : Nat) : Decidable (opSurfOk B bp) := by unfold opSurfOk; infer_instance
instance (B : Buf) : Decidable (opOk B) := by unfold opOk; infer_instance

def meOk (B : Buf) : Prop := bitsAt B 32 5 = 31 → opOk B
instance (B : Buf) : Decidable (meOk B) := by unfold meOk; infer_instance

/-- the ME payload as bit fields of the frame; same case order as the decoder's `match` -/
def meAt (B : Buf) : ME :=
  let tc := bitsAt B 32 5
  if 9 ≤ tc ∧ tc ≤ 18 then .airPosBaro (altAt B)
  else if tc = 19 then .velocity (velAt B)
  else if tc = 0 then .noPosition (bitsAt B 37 48)
  else if tc ≤ 4 then .ident { tc := bitsAt B 32 5, ca := bitsAt B 37 3, cn := identAt B 40 }
  else if tc ≤ 8 then .surface (surfAt B)
  else if 20 ≤ tc ∧ tc ≤ 22 then .airPosGnss (altAt B)
  else if tc = 23 then .reserved0 (bitsAt B 37 48)
  else if tc = 24 then .surfaceSystemStatus (bitsAt B 32 48)
  else if tc ≤ 27 then .reserved1 (bitsAt B 32 48)
  else if tc = 28 then .status (statusAt B)
  else if tc = 29 then .tss (tssAt B)
  else if tc = 30 then .opCoord (bitsAt B 37 48)
  else .opStatus (opStatusAt B)

theorem meAirPos_ok (B : Buf) (h : 11 ≤ B.len) : meAirPos B ⟨37, 5⟩ = .ok (altAt B, ⟨88, 11⟩) := by
  dk [meAirPos, readAlt_ok, altAt]

theorem readOpStatus_ok (B : Buf) (h : 11 ≤ B.len) (hok : opOk B) :
    readOpStatus B ⟨37, 5⟩ = .ok (opStatusAt B, ⟨88, 11⟩) := by
  unfold opStatusAt
  obtain ⟨ha, hs⟩ := hok
  by_cases h0 : bitsAt B 37 3 = 0
  · dk [readOpStatus, readOpAirborne, readOpAir_ok B 40 5 (by omega) (ha h0), h0, opAirAt]
  · by_cases h1 : bitsAt B 37 3 = 1
    · dk [readOpStatus, readOpSurface, readOpSurf_ok B 40 5 (by omega) (hs h1), h0, h1, opSurfAt]
    · dk [readOpStatus, readOpReserved, h0, h1]

theorem readME_ok (B : Buf) (h : 11 ≤ B.len) (hok : meOk B) : readME B ⟨32, 4⟩ = .ok (meAt B, ⟨88, 11⟩) := by
  have hlt : bitsAt B 32 5 < 32 := bitsAt_lt B 32 5
  unfold meOk at hok
  have e : readME B ⟨32, 4⟩ = meBody (bitsAt B 32 5) B ⟨37, 5⟩ := by dk [readME]
  rw [e]
  by_cases c1 : 9 ≤ bitsAt B 32 5 ∧ bitsAt B 32 5 ≤ 18
  · dk [meBody, meAt, c1, meAirPosBaro, meAirPos_ok]
  by_cases c2 : bitsAt B 32 5 = 19
  · dk [meBody, meAt, c2, meVelocity, readVel_ok, velAt]
  by_cases c3 : bitsAt B 32 5 = 0
  · dk [meBody, meAt, c3, meNoPosition, meRaw53]
  by_cases c4 : bitsAt B 32 5 ≤ 4
  · have htc : 1 ≤ bitsAt B 32 5 ∧ bitsAt B 32 5 ≤ 4 := by omega
    dk [meBody, meAt, c1, c2, c3, c4, meIdent, readIdent_ok B 32 5 (by omega) htc, identAt]
  by_cases c5 : bitsAt B 32 5 ≤ 8
  · dk [meBody, meAt, c1, c2, c3, c4, c5, meSurface, readSurf_ok, surfAt]
  by_cases c6 : 20 ≤ bitsAt B 32 5 ∧ bitsAt B 32 5 ≤ 22
  · dk [meBody, meAt, c1, c2, c3, c4, c5, c6, meAirPosGnss, meAirPos_ok]
  by_cases c7 : bitsAt B 32 5 = 23
  · dk [meBody, meAt, c7, meReserved0, meRaw53]
  by_cases c8 : bitsAt B 32 5 = 24
  · dk [meBody, meAt, c8, meSurfaceSystemStatus, meRaw56]
  by_cases c9 : bitsAt B 32 5 ≤ 27
  · dk [meBody, meAt, c1, c2, c3, c4, c5, c6, c7, c8, c9, meReserved1, meRaw56]
  by_cases c10 : bitsAt B 32 5 = 28
  · dk [meBody, meAt, c10, meStatus, readAcStatus_ok, statusAt]
  by_cases c11 : bitsAt B 32 5 = 29
  · dk [meBody, meAt, c11, meTSS, readTSS_ok, tssAt]
  by_cases c12 : bitsAt B 32 5 = 30
  · dk [meBody, meAt, c12, meOpCoord, meRaw53]
  · have h31 : bitsAt B 32 5 = 31 := by omega
    dk [meBody, meAt, h31, meOpStatus, readOpStatus_ok B h (hok h31)]

end Adsb
