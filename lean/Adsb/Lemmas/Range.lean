/-! # A bounded-∀ checker the kernel can evaluate on a few thousand cases

`decide` on `∀ x : Fin 8192, …` overflows the kernel's recursion depth; splitting the range in
halves keeps the depth logarithmic. -/

namespace Adsb

/-- `p` holds on `[lo, lo+len)`; `fuel` bounds the splitting depth -/
def allRange (p : Nat → Bool) (lo len : Nat) : Nat → Bool
  | 0 => false
  | fuel + 1 =>
    if len = 0 then true
    else if len = 1 then p lo
    else
      let h := len / 2
      allRange p lo h fuel && allRange p (lo + h) (len - h) fuel

theorem allRange_sound (p : Nat → Bool) (fuel : Nat) : ∀ lo len, allRange p lo len fuel = true →
    ∀ x, lo ≤ x → x < lo + len → p x = true := by
  induction fuel with
  | zero => intro lo len h; simp [allRange] at h
  | succ fuel ih =>
    intro lo len h x hlo hhi
    unfold allRange at h
    by_cases h0 : len = 0
    · omega
    · by_cases h1 : len = 1
      · simp [h0, h1] at h
        have : x = lo := by omega
        rw [this]; exact h
      · simp [h0, h1] at h
        obtain ⟨ha, hb⟩ := h
        by_cases hx : x < lo + len / 2
        · exact ih lo (len / 2) ha x hlo hx
        · exact ih (lo + len / 2) (len - len / 2) hb x (by omega) (by omega)

/-- convenience: everything below `n` -/
theorem allBelow_sound (p : Nat → Bool) (n fuel : Nat) (h : allRange p 0 n fuel = true) :
    ∀ x, x < n → p x = true := fun x hx => allRange_sound p fuel 0 n h x (Nat.zero_le _) (by omega)

end Adsb
