import Adsb.Lemmas.Decode
/-! # Field-position lemmas for every payload reader, at a symbolic position `bp`

Each lemma says: on any buffer long enough, the reader returns exactly the listed bit fields
(`bitsAt B off w`, MSB first) and advances by the stated number of bits. They are the building
blocks of the per-format characterisations in `Lemmas/Paths.lean`. -/

namespace Adsb
set_option maxRecDepth 4000

theorem readUM_ok (B : Buf) (bp hi : Nat) (h : bp + 6 ≤ 8 * B.len) :
    readUM B ⟨bp, hi⟩ = .ok (⟨bitsAt B bp 4, bitsAt B (bp + 4) 2⟩, ⟨bp + 6, max hi ((bp + 13) / 8)⟩) := by
  dk [readUM]

theorem readAlt_ok (B : Buf) (bp hi : Nat) (h : bp + 56 ≤ 8 * B.len) :
    readAlt B ⟨bp, hi⟩ = .ok (
      { tc := bitsAt B bp 5, ss := bitsAt B (bp + 5) 2, saf := bitsAt B (bp + 7) 1, alt := ac12 (bitsAt B (bp + 8) 12),
        t := bitsAt B (bp + 20) 1, f := bitsAt B (bp + 21) 1, lat := bitsAt B (bp + 22) 17, lon := bitsAt B (bp + 39) 17 },
      ⟨bp + 56, max hi ((bp + 63) / 8)⟩) := by
  dk [readAlt]

theorem readChars_ok (B : Buf) (k bp hi : Nat) (h : bp + 6 * k ≤ 8 * B.len) (hk : 0 < k) :
    readChars B k ⟨bp, hi⟩ = .ok ((List.range k).map (fun i => bitsAt B (bp + 6 * i) 6),
      ⟨bp + 6 * k, max hi ((bp + 6 * k + 7) / 8)⟩) := by
  induction k generalizing bp hi with
  | zero => omega
  | succ k ih =>
    by_cases hk0 : k = 0
    · subst hk0
      dk [readChars, List.range_succ, List.range_zero, List.map_cons, List.map_nil, List.nil_append]
    · have hpos : 0 < k := by omega
      rw [readChars, readBits_ok _ _ _ _ (by omega)]
      simp only [Res.ok_bind]
      rw [ih (bp + 6) _ (by omega) hpos]
      simp only [Res.ok_bind, Res.pure_eq]
      congr 1
      congr 1
      · rw [List.range_succ_eq_map, List.map_cons, List.map_map]
        congr 1
        apply List.map_congr_left
        intro i _
        simp only [Function.comp, Nat.succ_eq_add_one]
        congr 1; omega
      · congr 1
        · omega
        · omega

theorem readIdent8_ok (B : Buf) (bp hi : Nat) (h : bp + 48 ≤ 8 * B.len) :
    readIdent8 B ⟨bp, hi⟩ = .ok (identText [bitsAt B bp 6, bitsAt B (bp + 6) 6, bitsAt B (bp + 12) 6, bitsAt B (bp + 18) 6,
        bitsAt B (bp + 24) 6, bitsAt B (bp + 30) 6, bitsAt B (bp + 36) 6, bitsAt B (bp + 42) 6],
      ⟨bp + 48, max hi ((bp + 55) / 8)⟩) := by
  dk [readIdent8, readChars]

theorem readIdent_ok (B : Buf) (bp hi : Nat) (h : bp + 56 ≤ 8 * B.len) (htc : 1 ≤ bitsAt B bp 5 ∧ bitsAt B bp 5 ≤ 4) :
    readIdent B ⟨bp, hi⟩ = .ok (
      { tc := bitsAt B bp 5, ca := bitsAt B (bp + 5) 3,
        cn := identText [bitsAt B (bp + 8) 6, bitsAt B (bp + 14) 6, bitsAt B (bp + 20) 6, bitsAt B (bp + 26) 6,
          bitsAt B (bp + 32) 6, bitsAt B (bp + 38) 6, bitsAt B (bp + 44) 6, bitsAt B (bp + 50) 6] },
      ⟨bp + 56, max hi ((bp + 63) / 8)⟩) := by
  dk [readIdent, readIdent8_ok, htc]

theorem readSurf_ok (B : Buf) (bp hi : Nat) (h : bp + 51 ≤ 8 * B.len) :
    readSurf B ⟨bp, hi⟩ = .ok (
      { mov := bitsAt B bp 7, s := bitsAt B (bp + 7) 1, trk := bitsAt B (bp + 8) 7, t := bitsAt B (bp + 15) 1,
        f := bitsAt B (bp + 16) 1, lat := bitsAt B (bp + 17) 17, lon := bitsAt B (bp + 34) 17 },
      ⟨bp + 51, max hi ((bp + 58) / 8)⟩) := by
  dk [readSurf]

theorem readVelGround_ok (B : Buf) (bp hi : Nat) (h : bp + 22 ≤ 8 * B.len) :
    readVelGround B ⟨bp, hi⟩ = .ok (.ground (bitsAt B bp 1) (bitsAt B (bp + 1) 10) (bitsAt B (bp + 11) 1) (bitsAt B (bp + 12) 10),
      ⟨bp + 22, max hi ((bp + 29) / 8)⟩) := by
  dk [readVelGround]

theorem readVelAirspeed_ok (B : Buf) (bp hi : Nat) (h : bp + 22 ≤ 8 * B.len) :
    readVelAirspeed B ⟨bp, hi⟩ = .ok (.airspeed (bitsAt B bp 1) (bitsAt B (bp + 1) 10) (bitsAt B (bp + 11) 1)
        (if bitsAt B (bp + 12) 10 > 0 then bitsAt B (bp + 12) 10 - 1 else 0),
      ⟨bp + 22, max hi ((bp + 29) / 8)⟩) := by
  dk [readVelAirspeed]

theorem readVelReserved0_ok (B : Buf) (bp hi : Nat) (h : bp + 22 ≤ 8 * B.len) :
    readVelReserved0 B ⟨bp, hi⟩ = .ok (.reserved0 (leBitsAt B bp 22), ⟨bp + 22, max hi ((bp + 29) / 8)⟩) := by
  dk [readVelReserved0]

theorem readVelReserved1_ok (B : Buf) (bp hi : Nat) (h : bp + 22 ≤ 8 * B.len) :
    readVelReserved1 B ⟨bp, hi⟩ = .ok (.reserved1 (leBitsAt B bp 22), ⟨bp + 22, max hi ((bp + 29) / 8)⟩) := by
  dk [readVelReserved1]

/-- the sub-type payload selected by the 3-bit subtype, as a function of the buffer -/
def velSubAt (B : Buf) (st bp : Nat) : VelSub :=
  if st = 0 then .reserved0 (leBitsAt B bp 22)
  else if st ≤ 2 then .ground (bitsAt B bp 1) (bitsAt B (bp + 1) 10) (bitsAt B (bp + 11) 1) (bitsAt B (bp + 12) 10)
  else if st ≤ 4 then .airspeed (bitsAt B bp 1) (bitsAt B (bp + 1) 10) (bitsAt B (bp + 11) 1)
        (if bitsAt B (bp + 12) 10 > 0 then bitsAt B (bp + 12) 10 - 1 else 0)
  else .reserved1 (leBitsAt B bp 22)

theorem readVelSub_ok (B : Buf) (st bp hi : Nat) (h : bp + 22 ≤ 8 * B.len) :
    readVelSub B st ⟨bp, hi⟩ = .ok (velSubAt B st bp, ⟨bp + 22, max hi ((bp + 29) / 8)⟩) := by
  unfold readVelSub velSubAt
  split
  · exact readVelReserved0_ok B bp hi h
  · split
    · exact readVelGround_ok B bp hi h
    · split
      · exact readVelAirspeed_ok B bp hi h
      · exact readVelReserved1_ok B bp hi h

theorem readVel_ok (B : Buf) (bp hi : Nat) (h : bp + 51 ≤ 8 * B.len) :
    readVel B ⟨bp, hi⟩ = .ok (
      { st := bitsAt B bp 3, nacv := bitsAt B (bp + 3) 5, sub := velSubAt B (bitsAt B bp 3) (bp + 8),
        vrateSrc := bitsAt B (bp + 30) 1, vrateSign := bitsAt B (bp + 31) 1, vrate := bitsAt B (bp + 32) 9,
        reserved := bitsAt B (bp + 41) 2, gnssSign := bitsAt B (bp + 43) 1,
        gnssDiff := if bitsAt B (bp + 44) 7 > 1 then (bitsAt B (bp + 44) 7 - 1) * 25 else 0 },
      ⟨bp + 51, max hi ((bp + 58) / 8)⟩) := by
  dk [readVel, readVelSub_ok]

theorem readAcStatus_ok (B : Buf) (bp hi : Nat) (h : bp + 51 ≤ 8 * B.len) :
    readAcStatus B ⟨bp, hi⟩ = .ok (
      { subType := if bitsAt B bp 3 ≤ 2 then bitsAt B bp 3 else 3, emergency := bitsAt B (bp + 3) 3,
        squawk := decodeId13 (bitsAt B (bp + 6) 13) },
      ⟨bp + 51, max hi ((bp + 58) / 8)⟩) := by
  dk [readAcStatus]

theorem readTSS_ok (B : Buf) (bp hi : Nat) (h : bp + 51 ≤ 8 * B.len) :
    readTSS B ⟨bp, hi⟩ = .ok (
      { subtype := bitsAt B bp 2, isFms := bitsAt B (bp + 3) 1,
        altitude := if bitsAt B (bp + 4) 11 > 1 then (bitsAt B (bp + 4) 11 - 1) * 32 else 0,
        qnhRaw := bitsAt B (bp + 15) 9, isHeading := bitsAt B (bp + 24) 1, headingRaw := bitsAt B (bp + 25) 9,
        nacp := bitsAt B (bp + 34) 4, nicbaro := bitsAt B (bp + 38) 1, sil := bitsAt B (bp + 39) 2,
        modeValidity := bitsAt B (bp + 41) 1, autopilot := bitsAt B (bp + 42) 1, vnav := bitsAt B (bp + 43) 1,
        altHold := bitsAt B (bp + 44) 1, imf := bitsAt B (bp + 45) 1, approach := bitsAt B (bp + 46) 1,
        tcas := bitsAt B (bp + 47) 1, lnav := bitsAt B (bp + 48) 1 },
      ⟨bp + 51, max hi ((bp + 58) / 8)⟩) := by
  dk [readTSS]

theorem readOpMode_ok (B : Buf) (bp hi : Nat) (h : bp + 8 ≤ 8 * B.len) (hr : bitsAt B bp 2 = 0) :
    readOpMode B ⟨bp, hi⟩ = .ok (
      { ra := bitsAt B (bp + 2) 1, ident := bitsAt B (bp + 3) 1, atc := bitsAt B (bp + 4) 1, saf := bitsAt B (bp + 5) 1,
        sda := bitsAt B (bp + 6) 2 }, ⟨bp + 8, max hi ((bp + 15) / 8)⟩) := by
  dk [readOpMode, hr]

theorem readOpMode_assert (B : Buf) (bp hi : Nat) (h : bp + 2 ≤ 8 * B.len) (hr : bitsAt B bp 2 ≠ 0) :
    readOpMode B ⟨bp, hi⟩ = .err .assertion := by
  dk [readOpMode, hr]

theorem readVersion_ok (B : Buf) (bp hi : Nat) (h : bp + 3 ≤ 8 * B.len) (hv : bitsAt B bp 3 ≤ 2) :
    readVersion B ⟨bp, hi⟩ = .ok (bitsAt B bp 3, ⟨bp + 3, max hi ((bp + 10) / 8)⟩) := by
  dk [readVersion, hv]

theorem readVersion_bad (B : Buf) (bp hi : Nat) (h : bp + 3 ≤ 8 * B.len) (hv : ¬ bitsAt B bp 3 ≤ 2) :
    readVersion B ⟨bp, hi⟩ = .err .parse := by
  dk [readVersion, hv]

/-- the acceptance condition of an airborne operational status payload starting (after the 3-bit subtype) at `bp` -/
def opAirOk (B : Buf) (bp : Nat) : Prop :=
  bitsAt B bp 2 = 0 ∧ bitsAt B (bp + 4) 2 = 0 ∧ bitsAt B (bp + 16) 2 = 0 ∧ bitsAt B (bp + 32) 3 ≤ 2

theorem readOpAir_ok (B : Buf) (bp hi : Nat) (h : bp + 48 ≤ 8 * B.len) (hok : opAirOk B bp) :
    readOpAir B ⟨bp, hi⟩ = .ok (
      { acas := bitsAt B (bp + 2) 1, cdti := bitsAt B (bp + 3) 1, arv := bitsAt B (bp + 6) 1, ts := bitsAt B (bp + 7) 1,
        tc := bitsAt B (bp + 8) 2,
        om := { ra := bitsAt B (bp + 18) 1, ident := bitsAt B (bp + 19) 1, atc := bitsAt B (bp + 20) 1,
                saf := bitsAt B (bp + 21) 1, sda := bitsAt B (bp + 22) 2 },
        version := bitsAt B (bp + 32) 3, nicA := bitsAt B (bp + 35) 1, nacp := bitsAt B (bp + 36) 4,
        gva := bitsAt B (bp + 40) 2, sil := bitsAt B (bp + 42) 2, nicbaro := bitsAt B (bp + 44) 1,
        hrd := bitsAt B (bp + 45) 1, silSupp := bitsAt B (bp + 46) 1 },
      ⟨bp + 48, max hi ((bp + 55) / 8)⟩) := by
  obtain ⟨h0, h1, h2, h3⟩ := hok
  dk [readOpAir, readOpMode_ok, readVersion_ok, h0, h1, h2, h3]

/-- the acceptance condition of a surface operational status payload -/
def opSurfOk (B : Buf) (bp : Nat) : Prop :=
  bitsAt B bp 2 = 0 ∧ bitsAt B (bp + 16) 2 = 0 ∧ bitsAt B (bp + 32) 3 ≤ 2

theorem readOpSurf_ok (B : Buf) (bp hi : Nat) (h : bp + 48 ≤ 8 * B.len) (hok : opSurfOk B bp) :
    readOpSurf B ⟨bp, hi⟩ = .ok (
      { poe := bitsAt B (bp + 2) 1, es1090 := bitsAt B (bp + 3) 1, b2low := bitsAt B (bp + 6) 1, uatIn := bitsAt B (bp + 7) 1,
        nacv := bitsAt B (bp + 8) 3, nicC := bitsAt B (bp + 11) 1, lw := bitsAt B (bp + 12) 4,
        om := { ra := bitsAt B (bp + 18) 1, ident := bitsAt B (bp + 19) 1, atc := bitsAt B (bp + 20) 1,
                saf := bitsAt B (bp + 21) 1, sda := bitsAt B (bp + 22) 2 },
        gpsOffset := bitsAt B (bp + 24) 8, version := bitsAt B (bp + 32) 3, nicA := bitsAt B (bp + 35) 1,
        nacp := bitsAt B (bp + 36) 4, sil := bitsAt B (bp + 42) 2, nicbaro := bitsAt B (bp + 44) 1,
        hrd := bitsAt B (bp + 45) 1, silSupp := bitsAt B (bp + 46) 1 },
      ⟨bp + 48, max hi ((bp + 55) / 8)⟩) := by
  obtain ⟨h0, h2, h3⟩ := hok
  dk [readOpSurf, readOpMode_ok, readVersion_ok, h0, h2, h3]

theorem readDLC_ok (B : Buf) (bp hi : Nat) (h : bp + 48 ≤ 8 * B.len) :
    readDLC B ⟨bp, hi⟩ = .ok (
      { continuation := bitsAt B bp 1, overlay := bitsAt B (bp + 6) 1, acas := bitsAt B (bp + 7) 1,
        subnet := bitsAt B (bp + 8) 7, enhanced := bitsAt B (bp + 15) 1, specific := bitsAt B (bp + 16) 1,
        uplinkElm := bitsAt B (bp + 17) 3, downlinkElm := bitsAt B (bp + 20) 4, identCap := bitsAt B (bp + 24) 1,
        squitterCap := bitsAt B (bp + 25) 1, sic := bitsAt B (bp + 26) 1, gicb := bitsAt B (bp + 27) 1,
        reservedAcas := bitsAt B (bp + 28) 4, bitArray := bitsAt B (bp + 32) 16 },
      ⟨bp + 48, max hi ((bp + 55) / 8)⟩) := by
  dk [readDLC]

end Adsb
