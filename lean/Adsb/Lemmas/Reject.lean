import Adsb.Lemmas.Char
/-! # The converse: whatever `decode` accepts lies in `Accept`; and the model never panics -/

namespace Adsb
set_option maxRecDepth 4000
set_option linter.unusedSimpArgs false

macro "all_ctor" : tactic => `(tactic| repeat (first
  | (apply Res.All_pure; rfl)
  | (apply Res.All_bind; rintro ⟨_, _⟩; dsimp only)
  | (apply Res.All_bind; intro _; dsimp only)))

theorem dfADSB_ctor (B : Buf) (s : RS) : Res.All (fun r => r.1.dekuId = some 17) (dfADSB B s) := by unfold dfADSB; all_ctor
theorem dfAllCall_ctor (B : Buf) (s : RS) : Res.All (fun r => r.1.dekuId = some 11) (dfAllCall B s) := by unfold dfAllCall; all_ctor
theorem dfShortAirAir_ctor (B : Buf) (s : RS) : Res.All (fun r => r.1.dekuId = some 0) (dfShortAirAir B s) := by unfold dfShortAirAir; all_ctor
theorem dfSurvAlt_ctor (B : Buf) (s : RS) : Res.All (fun r => r.1.dekuId = some 4) (dfSurvAlt B s) := by unfold dfSurvAlt; all_ctor
theorem dfSurvId_ctor (B : Buf) (s : RS) : Res.All (fun r => r.1.dekuId = some 5) (dfSurvId B s) := by unfold dfSurvId; all_ctor
theorem dfLongAirAir_ctor (B : Buf) (s : RS) : Res.All (fun r => r.1.dekuId = some 16) (dfLongAirAir B s) := by unfold dfLongAirAir; all_ctor
theorem dfTisB_ctor (B : Buf) (s : RS) : Res.All (fun r => r.1.dekuId = some 18) (dfTisB B s) := by unfold dfTisB; all_ctor
theorem dfMilitary_ctor (B : Buf) (s : RS) : Res.All (fun r => r.1.dekuId = some 19) (dfMilitary B s) := by unfold dfMilitary; all_ctor
theorem dfCommBAlt_ctor (B : Buf) (s : RS) : Res.All (fun r => r.1.dekuId = some 20) (dfCommBAlt B s) := by unfold dfCommBAlt; all_ctor
theorem dfCommBId_ctor (B : Buf) (s : RS) : Res.All (fun r => r.1.dekuId = some 21) (dfCommBId B s) := by unfold dfCommBId; all_ctor
theorem dfModeS_ctor (B : Buf) (s : RS) : Res.All (fun r => r.1.dekuId = none) (dfModeS B s) := by unfold dfModeS; all_ctor

/-- a successfully decoded format value has the frame length of the format code it was read under -/
theorem dfBody_frameLen (id : Nat) (B : Buf) (s s' : RS) (df : DF) (h : dfBody id B s = .ok (df, s')) :
    frameLen id = some (df.bitLen / 8) := by
  unfold dfBody at h
  split at h
  · next c => have := Res.All_ok (dfADSB_ctor B s) h; subst c; simp [DF.bitLen, this, frameLen]
  split at h
  · next c => have := Res.All_ok (dfAllCall_ctor B s) h; subst c; simp [DF.bitLen, this, frameLen]
  split at h
  · next c => have := Res.All_ok (dfShortAirAir_ctor B s) h; subst c; simp [DF.bitLen, this, frameLen]
  split at h
  · next c => have := Res.All_ok (dfSurvAlt_ctor B s) h; subst c; simp [DF.bitLen, this, frameLen]
  split at h
  · next c => have := Res.All_ok (dfSurvId_ctor B s) h; subst c; simp [DF.bitLen, this, frameLen]
  split at h
  · next c => have := Res.All_ok (dfLongAirAir_ctor B s) h; subst c; simp [DF.bitLen, this, frameLen]
  split at h
  · next c => have := Res.All_ok (dfTisB_ctor B s) h; subst c; simp [DF.bitLen, this, frameLen]
  split at h
  · next c => have := Res.All_ok (dfMilitary_ctor B s) h; subst c; simp [DF.bitLen, this, frameLen]
  split at h
  · next c => have := Res.All_ok (dfCommBAlt_ctor B s) h; subst c; simp [DF.bitLen, this, frameLen]
  split at h
  · next c => have := Res.All_ok (dfCommBId_ctor B s) h; subst c; simp [DF.bitLen, this, frameLen]
  split at h
  · next c17 c11 c0 c4 c5 c16 c18 c19 c20 c21 c24 =>
    have := Res.All_ok (dfModeS_ctor B s) h
    have hno : ¬ (id = 0 ∨ id = 4 ∨ id = 5 ∨ id = 11) := by omega
    have hyes : (16 ≤ id ∧ id ≤ 21) ∨ 24 ≤ id := Or.inr c24
    simp [DF.bitLen, this, frameLen, hno, hyes]
  · cases h

theorem readDF_inv (B : Buf) (df : DF) (s : RS) (h : readDF B RS.init = .ok (df, s)) :
    1 ≤ B.len ∧ dfBody (bitsAt B 0 5) B ⟨5, 1⟩ = .ok (df, s) := by
  by_cases hl : 1 ≤ B.len
  · refine ⟨hl, ?_⟩
    have e : readDF B RS.init = dfBody (bitsAt B 0 5) B ⟨5, 1⟩ := by dk [readDF]
    rw [e] at h; exact h
  · have : readDF B RS.init = .err .incomplete := by
      have hs : 8 * B.len < 0 + 5 := by omega
      unfold readDF RS.init
      rw [readBits_short B 5 0 0 hs, Res.err_bind]
    rw [this] at h; cases h

theorem decode_inv (B : Buf) (f : Frame) (h : decode B = .ok f) :
    ∃ s, readDF B RS.init = .ok (f.df, s) ∧ readCrc B f.df s.hi = .ok f.crc := by
  unfold decode at h
  obtain ⟨⟨df, s⟩, h1, h2⟩ := Res.bind_eq_ok h
  dsimp only at h2
  obtain ⟨crc, h3, h4⟩ := Res.bind_eq_ok h2
  rw [Res.pure_eq] at h4
  cases h4
  exact ⟨s, h1, h3⟩

/-- **everything the decoder accepts lies in the acceptance set** -/
theorem decode_ok_accept (B : Buf) (f : Frame) (h : decode B = .ok f) : Accept B := by
  obtain ⟨s, h1, h2⟩ := decode_inv B f h
  obtain ⟨hl1, hb⟩ := readDF_inv B f.df s h1
  have hfl := dfBody_frameLen _ _ _ _ _ hb
  have hlen := readCrc_ok_len B f.df s.hi f.crc h2
  unfold Accept
  rw [hfl]
  refine ⟨hlen, ?_⟩
  intro hid
  by_cases hm : meOk B
  · exact hm
  exfalso
  have hn := hm
  have h14 : 14 ≤ B.len := by
    rcases hid with c | c <;> (rw [c] at hfl; simp [frameLen] at hfl; show 14 ≤ B.bytes.length; omega)
  obtain ⟨e, he⟩ := readME_bad B (by omega) hn
  rcases hid with c | c
  · have : dfBody (bitsAt B 0 5) B ⟨5, 1⟩ = .err e := by dk [dfBody, c, dfADSB, readCap_5, he]
    rw [this] at hb; cases hb
  · have : dfBody (bitsAt B 0 5) B ⟨5, 1⟩ = .err e := by dk [dfBody, c, dfTisB, he]
    rw [this] at hb; cases hb

/-- **`decode` in closed form** -/
theorem decode_char (B : Buf) :
    (Accept B ∧ ∃ L, frameLen (bitsAt B 0 5) = some L ∧ L ≤ B.len ∧ decode B = .ok { df := dfAt B, crc := crcVal B.bytes L })
    ∨ (¬ Accept B ∧ ∀ f, decode B ≠ .ok f) := by
  by_cases h : Accept B
  · exact Or.inl ⟨h, decode_accept B h⟩
  · exact Or.inr ⟨h, fun f hf => h (decode_ok_accept B f hf)⟩

end Adsb
