import Adsb.Tracker
/-! # Lemmas about the association-list map and the per-record step of the tracker -/

namespace Adsb
set_option linter.unusedSimpArgs false
variable {P D : Type}

theorem get_put_same (s : Airplanes P D) (k : Nat) (v : Plane P D) : (s.put k v).get k = some v := by
  induction s with
  | nil => simp [Airplanes.put, Airplanes.get]
  | cons hd tl ih =>
    obtain ⟨k', v'⟩ := hd
    unfold Airplanes.put
    by_cases h1 : k < k'
    · simp [h1, Airplanes.get]
    · by_cases h2 : k = k'
      · simp [h1, h2, Airplanes.get]
      · have : ¬ k' = k := fun e => h2 e.symm
        simp [h1, h2, Airplanes.get, this, ih]

theorem get_put_other (s : Airplanes P D) (k k2 : Nat) (v : Plane P D) (hne : k2 ≠ k) : (s.put k v).get k2 = s.get k2 := by
  induction s with
  | nil =>
    have : ¬ k = k2 := fun e => hne e.symm
    simp [Airplanes.put, Airplanes.get, this]
  | cons hd tl ih =>
    obtain ⟨k', v'⟩ := hd
    unfold Airplanes.put
    by_cases h1 : k < k'
    · have : ¬ k = k2 := fun e => hne e.symm
      simp [h1, Airplanes.get, this]
    · by_cases h2 : k = k'
      · subst h2
        have : ¬ k = k2 := fun e => hne e.symm
        simp [h1, Airplanes.get, this]
      · simp only [h1, h2, if_false]
        by_cases h3 : k' = k2
        · simp [Airplanes.get, h3]
        · simp [Airplanes.get, h3, ih]

/-- keys in strictly increasing order: one record per address, iteration order = address order -/
def Sorted : Airplanes P D → Prop
  | [] => True
  | [_] => True
  | (k1, _) :: (k2, v2) :: rest => k1 < k2 ∧ Sorted ((k2, v2) :: rest)

def keys (s : Airplanes P D) : List Nat := s.map (·.1)

theorem sorted_tail {kv : Nat × Plane P D} {s : Airplanes P D} (h : Sorted (kv :: s)) : Sorted s := by
  cases s with
  | nil => trivial
  | cons b rest => obtain ⟨k1, v1⟩ := kv; obtain ⟨k2, v2⟩ := b; exact h.2

theorem sorted_head_lt {k : Nat} {v : Plane P D} {s : Airplanes P D} (h : Sorted ((k, v) :: s)) : ∀ kv ∈ s, k < kv.1 := by
  induction s generalizing k v with
  | nil => intro kv hkv; cases hkv
  | cons b rest ih =>
    obtain ⟨k2, v2⟩ := b
    intro kv hkv
    have h12 : k < k2 := h.1
    cases hkv with
    | head => exact h12
    | tail _ hm => exact Nat.lt_trans h12 (ih h.2 kv hm)

theorem sorted_cons {k : Nat} {v : Plane P D} {s : Airplanes P D} (hs : Sorted s) (hlt : ∀ kv ∈ s, k < kv.1) : Sorted ((k, v) :: s) := by
  cases s with
  | nil => trivial
  | cons b rest => obtain ⟨k2, v2⟩ := b; exact ⟨hlt (k2, v2) List.mem_cons_self, hs⟩

theorem mem_put (s : Airplanes P D) (k : Nat) (v : Plane P D) (kv : Nat × Plane P D) (h : kv ∈ s.put k v) : kv = (k, v) ∨ kv ∈ s := by
  induction s with
  | nil => simp [Airplanes.put] at h; left; exact h
  | cons hd tl ih =>
    obtain ⟨k', v'⟩ := hd
    unfold Airplanes.put at h
    by_cases h1 : k < k'
    · simp only [h1, if_true, List.mem_cons] at h
      rcases h with h | h | h
      · left; exact h
      · right; rw [h]; exact List.mem_cons_self
      · right; exact List.mem_cons_of_mem _ h
    · by_cases h2 : k = k'
      · subst h2
        simp only [Nat.lt_irrefl, if_false, if_true, List.mem_cons] at h
        rcases h with h | h
        · left; exact h
        · right; exact List.mem_cons_of_mem _ h
      · simp only [h1, h2, if_false, List.mem_cons] at h
        rcases h with h | h
        · right; rw [h]; exact List.mem_cons_self
        · rcases ih h with h | h
          · left; exact h
          · right; exact List.mem_cons_of_mem _ h

theorem sorted_put (s : Airplanes P D) (k : Nat) (v : Plane P D) (hs : Sorted s) : Sorted (s.put k v) := by
  induction s with
  | nil => trivial
  | cons hd tl ih =>
    obtain ⟨k', v'⟩ := hd
    unfold Airplanes.put
    by_cases h1 : k < k'
    · simp only [h1, if_true]; exact ⟨h1, hs⟩
    · by_cases h2 : k = k'
      · subst h2
        simp only [Nat.lt_irrefl, if_false, if_true]
        exact sorted_cons (sorted_tail hs) (sorted_head_lt hs)
      · simp only [h1, h2, if_false]
        apply sorted_cons (ih (sorted_tail hs))
        intro kv hkv
        rcases mem_put tl k v kv hkv with e | e
        · rw [e]; show k' < k; omega
        · exact sorted_head_lt hs kv e

theorem sorted_filter (s : Airplanes P D) (p : Nat × Plane P D → Bool) (hs : Sorted s) : Sorted (s.filter p) := by
  induction s with
  | nil => trivial
  | cons hd tl ih =>
    obtain ⟨k, v⟩ := hd
    simp only [List.filter_cons]
    split
    · apply sorted_cons (ih (sorted_tail hs))
      intro kv hkv
      exact sorted_head_lt hs kv (List.mem_filter.mp hkv).1
    · exact ih (sorted_tail hs)

theorem get_none_of_lt (s : Airplanes P D) (k : Nat) (h : ∀ kv ∈ s, k < kv.1) : s.get k = none := by
  induction s with
  | nil => rfl
  | cons hd tl ih =>
    obtain ⟨k', v'⟩ := hd
    have : k < k' := h (k', v') List.mem_cons_self
    have hne : ¬ k' = k := by omega
    simp [Airplanes.get, hne, ih (fun kv hkv => h kv (List.mem_cons_of_mem _ hkv))]

theorem get_filter (s : Airplanes P D) (p : Nat × Plane P D → Bool) (k : Nat) (hs : Sorted s) :
    Airplanes.get (s.filter p) k = match s.get k with
      | some v => if p (k, v) then some v else none
      | none => none := by
  induction s with
  | nil => rfl
  | cons hd tl ih =>
    obtain ⟨k', v'⟩ := hd
    simp only [List.filter_cons]
    by_cases hk : k' = k
    · subst hk
      have hnone : Airplanes.get tl k' = none := get_none_of_lt tl k' (sorted_head_lt hs)
      by_cases hp : p (k', v') = true
      · simp [hp, Airplanes.get]
      · have hp' : p (k', v') = false := by simpa using hp
        have hf : Airplanes.get (tl.filter p) k' = none :=
          get_none_of_lt _ k' (fun kv hkv => sorted_head_lt hs kv (List.mem_filter.mp hkv).1)
        simp [hp', Airplanes.get, hf]
    · by_cases hp : p (k', v') = true
      · simp [hp, Airplanes.get, hk, ih (sorted_tail hs)]
      · have hp' : p (k', v') = false := by simpa using hp
        simp [hp', Airplanes.get, hk, ih (sorted_tail hs)]

theorem mem_keys_iff_get (s : Airplanes P D) (k : Nat) : k ∈ keys s ↔ (s.get k).isSome := by
  induction s with
  | nil => simp [keys, Airplanes.get]
  | cons hd tl ih =>
    obtain ⟨k', v'⟩ := hd
    by_cases h : k' = k
    · simp [keys, Airplanes.get, h]
    · have h' : ¬ k = k' := fun e => h e.symm
      simp only [keys, List.map_cons, List.mem_cons, Airplanes.get, h, h', if_false, false_or] at ih ⊢
      exact ih

end Adsb
