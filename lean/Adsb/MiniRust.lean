import Adsb.Res
/-! # Result values of the functions translated from Rust (`Gen/Fns.lean`, written by `tools/rust2lean.py`) -/

namespace Adsb.MiniRust

/-- what a translated function hands back -/
inductive Val where
  | num (n : Nat)       -- a plain value, `Ok(n)` or `Ok(Some(n))`
  | err                 -- `Err(_)`
  | none                -- `Ok(None)`
  deriving Repr, DecidableEq

/-- the value of an infallible call (0 when the call did not produce one; `notNum` then marks the run as failed) -/
def numOf : Res Val → Nat
  | .ok (.num n) => n
  | _ => 0

def notNum : Res Val → Bool
  | .ok (.num _) => false
  | _ => true

end Adsb.MiniRust
