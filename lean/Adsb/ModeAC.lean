import Adsb.Res
/-! # mode_ac.rs and the altitude / identity field readers (leaf functions over `Nat`) -/

namespace Adsb

def bitSet (x mask : Nat) : Bool := x &&& mask != 0

/-- `mode_ac::decode_id13_field` -/
def decodeId13 (f : Nat) : Nat :=
  (if bitSet f 0x1000 then 0x0010 else 0) |||
  (if bitSet f 0x0800 then 0x1000 else 0) |||
  (if bitSet f 0x0400 then 0x0020 else 0) |||
  (if bitSet f 0x0200 then 0x2000 else 0) |||
  (if bitSet f 0x0100 then 0x0040 else 0) |||
  (if bitSet f 0x0080 then 0x4000 else 0) |||
  (if bitSet f 0x0020 then 0x0100 else 0) |||
  (if bitSet f 0x0010 then 0x0001 else 0) |||
  (if bitSet f 0x0008 then 0x0200 else 0) |||
  (if bitSet f 0x0004 then 0x0002 else 0) |||
  (if bitSet f 0x0002 then 0x0400 else 0) |||
  (if bitSet f 0x0001 then 0x0004 else 0)

/-- `mode_ac::mode_a_to_mode_c`; `none` = `Err("Invalid altitude")`. Input is below 2^32. -/
def modeAToC (a : Nat) : Option Nat :=
  if a &&& 0xffff8889 != 0 || a &&& 0xf0 == 0 then none else
  let oh := (if bitSet a 0x10 then 7 else 0) ^^^ (if bitSet a 0x20 then 3 else 0) ^^^ (if bitSet a 0x40 then 1 else 0)
  let oh := if oh &&& 5 == 5 then oh ^^^ 2 else oh
  if oh > 5 then none else
  let fh := (if bitSet a 0x0002 then 0xff else 0) ^^^ (if bitSet a 0x0004 then 0x7f else 0) ^^^
            (if bitSet a 0x1000 then 0x3f else 0) ^^^ (if bitSet a 0x2000 then 0x1f else 0) ^^^
            (if bitSet a 0x4000 then 0x0f else 0) ^^^ (if bitSet a 0x0100 then 0x07 else 0) ^^^
            (if bitSet a 0x0200 then 0x03 else 0) ^^^ (if bitSet a 0x0400 then 0x01 else 0)
  let oh := if fh &&& 1 != 0 && oh ≤ 6 then 6 - oh else oh
  let n := fh * 5 + oh
  if n ≥ 13 then some (n - 13) else none

/-- `AC13Field::read` applied to the 13-bit code; 0 = "no altitude" -/
def ac13 (num : Nat) : Nat :=
  if num == 0 || num == 0x1fff then 0
  else if num &&& 0x40 != 0 then 0
  else if num &&& 0x10 != 0 then
    let n := ((num &&& 0x1f80) >>> 2) ||| ((num &&& 0x20) >>> 1) ||| (num &&& 0xf)
    let n := n * 25
    if n > 1000 then n - 1000 else 0
  else
    match modeAToC (decodeId13 num) with
    | some n => if 100 * n < 65536 then 100 * n else 0
    | none => 0

/-- `Altitude::read` applied to the 12-bit code -/
def ac12 (num : Nat) : Option Nat :=
  if num &&& 0x10 != 0 then
    let n := ((num &&& 0xfe0) >>> 1) ||| (num &&& 0xf)
    let n := n * 25
    if n > 1000 then (if n - 1000 < 65536 then some (n - 1000) else none) else none
  else
    let n := ((num &&& 0xfc0) <<< 1) ||| (num &&& 0x3f)
    match modeAToC (decodeId13 n) with
    | some n => if n * 100 < 65536 ∧ 0 < n * 100 then some (n * 100) else none
    | none => none

/-- `IdentityCode::read` applied to the 13-bit code: four hex-coded octal digits A B C D -/
def identityCode (num : Nat) : Nat :=
  let bit (k : Nat) : Nat := (num >>> k) &&& 1
  let c1 := bit 12; let a1 := bit 11; let c2 := bit 10; let a2 := bit 9; let c4 := bit 8; let a4 := bit 7
  let b1 := bit 5; let d1 := bit 4; let b2 := bit 3; let d2 := bit 2; let b4 := bit 1; let d4 := bit 0
  let a := (a4 <<< 2) ||| (a2 <<< 1) ||| a1
  let b := (b4 <<< 2) ||| (b2 <<< 1) ||| b1
  let c := (c4 <<< 2) ||| (c2 <<< 1) ||| c1
  let d := (d4 <<< 2) ||| (d2 <<< 1) ||| d1
  ((a <<< 12) ||| (b <<< 8) ||| (c <<< 4) ||| d) % 65536

end Adsb
