import Adsb.Frame
/-! # Canonical text of model values (the Rust harness prints the same text from the real types) -/

namespace Adsb

def hex (n w : Nat) : String := hexStr n w

def qnhBits (raw : Nat) : UInt32 :=
  if raw == 0 then (0.0 : Float32).toBits else ((800.0 : Float32) + Float32.ofNat (raw - 1) * 0.8).toBits

def headingBits (raw : Nat) : UInt32 := (Float32.ofNat raw * 180.0 / 256.0).toBits

def Cap.show (c : Cap) : String := s!"{c.id}:{c.reserved}"
def DR.show (d : DR) : String := match d.unknown with | none => s!"{d.id}" | some v => s!"U{v}"
def UM.show (u : UM) : String := s!"{u.iis}:{u.ids}"
def optNat : Option Nat → String | none => "-" | some n => toString n
def cnStr (cn : List Nat) : String := String.ofList (cn.map Char.ofNat)

def Alt.show (a : Alt) : String :=
  s!"tc={a.tc} ss={a.ss} saf={a.saf} alt={optNat a.alt} t={a.t} f={a.f} lat={a.lat} lon={a.lon}"

def OpMode.show (o : OpMode) : String := s!"{o.ra},{o.ident},{o.atc},{o.saf},{o.sda}"

def VelSub.show : VelSub → String
  | .reserved0 r => s!"R0 {r}"
  | .reserved1 r => s!"R1 {r}"
  | .ground a b c d => s!"GS {a} {b} {c} {d}"
  | .airspeed a b c d => s!"AS {a} {b} {c} {d}"

def ME.show : ME → String
  | .airPosBaro a => s!"AirPosBaro {a.show}"
  | .airPosGnss a => s!"AirPosGnss {a.show}"
  | .velocity v => s!"Velocity st={v.st} nacv={v.nacv} sub=[{v.sub.show}] src={v.vrateSrc} sgn={v.vrateSign} vr={v.vrate} rsv={v.reserved} gs={v.gnssSign} gd={v.gnssDiff}"
  | .noPosition d => s!"NoPosition d={hex d 12}"
  | .reserved0 d => s!"Reserved0 d={hex d 12}"
  | .surfaceSystemStatus d => s!"SurfaceSystemStatus d={hex d 12}"
  | .reserved1 d => s!"Reserved1 d={hex d 12}"
  | .opCoord d => s!"OpCoord d={hex d 12}"
  | .ident i => s!"Ident tc={i.tc} ca={i.ca} cn=\"{cnStr i.cn}\""
  | .surface s => s!"Surface mov={s.mov} s={s.s} trk={s.trk} t={s.t} f={s.f} lat={s.lat} lon={s.lon}"
  | .status s => s!"Status st={s.subType} em={s.emergency} sq={hex s.squawk 4}"
  | .tss t => s!"TSS subtype={t.subtype} fms={t.isFms} alt={t.altitude} qnh={hex (qnhBits t.qnhRaw).toNat 8} ih={t.isHeading} hdg={hex (headingBits t.headingRaw).toNat 8} nacp={t.nacp} nicbaro={t.nicbaro} sil={t.sil} mv={t.modeValidity} ap={t.autopilot} vnav={t.vnav} ah={t.altHold} imf={t.imf} app={t.approach} tcas={t.tcas} lnav={t.lnav}"
  | .opStatus (.airborne a) => s!"OpAir acas={a.acas} cdti={a.cdti} arv={a.arv} ts={a.ts} tc={a.tc} om={a.om.show} ver={a.version} nica={a.nicA} nacp={a.nacp} gva={a.gva} sil={a.sil} nicbaro={a.nicbaro} hrd={a.hrd} ss={a.silSupp}"
  | .opStatus (.surface a) => s!"OpSurf poe={a.poe} es={a.es1090} b2={a.b2low} uat={a.uatIn} nacv={a.nacv} nicc={a.nicC} lw={a.lw} om={a.om.show} gps={a.gpsOffset} ver={a.version} nica={a.nicA} nacp={a.nacp} sil={a.sil} nicbaro={a.nicbaro} hrd={a.hrd} ss={a.silSupp}"
  | .opStatus (.reserved v d) => s!"OpRes v={v} d={hex d 10}"

def BDS.show : BDS → String
  | .empty d => s!"Empty d={hex d 12}"
  | .dataLink c => s!"DLC cont={c.continuation} ov={c.overlay} acas={c.acas} sub={c.subnet} enh={c.enhanced} spec={c.specific} up={c.uplinkElm} down={c.downlinkElm} ic={c.identCap} sc={c.squitterCap} sic={c.sic} gicb={c.gicb} ra={c.reservedAcas} ba={hex c.bitArray 4}"
  | .ident cn => s!"Ident cn=\"{cnStr cn}\""
  | .unknown i d => s!"Unknown id={hex i 2} d={hex d 12}"

def lb : String := "{"
def rb : String := "}"

def DF.show : DF → String
  | .adsb ca icao me pi => s!"DF17 ca={ca.show} aa={hex icao 6} me={lb}{me.show}{rb} pi={hex pi 6}"
  | .allCall ca icao p => s!"DF11 ca={ca.show} aa={hex icao 6} pi={hex p 6}"
  | .shortAirAir vs cc u0 sl u1 ri u2 alt p => s!"DF0 vs={vs} cc={cc} u0={u0} sl={sl} u1={u1} ri={ri} u2={u2} alt={alt} ap={hex p 6}"
  | .survAlt fs dr um ac ap => s!"DF4 fs={fs} dr={dr.show} um={um.show} alt={ac} ap={hex ap 6}"
  | .survId fs dr um id ap => s!"DF5 fs={fs} dr={dr.show} um={um.show} id={hex id 4} ap={hex ap 6}"
  | .longAirAir vs s1 sl s2 ri s3 alt mv p => s!"DF16 vs={vs} s1={s1} sl={sl} s2={s2} ri={ri} s3={s3} alt={alt} mv={hex mv 14} ap={hex p 6}"
  | .tisb cf aa me pi => s!"DF18 cf={cf} aa={hex aa 6} me={lb}{me.show}{rb} pi={hex pi 6}"
  | .military af => s!"DF19 af={af}"
  | .commBAlt fs dr um alt bds => s!"DF20 fs={fs} dr={dr.show} um={um.show} alt={alt} bds={lb}{bds.show}{rb}"
  | .commBId fs dr um id bds p => s!"DF21 fs={fs} dr={dr.show} um={um.show} id={hex id 4} bds={lb}{bds.show}{rb} ap={hex p 6}"
  | .modeS df ca icao tc data p => s!"DF24+ df={df} ca={ca.show} aa={hex icao 6} tc={tc} data={data} ap={hex p 6}"

def Frame.show (f : Frame) : String := s!"OK {f.df.show} crc={hex f.crc 6}"

def showRes {α} (sh : α → String) : Res α → String
  | .ok a => sh a
  | .err e => s!"ERR {e.name}"
  | .panic p => s!"PANIC {p}"

end Adsb
