import Adsb.Res
/-! # `ReaderCrc` over a reader that fragments its reads and returns transient errors

`Inner` is any `Read + Seek` whose `read` calls follow a schedule: each call takes the next entry,
`intr` = fail with `Interrupted`, `chunk k` = deliver at most `k+1` bytes; after the schedule every call
is served as far as the data goes. `RC` is `ReaderCrc` (position-aware cache, after the repair) and
`readExact` the default `Read::read_exact` loop deku calls (retry on `Interrupted`, `UnexpectedEof` on
`Ok(0)`). -/

namespace Adsb

inductive Sch where
  | intr
  | chunk (k : Nat)
  deriving Repr

structure Inner where
  data : List UInt8
  pos : Nat
  sched : List Sch

/-- one `read(&mut buf)` call with `buf.len() = want`; `none` = `Err(Interrupted)` -/
def Inner.read (r : Inner) (want : Nat) : Option (List UInt8) × Inner :=
  match r.sched with
  | .intr :: rest => (none, { r with sched := rest })
  | .chunk k :: rest =>
    let n := min (min want (k + 1)) (r.data.length - r.pos)
    (some ((r.data.drop r.pos).take n), { r with pos := r.pos + n, sched := rest })
  | [] =>
    let n := min want (r.data.length - r.pos)
    (some ((r.data.drop r.pos).take n), { r with pos := r.pos + n })

/-- `ReaderCrc` -/
structure RC where
  inner : Inner
  cache : List UInt8
  pos : Nat

/-- the cache after the inner reader returned `bs` at offset `pos`: only bytes past the end of the cache are saved -/
def cacheAfter (cache : List UInt8) (pos : Nat) (bs : List UInt8) : List UInt8 :=
  if pos + bs.length > cache.length then cache ++ bs.drop (bs.length - min bs.length (pos + bs.length - cache.length)) else cache

/-- `ReaderCrc::read` -/
def RC.read (rc : RC) (want : Nat) : Option (List UInt8) × RC :=
  match rc.inner.read want with
  | (none, i) => (none, { rc with inner := i })
  | (some bs, i) => (some bs, { inner := i, cache := cacheAfter rc.cache rc.pos bs, pos := rc.pos + bs.length })

/-- `ReaderCrc::seek(SeekFrom::Current(-j))` -/
def RC.seekBack (rc : RC) (j : Nat) : RC :=
  { rc with inner := { rc.inner with pos := rc.inner.pos - j }, pos := rc.pos - j }

/-- `Read::read_exact` (default implementation); `fuel` bounds the loop -/
def readExact : Nat → RC → Nat → Res (List UInt8 × RC)
  | 0, _, _ => .err .io
  | _ + 1, rc, 0 => .ok ([], rc)
  | fuel + 1, rc, want + 1 =>
    match rc.read (want + 1) with
    | (none, rc') => readExact fuel rc' (want + 1)
    | (some bs, rc') =>
      if bs.length = 0 then .err .incomplete
      else match readExact fuel rc' (want + 1 - bs.length) with
        | .ok (rest, rc'') => .ok (bs ++ rest, rc'')
        | .err e => .err e
        | .panic p => .panic p

/-- the invariant the repaired `ReaderCrc` maintains: its offset is the inner reader's, and the cache is the
prefix of the data up to the highest offset ever read -/
def RC.Good (rc : RC) : Prop :=
  rc.pos = rc.inner.pos ∧ rc.cache = rc.inner.data.take rc.cache.length ∧ rc.pos ≤ rc.cache.length ∧ rc.cache.length ≤ rc.inner.data.length

def slice (l : List UInt8) (p n : Nat) : List UInt8 := (l.drop p).take n


/-- the calls deku's `Reader` issues while decoding -/
inductive Call where
  | read (k : Nat)
  | seekBack (j : Nat)

/-- the abstract cursor the decoder model is written over: offset and highest offset read -/
def specRun (data : List UInt8) : Nat → Nat → List Call → Option (List (List UInt8) × Nat × Nat)
  | pos, hi, [] => some ([], pos, hi)
  | pos, hi, .read k :: rest =>
    if pos + k ≤ data.length then
      (specRun data (pos + k) (max hi (pos + k)) rest).map (fun r => (slice data pos k :: r.1, r.2))
    else none
  | pos, hi, .seekBack j :: rest => if j ≤ pos then specRun data (pos - j) hi rest else none

/-- the same calls on `ReaderCrc` over a scheduled reader -/
def concRun : RC → List Call → Option (List (List UInt8) × RC)
  | rc, [] => some ([], rc)
  | rc, .read k :: rest =>
    match readExact (rc.inner.sched.length + k + 1) rc k with
    | .ok (bs, rc') => (concRun rc' rest).map (fun r => (bs :: r.1, r.2))
    | _ => none
  | rc, .seekBack j :: rest => if j ≤ rc.pos then concRun (rc.seekBack j) rest else none


/-- the same reader standing `pre.length` bytes into a longer stream (a frame that is not at the start of its reader) -/
def RC.shift (pre : List UInt8) (rc : RC) : RC :=
  { rc with inner := { rc.inner with data := pre ++ rc.inner.data, pos := rc.inner.pos + pre.length } }

end Adsb
