/-! # Result type of the model: value, library error, or Rust panic -/

/-- `u32::MAX` (a notation, so that the arithmetic tactics see the literal) -/
notation "u32Max" => (4294967295 : Nat)

namespace Adsb

/-- The classes of `DekuError` the decoder can return. -/
inductive Err where
  | incomplete | parse | assertion | io
  deriving Repr, DecidableEq

def Err.name : Err → String
  | .incomplete => "Incomplete" | .parse => "Parse" | .assertion => "Assertion" | .io => "Io"

/-- `panic site` stands for a Rust panic (overflow check, index, unwrap) at `site`. -/
inductive Res (α : Type) where
  | ok : α → Res α
  | err : Err → Res α
  | panic : String → Res α
  deriving Repr

@[inline] def Res.bind {α β} (x : Res α) (f : α → Res β) : Res β :=
  match x with
  | .ok a => f a
  | .err e => .err e
  | .panic s => .panic s

instance : Monad Res where
  pure := .ok
  bind := Res.bind

/- The bind lemmas are deliberately *not* proved by `rfl`: as `rfl`-lemmas `simp` would apply them by
definitional unfolding, and the kernel then re-checks every step by unfolding whole decoder terms
(measured: 40 s for one 20-field reader instead of 0.2 s). -/
@[simp] theorem Res.ok_bind {α β} (a : α) (f : α → Res β) : (Res.ok a >>= f) = f a := by
  cases h : f a <;> (show Res.bind (Res.ok a) f = _; unfold Res.bind; exact h)
@[simp] theorem Res.err_bind {α β} (e : Err) (f : α → Res β) : ((Res.err e : Res α) >>= f) = .err e := by
  cases e <;> (show Res.bind (Res.err _) f = _; unfold Res.bind; rfl)
@[simp] theorem Res.panic_bind {α β} (s : String) (f : α → Res β) : ((Res.panic s : Res α) >>= f) = .panic s := by
  show Res.bind (Res.panic s) f = _; unfold Res.bind; exact Eq.refl _
@[simp] theorem Res.pure_eq {α} (a : α) : (pure a : Res α) = .ok a := by
  cases h : (pure a : Res α) <;> first | exact (by cases h; rfl) | exact absurd h (by intro h'; cases h')

def Res.isOk {α} : Res α → Bool | .ok _ => true | _ => false
def Res.isPanic {α} : Res α → Bool | .panic _ => true | _ => false

/-- `P` holds of the value, if there is one -/
def Res.All {α} (P : α → Prop) : Res α → Prop
  | .ok a => P a
  | _ => True

/-- not a panic -/
def Res.NoPanic {α} : Res α → Prop
  | .panic _ => False
  | _ => True

theorem Res.All_bind {α β} {x : Res α} {f : α → Res β} {P : β → Prop} (h : ∀ a, Res.All P (f a)) :
    Res.All P (x >>= f) := by
  cases x with
  | ok a => rw [Res.ok_bind]; exact h a
  | err e => rw [Res.err_bind]; trivial
  | panic p => rw [Res.panic_bind]; trivial

theorem Res.All_pure {α} {P : α → Prop} (a : α) (h : P a) : Res.All P (pure a) := by
  rw [Res.pure_eq]; exact h

theorem Res.All_ok {α} {P : α → Prop} {x : Res α} {a : α} (h : Res.All P x) (e : x = .ok a) : P a := by
  subst e; exact h

theorem Res.NoPanic_bind {α β} {x : Res α} {f : α → Res β} (hx : Res.NoPanic x) (h : ∀ a, Res.NoPanic (f a)) :
    Res.NoPanic (x >>= f) := by
  cases x with
  | ok a => rw [Res.ok_bind]; exact h a
  | err e => rw [Res.err_bind]; trivial
  | panic p => exact absurd hx (by intro h; exact h)

theorem Res.bind_eq_ok {α β} {x : Res α} {f : α → Res β} {b : β} (h : (x >>= f) = .ok b) :
    ∃ a, x = .ok a ∧ f a = .ok b := by
  cases x with
  | ok a => rw [Res.ok_bind] at h; exact ⟨a, rfl, h⟩
  | err e => rw [Res.err_bind] at h; cases h
  | panic p => rw [Res.panic_bind] at h; cases h

end Adsb
