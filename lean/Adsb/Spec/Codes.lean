/-! # Specifications of the Mode A/C code fields (independent of the code's formulation)

Written from Annex 10 Vol IV §3.1.2.6.5.4 (AC field), §3.1.2.6.7.1 (ID field) and the Gillham code
definition, as transcribed in DESIGN.md Appendix B. A code is viewed as a list of bits, most
significant first; named bits are picked by position, Gray codes are decoded by prefix XOR. -/

namespace Adsb.Spec

/-- the `w` bits of `n`, most significant first -/
def bitsMSB (n : Nat) : Nat → List Bool
  | 0 => []
  | w + 1 => n.testBit w :: bitsMSB n w

/-- value of a bit list, most significant first -/
def ofBits (l : List Bool) : Nat := l.foldl (fun acc b => 2 * acc + b.toNat) 0

/-- Gray → binary: each output bit is the XOR of all input bits up to and including it -/
def grayDecode (l : List Bool) : List Bool :=
  (l.foldl (fun (acc : Bool × List Bool) g => let b := acc.1 != g; (b, acc.2 ++ [b])) (false, [])).2

/-- 13-bit field layout, MSB first: C1 A1 C2 A2 C4 A4 (M|X) B1 (Q|D1) B2 D2 B4 D4 -/
structure Pulses where
  c1 : Bool
  a1 : Bool
  c2 : Bool
  a2 : Bool
  c4 : Bool
  a4 : Bool
  m : Bool
  b1 : Bool
  q : Bool
  b2 : Bool
  d2 : Bool
  b4 : Bool
  d4 : Bool

def pulses (c : Nat) : Pulses :=
  match bitsMSB c 13 with
  | [c1, a1, c2, a2, c4, a4, m, b1, q, b2, d2, b4, d4] => ⟨c1, a1, c2, a2, c4, a4, m, b1, q, b2, d2, b4, d4⟩
  | _ => ⟨false, false, false, false, false, false, false, false, false, false, false, false, false⟩

/-- identity code: the four octal digits A B C D (each digit = X4 X2 X1), as four hex-coded digits -/
def squawk (c : Nat) : Nat :=
  let p := pulses c
  let a := ofBits [p.a4, p.a2, p.a1]
  let b := ofBits [p.b4, p.b2, p.b1]
  let cc := ofBits [p.c4, p.c2, p.c1]
  let d := ofBits [p.d4, p.d2, p.q]       -- in the ID field the Q position carries D1
  a * 4096 + b * 256 + cc * 16 + d

/-- Gillham altitude in feet of a 13-bit code with M = 0, Q = 0; `none` = illegal code or not above −1300 ft floor.
500-ft count: Gray(D2 D4 A1 A2 A4 B1 B2 B4); 100-ft count: Gray(C1 C2 C4) with 7 standing for 5 and
0, 5, 6 illegal, reflected on odd 500-ft counts; D1 (= the Q position) set is illegal. -/
def gillhamFeet (c : Nat) : Option Nat :=
  let p := pulses c
  if p.q then none else
  let n500 := ofBits (grayDecode [p.d2, p.d4, p.a1, p.a2, p.a4, p.b1, p.b2, p.b4])
  let g100 := ofBits (grayDecode [p.c1, p.c2, p.c4])
  if g100 = 0 ∨ g100 = 5 ∨ g100 = 6 then none else
  let n100 := if g100 = 7 then 5 else g100
  let n100 := if n500 % 2 = 1 then 6 - n100 else n100
  let hundreds := 5 * n500 + n100
  if hundreds < 13 then none else some (100 * (hundreds - 13))

/-- "no altitude" unless positive and representable in 16 bits -/
def representable (a : Option Nat) : Option Nat :=
  match a with
  | some v => if 0 < v ∧ v < 65536 then some v else none
  | none => none

/-- the 13-bit altitude code (DF0, 4, 16, 20); `none` = no altitude -/
def ac13 (c : Nat) : Option Nat :=
  let p := pulses c
  if c = 0 then none
  else if p.m then none
  else if p.q then
    let n := ofBits [p.c1, p.a1, p.c2, p.a2, p.c4, p.a4, p.b1, p.b2, p.d2, p.b4, p.d4]
    representable (if 25 * n > 1000 then some (25 * n - 1000) else none)
  else representable (gillhamFeet c)

/-- the 12-bit altitude code of airborne position reports: the 13-bit code without its M bit -/
def ac12 (c : Nat) : Option Nat :=
  let hi := c / 64         -- C1 A1 C2 A2 C4 A4
  let lo := c % 64         -- B1 Q B2 D2 B4 D4
  if c = 0 then none else ac13 (hi * 128 + lo)

/-- Annex 10 Table 3-9 six-bit character set, unassigned codes shown as '#' -/
def ia5 (c : Nat) : Nat :=
  if 1 ≤ c ∧ c ≤ 26 then 64 + c          -- A–Z
  else if c = 32 then 32                   -- space
  else if 48 ≤ c ∧ c ≤ 57 then c           -- 0–9
  else 35                                   -- '#'

end Adsb.Spec
