import Adsb.Bits
/-! # Annex 10 Vol IV / DO-260B field positions (DESIGN.md Appendix B)

Standard numbering: bit 1 is the most significant bit of the first byte; ME / MB bit 1 is frame bit 33.
A field is `(first bit, width)`; its value is read most significant bit first. Only fields the
properties name are listed. This table is the trusted transcription the theorems are stated against. -/

namespace Adsb.Spec

structure Field where
  first : Nat
  width : Nat

/-- value of a frame-level field -/
def Field.of (f : Field) (B : Buf) : Nat := bitsAt B (f.first - 1) f.width
/-- value of a field of the 56-bit ME / MB part (frame bits 33–88) -/
def Field.ofME (f : Field) (B : Buf) : Nat := bitsAt B (32 + f.first - 1) f.width

-- frame level
def DFcode : Field := ⟨1, 5⟩
def CA : Field := ⟨6, 3⟩     -- DF11, DF17, DF24–31
def CF : Field := ⟨6, 3⟩     -- DF18
def AF : Field := ⟨6, 3⟩     -- DF19
def FS : Field := ⟨6, 3⟩     -- DF4, 5, 20, 21
def DRQ : Field := ⟨9, 5⟩    -- downlink request
def IIS : Field := ⟨14, 4⟩   -- UM bits 14–17
def IDS : Field := ⟨18, 2⟩   -- UM bits 18–19
def VS : Field := ⟨6, 1⟩     -- DF0, DF16
def CC : Field := ⟨7, 1⟩     -- DF0
def SL : Field := ⟨9, 3⟩
def RI : Field := ⟨14, 4⟩
def AC : Field := ⟨20, 13⟩
def ID : Field := ⟨20, 13⟩
def AA : Field := ⟨9, 24⟩
def MV : Field := ⟨33, 56⟩
def APshort : Field := ⟨33, 24⟩    -- AP / PI of 56-bit frames
def APlong : Field := ⟨89, 24⟩     -- AP / PI of 112-bit frames

-- ME: common
def TC : Field := ⟨1, 5⟩
-- ME type 1–4 (identification) and BDS 2,0: category 6–8, characters 9–56
def CAT : Field := ⟨6, 3⟩
def CHAR (i : Nat) : Field := ⟨9 + 6 * i, 6⟩
-- ME type 9–18, 20–22 (airborne position)
def SS : Field := ⟨6, 2⟩
def SAF : Field := ⟨8, 1⟩
def ALT : Field := ⟨9, 12⟩
def T : Field := ⟨21, 1⟩
def F : Field := ⟨22, 1⟩
def LAT : Field := ⟨23, 17⟩
def LON : Field := ⟨40, 17⟩
-- ME type 5–8 (surface position)
def MOV : Field := ⟨6, 7⟩
def TRKS : Field := ⟨13, 1⟩
def TRK : Field := ⟨14, 7⟩
-- ME type 19 (velocity)
def ST : Field := ⟨6, 3⟩
def ICIFRNAC : Field := ⟨9, 5⟩      -- IC 9, IFR 10, NACv 11–13 (the repo keeps the 5-bit group)
def NACV : Field := ⟨11, 3⟩
def DEW : Field := ⟨14, 1⟩
def VEW : Field := ⟨15, 10⟩
def DNS : Field := ⟨25, 1⟩
def VNS : Field := ⟨26, 10⟩
def HDGST : Field := ⟨14, 1⟩
def HDG : Field := ⟨15, 10⟩
def ASTYPE : Field := ⟨25, 1⟩
def AS : Field := ⟨26, 10⟩
def VRSRC : Field := ⟨36, 1⟩
def VRSIGN : Field := ⟨37, 1⟩
def VR : Field := ⟨38, 9⟩
def DIFSIGN : Field := ⟨49, 1⟩
def DIF : Field := ⟨50, 7⟩
-- ME type 28
def ST28 : Field := ⟨6, 3⟩
def EMERG : Field := ⟨9, 3⟩
def ID28 : Field := ⟨12, 13⟩
-- ME type 29 (target state and status, version 2)
def TSS_ST : Field := ⟨6, 2⟩
def TSS_ALTTYPE : Field := ⟨9, 1⟩
def TSS_ALT : Field := ⟨10, 11⟩
def TSS_QNH : Field := ⟨21, 9⟩
def TSS_HDGST : Field := ⟨30, 1⟩
def TSS_HDG : Field := ⟨31, 9⟩
def TSS_NACP : Field := ⟨40, 4⟩
def TSS_NICBARO : Field := ⟨44, 1⟩
def TSS_SIL : Field := ⟨45, 2⟩
def TSS_MODE : Field := ⟨47, 1⟩
def TSS_AP : Field := ⟨48, 1⟩
def TSS_VNAV : Field := ⟨49, 1⟩
def TSS_ALTHOLD : Field := ⟨50, 1⟩
def TSS_IMF : Field := ⟨51, 1⟩
def TSS_APP : Field := ⟨52, 1⟩
def TSS_TCAS : Field := ⟨53, 1⟩
def TSS_LNAV : Field := ⟨54, 1⟩
-- ME type 31 (operational status): subtype 6–8; airborne CC 9–24, surface CC 9–20 + L/W 21–24; OM 25–40; version 41–43 …
def OS_ST : Field := ⟨6, 3⟩
def OS_ACAS : Field := ⟨11, 1⟩
def OS_CDTI : Field := ⟨12, 1⟩
def OS_ARV : Field := ⟨15, 1⟩
def OS_TS : Field := ⟨16, 1⟩
def OS_TC : Field := ⟨17, 2⟩
def OS_POA : Field := ⟨11, 1⟩
def OS_ESIN : Field := ⟨12, 1⟩
def OS_B2LOW : Field := ⟨15, 1⟩
def OS_UATIN : Field := ⟨16, 1⟩
def OS_NACV : Field := ⟨17, 3⟩
def OS_NICC : Field := ⟨20, 1⟩
def OS_LW : Field := ⟨21, 4⟩
def OS_RA : Field := ⟨27, 1⟩
def OS_IDENT : Field := ⟨28, 1⟩
def OS_ATC : Field := ⟨29, 1⟩
def OS_SAF : Field := ⟨30, 1⟩
def OS_SDA : Field := ⟨31, 2⟩
def OS_ANT : Field := ⟨33, 8⟩
def OS_VER : Field := ⟨41, 3⟩
def OS_NICA : Field := ⟨44, 1⟩
def OS_NACP : Field := ⟨45, 4⟩
def OS_GVA : Field := ⟨49, 2⟩
def OS_SIL : Field := ⟨51, 2⟩
def OS_NICBARO : Field := ⟨53, 1⟩    -- surface: TRK/HDG
def OS_HRD : Field := ⟨54, 1⟩
def OS_SILSUPP : Field := ⟨55, 1⟩
-- MB: BDS code 1–8; BDS 1,0
def BDSCODE : Field := ⟨1, 8⟩
def DL_CONT : Field := ⟨9, 1⟩
def DL_OVERLAY : Field := ⟨15, 1⟩
def DL_ACAS : Field := ⟨16, 1⟩
def DL_SUBNET : Field := ⟨17, 7⟩
def DL_ENH : Field := ⟨24, 1⟩
def DL_SPEC : Field := ⟨25, 1⟩
def DL_UELM : Field := ⟨26, 3⟩
def DL_DELM : Field := ⟨29, 4⟩
def DL_IDCAP : Field := ⟨33, 1⟩
def DL_SQCAP : Field := ⟨34, 1⟩
def DL_SIC : Field := ⟨35, 1⟩
def DL_GICB : Field := ⟨36, 1⟩
def DL_ACASBITS : Field := ⟨37, 4⟩
def DL_DTE : Field := ⟨41, 16⟩

end Adsb.Spec
