/-! # Specification of the Mode S parity: polynomial division by the generator 0x1FFF409

Polynomials over GF(2) of degree < 24 are `BitVec 24` (bit i = coefficient of x^i).
`mulX r` is `r·x mod g`. `syndrome bits` is textbook long division of the bit string (most significant
bit first) by g: shift the register, bring down the next bit, subtract g when x^24 appears. -/

namespace Adsb.Spec

/-- the low 24 coefficients of g(x) = x^24 + x^23 + … (0x1FFF409 without its leading 1) -/
def G : BitVec 24 := 0xFFF409#24

/-- multiply by x modulo g -/
def mulX (r : BitVec 24) : BitVec 24 := (r <<< 1) ^^^ (if r.msb then G else 0)

/-- one step of long division: `r·x + b mod g` -/
def divStep (r : BitVec 24) (b : Bool) : BitVec 24 := mulX r ^^^ (if b then 1 else 0)

/-- remainder of the bit string (as a polynomial, first bit = highest coefficient) modulo g -/
def syndrome (bits : List Bool) : BitVec 24 := bits.foldl divStep 0

/-- one step of the "message times x^24" division: `r·x + b·x^24 mod g` -/
def bitStep (r : BitVec 24) (b : Bool) : BitVec 24 := mulX r ^^^ (if b then G else 0)

/-- remainder of `bits(x)·x^24` modulo g: the 24 parity bits a transmitter appends -/
def parity (bits : List Bool) : BitVec 24 := bits.foldl bitStep 0

end Adsb.Spec
