import Adsb.Lemmas.Reject
import Adsb.Lemmas.Range
import Adsb.Velocity
import Adsb.Theorems.C13
/-! # C01 — decoding and every frame operation are total: the model never reaches a panic branch

`Res.panic` stands for a Rust panic (overflow check, slice index, `unwrap`). The decoder model has no
panic branch in its readers by construction of deku's error handling; the arithmetic of the hand-written
readers and of `calculate` is re-stated with every overflow check written out and shown never to fire. -/

namespace Adsb.C01
open Adsb
set_option linter.unusedSimpArgs false

theorem readBits_np (B : Buf) (n : Nat) (s : RS) : (readBits B n s).NoPanic := by
  unfold readBits; split <;> trivial
theorem readBitsLE_np (B : Buf) (n : Nat) (s : RS) : (readBitsLE B n s).NoPanic := by
  unfold readBitsLE; split <;> trivial
theorem seekBack_np (k : Nat) (s : RS) : (seekBack k s).NoPanic := by
  unfold seekBack; simp only []; split <;> trivial
theorem skipBits_np (B : Buf) (n : Nat) (s : RS) : (skipBits B n s).NoPanic := by
  have h := readBits_np B n s
  unfold skipBits
  cases hr : readBits B n s with
  | ok v => trivial
  | err e => trivial
  | panic p => rw [hr] at h; exact absurd h (fun x => x)
theorem pure_np {α} (a : α) : (pure a : Res α).NoPanic := by rw [Res.pure_eq]; trivial
theorem err_np {α} (e : Err) : (Res.err e : Res α).NoPanic := trivial

/-- closes a goal `(reader …).NoPanic` by one of the lemmas proved so far (extended after each lemma) -/
syntax "np_close" : tactic
macro_rules | `(tactic| np_close) => `(tactic| first
  | with_reducible exact readBits_np _ _ _ | with_reducible exact readBitsLE_np _ _ _ | with_reducible exact seekBack_np _ _
  | with_reducible exact skipBits_np _ _ _ | with_reducible exact pure_np _ | with_reducible exact err_np _ | with_reducible assumption)

/-- structural totality proof of a `do` block of reads -/
macro "np" : tactic => `(tactic| repeat (any_goals (first
  | np_close
  | (apply Res.NoPanic_bind)
  | (intro ⟨_, _⟩; try dsimp only)
  | (intro _; try dsimp only)
  | split)))

theorem readCap_np (B : Buf) (s : RS) : (readCap B s).NoPanic := by unfold readCap readCapReserved; np
macro_rules | `(tactic| np_close) => `(tactic| with_reducible exact readCap_np _ _)
theorem readDR_np (B : Buf) (s : RS) : (readDR B s).NoPanic := by unfold readDR readDRUnknown; np
macro_rules | `(tactic| np_close) => `(tactic| with_reducible exact readDR_np _ _)
theorem readUM_np (B : Buf) (s : RS) : (readUM B s).NoPanic := by unfold readUM; np
macro_rules | `(tactic| np_close) => `(tactic| with_reducible exact readUM_np _ _)
theorem readChars_np (B : Buf) (k : Nat) (s : RS) : (readChars B k s).NoPanic := by
  induction k generalizing s with
  | zero => exact pure_np _
  | succ k ih => unfold readChars; np; exact ih _
macro_rules | `(tactic| np_close) => `(tactic| with_reducible exact readChars_np _ _ _)
theorem readIdent8_np (B : Buf) (s : RS) : (readIdent8 B s).NoPanic := by
  have := readChars_np B 8; unfold readIdent8; np
macro_rules | `(tactic| np_close) => `(tactic| with_reducible exact readIdent8_np _ _)
theorem readAlt_np (B : Buf) (s : RS) : (readAlt B s).NoPanic := by unfold readAlt; np
macro_rules | `(tactic| np_close) => `(tactic| with_reducible exact readAlt_np _ _)
theorem readIdent_np (B : Buf) (s : RS) : (readIdent B s).NoPanic := by
  have := readIdent8_np B; unfold readIdent; np
macro_rules | `(tactic| np_close) => `(tactic| with_reducible exact readIdent_np _ _)
theorem readSurf_np (B : Buf) (s : RS) : (readSurf B s).NoPanic := by unfold readSurf; np
macro_rules | `(tactic| np_close) => `(tactic| with_reducible exact readSurf_np _ _)
theorem readVelSub_np (B : Buf) (st : Nat) (s : RS) : (readVelSub B st s).NoPanic := by
  unfold readVelSub readVelReserved0 readVelReserved1 readVelGround readVelAirspeed; np
macro_rules | `(tactic| np_close) => `(tactic| with_reducible exact readVelSub_np _ _ _)
theorem readVel_np (B : Buf) (s : RS) : (readVel B s).NoPanic := by
  have := readVelSub_np B; unfold readVel; np
macro_rules | `(tactic| np_close) => `(tactic| with_reducible exact readVel_np _ _)
theorem readAcStatus_np (B : Buf) (s : RS) : (readAcStatus B s).NoPanic := by unfold readAcStatus; np
macro_rules | `(tactic| np_close) => `(tactic| with_reducible exact readAcStatus_np _ _)
theorem readTSS_np (B : Buf) (s : RS) : (readTSS B s).NoPanic := by unfold readTSS; np
macro_rules | `(tactic| np_close) => `(tactic| with_reducible exact readTSS_np _ _)
theorem readOpMode_np (B : Buf) (s : RS) : (readOpMode B s).NoPanic := by unfold readOpMode; np
macro_rules | `(tactic| np_close) => `(tactic| with_reducible exact readOpMode_np _ _)
theorem readVersion_np (B : Buf) (s : RS) : (readVersion B s).NoPanic := by unfold readVersion; np
macro_rules | `(tactic| np_close) => `(tactic| with_reducible exact readVersion_np _ _)
theorem readOpAir_np (B : Buf) (s : RS) : (readOpAir B s).NoPanic := by
  have h1 := readOpMode_np B; have h2 := readVersion_np B
  unfold readOpAir; np
macro_rules | `(tactic| np_close) => `(tactic| with_reducible exact readOpAir_np _ _)
theorem readOpSurf_np (B : Buf) (s : RS) : (readOpSurf B s).NoPanic := by
  have h1 := readOpMode_np B; have h2 := readVersion_np B
  unfold readOpSurf; np
macro_rules | `(tactic| np_close) => `(tactic| with_reducible exact readOpSurf_np _ _)
theorem readOpAirborne_np (B : Buf) (s : RS) : (readOpAirborne B s).NoPanic := by
  have h1 := readOpAir_np B; unfold readOpAirborne; np
macro_rules | `(tactic| np_close) => `(tactic| with_reducible exact readOpAirborne_np _ _)
theorem readOpSurface_np (B : Buf) (s : RS) : (readOpSurface B s).NoPanic := by
  have h1 := readOpSurf_np B; unfold readOpSurface; np
macro_rules | `(tactic| np_close) => `(tactic| with_reducible exact readOpSurface_np _ _)
theorem readOpReserved_np (B : Buf) (s : RS) : (readOpReserved B s).NoPanic := by unfold readOpReserved; np
macro_rules | `(tactic| np_close) => `(tactic| with_reducible exact readOpReserved_np _ _)
theorem readOpStatus_np (B : Buf) (s : RS) : (readOpStatus B s).NoPanic := by
  have h1 := readOpAirborne_np B; have h2 := readOpSurface_np B; have h3 := readOpReserved_np B
  unfold readOpStatus; np
macro_rules | `(tactic| np_close) => `(tactic| with_reducible exact readOpStatus_np _ _)

theorem meAirPos_np (B : Buf) (s : RS) : (meAirPos B s).NoPanic := by have := readAlt_np B; unfold meAirPos; np
macro_rules | `(tactic| np_close) => `(tactic| with_reducible exact meAirPos_np _ _)
theorem meAirPosBaro_np (B : Buf) (s : RS) : (meAirPosBaro B s).NoPanic := by have := meAirPos_np B; unfold meAirPosBaro; np
macro_rules | `(tactic| np_close) => `(tactic| with_reducible exact meAirPosBaro_np _ _)
theorem meAirPosGnss_np (B : Buf) (s : RS) : (meAirPosGnss B s).NoPanic := by have := meAirPos_np B; unfold meAirPosGnss; np
macro_rules | `(tactic| np_close) => `(tactic| with_reducible exact meAirPosGnss_np _ _)
theorem meVelocity_np (B : Buf) (s : RS) : (meVelocity B s).NoPanic := by have := readVel_np B; unfold meVelocity; np
macro_rules | `(tactic| np_close) => `(tactic| with_reducible exact meVelocity_np _ _)
theorem meRaw53_np (B : Buf) (s : RS) : (meRaw53 B s).NoPanic := by unfold meRaw53; np
macro_rules | `(tactic| np_close) => `(tactic| with_reducible exact meRaw53_np _ _)
theorem meRaw56_np (B : Buf) (s : RS) : (meRaw56 B s).NoPanic := by unfold meRaw56; np
macro_rules | `(tactic| np_close) => `(tactic| with_reducible exact meRaw56_np _ _)
theorem meNoPosition_np (B : Buf) (s : RS) : (meNoPosition B s).NoPanic := by have := meRaw53_np B; unfold meNoPosition; np
macro_rules | `(tactic| np_close) => `(tactic| with_reducible exact meNoPosition_np _ _)
theorem meReserved0_np (B : Buf) (s : RS) : (meReserved0 B s).NoPanic := by have := meRaw53_np B; unfold meReserved0; np
macro_rules | `(tactic| np_close) => `(tactic| with_reducible exact meReserved0_np _ _)
theorem meOpCoord_np (B : Buf) (s : RS) : (meOpCoord B s).NoPanic := by have := meRaw53_np B; unfold meOpCoord; np
macro_rules | `(tactic| np_close) => `(tactic| with_reducible exact meOpCoord_np _ _)
theorem meSurfaceSystemStatus_np (B : Buf) (s : RS) : (meSurfaceSystemStatus B s).NoPanic := by have := meRaw56_np B; unfold meSurfaceSystemStatus; np
macro_rules | `(tactic| np_close) => `(tactic| with_reducible exact meSurfaceSystemStatus_np _ _)
theorem meReserved1_np (B : Buf) (s : RS) : (meReserved1 B s).NoPanic := by have := meRaw56_np B; unfold meReserved1; np
macro_rules | `(tactic| np_close) => `(tactic| with_reducible exact meReserved1_np _ _)
theorem meIdent_np (B : Buf) (s : RS) : (meIdent B s).NoPanic := by have := readIdent_np B; unfold meIdent; np
macro_rules | `(tactic| np_close) => `(tactic| with_reducible exact meIdent_np _ _)
theorem meSurface_np (B : Buf) (s : RS) : (meSurface B s).NoPanic := by have := readSurf_np B; unfold meSurface; np
macro_rules | `(tactic| np_close) => `(tactic| with_reducible exact meSurface_np _ _)
theorem meStatus_np (B : Buf) (s : RS) : (meStatus B s).NoPanic := by have := readAcStatus_np B; unfold meStatus; np
macro_rules | `(tactic| np_close) => `(tactic| with_reducible exact meStatus_np _ _)
theorem meTSS_np (B : Buf) (s : RS) : (meTSS B s).NoPanic := by have := readTSS_np B; unfold meTSS; np
macro_rules | `(tactic| np_close) => `(tactic| with_reducible exact meTSS_np _ _)
theorem meOpStatus_np (B : Buf) (s : RS) : (meOpStatus B s).NoPanic := by have := readOpStatus_np B; unfold meOpStatus; np
macro_rules | `(tactic| np_close) => `(tactic| with_reducible exact meOpStatus_np _ _)

theorem meBody_np (tc : Nat) (B : Buf) (s : RS) : (meBody tc B s).NoPanic := by
  unfold meBody
  repeat (any_goals split)
  all_goals first
    | with_reducible exact meAirPosBaro_np B s | with_reducible exact meVelocity_np B s | with_reducible exact meNoPosition_np B s | with_reducible exact meIdent_np B s | with_reducible exact meSurface_np B s
    | with_reducible exact meAirPosGnss_np B s | with_reducible exact meReserved0_np B s | with_reducible exact meSurfaceSystemStatus_np B s | with_reducible exact meReserved1_np B s
    | with_reducible exact meStatus_np B s | with_reducible exact meTSS_np B s | with_reducible exact meOpCoord_np B s | with_reducible exact meOpStatus_np B s
macro_rules | `(tactic| np_close) => `(tactic| with_reducible exact meBody_np _ _ _)

theorem readME_np (B : Buf) (s : RS) : (readME B s).NoPanic := by
  have := meBody_np; unfold readME; np
macro_rules | `(tactic| np_close) => `(tactic| with_reducible exact readME_np _ _)
theorem readDLC_np (B : Buf) (s : RS) : (readDLC B s).NoPanic := by unfold readDLC; np
macro_rules | `(tactic| np_close) => `(tactic| with_reducible exact readDLC_np _ _)
theorem bdsEmpty_np (B : Buf) (s : RS) : (bdsEmpty B s).NoPanic := by unfold bdsEmpty; np
macro_rules | `(tactic| np_close) => `(tactic| with_reducible exact bdsEmpty_np _ _)
theorem bdsDataLink_np (B : Buf) (s : RS) : (bdsDataLink B s).NoPanic := by have := readDLC_np B; unfold bdsDataLink; np
macro_rules | `(tactic| np_close) => `(tactic| with_reducible exact bdsDataLink_np _ _)
theorem bdsIdent_np (B : Buf) (s : RS) : (bdsIdent B s).NoPanic := by have := readIdent8_np B; unfold bdsIdent; np
macro_rules | `(tactic| np_close) => `(tactic| with_reducible exact bdsIdent_np _ _)
theorem bdsUnknown_np (B : Buf) (s : RS) : (bdsUnknown B s).NoPanic := by unfold bdsUnknown; np
macro_rules | `(tactic| np_close) => `(tactic| with_reducible exact bdsUnknown_np _ _)
theorem readBDS_np (B : Buf) (s : RS) : (readBDS B s).NoPanic := by
  have h1 := bdsEmpty_np B; have h2 := bdsDataLink_np B; have h3 := bdsIdent_np B; have h4 := bdsUnknown_np B
  unfold readBDS bdsBody; np
macro_rules | `(tactic| np_close) => `(tactic| with_reducible exact readBDS_np _ _)

theorem dfADSB_np (B : Buf) (s : RS) : (dfADSB B s).NoPanic := by
  have c := readCap_np B; have m := readME_np B; unfold dfADSB; np
macro_rules | `(tactic| np_close) => `(tactic| with_reducible exact dfADSB_np _ _)
theorem dfAllCall_np (B : Buf) (s : RS) : (dfAllCall B s).NoPanic := by have c := readCap_np B; unfold dfAllCall; np
macro_rules | `(tactic| np_close) => `(tactic| with_reducible exact dfAllCall_np _ _)
theorem dfShortAirAir_np (B : Buf) (s : RS) : (dfShortAirAir B s).NoPanic := by unfold dfShortAirAir; np
macro_rules | `(tactic| np_close) => `(tactic| with_reducible exact dfShortAirAir_np _ _)
theorem dfSurvAlt_np (B : Buf) (s : RS) : (dfSurvAlt B s).NoPanic := by
  have d := readDR_np B; have u := readUM_np B; unfold dfSurvAlt; np
macro_rules | `(tactic| np_close) => `(tactic| with_reducible exact dfSurvAlt_np _ _)
theorem dfSurvId_np (B : Buf) (s : RS) : (dfSurvId B s).NoPanic := by
  have d := readDR_np B; have u := readUM_np B; unfold dfSurvId; np
macro_rules | `(tactic| np_close) => `(tactic| with_reducible exact dfSurvId_np _ _)
theorem dfLongAirAir_np (B : Buf) (s : RS) : (dfLongAirAir B s).NoPanic := by unfold dfLongAirAir; np
macro_rules | `(tactic| np_close) => `(tactic| with_reducible exact dfLongAirAir_np _ _)
theorem dfTisB_np (B : Buf) (s : RS) : (dfTisB B s).NoPanic := by have m := readME_np B; unfold dfTisB; np
macro_rules | `(tactic| np_close) => `(tactic| with_reducible exact dfTisB_np _ _)
theorem dfMilitary_np (B : Buf) (s : RS) : (dfMilitary B s).NoPanic := by unfold dfMilitary; np
macro_rules | `(tactic| np_close) => `(tactic| with_reducible exact dfMilitary_np _ _)
theorem dfCommBAlt_np (B : Buf) (s : RS) : (dfCommBAlt B s).NoPanic := by
  have d := readDR_np B; have u := readUM_np B; have b := readBDS_np B; unfold dfCommBAlt; np
macro_rules | `(tactic| np_close) => `(tactic| with_reducible exact dfCommBAlt_np _ _)
theorem dfCommBId_np (B : Buf) (s : RS) : (dfCommBId B s).NoPanic := by
  have d := readDR_np B; have u := readUM_np B; have b := readBDS_np B; unfold dfCommBId; np
macro_rules | `(tactic| np_close) => `(tactic| with_reducible exact dfCommBId_np _ _)
theorem dfModeS_np (B : Buf) (s : RS) : (dfModeS B s).NoPanic := by have c := readCap_np B; unfold dfModeS; np
macro_rules | `(tactic| np_close) => `(tactic| with_reducible exact dfModeS_np _ _)

theorem dfBody_np (id : Nat) (B : Buf) (s : RS) : (dfBody id B s).NoPanic := by
  unfold dfBody
  repeat (any_goals split)
  all_goals first
    | with_reducible exact dfADSB_np B s | with_reducible exact dfAllCall_np B s | with_reducible exact dfShortAirAir_np B s | with_reducible exact dfSurvAlt_np B s | with_reducible exact dfSurvId_np B s
    | with_reducible exact dfLongAirAir_np B s | with_reducible exact dfTisB_np B s | with_reducible exact dfMilitary_np B s | with_reducible exact dfCommBAlt_np B s | with_reducible exact dfCommBId_np B s
    | with_reducible exact dfModeS_np B s | trivial
macro_rules | `(tactic| np_close) => `(tactic| with_reducible exact dfBody_np _ _ _)

theorem modesChecksum_np (msg : List UInt8) (bits : Nat) : (modesChecksum msg bits).NoPanic := by
  unfold modesChecksum; simp only []; split <;> trivial

/-- **decoding is total**: for every byte string, `decode` returns a frame or an error, never a panic.
(Termination is by construction: every definition is structurally recursive over bounded data.) -/
theorem decode_total (B : Buf) : (decode B).NoPanic := by
  have h := dfBody_np
  unfold decode readDF readCrc
  apply Res.NoPanic_bind
  · np
  · intro ⟨df, s⟩
    dsimp only
    apply Res.NoPanic_bind (modesChecksum_np _ _)
    intro _; exact pure_np _

/-- a successful read never pulls more than the buffer from the reader, so the checksum cache never exceeds it -/
theorem reads_bounded (B : Buf) (n v : Nat) (s s' : RS) (h : readBits B n s = .ok (v, s')) (hhi : s.hi ≤ B.len) :
    s'.hi ≤ B.len ∧ s'.bp ≤ 8 * B.len := by
  unfold readBits at h
  split at h
  · cases h; constructor <;> simp only [] <;> omega
  · cases h

/-- `calculate()` with every Rust overflow check written out never panics on a decoded velocity report -/
theorem calculate_total (B : Buf) : ((velAt B).calcR).NoPanic := by
  have hb : ∀ off, bitsAt B off 10 < 1024 := fun off => bitsAt_lt B off 10
  rw [C07_calc B]
  trivial
where
  C07_calc (B : Buf) : (velAt B).calcR = .ok (velAt B).calc := by
    have h9 : (velAt B).vrate < 512 := bitsAt_lt B 69 9
    unfold Vel.calcR Vel.calc
    cases hsub : (velAt B).sub with
    | ground a b c d =>
      have hbd : b < 1024 ∧ d < 1024 := by
        have hv : (velAt B).sub = velSubAt B (bitsAt B 37 3) 45 := rfl
        rw [hv] at hsub
        unfold velSubAt at hsub
        split at hsub
        · cases hsub
        · split at hsub
          · cases hsub; exact ⟨bitsAt_lt B _ 10, bitsAt_lt B _ 10⟩
          · split at hsub <;> cases hsub
      obtain ⟨hb, hd⟩ := hbd
      simp only []
      by_cases hz : b = 0 ∨ d = 0
      · simp [hz]
      · rw [if_neg hz, if_neg hz]
        have hsc : (if (velAt B).st = 2 then (4 : Int) else 1) = 4 ∨ (if (velAt B).st = 2 then (4 : Int) else 1) = 1 := by split <;> simp
        have hsa : signOf a = 1 ∨ signOf a = -1 := by unfold signOf; split <;> simp
        have hsc' : signOf c = 1 ∨ signOf c = -1 := by unfold signOf; split <;> simp
        have hsv : signOf (velAt B).vrateSign = 1 ∨ signOf (velAt B).vrateSign = -1 := by unfold signOf; split <;> simp
        have r1 : (-32768 : Int) ≤ (b : Int) - 1 ∧ (b : Int) - 1 ≤ 32767 := by omega
        have r4 : (-32768 : Int) ≤ (d : Int) - 1 ∧ (d : Int) - 1 ≤ 32767 := by omega
        have r2 : (-32768 : Int) ≤ ((b : Int) - 1) * (if (velAt B).st = 2 then 4 else 1) ∧ ((b : Int) - 1) * (if (velAt B).st = 2 then 4 else 1) ≤ 32767 := by
          rcases hsc with e | e <;> rw [e] <;> omega
        have r5 : (-32768 : Int) ≤ ((d : Int) - 1) * (if (velAt B).st = 2 then 4 else 1) ∧ ((d : Int) - 1) * (if (velAt B).st = 2 then 4 else 1) ≤ 32767 := by
          rcases hsc with e | e <;> rw [e] <;> omega
        have r3 : (-32768 : Int) ≤ ((b : Int) - 1) * (if (velAt B).st = 2 then 4 else 1) * signOf a ∧ ((b : Int) - 1) * (if (velAt B).st = 2 then 4 else 1) * signOf a ≤ 32767 := by
          rcases hsc with e | e <;> rcases hsa with f | f <;> rw [e, f] <;> omega
        have r6 : (-32768 : Int) ≤ ((d : Int) - 1) * (if (velAt B).st = 2 then 4 else 1) * signOf c ∧ ((d : Int) - 1) * (if (velAt B).st = 2 then 4 else 1) * signOf c ≤ 32767 := by
          rcases hsc with e | e <;> rcases hsc' with f | f <;> rw [e, f] <;> omega
        simp only [r1, r2, r3, r4, r5, r6, and_self, if_true, Res.ok_bind]
        by_cases hv : (velAt B).vrate = 0
        · simp [hv]
        · have hm : ¬ (((velAt B).vrate - 1) * 64 ≥ 65536) := by omega
          have r7 : (-32768 : Int) ≤ (((velAt B).vrate : Int) - 1) * 64 ∧ (((velAt B).vrate : Int) - 1) * 64 ≤ 32767 := by omega
          have r8 : (-32768 : Int) ≤ (((velAt B).vrate : Int) - 1) * 64 * signOf (velAt B).vrateSign ∧ (((velAt B).vrate : Int) - 1) * 64 * signOf (velAt B).vrateSign ≤ 32767 := by
            rcases hsv with f | f <;> rw [f] <;> omega
          simp only [hv, hm, if_false, r7, r8, and_self, if_true, Res.ok_bind, Res.pure_eq]
    | reserved0 r => rfl
    | airspeed a b c d => rfl
    | reserved1 r => rfl

/-! ## the altitude readers with Rust's arithmetic checks written out -/

/-- `AC13Field::read` on `u16`: `n * 25` must not overflow, `n - 1000` must not underflow -/
def ac13R (num : Nat) : Res Nat :=
  if num == 0 || num == 0x1fff then .ok 0
  else if num &&& 0x40 != 0 then .ok 0
  else if num &&& 0x10 != 0 then
    let n := ((num &&& 0x1f80) >>> 2) ||| ((num &&& 0x20) >>> 1) ||| (num &&& 0xf)
    if n * 25 ≥ 65536 then .panic "lib.rs AC13Field::read n * 25" else
    let n := n * 25
    if n > 1000 then .ok (n - 1000) else .ok 0
  else
    match modeAToC (decodeId13 num) with
    | some n => if 100 * n ≥ 2 ^ 32 then .panic "lib.rs AC13Field::read 100 * n" else .ok (if 100 * n < 65536 then 100 * n else 0)
    | none => .ok 0

/-- `mode_a_to_mode_c` on `u32`: `6 - one_hundreds` and `n - 13` must not underflow -/
def modeAToCR (a : Nat) : Res (Option Nat) :=
  if a &&& 0xffff8889 != 0 || a &&& 0xf0 == 0 then .ok none else
  let oh := (if bitSet a 0x10 then 7 else 0) ^^^ (if bitSet a 0x20 then 3 else 0) ^^^ (if bitSet a 0x40 then 1 else 0)
  let oh := if oh &&& 5 == 5 then oh ^^^ 2 else oh
  if oh > 5 then .ok none else
  let fh := (if bitSet a 0x0002 then 0xff else 0) ^^^ (if bitSet a 0x0004 then 0x7f else 0) ^^^
            (if bitSet a 0x1000 then 0x3f else 0) ^^^ (if bitSet a 0x2000 then 0x1f else 0) ^^^
            (if bitSet a 0x4000 then 0x0f else 0) ^^^ (if bitSet a 0x0100 then 0x07 else 0) ^^^
            (if bitSet a 0x0200 then 0x03 else 0) ^^^ (if bitSet a 0x0400 then 0x01 else 0)
  if fh &&& 1 != 0 && oh ≤ 6 && oh > 6 then .panic "mode_ac.rs 6 - one_hundreds" else
  let oh := if fh &&& 1 != 0 && oh ≤ 6 then 6 - oh else oh
  let n := fh * 5 + oh
  if n ≥ 13 then .ok (some (n - 13)) else .ok none

theorem ac13R_all : allRange (fun c => match ac13R c with | .ok v => v == ac13 c | _ => false) 0 8192 14 = true := by decide +kernel
theorem modeAToCR_all : allRange (fun c => match modeAToCR (decodeId13 c) with | .ok v => v == modeAToC (decodeId13 c) | _ => false) 0 8192 14 = true := by
  decide +kernel

/-- **no arithmetic check fires in the 13-bit altitude reader**, for all 8192 codes -/
theorem ac13_total (c : Nat) (h : c < 8192) : ac13R c = .ok (ac13 c) := by
  have := allBelow_sound _ 8192 14 ac13R_all c h
  cases hr : ac13R c with
  | ok v => rw [hr] at this; simp only [] at this; rw [eq_of_beq this]
  | err e => rw [hr] at this; cases this
  | panic p => rw [hr] at this; cases this

/-- the tracker step never divides, indexes or unwraps; the only Rust panic site is `num_messages += 1` on a `u32` -/
theorem tracker_count_bound {P D : Type} (g : Geo P D) (std : Bool) (now : Nat) (st : Plane P D) (me : ME) (h : st.numMessages < 2 ^ 32 - 1) :
    (C12.stepPlane g std now st me).numMessages < 2 ^ 32 := by
  have : (C12.stepPlane g std now st me).numMessages = st.numMessages + 1 := by
    have hupd : ∀ (st : Plane P D) (a : Alt), (updatePosition g std now st a).numMessages = st.numMessages := by
      intro st a; unfold updatePosition; simp only []; split
      · split <;> rfl
      · rfl
    unfold C12.stepPlane
    cases me <;> simp only [] <;> try rfl
    · exact congrArg (· + 1) (hupd _ _)
    · rename_i v; cases v.calc <;> rfl
    · exact congrArg (· + 1) (hupd _ _)
  omega

/-! ## the two `u32` counters (tracker message count, statistics total) -/

/-- counting a frame never panics and keeps the counter a `u32`, for every value of the counter -/
theorem count_total (n : Nat) (h : n ≤ u32Max) : ∃ m, incrCount n = .ok m ∧ m ≤ u32Max ∧ n ≤ m := by
  refine ⟨_, rfl, ?_, ?_⟩ <;> omega

/-- below the last value the counter is the model's `n + 1` -/
theorem count_agrees_below (n : Nat) (h : n < u32Max) : incrCount n = .ok (n + 1) ∧ incrCountOld n = .ok (n + 1) := by
  unfold incrCount incrCountOld
  constructor
  · congr 1; omega
  · rw [if_neg (by omega)]

/-- the arithmetic before the repair panicked on the 2^32-th frame of one aircraft: reproduced on the real `Airplanes::incr_messages`
(2^32 calls, 147 s: `attempt to add with overflow` at `rsadsb_common/src/lib.rs:275`), repaired by /repo commit f88e2c6 -/
theorem count_old_panics : incrCountOld u32Max = .panic "rsadsb_common lib.rs: attempt to add with overflow" := rfl

end Adsb.C01
