import Adsb.Lemmas.Append
/-! # C02 — format recognition, frame-length discipline, acceptance set -/

namespace Adsb.C02
open Adsb

/-- **the acceptance set**: `decode` succeeds exactly on `Accept`: a supported format code, at least
`frameLen` bytes, and — the only other rejection — an operational status (type 31, subtype 0/1) payload
outside the version 0–2 layout. -/
theorem accept_iff (B : Buf) : (∃ f, decode B = .ok f) ↔ Accept B := by
  constructor
  · rintro ⟨f, h⟩; exact decode_ok_accept B f h
  · intro h; obtain ⟨L, _, _, hd⟩ := decode_accept B h; exact ⟨_, hd⟩

/-- formats 0, 4, 5, 11 are 56-bit frames; 16–21 and 24–31 are 112-bit frames; the rest is rejected -/
theorem frame_lengths : ∀ id, id < 32 →
    ((id = 0 ∨ id = 4 ∨ id = 5 ∨ id = 11) → frameLen id = some 7) ∧
    (((16 ≤ id ∧ id ≤ 21) ∨ (24 ≤ id ∧ id ≤ 31)) → frameLen id = some 14) ∧
    (((1 ≤ id ∧ id ≤ 3) ∨ (6 ≤ id ∧ id ≤ 10) ∨ (12 ≤ id ∧ id ≤ 15) ∨ id = 22 ∨ id = 23) → frameLen id = none) := by
  decide

theorem unsupported_format_rejected (B : Buf) (h : frameLen (bitsAt B 0 5) = none) : ∀ f, decode B ≠ .ok f := by
  intro f hf
  have := decode_ok_accept B f hf
  unfold Accept at this
  rw [h] at this
  exact this

/-- a buffer shorter than its format's frame is never decoded (neither partially nor with a checksum) -/
theorem short_buffer_rejected (B : Buf) (L : Nat) (hL : frameLen (bitsAt B 0 5) = some L) (hs : B.len < L) :
    ∀ f, decode B ≠ .ok f := by
  intro f hf
  have := decode_ok_accept B f hf
  unfold Accept at this
  rw [hL] at this
  omega

/-- the rejected operational status payloads are exactly those outside the version 0–2 layout -/
theorem only_other_rejection (B : Buf) (L : Nat) (hL : frameLen (bitsAt B 0 5) = some L) (hlen : L ≤ B.len) :
    (∀ f, decode B ≠ .ok f) ↔
      ((bitsAt B 0 5 = 17 ∨ bitsAt B 0 5 = 18) ∧ bitsAt B 32 5 = 31 ∧
        ((bitsAt B 37 3 = 0 ∧ ¬ opAirOk B 40) ∨ (bitsAt B 37 3 = 1 ∧ ¬ opSurfOk B 40))) := by
  rw [← not_exists, accept_iff]
  unfold Accept
  rw [hL]
  simp only [hlen, true_and, meOk, opOk]
  constructor
  · intro h
    by_cases hdf : bitsAt B 0 5 = 17 ∨ bitsAt B 0 5 = 18
    · refine ⟨hdf, ?_⟩
      by_cases htc : bitsAt B 32 5 = 31
      · refine ⟨htc, ?_⟩
        by_cases h0 : bitsAt B 37 3 = 0
        · left; refine ⟨h0, fun ha => h (fun _ _ => ⟨fun _ => ha, fun h1 => by omega⟩)⟩
        · by_cases h1 : bitsAt B 37 3 = 1
          · right; refine ⟨h1, fun hs => h (fun _ _ => ⟨fun h0' => absurd h0' h0, fun _ => hs⟩)⟩
          · exact absurd (fun _ _ => ⟨fun h0' => absurd h0' h0, fun h1' => absurd h1' h1⟩) h
      · exact absurd (fun _ htc' => absurd htc' htc) h
    · exact absurd (fun hdf' => absurd hdf' hdf) h
  · rintro ⟨hdf, htc, hbad⟩ h
    have := h hdf htc
    rcases hbad with ⟨h0, hn⟩ | ⟨h1, hn⟩
    · exact hn (this.1 h0)
    · exact hn (this.2 h1)

/-- the operational status acceptance conditions, spelled out -/
theorem opstatus_layout (B : Buf) :
    (opAirOk B 40 ↔ bitsAt B 40 2 = 0 ∧ bitsAt B 44 2 = 0 ∧ bitsAt B 56 2 = 0 ∧ bitsAt B 72 3 ≤ 2) ∧
    (opSurfOk B 40 ↔ bitsAt B 40 2 = 0 ∧ bitsAt B 56 2 = 0 ∧ bitsAt B 72 3 ≤ 2) := by
  constructor <;> rfl

/-- the checksum window is exactly the first `L` bytes of the buffer -/
theorem checksum_window (B : Buf) (f : Frame) (h : decode B = .ok f) :
    ∃ L, frameLen (bitsAt B 0 5) = some L ∧ L ≤ B.len ∧ f.crc = crcVal (B.bytes.take L) L := by
  obtain ⟨L, hL, hlen, hd⟩ := decode_accept B (decode_ok_accept B f h)
  rw [hd] at h; cases h
  have h3 : 3 ≤ L := by
    unfold frameLen at hL; split at hL
    · cases hL; decide
    · split at hL
      · cases hL; decide
      · cases hL
  exact ⟨L, hL, hlen, (crcVal_take B.bytes L L h3 (Nat.le_refl _)).symm⟩

/-! ## bytes after the frame never influence the result -/

/-- **trailing bytes are irrelevant**: a buffer that holds a whole frame decodes exactly like the frame alone -/
theorem trailing_bytes_irrelevant (b e : List UInt8) (L : Nat) (hL : frameLen (bitsAt (Buf.mk b) 0 5) = some L)
    (hlen : L ≤ b.length) (f : Frame) :
    decode (Buf.mk (b ++ e)) = .ok f ↔ decode (Buf.mk b) = .ok f := by
  have h7 : 7 ≤ L ∧ (L = 7 ∨ L = 14) := by
    unfold frameLen at hL; split at hL
    · cases hL; omega
    · split at hL
      · cases hL; omega
      · cases hL
  have e0 : bitsAt (Buf.mk (b ++ e)) 0 5 = bitsAt (Buf.mk b) 0 5 := bitsAt_append b e 0 5 (by omega)
  have hlenE : L ≤ (Buf.mk (b ++ e)).len := by show L ≤ (b ++ e).length; rw [List.length_append]; omega
  have hdf : dfAt (Buf.mk (b ++ e)) = dfAt (Buf.mk b) := by
    rcases h7.2 with h | h
    · subst h
      have : bitsAt (Buf.mk b) 0 5 = 0 ∨ bitsAt (Buf.mk b) 0 5 = 4 ∨ bitsAt (Buf.mk b) 0 5 = 5 ∨ bitsAt (Buf.mk b) 0 5 = 11 := by
        unfold frameLen at hL; split at hL
        · assumption
        · split at hL <;> cases hL
      exact dfAt_append_short b e hlen this
    · subst h; exact dfAt_append_long b e hlen
  have hacc : Accept (Buf.mk (b ++ e)) ↔ Accept (Buf.mk b) := by
    unfold Accept
    rw [e0, hL]
    simp only [e0]
    constructor
    · rintro ⟨_, hm⟩
      refine ⟨hlen, fun hid => ?_⟩
      have h14 : 14 ≤ b.length := by rcases hid with c | c <;> (rw [c] at hL; simp [frameLen] at hL; omega)
      exact (meOk_append b e h14).mp (hm hid)
    · rintro ⟨_, hm⟩
      refine ⟨hlenE, fun hid => ?_⟩
      have h14 : 14 ≤ b.length := by rcases hid with c | c <;> (rw [c] at hL; simp [frameLen] at hL; omega)
      exact (meOk_append b e h14).mpr (hm hid)
  constructor
  · intro h
    have ha := decode_ok_accept _ f h
    obtain ⟨L', hL', _, hd'⟩ := decode_accept _ ha
    rw [e0, hL] at hL'; cases hL'
    obtain ⟨L'', hL'', _, hd''⟩ := decode_accept _ (hacc.mp ha)
    rw [hL] at hL''; cases hL''
    rw [hd'] at h; cases h
    rw [hd'']
    dsimp only
    rw [hdf, crcVal_append b e L (by omega) hlen]
  · intro h
    have ha := decode_ok_accept _ f h
    obtain ⟨L', hL', _, hd'⟩ := decode_accept _ ha
    rw [hL] at hL'; cases hL'
    obtain ⟨L'', hL'', _, hd''⟩ := decode_accept _ (hacc.mpr ha)
    rw [e0, hL] at hL''; cases hL''
    rw [hd'] at h; cases h
    rw [hd'']
    dsimp only
    rw [hdf, crcVal_append b e L (by omega) hlen]

/-! ## non-vacuity (tests) -/
example : Accept ⟨[0x8d, 0xa2, 0xc1, 0xbd, 0x58, 0x7b, 0xa2, 0xad, 0xb3, 0x17, 0x99, 0xcb, 0x80, 0x2b]⟩ := by decide +kernel
example : ¬ Accept ⟨[0x9d, 0xab, 0xcd, 0xef, 0x5e, 0xd4, 0xa7, 0xab, 0x73, 0x73]⟩ := by decide +kernel   -- truncated DF19 (was accepted before the repair)
example : ¬ Accept ⟨[0x8d, 0xa2, 0xc1, 0xbd, 0xf8, 0x7b, 0xa2, 0xad, 0xb3, 0xf7, 0x99, 0xcb, 0x80, 0x2b]⟩ := by decide +kernel   -- TC31/0 with version 7

end Adsb.C02
