import Adsb.Lemmas.CrcSyn
import Adsb.Lemmas.CrcWeight
import Adsb.Lemmas.Reject
/-! # C03 — the checksum is the Mode S parity syndrome -/

namespace Adsb.C03
open Adsb Adsb.Spec
set_option linter.unusedSimpArgs false

/-- the generated table holds the remainders of `i·x^24` modulo the generator (re-checked on every run) -/
theorem table_is_polynomial_remainders : ∀ i : BitVec 8, tableBV i = parity (byteBits ⟨i⟩) := by
  intro i
  rw [table_correct i]
  exact byteSpec_fold 0 ⟨i⟩

/-- **(a)** the table-driven loop computes the remainder of the leading bits (times x^24) modulo the generator,
for every byte string -/
theorem crcRem_is_parity (msg : List UInt8) : crcRem msg = parity (bitsOf msg) := crcRem_eq_parity msg

theorem take_split (msg : List UInt8) (n : Nat) (h3 : 3 ≤ n) (hn : n ≤ msg.length) :
    msg.take n = msg.take (n - 3) ++ [msg.getD (n - 3) 0, msg.getD (n - 2) 0, msg.getD (n - 1) 0] := by
  have e : n = (n - 3) + 3 := by omega
  conv => lhs; rw [e, List.take_add]
  congr 1
  have hd : (msg.drop (n - 3)).length ≥ 3 := by rw [List.length_drop]; omega
  have g : ∀ k, k < 3 → (msg.drop (n - 3))[k]? = some (msg.getD (n - 3 + k) 0) := by
    intro k hk
    rw [List.getElem?_drop, List.getD_eq_getElem?_getD]
    have : n - 3 + k < msg.length := by omega
    rw [List.getElem?_eq_getElem this]; rfl
  match hm : msg.drop (n - 3), hd with
  | a :: b :: c :: rest, _ =>
    have g0 := g 0 (by omega); have g1 := g 1 (by omega); have g2 := g 2 (by omega)
    rw [hm] at g0 g1 g2
    simp at g0 g1 g2
    have e1 : n - 3 + 1 = n - 2 := by omega
    have e2 : n - 3 + 2 = n - 1 := by omega
    rw [e1] at g1; rw [e2] at g2
    simp [List.take, g0, g1, g2]

/-- **(a')** the reported checksum is the remainder of the whole `n`-byte frame, as a polynomial, modulo 0x1FFF409 -/
theorem crc_is_syndrome (msg : List UInt8) (n : Nat) (h3 : 3 ≤ n) (hn : n ≤ msg.length) :
    crcVal msg n = (syndrome (bitsOf (msg.take n))).toNat := by
  rw [take_split msg n h3 hn]
  unfold crcVal tail24
  have hb : bitsOf (msg.take (n - 3) ++ [msg.getD (n - 3) 0, msg.getD (n - 2) 0, msg.getD (n - 1) 0]) =
      bitsOf (msg.take (n - 3)) ++ (byteBits (msg.getD (n - 3) 0) ++ byteBits (msg.getD (n - 2) 0) ++ byteBits (msg.getD (n - 1) 0)) := by
    simp [bitsOf, List.flatMap_append, List.flatMap_cons]
  rw [hb, syndrome_append _ _ (by simp [byteBits_length]), valOf_3bytes, crcRem_eq_parity]

/-- the checksum of a decoded frame is the polynomial remainder of its first `L` bytes -/
theorem decoded_crc_is_syndrome (B : Buf) (f : Frame) (h : decode B = .ok f) :
    ∃ L, frameLen (bitsAt B 0 5) = some L ∧ L ≤ B.len ∧ f.crc = (syndrome (bitsOf (B.bytes.take L))).toNat := by
  obtain ⟨L, hL, hlen, hd⟩ := decode_accept B (decode_ok_accept B f h)
  rw [hd] at h; cases h
  have h3 : 3 ≤ L := by
    unfold frameLen at hL; split at hL
    · cases hL; decide
    · split at hL
      · cases hL; decide
      · cases hL
  exact ⟨L, hL, hlen, crc_is_syndrome B.bytes L h3 hlen⟩

/-- the last 24 bits of a frame -/
def tailW (x y z : UInt8) : W := (x.toBitVec.setWidth 24 <<< 16) ^^^ (y.toBitVec.setWidth 24 <<< 8) ^^^ z.toBitVec.setWidth 24

theorem crcVal_append3 (lead : List UInt8) (x y z : UInt8) :
    crcVal (lead ++ [x, y, z]) (lead.length + 3) = (parity (bitsOf lead) ^^^ tailW x y z).toNat := by
  unfold crcVal tail24 tailW
  have e0 : lead.length + 3 - 3 = lead.length := by omega
  have e1 : lead.length + 3 - 2 = lead.length + 1 := by omega
  have e2 : lead.length + 3 - 1 = lead.length + 2 := by omega
  rw [e0, e1, e2, List.take_left' rfl, crcRem_eq_parity]
  simp [List.getD_eq_getElem?_getD, List.getElem?_append_right]

/-- **(b)** the checksum is `a` exactly when the last 24 bits are the parity of the leading bits overlaid with `a`:
0 for an error-free squitter (DF17/18), the interrogator code for DF11, the address for DF0/4/5/16/20/21 -/
theorem crc_eq_iff_overlay (lead : List UInt8) (x y z : UInt8) (a : W) :
    crcVal (lead ++ [x, y, z]) (lead.length + 3) = a.toNat ↔ tailW x y z = parity (bitsOf lead) ^^^ a := by
  rw [crcVal_append3]
  constructor
  · intro h
    have := BitVec.eq_of_toNat_eq h
    rw [← this, xor_cancel]
  · intro h
    rw [h, xor_cancel]

theorem crc_zero_iff_parity (lead : List UInt8) (x y z : UInt8) :
    crcVal (lead ++ [x, y, z]) (lead.length + 3) = 0 ↔ tailW x y z = parity (bitsOf lead) := by
  have := crc_eq_iff_overlay lead x y z 0
  simpa using this

/-! ## (c) error detection: linearity, and every burst of up to 24 bits changes the syndrome -/

theorem xor4 (a b c : W) : a ^^^ c ^^^ (b ^^^ c) = a ^^^ b := by
  rw [show a ^^^ c ^^^ (b ^^^ c) = c ^^^ (c ^^^ (a ^^^ b)) by ac_rfl, xor_cancel]

theorem divStep_lin (r s : W) (a b : Bool) : divStep (r ^^^ s) (a != b) = divStep r a ^^^ divStep s b := by
  unfold divStep
  rw [mulX_xor]
  cases a <;> cases b <;> simp
  · ac_rfl
  · ac_rfl
  · exact (xor4 _ _ _).symm

theorem fold_divStep_lin (a b : List Bool) (h : a.length = b.length) (r s : W) :
    (List.zipWith (· != ·) a b).foldl divStep (r ^^^ s) = a.foldl divStep r ^^^ b.foldl divStep s := by
  induction a generalizing b r s with
  | nil => cases b with
    | nil => rfl
    | cons _ _ => simp at h
  | cons x xs ih => cases b with
    | nil => simp at h
    | cons y ys =>
      simp only [List.zipWith_cons_cons, List.foldl_cons]
      rw [divStep_lin, ih ys (by simpa using h)]

/-- the syndrome of a corrupted frame is the syndrome of the frame xor the syndrome of the error pattern -/
theorem syndrome_xor (frame err : List Bool) (h : frame.length = err.length) :
    syndrome (List.zipWith (· != ·) frame err) = syndrome frame ^^^ syndrome err := by
  have := fold_divStep_lin frame err h 0 0
  simpa [syndrome] using this

def zeros (k : Nat) : List Bool := List.replicate k false

theorem fold_zeros (k : Nat) (r : W) : (zeros k).foldl divStep r = mulXn k r := by
  induction k generalizing r with
  | zero => rfl
  | succ k ih =>
    simp only [zeros, List.replicate_succ, List.foldl_cons] at ih ⊢
    rw [ih]
    show mulXn k (mulX r ^^^ (0 : W)) = mulXn (k + 1) r
    have e : mulX r ^^^ (0 : W) = mulX r := BitVec.xor_zero
    rw [e]; rfl

theorem valOf_props (t : List Bool) (h : t.length ≤ 24) :
    (∀ i, t.length ≤ i → (valOf t).getLsbD i = false) ∧ (valOf t = 0 → ∀ b ∈ t, b = false) := by
  induction t with
  | nil => exact ⟨fun i _ => by simp [valOf], fun _ b hb => by simp at hb⟩
  | cons b rest ih =>
    have hl : rest.length < 24 := by simp at h; omega
    obtain ⟨ih1, ih2⟩ := ih (by omega)
    have hbit : ∀ i, (bitW b <<< rest.length).getLsbD i = (decide (i = rest.length) && b) := by
      intro i
      cases b
      · simp [bitW]
      · show ((1#24 : W) <<< rest.length).getLsbD i = (decide (i = rest.length) && true)
        rw [BitVec.getLsbD_shiftLeft, BitVec.getLsbD_one]
        by_cases hi : i = rest.length
        · subst hi; simp [hl]
        · by_cases hlt : i < rest.length
          · simp [hlt, hi]
          · have h0 : ¬ (i - rest.length = 0) := by omega
            simp [hi, h0]
    constructor
    · intro i hi
      simp only [List.length_cons] at hi
      simp only [valOf, BitVec.getLsbD_xor, hbit, ih1 i (by omega)]
      have : i ≠ rest.length := by omega
      simp [this]
    · intro hz c hc
      have hb0 : b = false := by
        have := congrArg (fun v => v.getLsbD rest.length) hz
        simp only [valOf, BitVec.getLsbD_xor, hbit, ih1 rest.length (Nat.le_refl _)] at this
        simpa using this
      subst hb0
      have hv : valOf rest = 0 := by
        have e : valOf (false :: rest) = valOf rest := by
          show ((0 : W) <<< rest.length) ^^^ valOf rest = valOf rest
          simp
        rw [e] at hz; exact hz
      simp only [List.mem_cons] at hc
      rcases hc with rfl | hc
      · rfl
      · exact ih2 hv c hc

/-- **a burst of at most 24 bits anywhere in a frame has a non-zero syndrome** -/
theorem burst_syndrome_ne_zero (pre post : Nat) (e : List Bool) (he : e.length ≤ 24) (hne : ∃ b ∈ e, b = true) :
    syndrome (zeros pre ++ e ++ zeros post) ≠ 0 := by
  unfold syndrome
  rw [List.foldl_append, List.foldl_append, fold_zeros pre, mulXn_zero, fold_divStep_tail e he, mulXn_zero, fold_zeros post]
  intro hz
  have hv : valOf e = 0 := by
    have e0 : (0 : W) ^^^ valOf e = valOf e := BitVec.zero_xor
    rw [e0] at hz
    exact mulXn_inj post _ hz
  obtain ⟨b, hb, hbt⟩ := hne
  have := (valOf_props e he).2 hv b hb
  rw [hbt] at this; cases this

/-- **(c) no burst of up to 24 bits turns a valid squitter into a frame reported with checksum 0**:
for a frame with syndrome 0 and a burst error pattern of the same length, the corrupted frame's syndrome is not 0 -/
theorem burst24_detected (frame : List Bool) (pre post : Nat) (e : List Bool) (he : e.length ≤ 24)
    (hne : ∃ b ∈ e, b = true) (hlen : frame.length = pre + e.length + post) (hvalid : syndrome frame = 0) :
    syndrome (List.zipWith (· != ·) frame (zeros pre ++ e ++ zeros post)) ≠ 0 := by
  rw [syndrome_xor frame _ (by simp [zeros, hlen]; omega), hvalid]
  have e0 : (0 : W) ^^^ syndrome (zeros pre ++ e ++ zeros post) = syndrome (zeros pre ++ e ++ zeros post) := BitVec.zero_xor
  rw [e0]
  exact burst_syndrome_ne_zero pre post e he hne

/-! ## (d) up to five bit flips -/

/-- **the syndrome of an error pattern with 1 to 5 set bits in at most 112 positions is never 0** (the parity code has
minimum distance ≥ 6 on 112-bit frames): odd weights by `g(1) = 0`, weights 2 and 4 because the 6329 sums of at most two
of the residues `x^0 … x^111 mod g` are pairwise different (kernel computation `vals_strict`) -/
theorem weight5_syndrome_ne_zero (err : List Bool) (hlen : err.length ≤ 112) (hw1 : 1 ≤ weight err) (hw5 : weight err ≤ 5) :
    syndrome err ≠ 0 := by
  rw [syndrome_positions]
  exact xorAt_ne_zero (posOf err) (posOf_desc err) (fun k hk => Nat.lt_of_lt_of_le (posOf_lt err k hk) hlen) hw1 hw5

/-- **(d) no corruption of a valid squitter by up to five bit flips is reported with checksum 0**: for a frame of at most
112 bits with syndrome 0 and an error pattern of the same length with 1 to 5 set bits, the corrupted frame's syndrome
is not 0.  With `decoded_crc_is_syndrome` this is a statement about `Frame.crc` of the corrupted squitter. -/
theorem weight5_detected (frame err : List Bool) (hlen : frame.length = err.length) (h112 : err.length ≤ 112)
    (hw1 : 1 ≤ weight err) (hw5 : weight err ≤ 5) (hvalid : syndrome frame = 0) :
    syndrome (List.zipWith (· != ·) frame err) ≠ 0 := by
  rw [syndrome_xor frame err hlen, hvalid]
  have e0 : (0 : W) ^^^ syndrome err = syndrome err := BitVec.zero_xor
  rw [e0]
  exact weight5_syndrome_ne_zero err h112 hw1 hw5

/-- **(d), at the level of `Frame.crc`**: a 14-byte buffer that decodes with checksum 0, corrupted in 1 to 5 bit positions
into a buffer that is still decoded as a 112-bit format, is never reported with checksum 0.  (A corruption that clears the
first format bit turns the buffer into a 56-bit format, which is not an extended squitter: `frame_lengths`.) -/
theorem corrupted_squitter_crc_ne_zero (B B' : Buf) (f f' : Frame) (hB : B.bytes.length = 14) (hB' : B'.bytes.length = 14)
    (hd : decode B = .ok f) (hd' : decode B' = .ok f') (hlong : frameLen (bitsAt B 0 5) = some 14)
    (hlong' : frameLen (bitsAt B' 0 5) = some 14) (hcrc : f.crc = 0)
    (err : List Bool) (herr : bitsOf B'.bytes = List.zipWith (· != ·) (bitsOf B.bytes) err) (hel : err.length = 112)
    (hw1 : 1 ≤ weight err) (hw5 : weight err ≤ 5) : f'.crc ≠ 0 := by
  obtain ⟨L, hL, _, hc⟩ := decoded_crc_is_syndrome B f hd
  obtain ⟨L', hL', _, hc'⟩ := decoded_crc_is_syndrome B' f' hd'
  rw [hlong] at hL; rw [hlong'] at hL'
  cases hL; cases hL'
  have t1 : B.bytes.take 14 = B.bytes := List.take_of_length_le (by omega)
  have t2 : B'.bytes.take 14 = B'.bytes := List.take_of_length_le (by omega)
  rw [t1] at hc; rw [t2] at hc'
  have hgen : ∀ l : List UInt8, (bitsOf l).length = 8 * l.length := by
    intro l
    induction l with
    | nil => rfl
    | cons b t ih =>
      have : bitsOf (b :: t) = byteBits b ++ bitsOf t := by simp [bitsOf]
      rw [this, List.length_append, ih, byteBits_length, List.length_cons]; omega
  have hbl : (bitsOf B.bytes).length = 112 := by rw [hgen, hB]
  have hs : syndrome (bitsOf B.bytes) = 0 := by
    apply BitVec.eq_of_toNat_eq; rw [← hc, hcrc]; rfl
  have := weight5_detected (bitsOf B.bytes) err (by rw [hbl, hel]) (by omega) hw1 hw5 hs
  rw [← herr] at this
  intro h0
  apply this
  apply BitVec.eq_of_toNat_eq; rw [← hc', h0]; rfl

/-- non-vacuity: an error pattern of weight 5 -/
example : weight [true, false, true, true, false, true, true] = 5 := by decide

/-! ## non-vacuity (tests): the README frame is a valid squitter -/
example : crcVal [0x8d, 0xa2, 0xc1, 0xbd, 0x58, 0x7b, 0xa2, 0xad, 0xb3, 0x17, 0x99, 0xcb, 0x80, 0x2b] 14 = 0 := by decide +kernel
example : syndrome (bitsOf [0x8d, 0xa2, 0xc1, 0xbd, 0x58, 0x7b, 0xa2, 0xad, 0xb3, 0x17, 0x99, 0xcb, 0x80, 0x2b]) = 0 := by decide +kernel

end Adsb.C03
