import Adsb.Gen.CrcFn
import Adsb.Theorems.C03
/-! # C03 (part 2) — `modes_checksum` *as translated from the source on this run* is the model's checksum, hence the Mode S syndrome

`Gen.modesChecksumSrc` is produced by `tools/rust2lean.py` from the text of `crc.rs` every time a check runs: the length guard, the
`for` loop over the first `n − 3` bytes (`rem = (rem << 8) ^ CRC_TABLE[(message[i] ^ ((rem & 0xff0000) >> 16)) as usize]; rem &= 0xffffff`
in `u32` arithmetic with every shift, index and subtraction check written out) and the XOR with the last three bytes. The theorems
below prove, for **every** byte string and every `bits`, that it never panics and returns exactly what the hand-written `BitVec 24` model
`modesChecksum` returns — so the syndrome theorems of `Theorems/C03` (`crc_is_polyMod` and its corollaries) hold of the function as it is
written in the repository today. The proof is tailored to the shape the translator emits; a rewrite of the Rust function breaks it (or leaves
the translated fragment), which the check reports as a broken obligation of C03. -/

namespace Adsb.C03b
open Adsb Adsb.MiniRust

/-- the slice as the translated function sees it -/
def bytesNat (msg : List UInt8) : List Nat := msg.map (·.toNat)

theorem getD_bytesNat (msg : List UInt8) (i : Nat) : (bytesNat msg).getD i 0 = (msg.getD i 0).toNat := by
  unfold bytesNat
  rw [List.getD_eq_getElem?_getD, List.getD_eq_getElem?_getD, List.getElem?_map]
  cases msg[i]? <;> rfl

theorem hi_byte (r : Nat) (hr : r < 16777216) : (r &&& 16711680) >>> 16 = r >>> 16 := by
  rw [Nat.shiftRight_and_distrib]
  have e : (16711680 : Nat) >>> 16 = 2 ^ 8 - 1 := by decide
  rw [e, Nat.and_two_pow_sub_one_eq_mod]
  apply Nat.mod_eq_of_lt
  rw [Nat.shiftRight_eq_div_pow]; omega

/-- the loop body in `u32` arithmetic = one `crcStep` of the `BitVec 24` model -/
theorem step_bridge (r : Nat) (hr : r < 16777216) (b : UInt8) :
    (((r <<< 8) % 4294967296) ^^^ (Gen.crcTable.getD ((b.toNat ^^^ ((r &&& 16711680) >>> 16)) % 18446744073709551616) 0)) &&& 16777215
      = (crcStep (BitVec.ofNat 24 r) b).toNat := by
  have hb : b.toNat < 256 := b.toNat_lt
  have hs : r >>> 16 < 256 := by rw [Nat.shiftRight_eq_div_pow]; omega
  have hidx : b.toNat ^^^ (r >>> 16) < 2 ^ 8 := Nat.xor_lt_two_pow (by omega) (by omega)
  unfold crcStep tableBV
  rw [hi_byte r hr, Nat.mod_eq_of_lt (by omega : b.toNat ^^^ (r >>> 16) < 18446744073709551616)]
  have e24 : (16777215 : Nat) = 2 ^ 24 - 1 := by decide
  rw [e24, Nat.and_two_pow_sub_one_eq_mod, Nat.xor_mod_two_pow]
  simp only [BitVec.toNat_xor, BitVec.toNat_shiftLeft, BitVec.toNat_ofNat, BitVec.toNat_setWidth, BitVec.toNat_ushiftRight, UInt8.toNat_toBitVec]
  have e1 : r % 2 ^ 24 = r := Nat.mod_eq_of_lt (by omega)
  have e2 : (r >>> 16) % 2 ^ 8 = r >>> 16 := Nat.mod_eq_of_lt (by omega)
  have e3 : (r <<< 8) % 4294967296 % 2 ^ 24 = (r <<< 8) % 2 ^ 24 := Nat.mod_mod_of_dvd _ (by decide)
  rw [e1, e2, e3]

theorem idx_lt (r : Nat) (hr : r < 16777216) (b : UInt8) :
    (b.toNat ^^^ ((r &&& 16711680) >>> 16)) % 18446744073709551616 < 256 := by
  have hb : b.toNat < 256 := b.toNat_lt
  have hs : r >>> 16 < 256 := by rw [Nat.shiftRight_eq_div_pow]; omega
  have hidx : b.toNat ^^^ (r >>> 16) < 2 ^ 8 := Nat.xor_lt_two_pow (by omega) (by omega)
  rw [hi_byte r hr, Nat.mod_eq_of_lt (by omega)]; omega

/-- the translated loop body, as a function on the fold state -/
def loopBody (message : List Nat) (st : Nat × Bool) (v3 : Nat) : Nat × Bool :=
  let v1 := st.1
  let bad := st.2
  let bad := bad || (Nat.ble 32 8) || (Nat.ble message.length v3) || (Nat.ble 32 16) || (Nat.ble 256 (((message.getD v3 0) ^^^ ((v1 &&& 16711680) >>> 16)) % 18446744073709551616))
  let v1 := (((v1 <<< 8) % 4294967296) ^^^ (Gen.crcTable.getD (((message.getD v3 0) ^^^ ((v1 &&& 16711680) >>> 16)) % 18446744073709551616) 0))
  let v1 := (v1 &&& 16777215)
  (v1, bad)

/-- after `k ≤ length` iterations the loop holds the model's remainder of the first `k` bytes, and no check has fired -/
theorem loop_inv (msg : List UInt8) : ∀ k, k ≤ msg.length →
    (List.range k).foldl (loopBody (bytesNat msg)) (0, false) = ((crcRem (msg.take k)).toNat, false) := by
  intro k
  induction k with
  | zero => intro _; simp [crcRem]
  | succ k ih =>
    intro hk
    rw [List.range_succ, List.foldl_append, ih (by omega)]
    have hlen : (bytesNat msg).length = msg.length := by simp [bytesNat]
    have hget : msg.getD k 0 = msg[k]'(by omega) := by simp [List.getD_eq_getElem?_getD, List.getElem?_eq_getElem (by omega : k < msg.length)]
    have htake : msg.take (k + 1) = msg.take k ++ [msg[k]'(by omega)] := by
      rw [List.take_add_one, List.getElem?_eq_getElem (by omega : k < msg.length)]; rfl
    simp only [List.foldl_cons, List.foldl_nil, loopBody]
    rw [getD_bytesNat, hlen, htake]
    have hr : (crcRem (List.take k msg)).toNat < 16777216 := (crcRem (List.take k msg)).isLt
    have hi := idx_lt _ hr (msg.getD k 0)
    have hb := step_bridge _ hr (msg.getD k 0)
    simp only [BitVec.ofNat_toNat, BitVec.setWidth_eq] at hb
    rw [hb, hget]
    have f1 : Nat.ble msg.length k = false := by
      rw [Bool.eq_false_iff]; intro h; have := Nat.le_of_ble_eq_true h; omega
    have f2 : Nat.ble 256 (((msg[k]'(by omega)).toNat ^^^ (((crcRem (List.take k msg)).toNat &&& 16711680) >>> 16)) % 18446744073709551616) = false := by
      rw [hget] at hi
      rw [Bool.eq_false_iff]; intro h; have := Nat.le_of_ble_eq_true h; omega
    have c1 : Nat.ble 32 8 = false := by decide
    have c2 : Nat.ble 32 16 = false := by decide
    simp only [f1, f2, c1, c2, Bool.or_false]
    unfold crcRem
    rw [List.foldl_append]
    rfl

/-- the translated function's result type against the model's -/
def resOf : Res Nat → Res Val
  | .ok v => .ok (.num v)
  | .err _ => .ok .err
  | .panic p => .panic p

theorem tail_bridge (r : BitVec 24) (a b c : UInt8) :
    r.toNat ^^^ ((((a.toNat <<< 16) % 4294967296) ^^^ ((b.toNat <<< 8) % 4294967296)) ^^^ c.toNat)
      = (r ^^^ ((a.toBitVec.setWidth 24 <<< 16) ^^^ (b.toBitVec.setWidth 24 <<< 8) ^^^ c.toBitVec.setWidth 24)).toNat := by
  have ha : a.toNat < 256 := a.toNat_lt
  have hb : b.toNat < 256 := b.toNat_lt
  have hc : c.toNat < 256 := c.toNat_lt
  simp only [BitVec.toNat_xor, BitVec.toNat_shiftLeft, BitVec.toNat_setWidth, UInt8.toNat_toBitVec]
  have e1 : a.toNat % 2 ^ 24 = a.toNat := Nat.mod_eq_of_lt (by omega)
  have e2 : b.toNat % 2 ^ 24 = b.toNat := Nat.mod_eq_of_lt (by omega)
  have e3 : c.toNat % 2 ^ 24 = c.toNat := Nat.mod_eq_of_lt (by omega)
  have s1 : a.toNat <<< 16 < 2 ^ 24 := by rw [Nat.shiftLeft_eq]; omega
  have s2 : b.toNat <<< 8 < 2 ^ 24 := by rw [Nat.shiftLeft_eq]; omega
  rw [e1, e2, e3, Nat.mod_eq_of_lt (by omega : a.toNat <<< 16 < 4294967296), Nat.mod_eq_of_lt (by omega : b.toNat <<< 8 < 4294967296),
      Nat.mod_eq_of_lt s1, Nat.mod_eq_of_lt s2]

/-- **`modes_checksum` as written in `crc.rs` today = the model's checksum, for every byte string and every bit count; it never panics** -/
theorem src_modes_checksum (msg : List UInt8) (bits : Nat) :
    Gen.modesChecksumSrc (bytesNat msg) bits = resOf (modesChecksum msg bits) := by
  have hlen : (bytesNat msg).length = msg.length := by simp [bytesNat]
  unfold Gen.modesChecksumSrc modesChecksum
  simp only [hlen]
  by_cases hg : bits / 8 < 3 ∨ msg.length < bits / 8
  · have : (Nat.blt (bits / 8) 3 || Nat.blt msg.length (bits / 8)) = true := by
      rcases hg with h | h
      · simp [Nat.blt_eq, h]
      · simp [Nat.blt_eq, h]
    simp only [this, if_true, if_pos hg]
    simp [resOf]
  · have hn3 : 3 ≤ bits / 8 := by omega
    have hnl : bits / 8 ≤ msg.length := by omega
    have nb : ∀ a b : Nat, ¬ a < b → Nat.blt a b = false := by
      intro a b h; rw [Bool.eq_false_iff, ne_eq, Nat.blt_eq]; exact h
    have ne : ∀ a b : Nat, ¬ a ≤ b → Nat.ble a b = false := by
      intro a b h; rw [Bool.eq_false_iff, ne_eq, Nat.ble_eq]; exact h
    have g1 := nb (bits / 8) 3 (by omega)
    have g2 := nb msg.length (bits / 8) (by omega)
    have g3 := nb (bits / 8) 2 (by omega)
    have g4 := nb (bits / 8) 1 (by omega)
    have i1 := ne msg.length (bits / 8 - 3) (by omega)
    have i2 := ne msg.length (bits / 8 - 2) (by omega)
    have i3 := ne msg.length (bits / 8 - 1) (by omega)
    have c0 : ((8 : Nat) == 0) = false := by decide
    have c1 : Nat.ble 32 8 = false := by decide
    have c2 : Nat.ble 32 16 = false := by decide
    have hloop := loop_inv msg (bits / 8 - 3) (by omega)
    unfold loopBody at hloop
    simp only [hlen] at hloop
    simp only [c0, g1, g2, Bool.or_false, Bool.false_eq_true, if_false]
    simp only [hloop]
    simp only [g3, g4, i1, i2, i3, c1, c2, Bool.or_false, Bool.false_eq_true, if_false, if_neg hg]
    unfold resOf crcVal tail24
    simp only [getD_bytesNat]
    rw [tail_bridge]

/-- **C03 on the source text**: for a window of `bits/8 ≥ 3` bytes that the buffer holds, the function as written in the repository today
returns the remainder of those bytes, as a polynomial over GF(2), modulo the Mode S generator 0x1FFF409 (bit-serial long division,
`Spec/Poly.lean`) — the property's "checksum = parity syndrome", now about the translated source rather than the hand model -/
theorem src_checksum_is_syndrome (msg : List UInt8) (bits : Nat) (h3 : 3 ≤ bits / 8) (hn : bits / 8 ≤ msg.length) :
    Gen.modesChecksumSrc (bytesNat msg) bits = .ok (.num (Spec.syndrome (bitsOf (msg.take (bits / 8)))).toNat) := by
  rw [src_modes_checksum]
  unfold modesChecksum resOf
  simp only [show ¬ (bits / 8 < 3 ∨ msg.length < bits / 8) by omega, if_false]
  rw [C03.crc_is_syndrome msg (bits / 8) h3 hn]

/-- **the length guard on the source text**: fewer than `bits/8` bytes (or a window below three bytes) is an error, never a checksum -/
theorem src_checksum_refuses_short (msg : List UInt8) (bits : Nat) (h : bits / 8 < 3 ∨ msg.length < bits / 8) :
    Gen.modesChecksumSrc (bytesNat msg) bits = .ok .err := by
  rw [src_modes_checksum]
  unfold modesChecksum resOf
  simp only [if_pos h]

/-- the README's frame through the translated function: a valid squitter has syndrome 0 -/
example : Gen.modesChecksumSrc [0x8d, 0xa2, 0xc1, 0xbd, 0x58, 0x7b, 0xa2, 0xad, 0xb3, 0x17, 0x99, 0xcb, 0x80, 0x2b] 112 = .ok (.num 0) := by
  rfl

end Adsb.C03b
