import Adsb.Lemmas.Reject
import Adsb.Spec.Fields
import Adsb.Icao
/-! # C04 — address and header fields are taken verbatim from the frame -/

namespace Adsb.C04
open Adsb Adsb.Spec

/-- the announced address of the formats that carry one -/
def announced : DF → Option Nat
  | .adsb _ icao _ _ => some icao
  | .allCall _ icao _ => some icao
  | .tisb _ aa _ _ => some aa
  | .modeS _ _ icao _ _ _ => some icao
  | _ => none

/-- the trailing address/parity (or parity/interrogator) field of the formats that expose one -/
def trailer : DF → Option Nat
  | .adsb _ _ _ pi => some pi
  | .allCall _ _ p => some p
  | .shortAirAir _ _ _ _ _ _ _ _ p => some p
  | .survAlt _ _ _ _ p => some p
  | .survId _ _ _ _ p => some p
  | .longAirAir _ _ _ _ _ _ _ _ p => some p
  | .tisb _ _ _ pi => some pi
  | .commBId _ _ _ _ _ p => some p
  | .modeS _ _ _ _ _ p => some p
  | .military _ => none
  | .commBAlt .. => none

theorem decoded_is_dfAt (B : Buf) (f : Frame) (h : decode B = .ok f) : f.df = dfAt B := by
  obtain ⟨L, _, _, hd⟩ := decode_accept B (decode_ok_accept B f h)
  rw [hd] at h; cases h; rfl

/-- **the announced address is frame bits 9–32**, whatever the rest of the frame contains -/
theorem aa_verbatim (B : Buf) (f : Frame) (h : decode B = .ok f) (a : Nat) (ha : announced f.df = some a) :
    a = AA.of B := by
  rw [decoded_is_dfAt B f h] at ha
  have hlt : bitsAt B 0 5 < 32 := bitsAt_lt B 0 5
  unfold dfAt at ha
  simp only [] at ha
  show a = bitsAt B 8 24
  by_cases c17 : bitsAt B 0 5 = 17
  · simp [c17, announced] at ha; exact ha.symm
  by_cases c11 : bitsAt B 0 5 = 11
  · simp [c11, announced] at ha; exact ha.symm
  by_cases c0 : bitsAt B 0 5 = 0
  · simp [c0, announced] at ha
  by_cases c4 : bitsAt B 0 5 = 4
  · simp [c4, announced] at ha
  by_cases c5 : bitsAt B 0 5 = 5
  · simp [c5, announced] at ha
  by_cases c16 : bitsAt B 0 5 = 16
  · simp [c16, announced] at ha
  by_cases c18 : bitsAt B 0 5 = 18
  · simp [c18, announced] at ha; exact ha.symm
  by_cases c19 : bitsAt B 0 5 = 19
  · simp [c19, announced] at ha
  by_cases c20 : bitsAt B 0 5 = 20
  · simp [c20, announced] at ha
  by_cases c21 : bitsAt B 0 5 = 21
  · simp [c21, announced] at ha
  · simp [c17, c11, c0, c4, c5, c16, c18, c19, c20, c21, announced] at ha; exact ha.symm

/-- **the trailing field is the frame's last 24 bits** -/
theorem trailer_verbatim (B : Buf) (f : Frame) (h : decode B = .ok f) (p : Nat) (hp : trailer f.df = some p) :
    ∃ L, frameLen (bitsAt B 0 5) = some L ∧ p = bitsAt B (8 * L - 24) 24 := by
  obtain ⟨L, hL, _, hd⟩ := decode_accept B (decode_ok_accept B f h)
  rw [hd] at h; cases h
  refine ⟨L, hL, ?_⟩
  have hlt : bitsAt B 0 5 < 32 := bitsAt_lt B 0 5
  simp only [] at hp
  unfold dfAt at hp
  simp only [] at hp
  unfold frameLen at hL
  by_cases c17 : bitsAt B 0 5 = 17
  · simp [c17, trailer] at hp hL; subst hL; subst hp; rfl
  by_cases c11 : bitsAt B 0 5 = 11
  · simp [c11, trailer] at hp hL; subst hL; subst hp; rfl
  by_cases c0 : bitsAt B 0 5 = 0
  · simp [c0, trailer] at hp hL; subst hL; subst hp; rfl
  by_cases c4 : bitsAt B 0 5 = 4
  · simp [c4, trailer] at hp hL; subst hL; subst hp; rfl
  by_cases c5 : bitsAt B 0 5 = 5
  · simp [c5, trailer] at hp hL; subst hL; subst hp; rfl
  by_cases c16 : bitsAt B 0 5 = 16
  · simp [c16, trailer] at hp hL; subst hL; subst hp; rfl
  by_cases c18 : bitsAt B 0 5 = 18
  · simp [c18, trailer] at hp hL; subst hL; subst hp; rfl
  by_cases c19 : bitsAt B 0 5 = 19
  · simp [c19, trailer] at hp
  by_cases c20 : bitsAt B 0 5 = 20
  · simp [c20, trailer] at hp
  by_cases c21 : bitsAt B 0 5 = 21
  · simp [c21, trailer] at hp hL; subst hL; subst hp; rfl
  · have hno : ¬ (bitsAt B 0 5 = 0 ∨ bitsAt B 0 5 = 4 ∨ bitsAt B 0 5 = 5 ∨ bitsAt B 0 5 = 11) := by omega
    rw [if_neg hno] at hL
    split at hL
    · cases hL
      simp [c17, c11, c0, c4, c5, c16, c18, c19, c20, c21, trailer] at hp
      subst hp; rfl
    · cases hL

/-! ## header fields, per format, at their Annex 10 positions -/

theorem df0_header (B : Buf) (f : Frame) (h : decode B = .ok f) (hid : DFcode.of B = 0) :
    f.df = .shortAirAir (VS.of B) (CC.of B) (bitsAt B 7 1) (SL.of B) (bitsAt B 11 2) (RI.of B) (bitsAt B 17 2)
      (ac13 (AC.of B)) (APshort.of B) := by
  rw [decoded_is_dfAt B f h]; have hid' : bitsAt B 0 5 = 0 := hid
  simp [dfAt, hid', Field.of, VS, CC, SL, RI, AC, APshort]

theorem df16_header (B : Buf) (f : Frame) (h : decode B = .ok f) (hid : DFcode.of B = 16) :
    f.df = .longAirAir (VS.of B) (bitsAt B 6 2) (SL.of B) (bitsAt B 11 2) (RI.of B) (bitsAt B 17 2) (ac13 (AC.of B))
      (MV.of B) (APlong.of B) := by
  rw [decoded_is_dfAt B f h]; have hid' : bitsAt B 0 5 = 16 := hid
  simp [dfAt, hid', Field.of, VS, SL, RI, AC, MV, APlong]

/-- FS, DR, UM (IIS, IDS), AC/ID and the trailer of the surveillance and Comm-B replies -/
theorem df4_5_20_21_header (B : Buf) (f : Frame) (h : decode B = .ok f) :
    (drAt B).id = DRQ.of B ∧ ((drAt B).unknown = none ∨ (drAt B).unknown = some (DRQ.of B)) ∧
    (DFcode.of B = 4 → f.df = .survAlt (FS.of B) (drAt B) ⟨IIS.of B, IDS.of B⟩ (ac13 (AC.of B)) (APshort.of B)) ∧
    (DFcode.of B = 5 → f.df = .survId (FS.of B) (drAt B) ⟨IIS.of B, IDS.of B⟩ (identityCode (ID.of B)) (APshort.of B)) ∧
    (DFcode.of B = 20 → f.df = .commBAlt (FS.of B) (drAt B) ⟨IIS.of B, IDS.of B⟩ (ac13 (AC.of B)) (bdsAt B)) ∧
    (DFcode.of B = 21 → f.df = .commBId (FS.of B) (drAt B) ⟨IIS.of B, IDS.of B⟩ (decodeId13 (ID.of B)) (bdsAt B) (APlong.of B)) := by
  rw [decoded_is_dfAt B f h]
  refine ⟨rfl, ?_, ?_, ?_, ?_, ?_⟩
  · unfold drAt; simp only []; split
    · left; rfl
    · right; rfl
  · intro c; have c' : bitsAt B 0 5 = 4 := c
    simp [dfAt, c', umAt, Field.of, FS, IIS, IDS, AC, APshort]
  · intro c; have c' : bitsAt B 0 5 = 5 := c
    simp [dfAt, c', umAt, Field.of, FS, IIS, IDS, ID, APshort]
  · intro c; have c' : bitsAt B 0 5 = 20 := c
    simp [dfAt, c', umAt, Field.of, FS, IIS, IDS, AC]
  · intro c; have c' : bitsAt B 0 5 = 21 := c
    simp [dfAt, c', umAt, Field.of, FS, IIS, IDS, ID, APlong]

theorem capAt_spec (B : Buf) :
    (capAt B).id = CA.of B ∧ (1 ≤ (capAt B).id ∧ (capAt B).id ≤ 3 → (capAt B).reserved = CA.of B) := by
  unfold capAt Field.of CA
  refine ⟨rfl, fun hr => ?_⟩
  simp only [] at hr ⊢
  rw [if_pos hr]

/-- CA / AA / PI of DF11, DF17 and DF24–31 (CA also for the reserved values 1–3); CF of DF18; AF of DF19 -/
theorem ca_cf_af_verbatim (B : Buf) (f : Frame) (h : decode B = .ok f) :
    (DFcode.of B = 17 → f.df = .adsb (capAt B) (AA.of B) (meAt B) (APlong.of B)) ∧
    (DFcode.of B = 11 → f.df = .allCall (capAt B) (AA.of B) (APshort.of B)) ∧
    (24 ≤ DFcode.of B → f.df = .modeS (DFcode.of B) (capAt B) (AA.of B) (bitsAt B 32 5) (leBitsAt B 37 51) (APlong.of B)) ∧
    (DFcode.of B = 18 → f.df = .tisb (CF.of B) (AA.of B) (meAt B) (APlong.of B)) ∧
    (DFcode.of B = 19 → f.df = .military (AF.of B)) := by
  rw [decoded_is_dfAt B f h]
  refine ⟨?_, ?_, ?_, ?_, ?_⟩
  · intro c; have c' : bitsAt B 0 5 = 17 := c
    simp [dfAt, c', Field.of, AA, APlong]
  · intro c; have c' : bitsAt B 0 5 = 11 := c
    simp [dfAt, c', Field.of, AA, APshort]
  · intro c; have c' : 24 ≤ bitsAt B 0 5 := c
    have n : ∀ k, k < 24 → ¬ bitsAt B 0 5 = k := fun k hk hc => by omega
    simp [dfAt, n 17, n 11, n 0, n 4, n 5, n 16, n 18, n 19, n 20, n 21, Field.of, AA, APlong, DFcode]
  · intro c; have c' : bitsAt B 0 5 = 18 := c
    simp [dfAt, c', Field.of, CF, AA, APlong]
  · intro c; have c' : bitsAt B 0 5 = 19 := c
    simp [dfAt, c', Field.of, AF]

/-! ## the textual form of an address -/

theorem hexVal_hexDigit : ∀ d, d < 16 → hexVal (hexDigit d) = some d := by decide

theorem hexDigit_lower : ∀ d, d < 16 → (('0' ≤ hexDigit d ∧ hexDigit d ≤ '9') ∨ ('a' ≤ hexDigit d ∧ hexDigit d ≤ 'f')) := by decide

theorem fold_toHex (w : Nat) : ∀ n acc, n < 16 ^ w → (toHex n w).foldl hexStep (some acc) = some (acc * 16 ^ w + n) := by
  induction w with
  | zero => intro n acc h; simp at h; subst h; simp [toHex]
  | succ w ih =>
    intro n acc h
    have h1 : n / 16 < 16 ^ w := by
      rw [Nat.pow_succ] at h
      exact Nat.div_lt_of_lt_mul (by rw [Nat.mul_comm]; exact h)
    simp only [toHex, List.foldl_append, List.foldl_cons, List.foldl_nil]
    rw [ih (n / 16) acc h1]
    simp only [hexStep, hexVal_hexDigit (n % 16) (Nat.mod_lt _ (by decide))]
    congr 1
    rw [Nat.pow_succ]
    have := Nat.div_add_mod n 16
    have e : 16 * (acc * 16 ^ w + n / 16) = acc * (16 ^ w * 16) + 16 * (n / 16) := by
      rw [Nat.mul_add, Nat.mul_comm 16 (acc * 16 ^ w), Nat.mul_assoc]
    omega

theorem toHex_length (n w : Nat) : (toHex n w).length = w := by
  induction w generalizing n with
  | zero => rfl
  | succ w ih => simp [toHex, ih]

theorem toHex_lower (n w : Nat) : ∀ c ∈ toHex n w, ('0' ≤ c ∧ c ≤ '9') ∨ ('a' ≤ c ∧ c ≤ 'f') := by
  induction w generalizing n with
  | zero => intro c hc; simp [toHex] at hc
  | succ w ih =>
    intro c hc
    simp only [toHex, List.mem_append, List.mem_singleton] at hc
    rcases hc with hc | hc
    · exact ih _ c hc
    · subst hc; exact hexDigit_lower _ (Nat.mod_lt _ (by decide))

/-- **text round trip**: every 24-bit address prints as six lower-case hex digits that parse back to it -/
theorem icao_text_roundtrip (a : Nat) (h : a < 2 ^ 24) :
    (icaoToString a).length = 6 ∧ (∀ c ∈ icaoToString a, ('0' ≤ c ∧ c ≤ '9') ∨ ('a' ≤ c ∧ c ≤ 'f')) ∧
    parseRadix16 (icaoToString a) = some a := by
  refine ⟨toHex_length a 6, toHex_lower a 6, ?_⟩
  unfold parseRadix16 icaoToString
  have hne : ∀ c ∈ toHex a 6, c ≠ '+' := by
    intro c hc hp
    have := toHex_lower a 6 c hc
    subst hp
    revert this; decide
  have hl := toHex_length a 6
  have hmatch : stripPlus (toHex a 6) = toHex a 6 := by
    cases hx : toHex a 6 with
    | nil => rfl
    | cons c r =>
      have : c ≠ '+' := hne c (by rw [hx]; exact List.mem_cons_self)
      unfold stripPlus
      split
      · next h2 => cases h2; exact absurd rfl this
      · rfl
  simp only [hmatch]
  have hnonempty : (toHex a 6).isEmpty = false := by
    cases hx : toHex a 6 with
    | nil => rw [hx] at hl; cases hl
    | cons c r => rfl
  rw [hnonempty]
  have h16 : a < 16 ^ 6 := by
    have : (16:Nat) ^ 6 = 2 ^ 24 := by decide
    omega
  have hf := fold_toHex 6 a 0 h16
  rw [hf]
  simp only [Nat.zero_mul, Nat.zero_add]
  have : a < 2 ^ 32 := by omega
  simp [this, Nat.mod_eq_of_lt h]

/-! ## non-vacuity (tests) -/
example : announced (dfAt ⟨[0x8d, 0xa2, 0xc1, 0xbd, 0x58, 0x7b, 0xa2, 0xad, 0xb3, 0x17, 0x99, 0xcb, 0x80, 0x2b]⟩) = some 0xa2c1bd := by decide +kernel
example : String.ofList (icaoToString 0x0a0b0c) = "0a0b0c" := by decide +kernel

end Adsb.C04
