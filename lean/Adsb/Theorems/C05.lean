import Adsb.Cpr
import Adsb.Spec.NlTable
/-! # C05 — CPR global position decoding (part 1: structure of the NL table and of the pairing)

The exact-arithmetic model is `getPosition (α := Rat)`. This file proves the facts that need no real
analysis: the if-tree of `cpr_nl` *is* the published transition table (regenerated tree vs the table computed
from the closed form), NL ranges over 1…59 and never increases with |latitude|, equal parities pair to nothing.
The metric correctness theorem is in `Theorems/C05b.lean` (Mathlib). -/

namespace Adsb.C05
open Adsb

-- flatten the statement tree of `cpr_nl` into a chain `(threshold, NL)`: a nested `if lat < t { … }` bounds every
-- threshold inside it by `t` (exactly: `lat < min t' t ↔ lat < t' ∧ lat < t`)
/-- a nested `if lat < thr` inside a block already bounded by `bound` -/
def tighten (thr : Nat) : Option Nat → Nat
  | some b => min thr b
  | none => thr

mutual
def flattenStmts : List Gen.NlStmt → Option Nat → List (Option Nat × Nat)
  | [], _ => []
  | s :: rest, bound => flattenStmt s bound ++ flattenStmts rest bound
def flattenStmt : Gen.NlStmt → Option Nat → List (Option Nat × Nat)
  | .ret n, bound => [(bound, n)]
  | .ite thr body, bound => flattenStmts body (some (tighten thr bound))
end

/-- the chain up to (and including) the first unconditional return -/
def chainOf (l : List (Option Nat × Nat)) : List (Nat × Nat) × Nat :=
  match l with
  | [] => ([], 1)
  | (none, n) :: _ => ([], n)
  | (some t, n) :: rest => let (c, d) := chainOf rest; ((t, n) :: c, d)

/-- **the regenerated `cpr_nl` tree is the published NL table** (thresholds to 8 decimals, computed from the closed
form), with NL = 1 above the last threshold. Re-checked against the source on every run. -/
theorem nl_tree_is_table : chainOf (flattenStmts Gen.nlTree none) = (Spec.nlTable, 1) := by decide

/-- every entry of the table: 2 ≤ NL ≤ 59, thresholds strictly increasing, NL strictly decreasing -/
def tableOk : List (Nat × Nat) → Bool
  | [] => true
  | [(_, n)] => decide (2 ≤ n ∧ n ≤ 59)
  | (t1, n1) :: (t2, n2) :: rest => decide (2 ≤ n1 ∧ n1 ≤ 59 ∧ t1 < t2 ∧ n2 + 1 = n1) && tableOk ((t2, n2) :: rest)

theorem table_shape : tableOk Spec.nlTable = true ∧ Spec.nlTable.length = 58 ∧
    Spec.nlTable.head? = some (1047047130, 59) ∧ Spec.nlTable.getLast? = some (8700000000, 2) := by decide

/-- lookup in a chain: NL of a (scaled, non-negative) latitude -/
def chainNl (tbl : List (Nat × Nat)) (dflt : Nat) (a : Rat) : Nat :=
  match tbl with
  | [] => dflt
  | (t, n) :: rest => if a < (t : Rat) / 100000000 then n else chainNl rest dflt a

theorem chainNl_range (tbl : List (Nat × Nat)) (a : Rat) (h : ∀ e ∈ tbl, 1 ≤ e.2 ∧ e.2 ≤ 59) : 1 ≤ chainNl tbl 1 a ∧ chainNl tbl 1 a ≤ 59 := by
  induction tbl with
  | nil => simp [chainNl]
  | cons e rest ih =>
    obtain ⟨t, n⟩ := e
    unfold chainNl
    split
    · exact h (t, n) List.mem_cons_self
    · exact ih (fun e he => h e (List.mem_cons_of_mem _ he))

theorem table_entries_range : ∀ e ∈ Spec.nlTable, 1 ≤ e.2 ∧ e.2 ≤ 59 := by decide

/-- two reports of equal parity yield no position (exact model and, being the same definition, the float instance) -/
theorem same_parity_none (a b : Alt) (h : a.f = b.f) : (getPosition (α := Rat) a b).isNone = true := by
  unfold getPosition; simp [h]

theorem same_parity_none_float (a b : Alt) (h : a.f = b.f) : (getPosition (α := Float) a b).isNone = true := by
  unfold getPosition; simp [h]

end Adsb.C05
