import Adsb.Lemmas.CprDecode
/-! # C05 (part 2) — CPR global decoding is correct everywhere on Earth (exact arithmetic, Mathlib)

The model `getPosition (α := ℚ)` is the same definition the driver evaluates over `Float` (tied to the `f64` code by the
correspondence check).  The DO-260B *encoder* (`encode`: `yz`, `xz`, with the rounded position `rlat`, `rlon`) is the
independent specification.  Everything is proved for all rational positions on the sphere; no bound, no sampling.
Helper lemmas are in `Lemmas/CprCore` (the zone-index lemma `cpr_j`) and `Lemmas/CprDecode`. -/

namespace Adsb.C05b
open Adsb Adsb.CprCore Adsb.CprDecode Adsb.C05

/-- **the NL function of the code is the published table**: `cpr_nl` (the regenerated if-tree, evaluated exactly)
equals the lookup of |lat| in the 58 transition latitudes computed from the closed form, NL = 1 above the last -/
theorem cprNl_eq_table (x : ℚ) : cprNl x = chainNl Spec.nlTable 1 |x| := by
  unfold cprNl
  have h := nlStmts_flat Gen.nlTree none
  have e : (if NumOps.ltb x (nOf 0) = true then negOf x else x) = |x| := by
    rw [ltb_rat, nOf_rat]
    unfold negOf
    rw [sub_rat, nOf_rat]
    by_cases hx : x < 0
    · simp [hx, abs_of_neg hx]
    · simp [hx, abs_of_nonneg (not_lt.mp hx)]
  simp only [e]
  have h2 := h |x|
  rw [if_pos (by intro b hb; cases hb)] at h2
  rw [← h2, evalFlat_chain, nl_tree_is_table]

theorem cprNl_range (x : ℚ) : 1 ≤ cprNl x ∧ cprNl x ≤ 59 := by
  rw [cprNl_eq_table]; exact chainNl_range _ _ table_entries_range

theorem rlat_close (i : ℕ) (hi : i ≤ 1) (φ : ℚ) : |rlat i φ - φ| ≤ dlat i / 262144 := by
  have hd : 0 < dlat i := by unfold dlat; have : i = 0 ∨ i = 1 := by omega
                             rcases this with rfl | rfl <;> norm_num
  unfold rlat gridLat gridIx
  have h1 := Int.floor_le (((131072 : ℕ) : ℚ) * (φ / dlat i) + 1 / 2)
  have h2 := Int.lt_floor_add_one (((131072 : ℕ) : ℚ) * (φ / dlat i) + 1 / 2)
  set F : ℚ := ((⌊((131072 : ℕ) : ℚ) * (φ / dlat i) + 1 / 2⌋ : ℤ) : ℚ)
  have e : dlat i * F / 131072 - φ = dlat i / 131072 * (F - 131072 * (φ / dlat i)) := by field_simp
  rw [e, abs_mul, abs_of_pos (by positivity : 0 < dlat i / 131072)]
  have : |F - 131072 * (φ / dlat i)| ≤ 1 / 2 := by
    rw [abs_le]; push_cast at h1 h2; constructor <;> linarith
  calc dlat i / 131072 * |F - 131072 * (φ / dlat i)| ≤ dlat i / 131072 * (1 / 2) := by
        apply mul_le_mul_of_nonneg_left this (by positivity)
    _ = dlat i / 262144 := by ring

theorem rlon_close (i nl : ℕ) (l : ℚ) : |rlon i nl l - l| ≤ 360 / (nZones i nl : ℚ) / 262144 := by
  have hn : (0 : ℚ) < nZones i nl := by unfold nZones; exact_mod_cast (by omega : 0 < max (nl - i) 1)
  unfold rlon gridLon gridIx
  have h1 := Int.floor_le (((131072 : ℕ) : ℚ) * (l * (nZones i nl : ℚ) / 360) + 1 / 2)
  have h2 := Int.lt_floor_add_one (((131072 : ℕ) : ℚ) * (l * (nZones i nl : ℚ) / 360) + 1 / 2)
  set F : ℚ := ((⌊((131072 : ℕ) : ℚ) * (l * (nZones i nl : ℚ) / 360) + 1 / 2⌋ : ℤ) : ℚ)
  have e : 360 / (nZones i nl : ℚ) * F / 131072 - l = 360 / (nZones i nl : ℚ) / 131072 * (F - 131072 * (l * (nZones i nl : ℚ) / 360)) := by
    field_simp
  rw [e, abs_mul, abs_of_pos (by positivity : 0 < 360 / (nZones i nl : ℚ) / 131072)]
  have : |F - 131072 * (l * (nZones i nl : ℚ) / 360)| ≤ 1 / 2 := by
    rw [abs_le]; push_cast at h1 h2; constructor <;> linarith
  calc 360 / (nZones i nl : ℚ) / 131072 * |F - 131072 * (l * (nZones i nl : ℚ) / 360)| ≤ 360 / (nZones i nl : ℚ) / 131072 * (1 / 2) := by
        apply mul_le_mul_of_nonneg_left this (by positivity)
    _ = 360 / (nZones i nl : ℚ) / 262144 := by ring

/-- **re-encoding (latitude)**: the decoded latitude re-encodes to the transmitted value and is a fixed point of rounding -/
theorem reencode_lat (i : ℕ) (hi : i ≤ 1) (φ : ℚ) : yz i (rlat i φ) = yz i φ ∧ rlat i (rlat i φ) = rlat i φ := by
  constructor
  · unfold yz; rw [gridLat_idem i hi]
  · show dlat i * ((gridLat i (rlat i φ) : ℤ) : ℚ) / 131072 = rlat i φ
    rw [gridLat_idem i hi]; rfl

/-- **re-encoding (longitude)**: any longitude congruent modulo 360° to the rounded one re-encodes to the transmitted value -/
theorem reencode_lon (i nl : ℕ) (l : ℚ) (k : ℤ) : xz i nl (rlon i nl l + 360 * k) = xz i nl l := by
  have hn : (nZones i nl : ℚ) ≠ 0 := by
    have : 0 < nZones i nl := by unfold nZones; omega
    positivity
  unfold xz
  have : gridLon i nl (rlon i nl l + 360 * k) = gridLon i nl l + (131072 : ℤ) * ((nZones i nl : ℤ) * k) := by
    unfold rlon
    show gridIx 131072 ((360 / (nZones i nl : ℚ) * ((gridLon i nl l : ℤ) : ℚ) / 131072 + 360 * k) * (nZones i nl : ℚ) / 360) = _
    have e : (360 / (nZones i nl : ℚ) * ((gridLon i nl l : ℤ) : ℚ) / 131072 + 360 * k) * (nZones i nl : ℚ) / 360
        = ((gridLon i nl l + (131072 : ℤ) * ((nZones i nl : ℤ) * k) : ℤ) : ℚ) / ((131072 : ℕ) : ℚ) := by
      push_cast; field_simp
    rw [e, gridIx_grid 131072 (by norm_num)]
  rw [this, Int.add_mul_emod_self_left]

/-- **range**: every returned position has latitude in [-90, 90] and longitude in [-180, 180) -/
theorem position_range (a b : Alt) (ha : a.lon < 131072) (hb : b.lon < 131072) (q : Position ℚ)
    (h : getPosition (α := ℚ) a b = some q) : (-90 ≤ q.lat ∧ q.lat ≤ 90) ∧ -180 ≤ q.lon ∧ q.lon < 180 := by
  rw [getPosition_rat] at h
  by_cases hf : a.f = b.f
  · rw [if_pos hf] at h; cases h
  · rw [if_neg hf] at h
    have hE : (if a.f = 0 then a else b).lon < 131072 := by split <;> assumption
    have hO : (if a.f = 0 then b else a).lon < 131072 := by split <;> assumption
    generalize (if a.f = 0 then a else b) = E at h hE
    generalize (if a.f = 0 then b else a) = O at h hO
    simp only [] at h
    by_cases hr : inR (decLat E.lat O.lat).1 ∧ inR (decLat E.lat O.lat).2
    · rw [if_neg (not_not.mpr hr)] at h
      by_cases hn : cprNl (decLat E.lat O.lat).1 = cprNl (decLat E.lat O.lat).2
      · rw [if_neg (not_not.mpr hn)] at h
        injection h with h
        subst h
        constructor
        · show inR _
          split
          · exact hr.2
          · exact hr.1
        · show -180 ≤ decLon _ _ _ _ ∧ decLon _ _ _ _ < 180
          generalize cprNl (α := ℚ) _ = nl
          unfold decLon
          simp only []
          have hni : 0 < max (nl - if (b.f != 0) = true then 1 else 0) 1 := by omega
          cases hb' : (b.f != 0)
          · have W := wrap_lon _ hni ⌊(E.lon : ℚ) / Nq * ((nl - 1 : ℕ) : ℚ) - (O.lon : ℚ) / Nq * (nl : ℚ) + 1 / 2⌋ (E.lon : ℤ) (by positivity) (by exact_mod_cast hE)
            obtain ⟨_, _, W1, W2⟩ := W
            rw [hb'] at W1 W2
            simpa [Nq] using And.intro W1 W2
          · have W := wrap_lon _ hni ⌊(E.lon : ℚ) / Nq * ((nl - 1 : ℕ) : ℚ) - (O.lon : ℚ) / Nq * (nl : ℚ) + 1 / 2⌋ (O.lon : ℤ) (by positivity) (by exact_mod_cast hO)
            obtain ⟨_, _, W1, W2⟩ := W
            rw [hb'] at W1 W2
            simpa [Nq] using And.intro W1 W2
      · rw [if_pos hn] at h; cases h
    · rw [if_pos hr] at h; cases h

/-- **inconsistent pairs yield no position**: when the two reports' latitudes fall into different longitude-zone counts,
pairing them (in either order) yields nothing -/
theorem zone_mismatch_none (φe le φo lo : ℚ) (he : -90 ≤ φe ∧ φe ≤ 90) (ho : -90 ≤ φo ∧ φo ≤ 90) (hd : |φe - φo| ≤ 1 / 20)
    (a0 b0 : Alt) (hnl : cprNl (rlat 0 φe) ≠ cprNl (rlat 1 φo)) :
    getPosition (α := ℚ) (encode 0 φe le a0) (encode 1 φo lo b0) = none ∧
    getPosition (α := ℚ) (encode 1 φo lo b0) (encode 0 φe le a0) = none := by
  have hl := decLat_correct φe φo he ho hd
  constructor <;>
  · rw [getPosition_rat]
    simp [encode]
    rw [hl]
    simp [hnl]

/-- **CPR global decoding is correct**: an even report of `(φe, le)` and an odd report of `(φo, lo)`, latitudes within
0.05° (3 NM) of each other and longitudes within the stated fraction of a zone, both latitudes in the same NL band:
pairing them yields, in either order, exactly the *latest* report's position rounded to its own CPR grid
(`rlat`, `rlon` — within half a bin of the true position, see `rlat_close`, `rlon_close`), longitude normalised to [-180, 180). -/
theorem cpr_global_decode (φe le φo lo : ℚ) (he : -90 ≤ φe ∧ φe ≤ 90) (ho : -90 ≤ φo ∧ φo ≤ 90) (hd : |φe - φo| ≤ 1 / 20)
    (a0 b0 : Alt) (nl : ℕ) (hnle : cprNl (rlat 0 φe) = nl) (hnlo : cprNl (rlat 1 φo) = nl) (hlon : lonClose nl le lo) :
    (∃ q, getPosition (α := ℚ) (encode 0 φe le a0) (encode 1 φo lo b0) = some q ∧ q.lat = rlat 1 φo ∧
        (∃ k : ℤ, q.lon = rlon 1 nl lo + 360 * k) ∧ -180 ≤ q.lon ∧ q.lon < 180) ∧
    (∃ q, getPosition (α := ℚ) (encode 1 φo lo b0) (encode 0 φe le a0) = some q ∧ q.lat = rlat 0 φe ∧
        (∃ k : ℤ, q.lon = rlon 0 nl le + 360 * k) ∧ -180 ≤ q.lon ∧ q.lon < 180) := by
  have hl := decLat_correct φe φo he ho hd
  have be := rlat_bounds 0 (by norm_num) φe he
  have bo := rlat_bounds 1 (by norm_num) φo ho
  have L1 := decLon_correct nl le lo hlon true
  have L0 := decLon_correct nl le lo hlon false
  simp only [] at L0 L1
  constructor
  · refine ⟨⟨rlat 1 φo, decLon nl ((xz 0 nl le : ℕ) / Nq) ((xz 1 nl lo : ℕ) / Nq) true⟩, ?_, rfl, by simpa using L1⟩
    rw [getPosition_rat]
    simp [encode, hnle, hnlo]
    rw [hl]
    have : inR (rlat 0 φe) ∧ inR (rlat 1 φo) := ⟨be, bo⟩
    norm_num [this, hnlo, hnle]
  · refine ⟨⟨rlat 0 φe, decLon nl ((xz 0 nl le : ℕ) / Nq) ((xz 1 nl lo : ℕ) / Nq) false⟩, ?_, rfl, by simpa using L0⟩
    rw [getPosition_rat]
    simp [encode, hnle, hnlo]
    rw [hl]
    have : inR (rlat 0 φe) ∧ inR (rlat 1 φo) := ⟨be, bo⟩
    norm_num [this, hnle, hnlo]

/-- **accuracy, in the property's words**: under the hypotheses of `cpr_global_decode` the returned latitude is within half
a latitude bin (6°/2^18 resp. (360/59)°/2^18, about 2.6 m) of the latest report's true latitude, and the returned longitude is, modulo 360°,
within half a longitude bin of its true longitude. -/
theorem cpr_position_error (φe le φo lo : ℚ) (he : -90 ≤ φe ∧ φe ≤ 90) (ho : -90 ≤ φo ∧ φo ≤ 90) (hd : |φe - φo| ≤ 1 / 20)
    (a0 b0 : Alt) (nl : ℕ) (hnle : cprNl (rlat 0 φe) = nl) (hnlo : cprNl (rlat 1 φo) = nl) (hlon : lonClose nl le lo) :
    (∃ q, getPosition (α := ℚ) (encode 0 φe le a0) (encode 1 φo lo b0) = some q ∧ |q.lat - φo| ≤ 360 / 59 / 262144 ∧
        ∃ k : ℤ, |q.lon - 360 * k - lo| ≤ 360 / (nZones 1 nl : ℚ) / 262144) ∧
    (∃ q, getPosition (α := ℚ) (encode 1 φo lo b0) (encode 0 φe le a0) = some q ∧ |q.lat - φe| ≤ 6 / 262144 ∧
        ∃ k : ℤ, |q.lon - 360 * k - le| ≤ 360 / (nZones 0 nl : ℚ) / 262144) := by
  obtain ⟨⟨q1, h1, l1, ⟨k1, e1⟩, _⟩, ⟨q0, h0, l0, ⟨k0, e0⟩, _⟩⟩ := cpr_global_decode φe le φo lo he ho hd a0 b0 nl hnle hnlo hlon
  refine ⟨⟨q1, h1, ?_, k1, ?_⟩, ⟨q0, h0, ?_, k0, ?_⟩⟩
  · rw [l1]; have := rlat_close 1 (by norm_num) φo; unfold dlat at this; norm_num at this ⊢; linarith
  · rw [e1]; have := rlon_close 1 nl lo; simpa using this
  · rw [l0]; have := rlat_close 0 (by norm_num) φe; unfold dlat at this; norm_num at this ⊢; linarith
  · rw [e0]; have := rlon_close 0 nl le; simpa using this

/-! ### the hypotheses are satisfiable (non-vacuity), and the inconsistent pair of finding F16 is rejected -/
example : (-90 : ℚ) ≤ 522572/10000 ∧ (522572/10000 : ℚ) ≤ 90 ∧ |(522572/10000 : ℚ) - 522578/10000| ≤ 1/20 := by
  norm_num [abs_le]
example : cprNl (α := ℚ) (rlat 0 (522572/10000)) = 36 := by decide +kernel
example : cprNl (α := ℚ) (rlat 1 (522578/10000)) = 36 := by decide +kernel
example : lonClose 36 (391937/100000) (391940/100000) := by
  right; exact ⟨0, by norm_num [abs_lt]⟩
/-- a pair in different NL bands (across the 10.47° transition) exists: `zone_mismatch_none` is not vacuous -/
example : cprNl (α := ℚ) (rlat 0 (10470/1000)) ≠ cprNl (α := ℚ) (rlat 1 (10471/1000)) := by decide +kernel
/-- F16: even `lat_cpr = 0` / odd `lat_cpr = 65536` cannot stem from one location; no position in either order -/
example : getPosition (α := ℚ) ⟨11, 0, 0, none, 0, 0, 0, 0⟩ ⟨11, 0, 0, none, 0, 1, 65536, 0⟩ = none ∧
    getPosition (α := ℚ) ⟨11, 0, 0, none, 0, 1, 65536, 0⟩ ⟨11, 0, 0, none, 0, 0, 0, 0⟩ = none := by decide +kernel

end Adsb.C05b
