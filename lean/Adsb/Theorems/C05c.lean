import Adsb.Theorems.C05b
import Mathlib.Analysis.Real.Pi.Bounds
import Mathlib.Analysis.SpecialFunctions.Trigonometric.Bounds
/-! # C05 (part 3) — "within 3 NM" implies the longitude hypothesis of the decoding theorem (Mathlib, ℝ)

`cpr_global_decode` (part 2) is stated under `lonClose nl le lo`: the two longitudes differ by less than (almost) half a zone of
the *product* grid, `nl (nl−1) |Δlon| / 360 + (2 nl − 1)/2^18 < 1/2`. The property speaks of reports taken "within the 3 NM the standard
allows". This file closes that gap from the code's own NL table, without the closed form of NL: an east-west displacement of at most
3 NM at latitude φ is `|Δlon| · cos φ ≤ 0.05°` (1 NM = 1 minute of arc); if the code's `cpr_nl φ = nl ≥ 2` then `|φ|` lies below the
table's transition latitude `t(nl)`, hence `cos φ > cos t(nl)`, and for **each of the 58 table entries** a rational lower bound of
`cos t(nl)` (from `1 − x²/2 ≤ cos x`, `y − y³/6 < sin y` and `3.1415 < π < 3.1416`) is large enough. So the theorem is re-checked
against the regenerated table (through `cprNl_eq_table` / `nl_tree_is_table`). -/

namespace Adsb.C05c
open Adsb Adsb.C05 Adsb.CprDecode Real

/-- `7200·(1/2 − (2n−1)/2^18)`: what `cos φ` has to be multiplied with to dominate `n(n−1)` -/
noncomputable def K (n : ℕ) : ℝ := 7200 * (1 / 2 - (2 * (n : ℝ) - 1) / 262144)
/-- lower bound of `cos(T·10⁻⁸ degrees)` from `1 − x²/2 ≤ cos x` and `π < 3.1416` -/
noncomputable def LA (T : ℕ) : ℝ := 1 - ((T : ℝ) / 100000000 * (3.1416 / 180)) ^ 2 / 2
/-- lower bound of `cos(T·10⁻⁸ degrees) = sin(90° − …)` from `y − y³/6 < sin y` and `3.1415 < π` -/
noncomputable def LB (T : ℕ) : ℝ :=
  (90 - (T : ℝ) / 100000000) * (3.1415 / 180) - ((90 - (T : ℝ) / 100000000) * (3.1415 / 180)) ^ 3 / 6

/-- the numeric certificate of one table entry `(T, n)` -/
def Cert (T n : ℕ) : Prop :=
  (T : ℝ) / 100000000 < 90 ∧ 0 < K n ∧ ((n : ℝ) * ((n : ℝ) - 1) < LA T * K n ∨ (n : ℝ) * ((n : ℝ) - 1) < LB T * K n)

/-- **every entry of the NL table passes** (58 rational inequalities, `norm_num`) -/
theorem table_cert : ∀ e ∈ Spec.nlTable, Cert e.1 e.2 := by
  simp only [Spec.nlTable, List.forall_mem_cons, List.not_mem_nil, IsEmpty.forall_iff, implies_true, and_true]
  refine ⟨?_, ?_, ?_, ?_, ?_, ?_, ?_, ?_, ?_, ?_, ?_, ?_, ?_, ?_, ?_, ?_, ?_, ?_, ?_, ?_, ?_, ?_, ?_, ?_, ?_, ?_, ?_, ?_, ?_,
    ?_, ?_, ?_, ?_, ?_, ?_, ?_, ?_, ?_, ?_, ?_, ?_, ?_, ?_, ?_, ?_, ?_, ?_, ?_, ?_, ?_, ?_, ?_, ?_, ?_, ?_, ?_, ?_, ?_⟩ <;>
  (unfold Cert K LA LB; norm_num)

/-- the two lower bounds of the cosine, for every latitude inside the band below `T·10⁻⁸` degrees -/
theorem cos_lower (T : ℕ) (hT : (T : ℝ) / 100000000 < 90) (φ : ℝ) (hφ : |φ| < (T : ℝ) / 100000000) :
    LA T ≤ cos (φ * (π / 180)) ∧ LB T < cos (φ * (π / 180)) := by
  have hp := Real.pi_pos
  have hp1 := Real.pi_gt_d4
  have hp2 := Real.pi_lt_d4
  set τ : ℝ := (T : ℝ) / 100000000 with hτ
  have hτ0 : 0 ≤ τ := le_trans (abs_nonneg φ) hφ.le
  have hk : 0 < π / 180 := by positivity
  -- the cosine of φ is at least the cosine of the band's upper end
  have e1 : cos (φ * (π / 180)) = cos (|φ| * (π / 180)) := by
    rw [← Real.cos_abs (φ * (π / 180)), abs_mul, abs_of_pos hk]
  have hx0 : 0 ≤ |φ| * (π / 180) := mul_nonneg (abs_nonneg _) hk.le
  have hxt : |φ| * (π / 180) ≤ τ * (π / 180) := mul_le_mul_of_nonneg_right hφ.le hk.le
  have hxtpi : τ * (π / 180) ≤ π := by nlinarith
  have hmono : cos (τ * (π / 180)) ≤ cos (|φ| * (π / 180)) := Real.cos_le_cos_of_nonneg_of_le_pi hx0 hxtpi hxt
  constructor
  · -- A: 1 − x²/2 ≤ cos x with x ≤ τ·3.1416/180
    have hA : 1 - (τ * (π / 180)) ^ 2 / 2 ≤ cos (τ * (π / 180)) := Real.one_sub_sq_div_two_le_cos
    have hle : τ * (π / 180) ≤ τ * (3.1416 / 180) := by
      apply mul_le_mul_of_nonneg_left _ hτ0; linarith
    have hsq : (τ * (π / 180)) ^ 2 ≤ (τ * (3.1416 / 180)) ^ 2 :=
      pow_le_pow_left₀ (mul_nonneg hτ0 hk.le) hle 2
    rw [e1]; unfold LA; rw [← hτ]; linarith
  · -- B: cos x = sin(π/2 − x) ≥ sin y > y − y³/6 with y = (90 − τ)·3.1415/180 ≤ π/2 − x
    set y : ℝ := (90 - τ) * (3.1415 / 180) with hy
    have hy0 : 0 < y := by rw [hy]; apply mul_pos <;> linarith
    have hyle : y ≤ π / 2 - τ * (π / 180) := by
      have : π / 2 - τ * (π / 180) = (90 - τ) * (π / 180) := by ring
      rw [this, hy]; apply mul_le_mul_of_nonneg_left _ (by linarith); linarith
    have hB : y - y ^ 3 / 6 < sin y := Real.sin_gt_sub_cube hy0
    have hs : sin y ≤ sin (π / 2 - τ * (π / 180)) :=
      Real.sin_le_sin_of_le_of_le_pi_div_two (by linarith) (by nlinarith) hyle
    rw [Real.sin_pi_div_two_sub] at hs
    rw [e1]; unfold LB; rw [← hτ, ← hy]; linarith

/-- a value of the chain other than the default comes from an entry whose threshold lies above the argument -/
theorem chain_band (tbl : List (Nat × Nat)) (dflt : Nat) (a : ℚ) (n : Nat) (h : chainNl tbl dflt a = n) (hn : n ≠ dflt) :
    ∃ t, (t, n) ∈ tbl ∧ a < (t : ℚ) / 100000000 := by
  induction tbl with
  | nil => simp [chainNl] at h; exact absurd h.symm hn
  | cons e rest ih =>
    obtain ⟨t, m⟩ := e
    unfold chainNl at h
    split at h
    · next hlt => exact ⟨t, by rw [← h]; exact List.mem_cons_self, hlt⟩
    · obtain ⟨t', hm, hl⟩ := ih h
      exact ⟨t', List.mem_cons_of_mem _ hm, hl⟩

/-- **3 NM east-west at the decoded latitude implies the longitude hypothesis of `cpr_global_decode`.**
`φ` is the latitude whose zone count the decoder uses (`cpr_nl φ = nl`), `le`, `lo` the two longitudes in degrees, `k` the whole
turns between them; `|Δlon|·cos φ ≤ 1/20` degree is an east-west distance of at most 3 minutes of arc = 3 NM. -/
theorem lonClose_of_3NM (nl : ℕ) (φ le lo : ℚ) (k : ℤ) (hnl : cprNl φ = nl)
    (h3 : |((le - lo - 360 * k : ℚ) : ℝ)| * cos ((φ : ℝ) * (π / 180)) ≤ 1 / 20) : lonClose nl le lo := by
  by_cases h1 : nl ≤ 1
  · exact Or.inl h1
  · right
    refine ⟨k, ?_⟩
    have hnl2 : 2 ≤ nl := by omega
    rw [C05b.cprNl_eq_table] at hnl
    obtain ⟨T, hmem, hlt⟩ := chain_band Spec.nlTable 1 |φ| nl hnl (by omega)
    obtain ⟨hT, hK, hc⟩ := table_cert (T, nl) hmem
    simp only at hT hK hc
    have hφr : |(φ : ℝ)| < (T : ℝ) / 100000000 := by
      have : ((|φ| : ℚ) : ℝ) < (((T : ℚ) / 100000000 : ℚ) : ℝ) := by exact_mod_cast hlt
      simpa using this
    obtain ⟨hA, hB⟩ := cos_lower T hT (φ : ℝ) hφr
    set c : ℝ := cos ((φ : ℝ) * (π / 180)) with hcdef
    have hnn : (0 : ℝ) < (nl : ℝ) * ((nl : ℝ) - 1) := by
      have : (2 : ℝ) ≤ (nl : ℝ) := by exact_mod_cast hnl2
      nlinarith
    -- the cosine times K dominates nl(nl−1)
    have hck : (nl : ℝ) * ((nl : ℝ) - 1) < c * K nl := by
      rcases hc with h | h
      · calc (nl : ℝ) * ((nl : ℝ) - 1) < LA T * K nl := h
          _ ≤ c * K nl := mul_le_mul_of_nonneg_right hA hK.le
      · calc (nl : ℝ) * ((nl : ℝ) - 1) < LB T * K nl := h
          _ ≤ c * K nl := mul_le_mul_of_nonneg_right hB.le hK.le
    have hcpos : 0 < c := by
      by_contra hneg
      have : c * K nl ≤ 0 := mul_nonpos_of_nonpos_of_nonneg (not_lt.mp hneg) hK.le
      linarith
    set Δ : ℝ := |((le - lo - 360 * k : ℚ) : ℝ)| with hΔ
    have hΔ0 : 0 ≤ Δ := abs_nonneg _
    -- real-number form of the goal
    have hreal : |(nl : ℝ) * ((nl : ℝ) - 1) * ((le - lo - 360 * k : ℚ) : ℝ) / 360| + (2 * (nl : ℝ) - 1) / 262144 < 1 / 2 := by
      have e : |(nl : ℝ) * ((nl : ℝ) - 1) * ((le - lo - 360 * k : ℚ) : ℝ) / 360| = (nl : ℝ) * ((nl : ℝ) - 1) * Δ / 360 := by
        rw [abs_div, abs_mul, abs_of_pos hnn, abs_of_pos (by norm_num : (0 : ℝ) < 360)]
      rw [e]
      unfold K at hck
      -- Δ·c ≤ 1/20 and nl(nl−1) < c·7200·(1/2 − …)
      have h4 : (nl : ℝ) * ((nl : ℝ) - 1) * (Δ * c) ≤ (nl : ℝ) * ((nl : ℝ) - 1) * (1 / 20) :=
        mul_le_mul_of_nonneg_left h3 hnn.le
      have h5 : (nl : ℝ) * ((nl : ℝ) - 1) * Δ / 360 * c < (1 / 2 - (2 * (nl : ℝ) - 1) / 262144) * c := by nlinarith
      have h6 := lt_of_mul_lt_mul_right h5 hcpos.le
      linarith
    have : ((|(nl : ℚ) * ((nl : ℚ) - 1) * (le - lo - 360 * k) / 360| + (2 * (nl : ℚ) - 1) / 262144 : ℚ) : ℝ) < ((1 / 2 : ℚ) : ℝ) := by
      push_cast
      simpa using hreal
    exact_mod_cast this

/-- **C05 in the standard's own wording**: an even report of `(φe, le)` and an odd report of `(φo, lo)` of one aircraft, taken within
3 NM of each other — latitudes at most 0.05° apart, longitudes at most 3 NM apart east-west at the decoded latitude — and lying in one
NL band, decode in either order to the latest report's position within half a CPR bin (about 2.6 m in latitude), anywhere on Earth.
(`cpr_position_error` with its longitude hypothesis discharged by `lonClose_of_3NM`.) -/
theorem cpr_correct_within_3NM (φe le φo lo : ℚ) (he : -90 ≤ φe ∧ φe ≤ 90) (ho : -90 ≤ φo ∧ φo ≤ 90) (hd : |φe - φo| ≤ 1 / 20)
    (a0 b0 : Alt) (nl : ℕ) (hnle : cprNl (rlat 0 φe) = nl) (hnlo : cprNl (rlat 1 φo) = nl) (k : ℤ)
    (h3 : |((le - lo - 360 * k : ℚ) : ℝ)| * cos (((rlat 0 φe : ℚ) : ℝ) * (π / 180)) ≤ 1 / 20) :
    (∃ q, getPosition (α := ℚ) (encode 0 φe le a0) (encode 1 φo lo b0) = some q ∧ |q.lat - φo| ≤ 360 / 59 / 262144 ∧
        ∃ k : ℤ, |q.lon - 360 * k - lo| ≤ 360 / (nZones 1 nl : ℚ) / 262144) ∧
    (∃ q, getPosition (α := ℚ) (encode 1 φo lo b0) (encode 0 φe le a0) = some q ∧ |q.lat - φe| ≤ 6 / 262144 ∧
        ∃ k : ℤ, |q.lon - 360 * k - le| ≤ 360 / (nZones 0 nl : ℚ) / 262144) :=
  C05b.cpr_position_error φe le φo lo he ho hd a0 b0 nl hnle hnlo (lonClose_of_3NM nl (rlat 0 φe) le lo k hnle h3)

/-- non-vacuity: at 53.1°N (NL = 36) two longitudes 0.08° apart are 2.9 NM apart east-west and satisfy the hypothesis -/
example : lonClose 36 (391937 / 100000) (399937 / 100000) := by
  right; refine ⟨0, ?_⟩; norm_num [abs_of_neg]

end Adsb.C05c
