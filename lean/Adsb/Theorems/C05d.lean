import Adsb.Gen.CprFn
import Adsb.Theorems.C05b
import Adsb.Lemmas.Paths
/-! # C05 (part 4) — the theorems of C05 are about the function the source text contains today

`Gen/CprFn.lean` is written by `tools/rust2lean.py` from `cpr.rs` on every run: `positive_mod`, `get_lat_lon` and `get_position`
as terms over a structure of operations (`CprOps`), with every u64 subtraction written out as a check.  Here the translated terms are
instantiated with exact arithmetic — `%` as the remainder of the division truncated toward zero, which is what `fmod` computes (exactly)
on `f64` — and proved equal, for every pair of reports, to the hand-written `getPosition` that `cpr_global_decode`,
`cpr_position_error`, `cpr_correct_within_3NM` and the correspondence are about; no u64 check fires. -/

namespace Adsb.C05d
open Adsb Adsb.CprDecode Adsb.C05b

/-- `a % b` on exact numbers: `a - b * trunc(a / b)` -/
def ratRem (a b : ℚ) : ℚ := a - b * (if 0 ≤ a / b then ((⌊a / b⌋ : ℤ) : ℚ) else ((⌈a / b⌉ : ℤ) : ℚ))

/-- the exact instance of the operations of `cpr.rs` -/
def ratCpr : CprOps ℚ where
  lit n := (n : ℚ)
  half := 1 / 2
  add := (· + ·)
  sub := (· - ·)
  mul := (· * ·)
  div := (· / ·)
  rem := ratRem
  floor q := ((⌊q⌋ : ℤ) : ℚ)
  ltb a b := decide (a < b)
  leb a b := decide (a ≤ b)
  nl := cprNl

/-- `positive_mod` of the source is `a - b·⌊a / b⌋` for every positive `b` (the `if ret < 0 { ret += b }` repairs the truncation) -/
theorem src_positive_mod (a b : ℚ) (hb : 0 < b) : Gen.positiveModSrc ratCpr a b = a - b * ((⌊a / b⌋ : ℤ) : ℚ) := by
  unfold Gen.positiveModSrc
  show (if decide (ratRem a b < ((0 : ℕ) : ℚ)) = true then ratRem a b + b else ratRem a b) = _
  unfold ratRem
  have ha : a = b * (a / b) := by field_simp
  generalize a / b = q at ha ⊢
  subst ha
  have hfl : ((⌊q⌋ : ℤ) : ℚ) ≤ q := Int.floor_le q
  have hce : q ≤ ((⌈q⌉ : ℤ) : ℚ) := Int.le_ceil q
  by_cases hq : 0 ≤ q
  · have : ¬ (b * q - b * ((⌊q⌋ : ℤ) : ℚ) < 0) := by
      have : 0 ≤ b * (q - ((⌊q⌋ : ℤ) : ℚ)) := mul_nonneg hb.le (by linarith)
      nlinarith
    simp [hq, this]
  · by_cases hlt : q < ((⌈q⌉ : ℤ) : ℚ)
    · have h1 : ⌈q⌉ = ⌊q⌋ + 1 := by
        have h2 : ⌈q⌉ ≤ ⌊q⌋ + 1 := Int.ceil_le_floor_add_one q
        have h3 : ⌊q⌋ < ⌈q⌉ := by
          have : ((⌊q⌋ : ℤ) : ℚ) < ((⌈q⌉ : ℤ) : ℚ) := lt_of_le_of_lt hfl hlt
          exact_mod_cast this
        omega
      have : b * q - b * ((⌈q⌉ : ℤ) : ℚ) < 0 := by
        have : b * (q - ((⌈q⌉ : ℤ) : ℚ)) < 0 := mul_neg_of_pos_of_neg hb (by linarith)
        nlinarith
      simp only [hq, if_false, Nat.cast_zero, this, decide_true, if_true]
      rw [h1]; push_cast; ring
    · have heq : q = ((⌈q⌉ : ℤ) : ℚ) := le_antisymm hce (not_lt.mp hlt)
      have h1 : ⌊q⌋ = ⌈q⌉ := by rw [heq]; simp
      have : ¬ (b * q - b * ((⌈q⌉ : ℤ) : ℚ) < 0) := by rw [← heq]; simp
      simp only [hq, if_false, Nat.cast_zero, this, decide_false, Bool.false_eq_true]
      rw [h1]

/-- `positive_mod` of the source is the model's `pmod` -/
theorem src_positive_mod_pmod (a b : ℚ) (hb : 0 < b) : Gen.positiveModSrc ratCpr a b = pmod a b := by
  rw [src_positive_mod a b hb]; unfold pmod; rw [sub_rat, mul_rat, div_rat, floor_rat]

section proj
@[simp] theorem r_lit (n : ℕ) : ratCpr.lit n = (n : ℚ) := rfl
@[simp] theorem r_half : ratCpr.half = 1 / 2 := rfl
@[simp] theorem r_add (a b : ℚ) : ratCpr.add a b = a + b := rfl
@[simp] theorem r_sub (a b : ℚ) : ratCpr.sub a b = a - b := rfl
@[simp] theorem r_mul (a b : ℚ) : ratCpr.mul a b = a * b := rfl
@[simp] theorem r_div (a b : ℚ) : ratCpr.div a b = a / b := rfl
@[simp] theorem r_floor (q : ℚ) : ratCpr.floor q = ((⌊q⌋ : ℤ) : ℚ) := rfl
@[simp] theorem r_ltb (a b : ℚ) : ratCpr.ltb a b = decide (a < b) := rfl
@[simp] theorem r_leb (a b : ℚ) : ratCpr.leb a b = decide (a ≤ b) := rfl
theorem r_nl (a : ℚ) : ratCpr.nl a = cprNl a := by simp only [ratCpr]
end proj

/-- **`get_lat_lon` of the source**: no u64 check fires (the zone count is at least 1) and the result is the model's -/
theorem src_get_lat_lon (lat le lo : ℚ) (fmtEven : Bool) :
    Gen.getLatLonSrc ratCpr lat le lo fmtEven = (false, getLatLon lat le lo (!fmtEven)) := by
  have hnl := (cprNl_range lat).1
  unfold Gen.getLatLonSrc getLatLon
  have hni : ∀ k : ℕ, (0 : ℚ) < ((max (cprNl lat - k) 1 : ℕ) : ℚ) := by intro k; exact_mod_cast (lt_of_lt_of_le Nat.one_pos (le_max_right _ _))
  cases fmtEven
  · simp only [r_lit, r_half, r_add, r_sub, r_mul, r_div, r_floor, r_leb, r_nl, Bool.false_eq_true, if_false, Bool.not_false, if_true,
      src_positive_mod_pmod _ _ (hni 1), add_rat, sub_rat, mul_rat, div_rat, nOf_rat, floor_rat, leb_rat, half_rat]
    have h1 : ¬ cprNl lat < 1 := by omega
    simp [h1]
  · simp only [r_lit, r_half, r_add, r_sub, r_mul, r_div, r_floor, r_leb, r_nl, Bool.false_eq_true, if_false, Bool.not_true, if_true,
      src_positive_mod_pmod _ _ (hni 0), add_rat, sub_rat, mul_rat, div_rat, nOf_rat, floor_rat, leb_rat, half_rat]
    have h1 : ¬ cprNl lat < 1 := by omega
    simp [h1]

/-- **`get_position` of the source is the model the theorems are about**: for every pair of reports whose format bits are bits (`f ≤ 1`; the
field is one bit wide in the frame), the translated function, in exact arithmetic, fires no u64 check and returns what `getPosition` returns.
(Without the hypothesis the two differ, and rightly: the model tells the formats apart by `f ≠ 0`, the source by the two-variant enum.) -/
theorem src_get_position (a b : Alt) (ha : a.f ≤ 1) (hb1 : b.f ≤ 1) : Gen.getPositionSrc ratCpr a b = (false, getPosition (α := ℚ) a b) := by
  unfold Gen.getPositionSrc getPosition latPair inRange
  by_cases hf : a.f = b.f
  · simp [hf]
  · simp only [hf, if_false]
    have h60 : (0 : ℚ) < ((60 : ℕ) : ℚ) := by norm_num
    have h59 : (0 : ℚ) < ((59 : ℕ) : ℚ) := by norm_num
    by_cases h0 : a.f = 0
    · simp only [h0, if_true]
      simp only [r_lit, r_half, r_add, r_sub, r_mul, r_div, r_floor, r_leb, r_nl, src_positive_mod_pmod _ _ h60, src_positive_mod_pmod _ _ h59, src_get_lat_lon,
       add_rat, sub_rat, mul_rat, div_rat, nOf_rat, floor_rat, leb_rat, half_rat, negOf_rat, Gen.cprMax, Gen.nz]
      have hb : b.f ≠ 0 := fun h => hf (h0.trans h.symm)
      have hba : b ≠ a := fun h => hf (by rw [h])
      simp only [hba, decide_false]
      norm_num
      have e : (!(b.f == 0)) = (b.f != 0) := rfl
      simp only [hb, if_false, e]
      split_ifs <;> first | rfl 
    · simp only [h0, if_false]
      simp only [r_lit, r_half, r_add, r_sub, r_mul, r_div, r_floor, r_leb, r_nl, src_positive_mod_pmod _ _ h60, src_positive_mod_pmod _ _ h59, src_get_lat_lon,
       add_rat, sub_rat, mul_rat, div_rat, nOf_rat, floor_rat, leb_rat, half_rat, negOf_rat, Gen.cprMax, Gen.nz]
      simp only [decide_true]
      norm_num
      by_cases hb : b.f = 0
      · have e : (!(b.f == 0)) = (b.f != 0) := rfl
        simp only [hb, if_true, e]
        split_ifs <;> first | rfl
      · omega

/-- **the property, for the function as written today**: under the hypotheses of `cpr_position_error` (two reports within 3 NM in latitude, same
zone count, longitudes close), `get_position` *of the source text* — in exact arithmetic — panics on no u64 check and returns, in either order,
the latest report's position within half a CPR bin. -/
theorem src_cpr_position_error (φe le φo lo : ℚ) (he : -90 ≤ φe ∧ φe ≤ 90) (ho : -90 ≤ φo ∧ φo ≤ 90) (hd : |φe - φo| ≤ 1 / 20)
    (a0 b0 : Alt) (nl : ℕ) (hnle : cprNl (rlat 0 φe) = nl) (hnlo : cprNl (rlat 1 φo) = nl) (hlon : lonClose nl le lo) :
    (∃ q, Gen.getPositionSrc ratCpr (encode 0 φe le a0) (encode 1 φo lo b0) = (false, some q) ∧ |q.lat - φo| ≤ 360 / 59 / 262144 ∧
        ∃ k : ℤ, |q.lon - 360 * k - lo| ≤ 360 / (nZones 1 nl : ℚ) / 262144) ∧
    (∃ q, Gen.getPositionSrc ratCpr (encode 1 φo lo b0) (encode 0 φe le a0) = (false, some q) ∧ |q.lat - φe| ≤ 6 / 262144 ∧
        ∃ k : ℤ, |q.lon - 360 * k - le| ≤ 360 / (nZones 0 nl : ℚ) / 262144) := by
  obtain ⟨⟨q1, h1, r1⟩, ⟨q0, h0, r0⟩⟩ := cpr_position_error φe le φo lo he ho hd a0 b0 nl hnle hnlo hlon
  refine ⟨⟨q1, ?_, r1⟩, ⟨q0, ?_, r0⟩⟩
  · rw [src_get_position _ _ (by simp [encode]) (by simp [encode]), h1]
  · rw [src_get_position _ _ (by simp [encode]) (by simp [encode]), h0]

/-- **… for every pair of decoded frames**: the airborne-position payload of any two buffers (`altAt`, what `Frame.decode` returns for type
codes 9–18 and 20–22, `Lemmas/Paths`) has one-bit format fields, so the hypothesis of `src_get_position` is met by everything the decoder
can hand to `get_position` -/
theorem src_get_position_decoded (B1 B2 : Buf) :
    Gen.getPositionSrc ratCpr (altAt B1) (altAt B2) = (false, getPosition (α := ℚ) (altAt B1) (altAt B2)) := by
  apply src_get_position
  · have := bitsAt_lt B1 53 1; simp only [altAt]; omega
  · have := bitsAt_lt B2 53 1; simp only [altAt]; omega

/-- two reports of one format never pair, in the source as in the model -/
theorem src_same_parity_none (a b : Alt) (h : a.f = b.f) : Gen.getPositionSrc ratCpr a b = (false, none) := by
  unfold Gen.getPositionSrc; simp [h]

/-- the translated function, evaluated exactly in the kernel on the textbook pair (even 93000 / 51372, odd 74158 / 50194, even latest):
no check fires and the result is 52.2572…°N 3.9193…°E; with the order swapped the odd report's position -/
def near (r : Bool × Option (Position ℚ)) (lat lon : ℚ) : Bool :=
  match r with
  | (false, some q) => decide (lat - 1 / 1000 < q.lat) && decide (q.lat < lat + 1 / 1000) && decide (lon - 1 / 1000 < q.lon) && decide (q.lon < lon + 1 / 1000)
  | _ => false
example : near (Gen.getPositionSrc ratCpr ⟨11, 0, 0, none, 0, 1, 74158, 50194⟩ ⟨11, 0, 0, none, 0, 0, 93000, 51372⟩) (522572 / 10000) (39193 / 10000) = true := by
  decide +kernel
example : near (Gen.getPositionSrc ratCpr ⟨11, 0, 0, none, 0, 0, 93000, 51372⟩ ⟨11, 0, 0, none, 0, 1, 74158, 50194⟩) (522658 / 10000) (39381 / 10000) = true := by
  decide +kernel

end Adsb.C05d
