import Adsb.Lemmas.Reject
import Adsb.Lemmas.Range
import Adsb.Spec.Codes
/-! # C06 — every 13-bit and 12-bit altitude code decodes to its Annex 10 altitude -/

namespace Adsb.C06
open Adsb

/-- the library's "no altitude" conventions: 0 for the 13-bit reader, `None` for the 12-bit one -/
def noAlt13 : Option Nat → Nat | some v => v | none => 0

/-- all 8192 13-bit codes: the decoder's function equals the specification (kernel computation) -/
theorem ac13_spec_all : allRange (fun c => ac13 c == noAlt13 (Spec.ac13 c)) 0 8192 14 = true := by decide +kernel

theorem ac13_spec (c : Nat) (h : c < 8192) : ac13 c = noAlt13 (Spec.ac13 c) := by
  have := allBelow_sound _ 8192 14 ac13_spec_all c h
  exact eq_of_beq this

/-- all 4096 12-bit codes; a `Some(0)` never occurs -/
theorem ac12_spec_all : allRange (fun c => ac12 c == Spec.ac12 c) 0 4096 13 = true := by decide +kernel

theorem ac12_spec (c : Nat) (h : c < 4096) : ac12 c = Spec.ac12 c := by
  have := allBelow_sound _ 4096 13 ac12_spec_all c h
  exact eq_of_beq this

/-- the altitude reported is never a value other than the specified one, and lies in the result type -/
theorem ac13_range (c : Nat) (h : c < 8192) : ac13 c < 65536 := by
  rw [ac13_spec c h]
  unfold noAlt13 Spec.ac13
  simp only []
  split
  · next v hv =>
    split at hv
    · cases hv
    · split at hv
      · cases hv
      · split at hv <;> (unfold Spec.representable at hv; split at hv <;> (try cases hv) ; split at hv <;> (try cases hv); omega)
  · decide

/-! ## carriers: the code is read from the bits Annex 10 assigns, whatever surrounds them -/

/-- DF0, DF4, DF16, DF20: the altitude is `ac13` of frame bits 20–32 -/
theorem ac13_carried (B : Buf) (f : Frame) (h : decode B = .ok f) :
    (bitsAt B 0 5 = 0 → ∃ vs cc u0 sl u1 ri u2 p, f.df = .shortAirAir vs cc u0 sl u1 ri u2 (ac13 (bitsAt B 19 13)) p) ∧
    (bitsAt B 0 5 = 4 → ∃ fs dr um p, f.df = .survAlt fs dr um (ac13 (bitsAt B 19 13)) p) ∧
    (bitsAt B 0 5 = 16 → ∃ vs s1 sl s2 ri s3 mv p, f.df = .longAirAir vs s1 sl s2 ri s3 (ac13 (bitsAt B 19 13)) mv p) ∧
    (bitsAt B 0 5 = 20 → ∃ fs dr um bds, f.df = .commBAlt fs dr um (ac13 (bitsAt B 19 13)) bds) := by
  have hacc := decode_ok_accept B f h
  obtain ⟨L, _, _, hd⟩ := decode_accept B hacc
  rw [hd] at h
  cases h
  refine ⟨?_, ?_, ?_, ?_⟩ <;> intro c <;> simp [dfAt, c]

/-- airborne position (type 9–18, 20–22) under DF17 and DF18: the altitude is `ac12` of ME bits 9–20 -/
theorem ac12_carried (B : Buf) (f : Frame) (h : decode B = .ok f)
    (hdf : bitsAt B 0 5 = 17 ∨ bitsAt B 0 5 = 18)
    (htc : (9 ≤ bitsAt B 32 5 ∧ bitsAt B 32 5 ≤ 18) ∨ (20 ≤ bitsAt B 32 5 ∧ bitsAt B 32 5 ≤ 22)) :
    ∃ a : Alt, a.alt = ac12 (bitsAt B 40 12) ∧ a.alt = Spec.ac12 (bitsAt B 40 12) ∧
      ((∃ ca icao pi, f.df = .adsb ca icao (.airPosBaro a) pi) ∨ (∃ ca icao pi, f.df = .adsb ca icao (.airPosGnss a) pi) ∨
       (∃ cf aa pi, f.df = .tisb cf aa (.airPosBaro a) pi) ∨ (∃ cf aa pi, f.df = .tisb cf aa (.airPosGnss a) pi)) := by
  have hacc := decode_ok_accept B f h
  obtain ⟨L, _, _, hd⟩ := decode_accept B hacc
  rw [hd] at h
  cases h
  refine ⟨altAt B, rfl, ?_, ?_⟩
  · show ac12 (bitsAt B 40 12) = _
    exact ac12_spec _ (bitsAt_lt B 40 12)
  · rcases hdf with c | c <;> rcases htc with t | t
    · left; simp [dfAt, c, meAt, t]
    · right; left
      have n1 : ¬ (9 ≤ bitsAt B 32 5 ∧ bitsAt B 32 5 ≤ 18) := by omega
      have n2 : ¬ bitsAt B 32 5 = 19 := by omega
      have n3 : ¬ bitsAt B 32 5 = 0 := by omega
      have n4 : ¬ bitsAt B 32 5 ≤ 4 := by omega
      have n5 : ¬ bitsAt B 32 5 ≤ 8 := by omega
      simp [dfAt, c, meAt, t, n1, n2, n3, n4, n5]
    · right; right; left; simp [dfAt, c, meAt, t]
    · right; right; right
      have n1 : ¬ (9 ≤ bitsAt B 32 5 ∧ bitsAt B 32 5 ≤ 18) := by omega
      have n2 : ¬ bitsAt B 32 5 = 19 := by omega
      have n3 : ¬ bitsAt B 32 5 = 0 := by omega
      have n4 : ¬ bitsAt B 32 5 ≤ 4 := by omega
      have n5 : ¬ bitsAt B 32 5 ≤ 8 := by omega
      simp [dfAt, c, meAt, t, n1, n2, n3, n4, n5]

/-! ## non-vacuity and examples (tests, labelled as such) -/

-- README frame: DF17 type 11, altitude 23650 ft
example : (decode ⟨[0x8d, 0xa2, 0xc1, 0xbd, 0x58, 0x7b, 0xa2, 0xad, 0xb3, 0x17, 0x99, 0xcb, 0x80, 0x2b]⟩).isOk = true := by decide +kernel
example : ac12 (bitsAt ⟨[0x8d, 0xa2, 0xc1, 0xbd, 0x58, 0x7b, 0xa2, 0xad, 0xb3, 0x17, 0x99, 0xcb, 0x80, 0x2b]⟩ 40 12) = some 23650 := by decide +kernel
-- a Gillham code above 65535 ft is "no altitude", not a wrapped value
example : ac13 0x1eaf = 0 := by decide +kernel
example : Spec.gillhamFeet 0x1eaf = some 84100 := by decide +kernel

end Adsb.C06
