import Adsb.Gen.Fns
import Adsb.Theorems.C06
import Adsb.Theorems.C09
/-! # C06 / C09 / C07 / C10 (part 2) — the altitude, identity and `map`-closure functions *as translated from the source on this run*

`Gen.decodeId13Src`, `Gen.modeAToCSrc`, `Gen.ac13Src`, `Gen.ac12Src`, `Gen.identitySrc` are produced by `tools/rust2lean.py` from the
text of `mode_ac.rs` and of the three custom readers in `lib.rs` every time a check runs. The theorems below evaluate those
definitions (Rust's overflow checks written out by the translator) on **every** code of their domain, inside the kernel, and state that
they (a) never panic and (b) return the altitude / squawk Annex 10 assigns — so for these functions the property theorems are
re-checked against what the code says now, not against a hand-written copy of it. The hand-written model functions
(`decodeId13`, `modeAToC`, `ac13`, `ac12`, `identityCode`), which the decoder model and all other theorems use, are shown equal to
the translated ones on the same domains. -/

namespace Adsb.C06b
open Adsb Adsb.MiniRust

def isNum (r : Res Val) (v : Nat) : Bool := match r with | .ok (.num n) => n == v | _ => false
def isOpt (r : Res Val) (v : Option Nat) : Bool :=
  match r, v with
  | .ok (.num n), some w => n == w
  | .ok .none, none => true
  | _, _ => false
def isRes (r : Res Val) (v : Option Nat) : Bool :=
  match r, v with
  | .ok (.num n), some w => n == w
  | .ok .err, none => true
  | _, _ => false

theorem isNum_eq {r : Res Val} {v : Nat} (h : isNum r v = true) : r = .ok (.num v) := by
  unfold isNum at h; split at h
  · rw [eq_of_beq h]
  · cases h

def optVal : Option Nat → Val | some w => .num w | none => .none

theorem isOpt_eq {r : Res Val} {v : Option Nat} (h : isOpt r v = true) : r = .ok (optVal v) := by
  unfold isOpt at h; split at h
  · rw [eq_of_beq h]; rfl
  · rfl
  · cases h

/-! ## the fields have the widths the standard gives them -/

theorem reader_widths : Gen.ac13SrcBits = 13 ∧ Gen.ac12SrcBits = 12 ∧ Gen.identitySrcBits = 13 := by decide

/-! ## the translated functions against the hand-written model (all codes, kernel computation) -/

theorem src_decodeId13_all : allRange (fun c => isNum (Gen.decodeId13Src c) (decodeId13 c)) 0 8192 14 = true := by
  decide +kernel

/-- `decode_id13_field` as written in `mode_ac.rs` today = the model's `decodeId13`, no panic, for every 13-bit field -/
theorem src_decodeId13 (c : Nat) (h : c < 8192) : Gen.decodeId13Src c = .ok (.num (decodeId13 c)) :=
  isNum_eq (allBelow_sound _ 8192 14 src_decodeId13_all c h)

theorem src_modeAToC_all :
    allRange (fun c => isRes (Gen.modeAToCSrc (decodeId13 c)) (modeAToC (decodeId13 c))) 0 8192 14 = true := by
  decide +kernel

theorem src_ac13_all : allRange (fun c => isNum (Gen.ac13Src c) (ac13 c)) 0 8192 14 = true := by decide +kernel
theorem src_ac12_all : allRange (fun c => isOpt (Gen.ac12Src c) (ac12 c)) 0 4096 13 = true := by decide +kernel
theorem src_identity_all : allRange (fun c => isNum (Gen.identitySrc c) (identityCode c)) 0 8192 14 = true := by
  decide +kernel

/-- `AC13Field::read` (after its 13-bit read) as written today = the model's `ac13`, no panic, for every code -/
theorem src_ac13 (c : Nat) (h : c < 8192) : Gen.ac13Src c = .ok (.num (ac13 c)) :=
  isNum_eq (allBelow_sound _ 8192 14 src_ac13_all c h)

/-- `Altitude::read` (after its 12-bit read) as written today = the model's `ac12`, no panic, for every code -/
theorem src_ac12 (c : Nat) (h : c < 4096) :
    Gen.ac12Src c = .ok (optVal (ac12 c)) :=
  isOpt_eq (allBelow_sound _ 4096 13 src_ac12_all c h)

/-- `IdentityCode::read` (after its 13-bit read) as written today = the model's `identityCode`, no panic -/
theorem src_identity (c : Nat) (h : c < 8192) : Gen.identitySrc c = .ok (.num (identityCode c)) :=
  isNum_eq (allBelow_sound _ 8192 14 src_identity_all c h)

/-! ## the property, stated on the source as translated -/

/-- **C06 on the source text**: every 13-bit altitude code is decoded, by the function as it is written in the repository on this
run, to its Annex 10 altitude (0 = no altitude), without panicking -/
theorem src_ac13_is_annex10 (c : Nat) (h : c < 8192) : Gen.ac13Src c = .ok (.num (C06.noAlt13 (Spec.ac13 c))) := by
  rw [src_ac13 c h, C06.ac13_spec c h]

/-- **C06 on the source text**, 12-bit codes (`none` = no altitude) -/
theorem src_ac12_is_annex10 (c : Nat) (h : c < 4096) :
    Gen.ac12Src c = .ok (optVal (Spec.ac12 c)) := by
  rw [src_ac12 c h, C06.ac12_spec c h]

/-- **C09 on the source text**: the DF5 identity reader as written today yields the four octal digits of the standard -/
theorem src_identity_is_squawk (c : Nat) (h : c < 8192) : Gen.identitySrc c = .ok (.num (Spec.squawk c)) := by
  rw [src_identity c h, C09.identityCode_spec c h]

/-- **C09 on the source text**: the shared de-interleaver (DF21, type 28) agrees with the DF5 reader on every code -/
theorem src_carriers_agree (c : Nat) (h : c < 8192) :
    Gen.decodeId13Src c = Gen.identitySrc c := by
  rw [src_decodeId13 c h, src_identity c h, C09.decodeId13_spec c h, C09.identityCode_spec c h]

/-! ## the integer `map` closures of the deku attributes, as translated (C07, C09, C10) -/

theorem src_maps_all :
    allRange (fun r => isNum (Gen.airspeedMapSrc r) (if r = 0 then 0 else r - 1)) 0 1024 11 = true
    ∧ allRange (fun n => isNum (Gen.selAltMapSrc n) (if n = 0 then 0 else (n - 1) * 32)) 0 2048 12 = true
    ∧ allRange (fun r => isNum (Gen.gnssDiffMapSrc r) (if r = 0 then 0 else (r - 1) * 25)) 0 128 8 = true
    ∧ allRange (fun c => isNum (Gen.statusSquawkMapSrc c) (Spec.squawk c)) 0 8192 14 = true
    ∧ allRange (fun c => isNum (Gen.df21IdMapSrc c) (Spec.squawk c)) 0 8192 14 = true := by
  refine ⟨?_, ?_, ?_, ?_, ?_⟩ <;> decide +kernel

/-- **C07 on the source text**: airspeed = raw − 1 kt (0 = no information) for every 10-bit value, no panic -/
theorem src_airspeed (r : Nat) (h : r < 1024) : Gen.airspeedMapSrc r = .ok (.num (if r = 0 then 0 else r - 1)) :=
  isNum_eq (allBelow_sound _ 1024 11 src_maps_all.1 r h)

/-- **C10 on the source text**: selected altitude = (N − 1)·32 ft (0 = no information) for every 11-bit value, no panic -/
theorem src_selected_altitude (n : Nat) (h : n < 2048) : Gen.selAltMapSrc n = .ok (.num (if n = 0 then 0 else (n - 1) * 32)) :=
  isNum_eq (allBelow_sound _ 2048 12 src_maps_all.2.1 n h)

/-- **C07 on the source text**: GNSS-baro difference = (raw − 1)·25 ft (0 = no information) for every 7-bit value, no panic -/
theorem src_gnss_difference (r : Nat) (h : r < 128) : Gen.gnssDiffMapSrc r = .ok (.num (if r = 0 then 0 else (r - 1) * 25)) :=
  isNum_eq (allBelow_sound _ 128 8 src_maps_all.2.2.1 r h)

/-- **C09 on the source text**: the type-28 and DF21 squawk closures yield the standard's four octal digits for every 13-bit field -/
theorem src_squawk_maps (c : Nat) (h : c < 8192) :
    Gen.statusSquawkMapSrc c = .ok (.num (Spec.squawk c)) ∧ Gen.df21IdMapSrc c = .ok (.num (Spec.squawk c)) :=
  ⟨isNum_eq (allBelow_sound _ 8192 14 src_maps_all.2.2.2.1 c h), isNum_eq (allBelow_sound _ 8192 14 src_maps_all.2.2.2.2 c h)⟩

/-- a concrete instance: code 0x0c38 is 18 800 ft through the source's own statements (Q = 1 branch) -/
example : Gen.ac13Src 0x0c38 = .ok (.num 18800) := by rfl

end Adsb.C06b
