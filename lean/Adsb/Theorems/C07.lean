import Adsb.Lemmas.Reject
import Adsb.Velocity
import Adsb.Spec.Fields
/-! # C07 — airborne velocity: fields and derived components, vertical rate, difference -/

namespace Adsb.C07
open Adsb Adsb.Spec

/-- the decoded type-19 payload consists of the standard's bit fields -/
theorem velocity_fields (B : Buf) :
    velAt B = { st := ST.ofME B, nacv := ICIFRNAC.ofME B, sub := velSubAt B (ST.ofME B) 45,
                vrateSrc := VRSRC.ofME B, vrateSign := VRSIGN.ofME B, vrate := VR.ofME B, reserved := bitsAt B 78 2,
                gnssSign := DIFSIGN.ofME B, gnssDiff := if DIF.ofME B > 1 then (DIF.ofME B - 1) * 25 else 0 } := rfl

/-- the standard's 3-bit NACv is the low three bits of the repo's 5-bit group (IC, IFR, NACv) -/
theorem nacv_low3 (B : Buf) : NACV.ofME B = ICIFRNAC.ofME B % 8 := by
  show bitsAt B 42 3 = bitsAt B 40 5 % 8
  simp only [bitsAt, Nat.reduceAdd, Nat.add_zero, Nat.mul_zero, Nat.zero_add]
  have h42 := Bool.toNat_le (B.bit 42)
  have h43 := Bool.toNat_le (B.bit 43)
  have h44 := Bool.toNat_le (B.bit 44)
  omega

/-- ground-speed subtypes (1, 2): direction bits and 10-bit components; airspeed subtypes (3, 4): heading status,
heading, airspeed type and airspeed raw−1 (0 for "no information") -/
theorem subtype_fields (B : Buf) :
    ((ST.ofME B = 1 ∨ ST.ofME B = 2) → velSubAt B (ST.ofME B) 45 = .ground (DEW.ofME B) (VEW.ofME B) (DNS.ofME B) (VNS.ofME B)) ∧
    ((ST.ofME B = 3 ∨ ST.ofME B = 4) → velSubAt B (ST.ofME B) 45 =
        .airspeed (HDGST.ofME B) (HDG.ofME B) (ASTYPE.ofME B) (if AS.ofME B > 0 then AS.ofME B - 1 else 0)) := by
  constructor
  · intro h
    have h' : bitsAt B 37 3 = 1 ∨ bitsAt B 37 3 = 2 := h
    show velSubAt B (bitsAt B 37 3) 45 = _
    rcases h' with c | c <;> (rw [c]; rfl)
  · intro h
    have h' : bitsAt B 37 3 = 3 ∨ bitsAt B 37 3 = 4 := h
    show velSubAt B (bitsAt B 37 3) 45 = _
    rcases h' with c | c <;> (rw [c]; rfl)

/-- **components**: (raw−1) kt, ×4 for the supersonic subtype, signed by the direction bits;
**vertical rate**: (raw−1)·64 ft/min signed; all three exact -/
theorem components (v : Vel) (ews ewv nss nsv : Nat) (hs : v.sub = .ground ews ewv nss nsv)
    (h1 : ewv ≠ 0) (h2 : nsv ≠ 0) (h3 : v.vrate ≠ 0) :
    v.calc = some { vEw := ((ewv : Int) - 1) * (if v.st = 2 then 4 else 1) * (if ews = 0 then 1 else -1),
                    vNs := ((nsv : Int) - 1) * (if v.st = 2 then 4 else 1) * (if nss = 0 then 1 else -1),
                    vrate := ((v.vrate : Int) - 1) * 64 * (if v.vrateSign = 0 then 1 else -1) } := by
  unfold Vel.calc
  rw [hs]
  simp [h1, h2, h3, signOf]

/-- **no derived velocity** exactly when the report is not a ground-speed subtype or a velocity / rate field is 0 -/
theorem none_iff (v : Vel) :
    v.calc = none ↔ ((∀ a b c d, v.sub ≠ .ground a b c d) ∨ (∃ a b c d, v.sub = .ground a b c d ∧ (b = 0 ∨ d = 0 ∨ v.vrate = 0))) := by
  unfold Vel.calc
  cases hs : v.sub with
  | ground a b c d =>
    simp only []
    constructor
    · intro h
      right
      refine ⟨a, b, c, d, rfl, ?_⟩
      by_cases hb : b = 0 ∨ d = 0
      · rcases hb with hb | hb
        · left; exact hb
        · right; left; exact hb
      · rw [if_neg hb] at h
        by_cases hv : v.vrate = 0
        · right; right; exact hv
        · rw [if_neg hv] at h; cases h
    · rintro (h | ⟨a', b', c', d', he, hz⟩)
      · exact absurd rfl (h a b c d)
      · cases he
        rcases hz with hz | hz | hz
        · simp [hz]
        · simp [hz]
        · by_cases hb : b = 0 ∨ d = 0
          · simp [hb]
          · simp [hb, hz]
  | reserved0 r => simp
  | airspeed a b c d => simp
  | reserved1 r => simp

/-- the vertical rate fits the `i16` result and the code's arithmetic never overflows, for every decoded report -/
theorem calc_no_overflow (v : Vel) (h1 : v.vrate < 512) (hs : ∀ a b c d, v.sub = .ground a b c d → b < 1024 ∧ d < 1024) :
    v.calcR = .ok v.calc := by
  unfold Vel.calcR Vel.calc
  cases hsub : v.sub with
  | ground a b c d =>
    obtain ⟨hb, hd⟩ := hs a b c d hsub
    simp only []
    by_cases hz : b = 0 ∨ d = 0
    · simp [hz]
    · rw [if_neg hz, if_neg hz]
      have hb0 : b ≠ 0 := fun h => hz (Or.inl h)
      have hd0 : d ≠ 0 := fun h => hz (Or.inr h)
      have hsc : (if v.st = 2 then (4 : Int) else 1) = 4 ∨ (if v.st = 2 then (4 : Int) else 1) = 1 := by
        split <;> simp
      have hsa : signOf a = 1 ∨ signOf a = -1 := by unfold signOf; split <;> simp
      have hsc' : signOf c = 1 ∨ signOf c = -1 := by unfold signOf; split <;> simp
      have hsv : signOf v.vrateSign = 1 ∨ signOf v.vrateSign = -1 := by unfold signOf; split <;> simp
      have r1 : (-32768 : Int) ≤ (b : Int) - 1 ∧ (b : Int) - 1 ≤ 32767 := by omega
      have r4 : (-32768 : Int) ≤ (d : Int) - 1 ∧ (d : Int) - 1 ≤ 32767 := by omega
      have r2 : (-32768 : Int) ≤ ((b : Int) - 1) * (if v.st = 2 then 4 else 1) ∧ ((b : Int) - 1) * (if v.st = 2 then 4 else 1) ≤ 32767 := by
        rcases hsc with e | e <;> rw [e] <;> omega
      have r5 : (-32768 : Int) ≤ ((d : Int) - 1) * (if v.st = 2 then 4 else 1) ∧ ((d : Int) - 1) * (if v.st = 2 then 4 else 1) ≤ 32767 := by
        rcases hsc with e | e <;> rw [e] <;> omega
      have r3 : (-32768 : Int) ≤ ((b : Int) - 1) * (if v.st = 2 then 4 else 1) * signOf a ∧ ((b : Int) - 1) * (if v.st = 2 then 4 else 1) * signOf a ≤ 32767 := by
        rcases hsc with e | e <;> rcases hsa with f | f <;> rw [e, f] <;> omega
      have r6 : (-32768 : Int) ≤ ((d : Int) - 1) * (if v.st = 2 then 4 else 1) * signOf c ∧ ((d : Int) - 1) * (if v.st = 2 then 4 else 1) * signOf c ≤ 32767 := by
        rcases hsc with e | e <;> rcases hsc' with f | f <;> rw [e, f] <;> omega
      simp only [r1, r2, r3, r4, r5, r6, and_self, if_true, Res.ok_bind]
      by_cases hv : v.vrate = 0
      · simp [hv]
      · have hm : ¬ ((v.vrate - 1) * 64 ≥ 65536) := by omega
        have r7 : (-32768 : Int) ≤ ((v.vrate : Int) - 1) * 64 ∧ ((v.vrate : Int) - 1) * 64 ≤ 32767 := by omega
        have r8 : (-32768 : Int) ≤ ((v.vrate : Int) - 1) * 64 * signOf v.vrateSign ∧ ((v.vrate : Int) - 1) * 64 * signOf v.vrateSign ≤ 32767 := by
          rcases hsv with f | f <;> rw [f] <;> omega
        simp only [hv, hm, if_false, r7, r8, and_self, if_true, Res.ok_bind, Res.pure_eq]
  | reserved0 r => rfl
  | airspeed a b c d => rfl
  | reserved1 r => rfl

/-- |vertical rate| ≤ 32640 ft/min -/
theorem vrate_range (v : Vel) (r : Velocity) (h1 : v.vrate < 512) (h : v.calc = some r) : -32640 ≤ r.vrate ∧ r.vrate ≤ 32640 := by
  unfold Vel.calc at h
  cases hs : v.sub with
  | ground a b c d =>
    rw [hs] at h
    simp only [] at h
    split at h
    · cases h
    · split at h
      · cases h
      · cases h
        simp only [signOf]
        split <;> omega
  | reserved0 r => rw [hs] at h; cases h
  | airspeed a b c d => rw [hs] at h; cases h
  | reserved1 r => rw [hs] at h; cases h

/-- the sign pattern of the components fixes the quadrant of the track (atan2(east, north) in [0, 360)):
direction bits 0/0 → north-east, 1/0 → north-west, 0/1 → south-east, 1/1 → south-west; a zero component puts
the track on the axis -/
theorem track_quadrant (v : Vel) (r : Velocity) (a b c d : Nat) (hs : v.sub = .ground a b c d) (h : v.calc = some r) :
    (a = 0 → 0 ≤ r.vEw) ∧ (a ≠ 0 → r.vEw ≤ 0) ∧ (c = 0 → 0 ≤ r.vNs) ∧ (c ≠ 0 → r.vNs ≤ 0) ∧
    (r.vEw = 0 ↔ b = 1) ∧ (r.vNs = 0 ↔ d = 1) := by
  unfold Vel.calc at h
  rw [hs] at h
  simp only [] at h
  split at h
  · cases h
  · next hz =>
    split at h
    · cases h
    · cases h
      have hb : b ≠ 0 := fun x => hz (Or.inl x)
      have hd : d ≠ 0 := fun x => hz (Or.inr x)
      have hsc : (if v.st = 2 then (4 : Int) else 1) = 4 ∨ (if v.st = 2 then (4 : Int) else 1) = 1 := by split <;> simp
      simp only [signOf]
      refine ⟨?_, ?_, ?_, ?_, ?_, ?_⟩
      · intro h0; rw [if_pos h0]; rcases hsc with e | e <;> rw [e] <;> omega
      · intro h0; rw [if_neg h0]; rcases hsc with e | e <;> rw [e] <;> omega
      · intro h0; rw [if_pos h0]; rcases hsc with e | e <;> rw [e] <;> omega
      · intro h0; rw [if_neg h0]; rcases hsc with e | e <;> rw [e] <;> omega
      · rcases hsc with e | e <;> rw [e] <;> (split <;> omega)
      · rcases hsc with e | e <;> rw [e] <;> (split <;> omega)

/-! ## non-vacuity (tests): testing02 of the pinned suite decodes to track 322.2°, 417 kt... -/
example : (Vel.calc { st := 1, nacv := 0, sub := .ground 1 10 1 5, vrateSrc := 0, vrateSign := 0, vrate := 3, reserved := 0, gnssSign := 0, gnssDiff := 0 })
    = some { vEw := -9, vNs := -4, vrate := 128 } := by decide
example : (Vel.calc { st := 2, nacv := 0, sub := .ground 0 101 0 1, vrateSrc := 0, vrateSign := 1, vrate := 2, reserved := 0, gnssSign := 0, gnssDiff := 0 })
    = some { vEw := 400, vNs := 0, vrate := -64 } := by decide
example : (Vel.calc { st := 1, nacv := 0, sub := .ground 0 0 0 10, vrateSrc := 0, vrateSign := 0, vrate := 3, reserved := 0, gnssSign := 0, gnssDiff := 0 }) = none := by decide

end Adsb.C07
