import Adsb.Velocity
import Mathlib.Analysis.SpecialFunctions.Complex.Arg
import Mathlib.Analysis.SpecialFunctions.Sqrt
import Mathlib.Tactic.Linarith
import Mathlib.Tactic.Ring
import Mathlib.Tactic.FieldSimp
/-! # C07 (part 2) — track and ground speed over the reals (Mathlib)

`headingG` / `speedG` are the model of the track / ground-speed part of `AirborneVelocity::calculate` (generic in the
number type; the driver and the renderer evaluate them over `Float`, tied to the implementation by the `V` operations).
Here they are instantiated with `ℝ`, `atan2 y x = arg (x + y·i)` and `Real.sqrt`, and related to a specification
written independently of `atan2`: *the track is the angle θ ∈ [0°, 360°) with `east = speed·sin θ`, `north = speed·cos θ`*.
Not covered: the `f64`/`f32` rounding of the same expressions (numeric tie; the 360.0-after-rounding case is in the
correspondence oracle). -/

namespace Adsb.C07b
open Real

noncomputable def realTrack : TrackOps ℝ :=
  { add := (· + ·), mul := (· * ·), div := (· / ·), lit := fun n => (n : ℝ), ofInt := fun i => (i : ℝ), pi := π,
    atan2 := fun y x => Complex.arg ⟨x, y⟩, sqrt := Real.sqrt, neg? := fun h => decide (h < 0) }

/-- the track angle in degrees -/
noncomputable def heading (v : Velocity) : ℝ := headingG realTrack v
/-- the ground speed in knots -/
noncomputable def speed (v : Velocity) : ℝ := speedG realTrack v

/-- the complex number `north + east·i` whose argument is the track -/
noncomputable def vec (v : Velocity) : ℂ := ⟨(v.vNs : ℝ), (v.vEw : ℝ)⟩

theorem heading_eq (v : Velocity) :
    heading v = if Complex.arg (vec v) * (360 / (2 * π)) < 0 then Complex.arg (vec v) * (360 / (2 * π)) + 360
                else Complex.arg (vec v) * (360 / (2 * π)) := by
  unfold heading headingG realTrack vec
  simp only [Nat.cast_ofNat, decide_eq_true_eq]

theorem speed_eq (v : Velocity) : speed v = ‖vec v‖ := by
  unfold speed speedG realTrack vec
  rw [Complex.norm_def, Complex.normSq_mk]
  simp only
  rw [add_comm]

/-- **ground speed is the Euclidean norm of the two components** -/
theorem speed_is_norm (v : Velocity) : 0 ≤ speed v ∧ speed v * speed v = (v.vEw : ℝ) * v.vEw + (v.vNs : ℝ) * v.vNs := by
  unfold speed speedG realTrack
  refine ⟨Real.sqrt_nonneg _, ?_⟩
  simp only
  rw [Real.mul_self_sqrt (by nlinarith [mul_self_nonneg (v.vEw : ℝ), mul_self_nonneg (v.vNs : ℝ)])]

/-- **the track lies in [0°, 360°)** -/
theorem heading_range (v : Velocity) : 0 ≤ heading v ∧ heading v < 360 := by
  have hp := Real.pi_pos
  have h1 := Complex.neg_pi_lt_arg (vec v)
  have h2 := Complex.arg_le_pi (vec v)
  have hk : (360 : ℝ) / (2 * π) = 180 / π := by field_simp; ring
  have hpos : (0 : ℝ) < 180 / π := by positivity
  have e1 : Complex.arg (vec v) * (180 / π) ≤ 180 := by
    have := mul_le_mul_of_nonneg_right h2 hpos.le
    have e : π * (180 / π) = 180 := by field_simp
    linarith
  have e2 : -180 < Complex.arg (vec v) * (180 / π) := by
    have := mul_lt_mul_of_pos_right h1 hpos
    have e : -π * (180 / π) = -180 := by field_simp
    linarith
  rw [heading_eq, hk]
  split <;> constructor <;> linarith

/-- the track angle in radians is congruent to `arg (north + east·i)`, so its sine and cosine are those of the argument -/
theorem heading_sin_cos (v : Velocity) :
    sin (heading v * (π / 180)) = sin (Complex.arg (vec v)) ∧ cos (heading v * (π / 180)) = cos (Complex.arg (vec v)) := by
  have hp := Real.pi_pos
  have hk : ∀ a : ℝ, a * (360 / (2 * π)) * (π / 180) = a := by intro a; field_simp; ring
  have hk2 : ∀ a : ℝ, (a * (360 / (2 * π)) + 360) * (π / 180) = a + 2 * π := by intro a; field_simp; ring
  rw [heading_eq]
  split
  · rw [hk2, Real.sin_add_two_pi, Real.cos_add_two_pi]; exact ⟨rfl, rfl⟩
  · rw [hk]; exact ⟨rfl, rfl⟩

/-- **the track is the direction of the velocity vector: east = speed·sin(track), north = speed·cos(track)** -/
theorem track_polar (v : Velocity) :
    (v.vEw : ℝ) = speed v * sin (heading v * (π / 180)) ∧ (v.vNs : ℝ) = speed v * cos (heading v * (π / 180)) := by
  obtain ⟨hs, hc⟩ := heading_sin_cos v
  rw [hs, hc, speed_eq]
  constructor
  · rw [Complex.norm_mul_sin_arg]; simp [vec]
  · rw [Complex.norm_mul_cos_arg]; simp [vec]

/-- **the track is the only such angle**: any θ ∈ [0°, 360°) with `east = speed·sin θ`, `north = speed·cos θ` is the
reported track, whenever the aircraft moves at all -/
theorem track_unique (v : Velocity) (θ : ℝ) (h0 : 0 ≤ θ) (h1 : θ < 360) (hv : 0 < speed v)
    (he : (v.vEw : ℝ) = speed v * sin (θ * (π / 180))) (hn : (v.vNs : ℝ) = speed v * cos (θ * (π / 180))) :
    θ = heading v := by
  have hp := Real.pi_pos
  obtain ⟨pe, pn⟩ := track_polar v
  obtain ⟨r0, r1⟩ := heading_range v
  have hsin : sin (θ * (π / 180)) = sin (heading v * (π / 180)) := by
    have := he.symm.trans pe; exact mul_left_cancel₀ hv.ne' this
  have hcos : cos (θ * (π / 180)) = cos (heading v * (π / 180)) := by
    have := hn.symm.trans pn; exact mul_left_cancel₀ hv.ne' this
  -- equal sine and cosine: the angles differ by a multiple of 2π; both lie in [0, 2π)
  have hcs : cos (θ * (π / 180) - heading v * (π / 180)) = 1 := by
    rw [Real.cos_sub, hsin, hcos]; nlinarith [Real.sin_sq_add_cos_sq (heading v * (π / 180))]
  obtain ⟨n, hn'⟩ := (Real.cos_eq_one_iff _).mp hcs
  have hd : (n : ℝ) * (2 * π) = (θ - heading v) * (π / 180) := by rw [hn']; ring
  have hlt : -(2 * π) < (n : ℝ) * (2 * π) ∧ (n : ℝ) * (2 * π) < 2 * π := by
    rw [hd]; constructor <;> nlinarith
  have hn0 : n = 0 := by
    have a1 : (-1 : ℝ) < n := by nlinarith [hlt.1]
    have a2 : (n : ℝ) < 1 := by nlinarith [hlt.2]
    have b1 : (-1 : ℤ) < n := by exact_mod_cast a1
    have b2 : n < (1 : ℤ) := by exact_mod_cast a2
    omega
  rw [hn0] at hd
  have : (θ - heading v) * (π / 180) = 0 := by rw [← hd]; simp
  have hpi : π / 180 ≠ 0 := by positivity
  have := (mul_eq_zero.mp this).resolve_right hpi
  linarith

/-- due north is 0°, due east 90°, due south 180°, due west 270° (concrete instances, non-vacuity) -/
example : heading { vEw := 0, vNs := 5, vrate := 0 } = 0 := by
  rw [heading_eq]; simp [vec, show (⟨5, 0⟩ : ℂ) = ((5 : ℝ) : ℂ) from by apply Complex.ext <;> simp]

end Adsb.C07b
