import Adsb.Gen.VelFn
import Adsb.Theorems.C07b
import Adsb.Lemmas.Paths
/-! # C07 (part 3) — `AirborneVelocity::calculate` as the source text has it today

`Gen/VelFn.lean` is written by `tools/rust2lean.py` from `adsb.rs` / `lib.rs` on every run: the i16 / u16 arithmetic of `calculate`
(with `Sign::value`) with every overflow check written out, and the track-angle and speed expressions as terms over `TrackOps`.
Here: for every report the decoder can produce (10-bit velocities, 9-bit vertical rate, 1-bit signs) no check fires and the three
integers are the model's (`Vel.calc`, which `components`, `none_iff`, `vrate_range`, `track_quadrant` are about); the translated
track-angle term *is* `headingG` (by `rfl`, for every number type), and the translated speed with `hypot x y = √(x² + y²)` is `speedG`
— so `heading_range`, `track_polar`, `track_unique`, `speed_is_norm` are statements about the formulas of the source text. -/

namespace Adsb.C07c
open Adsb

theorem asI16_small (n : Nat) (h : n < 32768) : asI16 n = (n : Int) := by
  unfold asI16
  have : n % 65536 = n := Nat.mod_eq_of_lt (by omega)
  rw [this]; simp [h]

/-- **the integer part of `calculate` in the source is the model's, and none of its i16 / u16 checks can fire** -/
theorem src_calculate_int (v : Vel) (a b c d : Nat) (hs : v.sub = .ground a b c d) (ha : a ≤ 1) (hc : c ≤ 1) (hb : b < 1024) (hd : d < 1024)
    (hvs : v.vrateSign ≤ 1) (h1 : v.vrate < 512) :
    Gen.calcIntSrc v.st a b c d v.vrateSign v.vrate = (false, v.calc.map (fun r => (r.vEw, r.vNs, r.vrate))) := by
  unfold Gen.calcIntSrc Vel.calc
  rw [hs]
  simp only []
  by_cases hz : b = 0 ∨ d = 0
  · simp [hz]
  · rw [if_neg hz, if_neg hz]
    have hb0 : b ≠ 0 := fun h => hz (Or.inl h)
    have hd0 : d ≠ 0 := fun h => hz (Or.inr h)
    rw [asI16_small b (by omega), asI16_small d (by omega)]
    have ha' : a = 0 ∨ a = 1 := by omega
    have hc' : c = 0 ∨ c = 1 := by omega
    have hs' : v.vrateSign = 0 ∨ v.vrateSign = 1 := by omega
    by_cases hv : v.vrate = 0
    · by_cases hst : v.st = 2 <;> rcases ha' with rfl | rfl <;> rcases hc' with rfl | rfl <;>
        simp [hv, hst, Gen.signValueSrc, i16out] <;> omega
    · have e1 : ¬ v.vrate < 1 := by omega
      have e2 : ¬ 65535 < (v.vrate - 1) * 64 := by omega
      rw [if_neg e1, if_neg e2, if_neg hv, asI16_small _ (by omega)]
      have hcast : (((v.vrate - 1) * 64 : Nat) : Int) = ((v.vrate : Int) - 1) * 64 := by omega
      rw [hcast]
      by_cases hst : v.st = 2 <;> rcases ha' with rfl | rfl <;> rcases hc' with rfl | rfl <;> rcases hs' with e | e <;>
        simp [hst, e, Gen.signValueSrc, signOf, i16out] <;> omega

/-- **… for every decoded frame**: the velocity payload of any buffer (`velAt`, what `Frame.decode` returns for type code 19) meets the
width hypotheses of `src_calculate_int`, so for everything the decoder can hand to `calculate` no check fires and the result is the model's -/
theorem src_calculate_decoded (B : Buf) (a b c d : Nat) (hs : (velAt B).sub = .ground a b c d) :
    Gen.calcIntSrc (velAt B).st a b c d (velAt B).vrateSign (velAt B).vrate = (false, (velAt B).calc.map (fun r => (r.vEw, r.vNs, r.vrate))) := by
  have hsub : velSubAt B (bitsAt B 37 3) 45 = .ground a b c d := hs
  unfold velSubAt at hsub
  have h1 := bitsAt_lt B 45 1; have h2 := bitsAt_lt B (45 + 1) 10; have h3 := bitsAt_lt B (45 + 11) 1; have h4 := bitsAt_lt B (45 + 12) 10
  have h5 := bitsAt_lt B 68 1; have h6 := bitsAt_lt B 69 9
  split at hsub
  · cases hsub
  · split at hsub
    · injection hsub with e1 e2 e3 e4
      subst e1 e2 e3 e4
      exact src_calculate_int (velAt B) _ _ _ _ hs (by omega) (by omega) (by omega) (by omega) (by simp only [velAt]; omega) (by simp only [velAt]; omega)
    · split at hsub <;> cases hsub

/-- the track-angle expression of the source is the model's, whatever the number type -/
theorem src_heading_eq {α : Type} (T : TrackOps α) (v : Velocity) : Gen.headingSrc T v.vEw v.vNs = headingG T v := rfl

/-- `hypot` over the reals -/
noncomputable def hypotR (x y : ℝ) : ℝ := Real.sqrt (x * x + y * y)

/-- the speed expression of the source (`libm::hypot`) is the model's (`√(ew² + ns²)`) over the reals -/
theorem src_speed_eq (v : Velocity) : Gen.speedSrc C07b.realTrack hypotR v.vEw v.vNs = C07b.speed v := rfl

/-- **the track of the source text is the compass angle of the velocity vector**: in [0°, 360°), east = speed·sin, north = speed·cos -/
theorem src_track_polar (v : Velocity) :
    0 ≤ Gen.headingSrc C07b.realTrack v.vEw v.vNs ∧ Gen.headingSrc C07b.realTrack v.vEw v.vNs < 360 ∧
    (v.vEw : ℝ) = Gen.speedSrc C07b.realTrack hypotR v.vEw v.vNs * Real.sin (Gen.headingSrc C07b.realTrack v.vEw v.vNs * (Real.pi / 180)) ∧
    (v.vNs : ℝ) = Gen.speedSrc C07b.realTrack hypotR v.vEw v.vNs * Real.cos (Gen.headingSrc C07b.realTrack v.vEw v.vNs * (Real.pi / 180)) := by
  rw [src_heading_eq, src_speed_eq]
  exact ⟨(C07b.heading_range v).1, (C07b.heading_range v).2, C07b.track_polar v⟩

/-- non-vacuity / kernel evaluation of the translated integer part: 8D485020994409940838175B284F-like fields (west 9 → -8 kt, south 160 → -159 kt,
down 14 → -832 ft/min), the supersonic scale, and the extremes of every field -/
example : Gen.calcIntSrc 1 1 9 1 160 1 14 = (false, some (-8, -159, -832)) := by decide
example : Gen.calcIntSrc 2 0 1023 1 1023 0 511 = (false, some (4088, -4088, 32640)) := by decide
example : Gen.calcIntSrc 1 0 0 0 5 0 5 = (false, none) ∧ Gen.calcIntSrc 1 0 5 0 5 0 0 = (false, none) := by decide

end Adsb.C07c
