import Adsb.Lemmas.Reject
import Adsb.Spec.Fields
import Adsb.Spec.Codes
/-! # C08 — aircraft identification: eight characters, ICAO alphabet, category -/

namespace Adsb.C08
open Adsb Adsb.Spec

/-- the generated `CHAR_LOOKUP` is the Annex 10 character set, on all 64 codes -/
theorem chars_spec : ∀ c, c < 64 → charOf c = Spec.ia5 c := by decide

/-- the table of the source (regenerated) has an entry for every 6-bit code: `CHAR_LOOKUP[c]` is in bounds for everything the reader can
produce, so the default of the model's `getD` is never used and hides no index panic -/
theorem char_table_covers_six_bits : Gen.charLookup.length = 64 := by decide

/-- the specification of the text: the eight codes in order, code 32 (space) removed, mapped by the alphabet -/
def specText (codes : List Nat) : List Nat := (codes.filter (· != 32)).map Spec.ia5

theorem identText_spec (cs : List Nat) (h : ∀ c ∈ cs, c < 64) : identText cs = specText cs := by
  unfold identText specText
  apply List.map_congr_left
  intro c hc
  exact chars_spec c (h c ((List.mem_filter.mp hc).1))

/-- the eight character fields of an ME / MB payload -/
def charCodes (B : Buf) : List Nat := (List.range 8).map (fun i => (CHAR i).ofME B)

theorem identAt_spec (B : Buf) : identAt B 40 = specText (charCodes B) := by
  have e : identAt B 40 = identText (charCodes B) := by
    simp [identAt, charCodes, List.range, List.range.loop, Field.ofME, CHAR]
  rw [e]
  apply identText_spec
  intro c hc
  simp only [charCodes, List.mem_map] at hc
  obtain ⟨i, _, rfl⟩ := hc
  exact bitsAt_lt _ _ _

/-- **type 1–4 squitters** (DF17 and DF18): type code, category field and the eight characters -/
theorem squitter_ident (B : Buf) (f : Frame) (h : decode B = .ok f)
    (htc : 1 ≤ TC.ofME B ∧ TC.ofME B ≤ 4) :
    (DFcode.of B = 17 → ∃ ca icao pi, f.df = .adsb ca icao (.ident ⟨TC.ofME B, CAT.ofME B, specText (charCodes B)⟩) pi) ∧
    (DFcode.of B = 18 → ∃ cf aa pi, f.df = .tisb cf aa (.ident ⟨TC.ofME B, CAT.ofME B, specText (charCodes B)⟩) pi) := by
  obtain ⟨L, _, _, hd⟩ := decode_accept B (decode_ok_accept B f h)
  rw [hd] at h; cases h
  have htc' : 1 ≤ bitsAt B 32 5 ∧ bitsAt B 32 5 ≤ 4 := htc
  have n1 : ¬ (9 ≤ bitsAt B 32 5 ∧ bitsAt B 32 5 ≤ 18) := by omega
  have n2 : ¬ bitsAt B 32 5 = 19 := by omega
  have n3 : ¬ bitsAt B 32 5 = 0 := by omega
  have hme : meAt B = .ident ⟨TC.ofME B, CAT.ofME B, specText (charCodes B)⟩ := by
    rw [← identAt_spec]
    simp [meAt, n1, n2, n3, htc'.2, Field.ofME, TC, CAT]
  constructor
  · intro c; have c' : bitsAt B 0 5 = 17 := c
    exact ⟨_, _, _, by rw [dfAt_17 B c', hme]⟩
  · intro c; have c' : bitsAt B 0 5 = 18 := c
    exact ⟨_, _, _, by rw [dfAt_18 B c', hme]⟩

/-- **BDS 2,0 Comm-B replies** (DF20 and DF21): the eight characters of MB bits 9–56 -/
theorem commb_ident (B : Buf) (f : Frame) (h : decode B = .ok f) (hb : BDSCODE.ofME B = 0x20) :
    (DFcode.of B = 20 → ∃ fs dr um alt, f.df = .commBAlt fs dr um alt (.ident (specText (charCodes B)))) ∧
    (DFcode.of B = 21 → ∃ fs dr um id ap, f.df = .commBId fs dr um id (.ident (specText (charCodes B))) ap) := by
  obtain ⟨L, _, _, hd⟩ := decode_accept B (decode_ok_accept B f h)
  rw [hd] at h; cases h
  have hb' : bitsAt B 32 8 = 0x20 := hb
  have hbds : bdsAt B = .ident (specText (charCodes B)) := by
    rw [← identAt_spec]
    simp [bdsAt, hb']
  constructor
  · intro c; have c' : bitsAt B 0 5 = 20 := c
    exact ⟨_, _, _, _, by rw [dfAt_20 B c', hbds]⟩
  · intro c; have c' : bitsAt B 0 5 = 21 := c
    exact ⟨_, _, _, _, _, by rw [dfAt_21 B c', hbds]⟩

/-- the text never contains a space, and every character is a letter, a digit or '#' -/
theorem text_alphabet (codes : List Nat) : ∀ ch ∈ specText codes,
    (65 ≤ ch ∧ ch ≤ 90) ∨ (48 ≤ ch ∧ ch ≤ 57) ∨ ch = 35 := by
  intro ch hch
  simp only [specText, List.mem_map, List.mem_filter] at hch
  obtain ⟨c, ⟨_, hne⟩, rfl⟩ := hch
  have hne' : c ≠ 32 := by simpa using hne
  unfold Spec.ia5
  by_cases h1 : 1 ≤ c ∧ c ≤ 26
  · rw [if_pos h1]; left; omega
  · rw [if_neg h1, if_neg hne']
    by_cases h3 : 48 ≤ c ∧ c ≤ 57
    · rw [if_pos h3]; right; left; exact h3
    · rw [if_neg h3]; right; right; rfl

/-! ## non-vacuity (tests): README-style frame "8D…" with callsign -/
example : specText [11, 12, 13, 49, 48, 50, 51, 32] = "KLM1023".toList.map Char.toNat := by decide +kernel
example : specText [1, 2, 32, 3, 63, 32, 32, 32] = "ABC#".toList.map Char.toNat := by decide +kernel

end Adsb.C08
