import Adsb.Lemmas.Reject
import Adsb.Lemmas.Range
import Adsb.Spec.Fields
import Adsb.Spec.Codes
/-! # C09 — identity (squawk) codes decode to the right four octal digits in every carrier -/

namespace Adsb.C09
open Adsb Adsb.Spec

/-- DF5's bit-by-bit reader equals the specification on all 8192 codes -/
theorem identityCode_spec_all : allRange (fun c => identityCode c == Spec.squawk c) 0 8192 14 = true := by decide +kernel
/-- the table-driven reader of DF21 and type 28 equals the specification on all 8192 codes -/
theorem decodeId13_spec_all : allRange (fun c => decodeId13 c == Spec.squawk c) 0 8192 14 = true := by decide +kernel
/-- every digit of every decoded code is an octal digit -/
theorem digits_octal_all : allRange (fun c => let s := Spec.squawk c
    decide (s / 4096 % 16 ≤ 7 ∧ s / 256 % 16 ≤ 7 ∧ s / 16 % 16 ≤ 7 ∧ s % 16 ≤ 7 ∧ s < 65536)) 0 8192 14 = true := by decide +kernel

theorem identityCode_spec (c : Nat) (h : c < 8192) : identityCode c = Spec.squawk c :=
  eq_of_beq (allBelow_sound _ 8192 14 identityCode_spec_all c h)
theorem decodeId13_spec (c : Nat) (h : c < 8192) : decodeId13 c = Spec.squawk c :=
  eq_of_beq (allBelow_sound _ 8192 14 decodeId13_spec_all c h)
theorem digits_octal (c : Nat) (h : c < 8192) :
    Spec.squawk c / 4096 % 16 ≤ 7 ∧ Spec.squawk c / 256 % 16 ≤ 7 ∧ Spec.squawk c / 16 % 16 ≤ 7 ∧ Spec.squawk c % 16 ≤ 7 ∧ Spec.squawk c < 65536 := by
  have := allBelow_sound _ 8192 14 digits_octal_all c h
  exact of_decide_eq_true this

/-- the two decoding routines agree on every code: the carriers cannot disagree -/
theorem carriers_agree (c : Nat) (h : c < 8192) : identityCode c = decodeId13 c := by
  rw [identityCode_spec c h, decodeId13_spec c h]

/-- **DF5, DF21, type 28**: the squawk is `Spec.squawk` of the standard's 13-bit field -/
theorem squawk_carried (B : Buf) (f : Frame) (h : decode B = .ok f) :
    (DFcode.of B = 5 → ∃ fs dr um ap, f.df = .survId fs dr um (Spec.squawk (ID.of B)) ap) ∧
    (DFcode.of B = 21 → ∃ fs dr um bds ap, f.df = .commBId fs dr um (Spec.squawk (ID.of B)) bds ap) ∧
    (TC.ofME B = 28 →
      (DFcode.of B = 17 → ∃ ca icao pi st, f.df = .adsb ca icao (.status ⟨st, EMERG.ofME B, Spec.squawk (ID28.ofME B)⟩) pi ∧
          st = (if ST28.ofME B ≤ 2 then ST28.ofME B else 3)) ∧
      (DFcode.of B = 18 → ∃ cf aa pi st, f.df = .tisb cf aa (.status ⟨st, EMERG.ofME B, Spec.squawk (ID28.ofME B)⟩) pi ∧
          st = (if ST28.ofME B ≤ 2 then ST28.ofME B else 3))) := by
  obtain ⟨L, _, _, hd⟩ := decode_accept B (decode_ok_accept B f h)
  rw [hd] at h; cases h
  refine ⟨?_, ?_, ?_⟩
  · intro c; have c' : bitsAt B 0 5 = 5 := c
    exact ⟨_, _, _, _, by rw [dfAt_5 B c', identityCode_spec _ (bitsAt_lt B 19 13)]; rfl⟩
  · intro c; have c' : bitsAt B 0 5 = 21 := c
    exact ⟨_, _, _, _, _, by rw [dfAt_21 B c', decodeId13_spec _ (bitsAt_lt B 19 13)]; rfl⟩
  · intro t; have t' : bitsAt B 32 5 = 28 := t
    have hme0 : meAt B = .status (statusAt B) := by simp [meAt, t']
    have hme : meAt B = .status ⟨if ST28.ofME B ≤ 2 then ST28.ofME B else 3, EMERG.ofME B, Spec.squawk (ID28.ofME B)⟩ := by
      rw [hme0]
      unfold statusAt
      rw [decodeId13_spec _ (bitsAt_lt B 43 13)]
      rfl
    constructor
    · intro c; have c' : bitsAt B 0 5 = 17 := c
      exact ⟨_, _, _, _, by rw [dfAt_17 B c', hme], rfl⟩
    · intro c; have c' : bitsAt B 0 5 = 18 := c
      exact ⟨_, _, _, _, by rw [dfAt_18 B c', hme], rfl⟩

/-! ## non-vacuity (tests) -/
example : Spec.squawk 0b1010101010101 = 0x0077 := by decide +kernel
example : Spec.squawk 0x1fff = 0x7777 := by decide +kernel
example : decodeId13 0x0040 = 0 := by decide +kernel    -- the X bit is not part of the code

end Adsb.C09
