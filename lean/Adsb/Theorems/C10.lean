import Adsb.Lemmas.Reject
import Adsb.Spec.Fields
import Adsb.Spec.Codes
/-! # C10 — interpreted payload fields equal the standard's bit fields, for every type -/

namespace Adsb.C10
open Adsb Adsb.Spec

/-- the ME / MB payload of a decoded frame -/
def payloadME : DF → Option ME
  | .adsb _ _ me _ => some me
  | .tisb _ _ me _ => some me
  | _ => none

def payloadBDS : DF → Option BDS
  | .commBAlt _ _ _ _ b => some b
  | .commBId _ _ _ _ b _ => some b
  | _ => none

/-- under DF17 and under DF18 with every control-field type, the decoded ME is the closed form `meAt` -/
theorem decoded_me (B : Buf) (f : Frame) (h : decode B = .ok f) (hdf : DFcode.of B = 17 ∨ DFcode.of B = 18) :
    payloadME f.df = some (meAt B) := by
  obtain ⟨L, _, _, hd⟩ := decode_accept B (decode_ok_accept B f h)
  rw [hd] at h; cases h
  rcases hdf with c | c
  · have c' : bitsAt B 0 5 = 17 := c
    show payloadME (dfAt B) = _; rw [dfAt_17 B c']; rfl
  · have c' : bitsAt B 0 5 = 18 := c
    show payloadME (dfAt B) = _; rw [dfAt_18 B c']; rfl

theorem decoded_bds (B : Buf) (f : Frame) (h : decode B = .ok f) (hdf : DFcode.of B = 20 ∨ DFcode.of B = 21) :
    payloadBDS f.df = some (bdsAt B) := by
  obtain ⟨L, _, _, hd⟩ := decode_accept B (decode_ok_accept B f h)
  rw [hd] at h; cases h
  rcases hdf with c | c
  · have c' : bitsAt B 0 5 = 20 := c
    show payloadBDS (dfAt B) = _; rw [dfAt_20 B c']; rfl
  · have c' : bitsAt B 0 5 = 21 := c
    show payloadBDS (dfAt B) = _; rw [dfAt_21 B c']; rfl

/-! ## the type code (and subtype) alone selects the variant, as the documented table says -/

inductive Kind where
  | noPosition | ident | surface | airBaro | velocity | airGnss | reserved | surfaceSystemStatus | status | targetState
  | opCoord | opAirborne | opSurface | opReserved
  deriving DecidableEq, Repr

/-- the documented dispatch table (lib.rs module documentation / DO-260B type code table) -/
def Spec.kindOf (tc st : Nat) : Kind :=
  if tc = 0 then .noPosition
  else if 1 ≤ tc ∧ tc ≤ 4 then .ident
  else if 5 ≤ tc ∧ tc ≤ 8 then .surface
  else if 9 ≤ tc ∧ tc ≤ 18 then .airBaro
  else if tc = 19 then .velocity
  else if 20 ≤ tc ∧ tc ≤ 22 then .airGnss
  else if tc = 23 then .reserved
  else if tc = 24 then .surfaceSystemStatus
  else if 25 ≤ tc ∧ tc ≤ 27 then .reserved
  else if tc = 28 then .status
  else if tc = 29 then .targetState
  else if tc = 30 then .opCoord
  else if st = 0 then .opAirborne else if st = 1 then .opSurface else .opReserved

def kind : ME → Kind
  | .noPosition _ => .noPosition | .ident _ => .ident | .surface _ => .surface | .airPosBaro _ => .airBaro
  | .velocity _ => .velocity | .airPosGnss _ => .airGnss | .reserved0 _ => .reserved | .surfaceSystemStatus _ => .surfaceSystemStatus
  | .reserved1 _ => .reserved | .status _ => .status | .tss _ => .targetState | .opCoord _ => .opCoord
  | .opStatus (.airborne _) => .opAirborne | .opStatus (.surface _) => .opSurface | .opStatus (.reserved _ _) => .opReserved

theorem dispatch_table (B : Buf) : kind (meAt B) = Spec.kindOf (TC.ofME B) (OS_ST.ofME B) := by
  have hlt : bitsAt B 32 5 < 32 := bitsAt_lt B 32 5
  show kind (meAt B) = Spec.kindOf (bitsAt B 32 5) (bitsAt B 37 3)
  unfold meAt Spec.kindOf
  simp only []
  by_cases c1 : 9 ≤ bitsAt B 32 5 ∧ bitsAt B 32 5 ≤ 18
  · have : ¬ bitsAt B 32 5 = 0 := by omega
    have n2 : ¬ (1 ≤ bitsAt B 32 5 ∧ bitsAt B 32 5 ≤ 4) := by omega
    have n3 : ¬ (5 ≤ bitsAt B 32 5 ∧ bitsAt B 32 5 ≤ 8) := by omega
    simp [c1, this, n2, n3, kind]
  by_cases c2 : bitsAt B 32 5 = 19
  · simp [c2, kind]
  by_cases c3 : bitsAt B 32 5 = 0
  · simp [c3, kind]
  by_cases c4 : bitsAt B 32 5 ≤ 4
  · have : 1 ≤ bitsAt B 32 5 ∧ bitsAt B 32 5 ≤ 4 := by omega
    simp [c1, c2, c3, c4, this, kind]
  by_cases c5 : bitsAt B 32 5 ≤ 8
  · have : 5 ≤ bitsAt B 32 5 ∧ bitsAt B 32 5 ≤ 8 := by omega
    have n2 : ¬ (1 ≤ bitsAt B 32 5 ∧ bitsAt B 32 5 ≤ 4) := by omega
    simp [c1, c2, c3, c4, c5, this, n2, kind]
  have n2 : ¬ (1 ≤ bitsAt B 32 5 ∧ bitsAt B 32 5 ≤ 4) := by omega
  have n3 : ¬ (5 ≤ bitsAt B 32 5 ∧ bitsAt B 32 5 ≤ 8) := by omega
  by_cases c6 : 20 ≤ bitsAt B 32 5 ∧ bitsAt B 32 5 ≤ 22
  · simp [c1, c2, c3, c4, c5, c6, n2, n3, kind]
  by_cases c7 : bitsAt B 32 5 = 23
  · simp [c7, kind]
  by_cases c8 : bitsAt B 32 5 = 24
  · simp [c8, kind]
  by_cases c9 : bitsAt B 32 5 ≤ 27
  · have : 25 ≤ bitsAt B 32 5 ∧ bitsAt B 32 5 ≤ 27 := by omega
    simp [c1, c2, c3, c4, c5, c6, c7, c8, c9, n2, n3, this, kind]
  have n9 : ¬ (25 ≤ bitsAt B 32 5 ∧ bitsAt B 32 5 ≤ 27) := by omega
  by_cases c10 : bitsAt B 32 5 = 28
  · simp [c10, kind]
  by_cases c11 : bitsAt B 32 5 = 29
  · simp [c11, kind]
  by_cases c12 : bitsAt B 32 5 = 30
  · simp [c12, kind]
  · simp only [c1, c2, c3, c4, c5, c6, c7, c8, c9, c10, c11, c12, n2, n3, n9, if_false]
    unfold opStatusAt
    by_cases s0 : bitsAt B 37 3 = 0
    · simp [s0, kind]
    · by_cases s1 : bitsAt B 37 3 = 1
      · simp [s0, s1, kind]
      · simp [s0, s1, kind]

/-! ## fields of each interpreted payload, at the positions DO-260B / Doc 9871 assign -/

/-- airborne position (types 9–18, 20–22) -/
theorem airborne_position_fields (B : Buf) :
    altAt B = { tc := TC.ofME B, ss := SS.ofME B, saf := SAF.ofME B, alt := ac12 (ALT.ofME B), t := T.ofME B, f := F.ofME B,
                lat := LAT.ofME B, lon := LON.ofME B } := rfl

/-- surface position (types 5–8): movement, ground-track status and track, time, format, CPR -/
theorem surface_position_fields (B : Buf) :
    surfAt B = { mov := MOV.ofME B, s := TRKS.ofME B, trk := TRK.ofME B, t := T.ofME B, f := F.ofME B,
                 lat := LAT.ofME B, lon := LON.ofME B } := rfl

/-- selected altitude scaling: (N−1)·32 ft, 0 for "no data" -/
def selectedAltitudeFt (n : Nat) : Nat := if n > 1 then (n - 1) * 32 else 0
/-- QNH scaling: 800 + (N−1)·0.8 hPa, N = 0 is "no data" -/
def qnhHpa (n : Nat) : Option Rat := if n = 0 then none else some (800 + ((n : Rat) - 1) * (4 / 5))
/-- heading scaling: N·180/256 degrees -/
def headingDeg (n : Nat) : Rat := (n : Rat) * 180 / 256

/-- target state and status (type 29): every field, incl. the altitude type bit and the 11-bit altitude -/
theorem target_state_fields (B : Buf) :
    tssAt B = { subtype := TSS_ST.ofME B, isFms := TSS_ALTTYPE.ofME B, altitude := selectedAltitudeFt (TSS_ALT.ofME B),
                qnhRaw := TSS_QNH.ofME B, isHeading := TSS_HDGST.ofME B, headingRaw := TSS_HDG.ofME B, nacp := TSS_NACP.ofME B,
                nicbaro := TSS_NICBARO.ofME B, sil := TSS_SIL.ofME B, modeValidity := TSS_MODE.ofME B, autopilot := TSS_AP.ofME B,
                vnav := TSS_VNAV.ofME B, altHold := TSS_ALTHOLD.ofME B, imf := TSS_IMF.ofME B, approach := TSS_APP.ofME B,
                tcas := TSS_TCAS.ofME B, lnav := TSS_LNAV.ofME B } := rfl

/-- operational status, airborne (type 31 subtype 0) -/
theorem opstatus_airborne_fields (B : Buf) :
    opAirAt B = { acas := OS_ACAS.ofME B, cdti := OS_CDTI.ofME B, arv := OS_ARV.ofME B, ts := OS_TS.ofME B, tc := OS_TC.ofME B,
                  om := { ra := OS_RA.ofME B, ident := OS_IDENT.ofME B, atc := OS_ATC.ofME B, saf := OS_SAF.ofME B, sda := OS_SDA.ofME B },
                  version := OS_VER.ofME B, nicA := OS_NICA.ofME B, nacp := OS_NACP.ofME B, gva := OS_GVA.ofME B, sil := OS_SIL.ofME B,
                  nicbaro := OS_NICBARO.ofME B, hrd := OS_HRD.ofME B, silSupp := OS_SILSUPP.ofME B } := rfl

/-- operational status, surface (type 31 subtype 1) -/
theorem opstatus_surface_fields (B : Buf) :
    opSurfAt B = { poe := OS_POA.ofME B, es1090 := OS_ESIN.ofME B, b2low := OS_B2LOW.ofME B, uatIn := OS_UATIN.ofME B,
                   nacv := OS_NACV.ofME B, nicC := OS_NICC.ofME B, lw := OS_LW.ofME B,
                   om := { ra := OS_RA.ofME B, ident := OS_IDENT.ofME B, atc := OS_ATC.ofME B, saf := OS_SAF.ofME B, sda := OS_SDA.ofME B },
                   gpsOffset := OS_ANT.ofME B, version := OS_VER.ofME B, nicA := OS_NICA.ofME B, nacp := OS_NACP.ofME B,
                   sil := OS_SIL.ofME B, nicbaro := OS_NICBARO.ofME B, hrd := OS_HRD.ofME B, silSupp := OS_SILSUPP.ofME B } := rfl

/-- BDS 1,0 data link capability report, every field most significant bit first (incl. the 16-bit DTE array) -/
theorem bds10_fields (B : Buf) :
    dlcAt B = { continuation := DL_CONT.ofME B, overlay := DL_OVERLAY.ofME B, acas := DL_ACAS.ofME B, subnet := DL_SUBNET.ofME B,
                enhanced := DL_ENH.ofME B, specific := DL_SPEC.ofME B, uplinkElm := DL_UELM.ofME B, downlinkElm := DL_DELM.ofME B,
                identCap := DL_IDCAP.ofME B, squitterCap := DL_SQCAP.ofME B, sic := DL_SIC.ofME B, gicb := DL_GICB.ofME B,
                reservedAcas := DL_ACASBITS.ofME B, bitArray := DL_DTE.ofME B } := rfl

/-- which closed form a type code selects -/
theorem payload_of_type (B : Buf) :
    ((9 ≤ TC.ofME B ∧ TC.ofME B ≤ 18) → meAt B = .airPosBaro (altAt B)) ∧
    ((20 ≤ TC.ofME B ∧ TC.ofME B ≤ 22) → meAt B = .airPosGnss (altAt B)) ∧
    ((5 ≤ TC.ofME B ∧ TC.ofME B ≤ 8) → meAt B = .surface (surfAt B)) ∧
    (TC.ofME B = 29 → meAt B = .tss (tssAt B)) ∧
    (TC.ofME B = 31 → OS_ST.ofME B = 0 → meAt B = .opStatus (.airborne (opAirAt B))) ∧
    (TC.ofME B = 31 → OS_ST.ofME B = 1 → meAt B = .opStatus (.surface (opSurfAt B))) ∧
    (BDSCODE.ofME B = 0x10 → bdsAt B = .dataLink (dlcAt B)) := by
  refine ⟨?_, ?_, ?_, ?_, ?_, ?_, ?_⟩
  · intro t; have t' : 9 ≤ bitsAt B 32 5 ∧ bitsAt B 32 5 ≤ 18 := t
    simp [meAt, t']
  · intro t; have t' : 20 ≤ bitsAt B 32 5 ∧ bitsAt B 32 5 ≤ 22 := t
    have n1 : ¬ (9 ≤ bitsAt B 32 5 ∧ bitsAt B 32 5 ≤ 18) := by omega
    have n2 : ¬ bitsAt B 32 5 = 19 := by omega
    have n3 : ¬ bitsAt B 32 5 = 0 := by omega
    have n4 : ¬ bitsAt B 32 5 ≤ 4 := by omega
    have n5 : ¬ bitsAt B 32 5 ≤ 8 := by omega
    simp [meAt, t', n1, n2, n3, n4, n5]
  · intro t; have t' : 5 ≤ bitsAt B 32 5 ∧ bitsAt B 32 5 ≤ 8 := t
    have n1 : ¬ (9 ≤ bitsAt B 32 5 ∧ bitsAt B 32 5 ≤ 18) := by omega
    have n2 : ¬ bitsAt B 32 5 = 19 := by omega
    have n3 : ¬ bitsAt B 32 5 = 0 := by omega
    have n4 : ¬ bitsAt B 32 5 ≤ 4 := by omega
    simp [meAt, t'.2, n1, n2, n3, n4]
  · intro t; have t' : bitsAt B 32 5 = 29 := t
    simp [meAt, t']
  · intro t s; have t' : bitsAt B 32 5 = 31 := t; have s' : bitsAt B 37 3 = 0 := s
    simp [meAt, t', opStatusAt, s']
  · intro t s; have t' : bitsAt B 32 5 = 31 := t; have s' : bitsAt B 37 3 = 1 := s
    simp [meAt, t', opStatusAt, s']
  · intro b; have b' : bitsAt B 32 8 = 0x10 := b
    simp [bdsAt, b']

/-- a field's value depends on no bit outside the field -/
theorem field_independent (B B' : Buf) (off w : Nat) (h : ∀ i, off ≤ i → i < off + w → B.bit i = B'.bit i) :
    bitsAt B off w = bitsAt B' off w := by
  induction w with
  | zero => rfl
  | succ w ih =>
    simp only [bitsAt]
    rw [ih (fun i h1 h2 => h i h1 (by omega)), h (off + w) (by omega) (by omega)]

/-! ## non-vacuity (tests) -/
example : selectedAltitudeFt 100 = 3168 := by decide
example : kind (meAt ⟨[0x8d, 0xa2, 0xc1, 0xbd, 0x58, 0x7b, 0xa2, 0xad, 0xb3, 0x17, 0x99, 0xcb, 0x80, 0x2b]⟩) = .airBaro := by decide +kernel

end Adsb.C10
