import Adsb.Gen.Layout
import Adsb.Spec.Fields
/-! # C10 / C04 / C07 / C08 / C09 (part 2) — the declared field layout, as regenerated from the `#[deku(..)]` attributes on this run,
puts every field at the bit position Annex 10 / DO-260B assigns it

`Gen.layout_<Struct>` is computed by `tools/extract.py` from the attributes in the source (explicit widths, the id widths of the enum-typed
fields, nested structs, pads, the widths the custom readers read — taken from the translated reader functions). `Spec.*` are the
standard's positions (`Spec/Fields.lean`). A struct starts `base` bits into the 56-bit ME / MB field (or the frame): 0 when the variant
re-reads its 5-bit type code as its first field, 5 after the type code, 8 after type code + sub-type or after the BDS code, 13 for the
sub-structure of the velocity report and for the utility message in the frame. Reserved bits are written as literal positions.
These theorems are re-checked against what the attributes say now; the decoder model's own field theorems (`Theorems/C10`, `C04`, `C07`)
are about the hand-written model, which the text tie and the field-exhaustive correspondence hold to the same attributes. -/

namespace Adsb.C10b
open Adsb

/-- position of a standard field relative to a struct that starts `base` bits into the ME / MB field -/
def pos (base : Nat) (f : Spec.Field) : Nat × Nat := (f.first - 1 - base, f.width)

/-- airborne position (types 9–18, 20–22): TC, SS, SAF/IMF, AC12, T, F, LAT, LON; exactly 56 bits -/
theorem airborne_position_layout :
    Gen.layout_Altitude = [pos 0 Spec.TC, pos 0 Spec.SS, pos 0 Spec.SAF, pos 0 Spec.ALT, pos 0 Spec.T, pos 0 Spec.F, pos 0 Spec.LAT, pos 0 Spec.LON]
    ∧ Gen.width_Altitude = 56 := by decide

/-- surface position (types 5–8), after the type code: MOV, S, TRK, T, F, LAT, LON; 5 + 51 = 56 bits -/
theorem surface_position_layout :
    Gen.layout_SurfacePosition = [pos 5 Spec.MOV, pos 5 Spec.TRKS, pos 5 Spec.TRK, pos 5 Spec.T, pos 5 Spec.F, pos 5 Spec.LAT, pos 5 Spec.LON]
    ∧ 5 + Gen.width_SurfacePosition = 56 := by decide

/-- identification (types 1–4): TC, category, eight 6-bit characters from ME bit 9; exactly 56 bits -/
theorem identification_layout :
    Gen.layout_Identification = [pos 0 Spec.TC, pos 0 Spec.CAT, ((Spec.CHAR 0).first - 1, 8 * (Spec.CHAR 0).width)]
    ∧ Gen.width_Identification = 56 := by decide

/-- velocity sub-structures (ME bits 14–35): direction / 10-bit component twice; heading status / heading / airspeed type / airspeed -/
theorem velocity_sub_layout :
    Gen.layout_GroundSpeedDecoding = [pos 13 Spec.DEW, pos 13 Spec.VEW, pos 13 Spec.DNS, pos 13 Spec.VNS]
    ∧ Gen.layout_AirspeedDecoding = [pos 13 Spec.HDGST, pos 13 Spec.HDG, pos 13 Spec.ASTYPE, pos 13 Spec.AS]
    ∧ Gen.width_GroundSpeedDecoding = 22 ∧ Gen.width_AirspeedDecoding = 22 := by decide

/-- emergency / priority status (type 28), after the type code: sub-type, emergency state, identity code; 5 + 51 = 56 bits -/
theorem status_layout :
    Gen.layout_AircraftStatus = [pos 5 Spec.ST28, pos 5 Spec.EMERG, pos 5 Spec.ID28] ∧ 5 + Gen.width_AircraftStatus = 56 := by decide

/-- target state and status (type 29), after the type code; ME bit 8 (SIL supplement) is skipped, bit 9 is the altitude type -/
theorem target_state_layout :
    Gen.layout_TargetStateAndStatusInformation =
      [pos 5 Spec.TSS_ST, pos 5 Spec.TSS_ALTTYPE, pos 5 Spec.TSS_ALT, pos 5 Spec.TSS_QNH, pos 5 Spec.TSS_HDGST, pos 5 Spec.TSS_HDG, pos 5 Spec.TSS_NACP,
       pos 5 Spec.TSS_NICBARO, pos 5 Spec.TSS_SIL, pos 5 Spec.TSS_MODE, pos 5 Spec.TSS_AP, pos 5 Spec.TSS_VNAV, pos 5 Spec.TSS_ALTHOLD, pos 5 Spec.TSS_IMF,
       pos 5 Spec.TSS_APP, pos 5 Spec.TSS_TCAS, pos 5 Spec.TSS_LNAV]
    ∧ 5 + Gen.width_TargetStateAndStatusInformation = 56 := by decide

/-- airborne operational status (type 31 / 0), after type code and sub-type: capability classes (reserved 9–10, 13–14), operational mode
(reserved 25–26), version, NIC-A, NACp, GVA, SIL, NICbaro, HRD, SIL supplement; 8 + 48 = 56 bits -/
theorem operational_status_airborne_layout :
    Gen.layout_OperationStatusAirborne =
      [(0, 2), pos 8 Spec.OS_ACAS, pos 8 Spec.OS_CDTI, (4, 2), pos 8 Spec.OS_ARV, pos 8 Spec.OS_TS, pos 8 Spec.OS_TC,
       (16, 2), pos 8 Spec.OS_RA, pos 8 Spec.OS_IDENT, pos 8 Spec.OS_ATC, pos 8 Spec.OS_SAF, pos 8 Spec.OS_SDA,
       pos 8 Spec.OS_VER, pos 8 Spec.OS_NICA, pos 8 Spec.OS_NACP, pos 8 Spec.OS_GVA, pos 8 Spec.OS_SIL, pos 8 Spec.OS_NICBARO, pos 8 Spec.OS_HRD, pos 8 Spec.OS_SILSUPP]
    ∧ 8 + Gen.width_OperationStatusAirborne = 56 := by decide

/-- surface operational status (type 31 / 1) -/
theorem operational_status_surface_layout :
    Gen.layout_OperationStatusSurface =
      [(0, 2), pos 8 Spec.OS_POA, pos 8 Spec.OS_ESIN, pos 8 Spec.OS_B2LOW, pos 8 Spec.OS_UATIN, pos 8 Spec.OS_NACV, pos 8 Spec.OS_NICC, pos 8 Spec.OS_LW,
       (16, 2), pos 8 Spec.OS_RA, pos 8 Spec.OS_IDENT, pos 8 Spec.OS_ATC, pos 8 Spec.OS_SAF, pos 8 Spec.OS_SDA, pos 8 Spec.OS_ANT,
       pos 8 Spec.OS_VER, pos 8 Spec.OS_NICA, pos 8 Spec.OS_NACP, pos 8 Spec.OS_SIL, pos 8 Spec.OS_NICBARO, pos 8 Spec.OS_HRD, pos 8 Spec.OS_SILSUPP]
    ∧ 8 + Gen.width_OperationStatusSurface = 56 := by decide

/-- BDS 1,0 data-link capability report, after the 8-bit BDS code; 8 + 48 = 56 bits -/
theorem datalink_capability_layout :
    Gen.layout_DataLinkCapability =
      [pos 8 Spec.DL_CONT, pos 8 Spec.DL_OVERLAY, pos 8 Spec.DL_ACAS, pos 8 Spec.DL_SUBNET, pos 8 Spec.DL_ENH, pos 8 Spec.DL_SPEC, pos 8 Spec.DL_UELM,
       pos 8 Spec.DL_DELM, pos 8 Spec.DL_IDCAP, pos 8 Spec.DL_SQCAP, pos 8 Spec.DL_SIC, pos 8 Spec.DL_GICB, pos 8 Spec.DL_ACASBITS, pos 8 Spec.DL_DTE]
    ∧ 8 + Gen.width_DataLinkCapability = 56 := by decide

/-- frame header pieces: the utility message (IIS, IDS at frame bits 14–19), the 13-bit altitude / identity fields, the 24-bit address -/
theorem header_pieces_layout :
    Gen.layout_UtilityMessage = [pos 13 Spec.IIS, pos 13 Spec.IDS]
    ∧ Gen.width_AC13Field = Spec.AC.width ∧ Gen.width_IdentityCode = Spec.ID.width ∧ Gen.width_ICAO = Spec.AA.width := by decide

end Adsb.C10b
