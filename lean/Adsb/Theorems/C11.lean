import Adsb.Display
/-! # C11 — the text rendering is a fixed template per type, filled with the frame's own decoded values

`report f` is a list of lines of literal text and typed holes; by construction every hole is a field (or a
function of fields) of `f` itself. The theorems state that every supported format renders something, and —
as explicit templates under each condition — when exactly the optional lines appear. The full text is compared
with the implementation for every branch by the correspondence (`D` operations). -/

namespace Adsb.C11
open Adsb
set_option linter.unusedSimpArgs false

theorem meReport_ne_nil (me : ME) (icao : Nat) (a : String) (cap : Cap) (t : Bool) : meReport me icao a cap t ≠ [] := by
  cases me with
  | velocity v =>
    unfold meReport
    simp only []
    cases v.sub <;> simp
  | opStatus o => cases o <;> simp [meReport]
  | _ => simp [meReport]

/-- **every supported frame type other than the military format renders a non-empty report** -/
theorem render_nonempty (f : Frame) (h : ∀ af, f.df ≠ .military af) : report f ≠ [] := by
  obtain ⟨df, crc⟩ := f
  cases df with
  | military af => exact absurd rfl (h af)
  | adsb ca icao me pi => exact meReport_ne_nil _ _ _ _ _
  | tisb cf aa me pi => exact meReport_ne_nil _ _ _ _ _
  | allCall ca icao p => simp [report]
  | shortAirAir vs cc u0 sl u1 ri u2 alt p => simp [report]
  | survAlt fs dr um ac ap => simp [report]
  | survId fs dr um id ap => simp [report]
  | longAirAir vs s1 sl s2 ri s3 alt mv p => simp [report]
  | commBAlt fs dr um alt bds => simp [report]
  | commBId fs dr um id bds p => simp [report]
  | modeS df ca icao tc data p => simp [report]

/-- the military format (not yet interpreted) renders nothing -/
theorem military_empty (af crc : Nat) : report ⟨.military af, crc⟩ = [] := rfl

/-- DF0: with an altitude the report has the altitude line carrying the frame's own value; without, "ground" -/
theorem df0_template (crc vs cc u0 sl u1 ri u2 alt p : Nat) :
    report ⟨.shortAirAir vs cc u0 sl u1 ri u2 alt p, crc⟩ =
      if alt > 0 then
        [[lit " Short Air-Air Surveillance"], [lit "  ICAO Address:  ", .hex crc 6, lit " (Mode S / ADS-B)"],
         [lit "  Air/Ground:    airborne?"], [lit "  Altitude:      ", .nat alt, lit " ft barometric"]]
      else
        [[lit " Short Air-Air Surveillance"], [lit "  ICAO Address:  ", .hex crc 6, lit " (Mode S / ADS-B)"],
         [lit "  Air/Ground:    ground"]] := by
  by_cases h : alt > 0 <;> simp [report, h]

/-- DF4: the altitude line appears exactly when the decoded altitude is above 0 -/
theorem df4_template (crc fs ac ap : Nat) (dr : DR) (um : UM) :
    report ⟨.survAlt fs dr um ac ap, crc⟩ =
      [[lit " Surveillance, Altitude Reply"], [lit "  ICAO Address:  ", .hex crc 6, lit " (Mode S / ADS-B)"],
       [lit "  Air/Ground:    ", lit (fsWord fs)]] ++
      (if ac > 0 then [[lit "  Altitude:      ", .nat ac, lit " ft barometric"]] else []) := by
  by_cases h : ac > 0 <;> simp [report, h]

/-- DF5: the squawk is printed as four hex digits of the decoded identity -/
theorem df5_template (crc fs id ap : Nat) (dr : DR) (um : UM) :
    report ⟨.survId fs dr um id ap, crc⟩ =
      [[lit " Surveillance, Identity Reply"], [lit "  ICAO Address:  ", .hex crc 6, lit " (Mode S / ADS-B)"],
       [lit "  Air/Ground:    ", lit (fsWord fs)], [lit "  Identity:      ", .hex id 4]] := by
  simp [report]

/-- airborne position: address, capability word, altitude (or "None"), parity word and the raw CPR values -/
theorem airpos_template (a : Alt) (icao : Nat) (cap : Cap) :
    meReport (.airPosBaro a) icao "(Mode S / ADS-B)" cap true =
      [[lit " Extended Squitter Airborne position (barometric altitude)"],
       [lit "  Address:       ", .hex icao 6, lit " (Mode S / ADS-B)"], [lit "  Air/Ground:    ", lit (capWord cap)],
       [lit "  Altitude:      "] ++ (match a.alt with | none => [lit "None"] | some v => [.nat v, lit " ft barometric"]),
       [lit "  CPR type:      Airborne"], [lit "  CPR odd flag:  ", lit (if a.f = 0 then "even" else "odd")],
       [lit "  CPR latitude:  (", .nat a.lat, lit ")"], [lit "  CPR longitude: (", .nat a.lon, lit ")"]] := by
  simp [meReport, altLines]
  cases a.alt <;> rfl

/-- target state and status: the heading line appears iff the heading-status bit is set; the ACAS line lists
autopilot / vnav / altitude-hold / approach exactly for the flags that are set, when ACAS is operational -/
theorem tss_template (x : TSS) (icao : Nat) (cap : Cap) :
    meReport (.tss x) icao "(Mode S / ADS-B)" cap true =
      [[lit " Extended Squitter Target state and status (V2)"], [lit "  Address:       ", .hex icao 6, lit " (Mode S / ADS-B)"],
       [lit "  Air/Ground:    ", lit (capWord cap)], [lit "  Target State and Status:"],
       [lit "    Target altitude:   MCP, ", .nat x.altitude, lit " ft"],
       [lit "    Altimeter setting: ", .qnh x.qnhRaw, lit " millibars"]] ++
      (if x.isHeading = 1 then [[lit "    Target heading:    ", .heading x.headingRaw]] else []) ++
      (if x.tcas = 1 then
        [[lit "    ACAS:              operational "] ++ (if x.autopilot = 1 then [lit "autopilot "] else []) ++
          (if x.vnav = 1 then [lit "vnav "] else []) ++ (if x.altHold = 1 then [lit "altitude-hold "] else []) ++
          (if x.approach = 1 then [lit " approach"] else [])]
       else [[lit "    ACAS:              NOT operational"]]) ++
      [[lit "    NACp:              ", .nat x.nacp], [lit "    NICbaro:           ", .nat x.nicbaro],
       [lit "    SIL:               ", .nat x.sil, lit " (per sample)"], [lit "    QNH:               ", .qnh x.qnhRaw, lit " millibars"]] := by
  simp [meReport]

/-- velocity over ground: the three derived lines appear iff `calculate()` yields a velocity, otherwise "Invalid packet" -/
theorem velocity_template (v : Vel) (icao : Nat) (cap : Cap) (a b c d : Nat) (hs : v.sub = .ground a b c d) :
    meReport (.velocity v) icao "(Mode S / ADS-B)" cap true =
      [[lit " Extended Squitter Airborne velocity over ground, subsonic"], [lit "  Address:       ", .hex icao 6, lit " (Mode S / ADS-B)"],
       [lit "  Air/Ground:    ", lit (capWord cap)],
       [lit "  GNSS delta:    ", lit (if v.gnssSign = 0 then "" else "-"), .nat v.gnssDiff, lit " ft"]] ++
      (match v.calc with
       | some r => [[lit "  Heading:       ", .trackCeil r], [lit "  Speed:         ", .speedFloor r, lit " kt groundspeed"],
                    [lit "  Vertical rate: ", .int r.vrate, lit " ft/min ", lit (if v.vrateSrc = 0 then "barometric" else "GNSS")]]
       | none => [[lit "  Invalid packet"]]) := by
  simp [meReport, hs]
  cases v.calc <;> rfl

/-- airspeed report: the rate line appears iff the rate field is not 0, with (raw−1)·64 -/
theorem airspeed_template (v : Vel) (icao : Nat) (cap : Cap) (a b c d : Nat) (hs : v.sub = .airspeed a b c d) :
    meReport (.velocity v) icao "(Mode S / ADS-B)" cap true =
      [[lit " Extended Squitter Airspeed and heading, subsonic"], [lit "  Address:       ", .hex icao 6, lit " (Mode S / ADS-B)"],
       [lit "  Air/Ground:    ", lit (capWord cap)], [lit "  IAS:           ", .nat d, lit " kt"]] ++
      (if v.vrate > 0 then [[lit "  Baro rate:     ", lit (if v.vrateSign = 0 then "" else "-"), .nat ((v.vrate - 1) * 64), lit " ft/min"]] else []) ++
      [[lit "  NACv:          ", .nat v.nacv]] := by
  simp [meReport, hs]

/-- surface operational status: the L/W code is shown iff it is not 0 -/
theorem opsurf_lw (a : OpSurf) (icao : Nat) (cap : Cap) :
    ([lit "   Capability classes:"] ++ (if a.lw ≠ 0 then [lit " L/W=", .nat a.lw] else [])) ∈
      meReport (.opStatus (.surface a)) icao "(Mode S / ADS-B)" cap true := by
  simp [meReport]

/-- DF16: the altitude line ("Baro altitude") appears exactly when the decoded altitude is above 0, whatever the VS bit says -/
theorem df16_template (crc vs s1 sl s2 ri s3 alt mv p : Nat) :
    report ⟨.longAirAir vs s1 sl s2 ri s3 alt mv p, crc⟩ =
      [[lit " Long Air-Air ACAS"], [lit "  ICAO Address:  ", .hex crc 6, lit " (Mode S / ADS-B)"]] ++
      (if alt > 0 then [[lit "  Air/Ground:    airborne?"], [lit "  Baro altitude: ", .nat alt, lit " ft"]] else [[lit "  Air/Ground:    ground"]]) := by
  by_cases h : alt > 0 <;> simp [report, h]

/-- DF11: the *announced* address and the capability word -/
theorem df11_template (crc icao pi : Nat) (ca : Cap) :
    report ⟨.allCall ca icao pi, crc⟩ =
      [[lit " All Call Reply"], [lit "  ICAO Address:  ", .hex icao 6, lit " (Mode S / ADS-B)"], [lit "  Air/Ground:    ", lit (capWord ca)]] := by
  simp [report]

/-- DF20 / DF21: the address shown is the checksum (address overlaid on parity), then altitude resp. squawk, then the Comm-B payload -/
theorem df20_template (crc fs alt : Nat) (dr : DR) (um : UM) (bds : BDS) :
    report ⟨.commBAlt fs dr um alt bds, crc⟩ =
      [[lit " Comm-B, Altitude Reply"], [lit "  ICAO Address:  ", .hexNoPad crc, lit " (Mode S / ADS-B)"],
       [lit "  Altitude:      ", .nat alt, lit " ft"]] ++ indentFirst "  " (bdsReport bds) := by
  simp [report]

theorem df21_template (crc fs id p : Nat) (dr : DR) (um : UM) (bds : BDS) :
    report ⟨.commBId fs dr um id bds p, crc⟩ =
      [[lit " Comm-B, Identity Reply"], [lit "    ICAO Address:  ", .hexNoPad crc, lit " (Mode S / ADS-B)"],
       [lit "    Squawk:        ", .hexNoPad id]] ++ indentFirst "    " (bdsReport bds) := by
  simp [report]

/-- identification: the callsign characters as decoded, the category letter of the type code and the category number -/
theorem ident_template (i : Ident) (icao : Nat) (cap : Cap) :
    meReport (.ident i) icao "(Mode S / ADS-B)" cap true =
      [[lit " Extended Squitter Aircraft identification and category"], [lit "  Address:       ", .hex icao 6, lit " (Mode S / ADS-B)"],
       [lit "  Air/Ground:    ", lit (capWord cap)], [lit "  Ident:         ", .text i.cn],
       [lit "  Category:      ", lit (tcLetter i.tc), .nat i.ca]] := by
  simp [meReport]

/-- emergency / priority status: the decoded squawk and the word of the decoded emergency state -/
theorem status_template (s : AcStatus) (icao : Nat) (cap : Cap) :
    meReport (.status s) icao "(Mode S / ADS-B)" cap true =
      [[lit " Extended Squitter Emergency/priority status"], [lit "  Address:       ", .hex icao 6, lit " (Mode S / ADS-B)"],
       [lit "  Air/Ground:    ", lit (capWord cap)], [lit "  Squawk:        ", .hexNoPad s.squawk],
       [lit "  Emergency/priority:    ", lit (emergencyWord s.emergency)]] := by
  simp [meReport]

/-- airborne operational status: each capability word appears exactly when its decoded field equals 1 — in particular " TC" for the
2-bit value 1 only, not for 2 or 3 -/
theorem opair_capability_words (a : OpAir) (icao : Nat) (cap : Cap) :
    ([lit "   Capability classes:"] ++ (if a.acas = 1 then [lit " ACAS"] else []) ++ (if a.cdti = 1 then [lit " CDTI"] else []) ++
      (if a.arv = 1 then [lit " ARV"] else []) ++ (if a.ts = 1 then [lit " TS"] else []) ++ (if a.tc = 1 then [lit " TC"] else [])) ∈
      meReport (.opStatus (.airborne a)) icao "(Mode S / ADS-B)" cap true := by
  simp [meReport]

/-- the operational-mode words of both operational status reports appear exactly when their decoded bits are set; SDA when not 0 -/
theorem om_words (o : OpMode) :
    omPieces o = (if o.ra = 1 then [lit " TCAS"] else []) ++ (if o.ident = 1 then [lit " IDENT_SWITCH_ACTIVE"] else []) ++
      (if o.atc = 1 then [lit " ATC"] else []) ++ (if o.saf = 1 then [lit " SAF"] else []) ++
      (if o.sda ≠ 0 then [lit " SDA=", .nat o.sda] else []) := rfl

/-- a TIS-B / ADS-R report is the same template with "(Non-Transponder)", the address-scheme word of its control field
and the fixed capability word -/
theorem tisb_uses_same_template (cf aa pi crc : Nat) (me : ME) :
    report ⟨.tisb cf aa me pi, crc⟩ = meReport me aa (cfWord cf) ⟨7, 0⟩ false := rfl

theorem adsb_uses_template (ca : Cap) (icao pi crc : Nat) (me : ME) :
    report ⟨.adsb ca icao me pi, crc⟩ = meReport me icao "(Mode S / ADS-B)" ca true := rfl

end Adsb.C11
