import Adsb.Lemmas.TrackerL
/-! # C12 — tracker: one record per announced address, exact accounting, isolation

All theorems hold for every geometry `g` (CPR pairing, distance, range and jump tests), every clock
reading and both build configurations (`std`). -/

namespace Adsb.C12
open Adsb
set_option linter.unusedSimpArgs false
variable {P D : Type}

/-- what one tracked frame does to the record of its address (independent of every other record) -/
def stepPlane (g : Geo P D) (std : Bool) (now : Nat) (st : Plane P D) (me : ME) : Plane P D :=
  let st := match me with
    | .ident i => { st with callsign := some i.cn }
    | .velocity v => (match v.calc with
        | some r => { st with vel := some r }
        | none => st)
    | .airPosBaro a => updatePosition g std now st a
    | .airPosGnss a => updatePosition g std now st a
    | _ => st
  { st with numMessages := st.numMessages + 1, lastTime := if std then now else st.lastTime }

theorem action_tracked (g : Geo P D) (std : Bool) (now : Nat) (s : Airplanes P D) (df : DF) (k : Nat) (me : ME)
    (h : frameKey df = some (k, me)) :
    action g std now s df = (s.put k (stepPlane g std now (entryOrInsert s k now).1 me), (entryOrInsert s k now).2) := by
  unfold action
  rw [h]
  cases me <;> rfl

/-- **frames of other downlink formats change nothing** -/
theorem other_formats_noop (g : Geo P D) (std : Bool) (now : Nat) (s : Airplanes P D) (df : DF) (h : frameKey df = none) :
    action g std now s df = (s, false) := by
  unfold action; rw [h]

/-- only DF17 and DF18 are tracked, under their announced address -/
theorem tracked_formats (df : DF) :
    (∃ k me, frameKey df = some (k, me)) ↔ (∃ ca icao me pi, df = .adsb ca icao me pi) ∨ (∃ cf aa me pi, df = .tisb cf aa me pi) := by
  cases df <;> simp [frameKey]

theorem key_is_announced (df : DF) (k : Nat) (me : ME) (h : frameKey df = some (k, me)) :
    (∃ ca pi, df = .adsb ca k me pi) ∨ (∃ cf pi, df = .tisb cf k me pi) := by
  cases df <;> simp [frameKey] at h
  · obtain ⟨rfl, rfl⟩ := h; left; exact ⟨_, _, rfl⟩
  · obtain ⟨rfl, rfl⟩ := h; right; exact ⟨_, _, rfl⟩

/-- **'added' exactly when the address was not tracked before the frame** -/
theorem added_iff_new (g : Geo P D) (std : Bool) (now : Nat) (s : Airplanes P D) (df : DF) :
    (action g std now s df).2 = true ↔ ∃ k me, frameKey df = some (k, me) ∧ s.get k = none := by
  cases hk : frameKey df with
  | none => rw [other_formats_noop g std now s df hk]; simp
  | some km =>
    obtain ⟨k, me⟩ := km
    rw [action_tracked g std now s df k me hk]
    unfold entryOrInsert
    cases hg : s.get k with
    | none => simp [hg]
    | some p => simp [hg]

/-- **message count**: a tracked frame adds exactly one to its record's count, starting from 0 for a new record -/
theorem count_step (g : Geo P D) (std : Bool) (now : Nat) (s : Airplanes P D) (df : DF) (k : Nat) (me : ME)
    (h : frameKey df = some (k, me)) :
    ∃ p, (action g std now s df).1.get k = some p ∧
      p.numMessages = (match s.get k with | some q => q.numMessages | none => 0) + 1 := by
  rw [action_tracked g std now s df k me h]
  refine ⟨_, get_put_same _ _ _, ?_⟩
  have hupd : ∀ (st : Plane P D) (a : Alt), (updatePosition g std now st a).numMessages = st.numMessages := by
    intro st a
    unfold updatePosition
    simp only []
    split
    · split <;> rfl
    · rfl
  unfold stepPlane entryOrInsert
  cases hg : s.get k with
  | none =>
    cases me <;> simp only [] <;> try rfl
    · exact congrArg (· + 1) (hupd _ _)
    · rename_i v; cases v.calc <;> rfl
    · exact congrArg (· + 1) (hupd _ _)
  | some q =>
    cases me <;> simp only [] <;> try rfl
    · exact congrArg (· + 1) (hupd _ _)
    · rename_i v; cases v.calc <;> rfl
    · exact congrArg (· + 1) (hupd _ _)

/-- **isolation, one step**: a frame never changes the record of another address -/
theorem isolation_step (g : Geo P D) (std : Bool) (now : Nat) (s : Airplanes P D) (df : DF) (k2 : Nat)
    (h : ∀ k me, frameKey df = some (k, me) → k ≠ k2) :
    (action g std now s df).1.get k2 = s.get k2 := by
  cases hk : frameKey df with
  | none => rw [other_formats_noop g std now s df hk]
  | some km =>
    obtain ⟨k, me⟩ := km
    rw [action_tracked g std now s df k me hk]
    exact get_put_other _ _ _ _ (fun e => h k me hk e.symm)

/-- a frame's effect on its own address depends only on that address's record -/
theorem own_record_step (g : Geo P D) (std : Bool) (now : Nat) (s s' : Airplanes P D) (df : DF) (k : Nat) (me : ME)
    (h : frameKey df = some (k, me)) (hsame : s.get k = s'.get k) :
    (action g std now s df).1.get k = (action g std now s' df).1.get k ∧ (action g std now s df).2 = (action g std now s' df).2 := by
  rw [action_tracked g std now s df k me h, action_tracked g std now s' df k me h, get_put_same, get_put_same]
  unfold entryOrInsert
  rw [hsame]
  exact ⟨rfl, rfl⟩

/-- a history: clock reading and frame per step -/
def run (g : Geo P D) (std : Bool) (s : Airplanes P D) : List (Nat × DF) → Airplanes P D
  | [] => s
  | (now, df) :: rest => run g std (action g std now s df).1 rest

def concerns (a : Nat) (df : DF) : Bool := match frameKey df with | some (k, _) => k == a | none => false

/-- **isolation**: the record of an address after any interleaved history is the record after the sub-history of
its own frames: traffic from other aircraft never changes it -/
theorem isolation (g : Geo P D) (std : Bool) (a : Nat) (h : List (Nat × DF)) (s s' : Airplanes P D) (hs : s.get a = s'.get a) :
    (run g std s h).get a = (run g std s' (h.filter (fun e => concerns a e.2))).get a := by
  induction h generalizing s s' with
  | nil => exact hs
  | cons e rest ih =>
    obtain ⟨now, df⟩ := e
    simp only [run, List.filter_cons]
    by_cases hc : concerns a df = true
    · simp only [hc, if_true, run]
      apply ih
      unfold concerns at hc
      cases hk : frameKey df with
      | none => rw [hk] at hc; cases hc
      | some km =>
        obtain ⟨k, me⟩ := km
        rw [hk] at hc
        have hka : k = a := by simpa using hc
        subst hka
        exact (own_record_step g std now s s' df k me hk hs).1
    · have hc' : concerns a df = false := by simpa using hc
      simp only [hc', if_false]
      apply ih
      rw [isolation_step g std now s df a]
      · exact hs
      · intro k me hk hka
        unfold concerns at hc'
        rw [hk] at hc'
        simp [hka] at hc'

/-- **one record per address**: keys stay strictly increasing through every action and expiry -/
theorem sorted_action (g : Geo P D) (std : Bool) (now : Nat) (s : Airplanes P D) (df : DF) (hs : Sorted s) :
    Sorted (action g std now s df).1 := by
  cases hk : frameKey df with
  | none => rw [other_formats_noop g std now s df hk]; exact hs
  | some km =>
    obtain ⟨k, me⟩ := km
    rw [action_tracked g std now s df k me hk]
    exact sorted_put _ _ _ hs

theorem sorted_prune (T now : Nat) (s : Airplanes P D) (hs : Sorted s) : Sorted (prune T now s) :=
  sorted_filter s _ hs

/-- **the tracked set grows only by the frame's own address and shrinks only through expiry** -/
theorem keys_action (g : Geo P D) (std : Bool) (now : Nat) (s : Airplanes P D) (df : DF) (k2 : Nat) :
    ((action g std now s df).1.get k2).isSome ↔ ((s.get k2).isSome ∨ ∃ me, frameKey df = some (k2, me)) := by
  cases hk : frameKey df with
  | none => rw [other_formats_noop g std now s df hk]; simp
  | some km =>
    obtain ⟨k, me⟩ := km
    rw [action_tracked g std now s df k me hk]
    by_cases e : k2 = k
    · subst e; rw [get_put_same]; simp
    · rw [get_put_other _ _ _ _ e]
      constructor
      · intro h; left; exact h
      · rintro (h | ⟨me', hme⟩)
        · exact h
        · cases hme; exact absurd rfl e

/-! ## non-vacuity (tests) -/
example : (action (P := Nat) (D := Nat) ⟨fun _ _ => none, fun _ => 0, fun _ _ => 0, fun _ => false, fun _ => false, (· == ·), (· == ·)⟩ true 5 []
    (.adsb ⟨5, 0⟩ 0xABCDEF (.noPosition 0) 0)).2 = true := by decide

end Adsb.C12
