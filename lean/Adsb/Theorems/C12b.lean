import Adsb.Theorems.C15
/-! # C12 / C15 — accounting over whole histories with expiry: refinement to a two-field abstract record

The abstract state of one address is `Option (count, lastHeard)`. A frame of that address (DF17 / DF18) creates the
record with count 1 or adds one and stamps the time; every other frame does nothing; expiry with threshold `T` at clock
reading `now` removes the record iff it was last heard `T` or more seconds ago. `account_refines` shows that the
tracker (std build), projected to any single address, *is* this machine — for every history of frames and expiries.
"Count = frames since (re)added", "added iff absent", "shrinks only through expiry", isolation and the expiry rule are
corollaries. -/

namespace Adsb.C12b
open Adsb Adsb.C12 Adsb.C15
set_option linter.unusedSimpArgs false
variable {P D : Type}

inductive Op where
  | act (now : Nat) (df : DF)
  | prune (T now : Nat)

def runOps (g : Geo P D) (s : Airplanes P D) : List Op → Airplanes P D
  | [] => s
  | .act now df :: rest => runOps g (action g true now s df).1 rest
  | .prune T now :: rest => runOps g (prune T now s) rest

/-- what the accounting sees of a record: message count and time last heard -/
def absRec (p : Plane P D) : Nat × Nat := (p.numMessages, p.lastTime)

/-- the abstract machine of one address -/
def specStep (a : Nat) (r : Option (Nat × Nat)) : Op → Option (Nat × Nat)
  | .act now df => if concerns a df then some ((match r with | some (c, _) => c | none => 0) + 1, now) else r
  | .prune T now => match r with
    | some (c, lh) => if now - lh < 1000 * T ∧ lh ≤ now then some (c, lh) else none
    | none => none

theorem updatePosition_count (g : Geo P D) (std : Bool) (now : Nat) (st : Plane P D) (a : Alt) :
    (updatePosition g std now st a).numMessages = st.numMessages := by
  unfold updatePosition
  simp only []
  split
  · split <;> rfl
  · rfl

theorem stepPlane_count (g : Geo P D) (std : Bool) (now : Nat) (st : Plane P D) (me : ME) :
    (stepPlane g std now st me).numMessages = st.numMessages + 1 := by
  unfold stepPlane
  cases me <;> simp only [] <;> try rfl
  · exact congrArg (· + 1) (updatePosition_count _ _ _ _ _)
  · rename_i v; cases v.calc <;> rfl
  · exact congrArg (· + 1) (updatePosition_count _ _ _ _ _)

theorem concerns_iff (a : Nat) (df : DF) : concerns a df = true ↔ ∃ me, frameKey df = some (a, me) := by
  unfold concerns
  cases h : frameKey df with
  | none => simp
  | some km => obtain ⟨k, me⟩ := km; simp

/-- one step of the refinement -/
theorem account_step (g : Geo P D) (a : Nat) (s : Airplanes P D) (hs : Sorted s) (op : Op) :
    ((runOps g s [op]).get a).map absRec = specStep a ((s.get a).map absRec) op ∧ Sorted (runOps g s [op]) := by
  cases op with
  | act now df =>
    refine ⟨?_, sorted_action g true now s df hs⟩
    simp only [runOps, specStep]
    by_cases hc : concerns a df = true
    · obtain ⟨me, hk⟩ := (concerns_iff a df).mp hc
      rw [if_pos hc, action_tracked g true now s df a me hk, get_put_same]
      simp only [Option.map_some, absRec, stepPlane_count, last_time_refreshed]
      unfold entryOrInsert
      cases s.get a <;> rfl
    · rw [if_neg hc]
      rw [isolation_step g true now s df a]
      intro k me hk hka
      exact hc ((concerns_iff a df).mpr ⟨me, by rw [hk, hka]⟩)
  | prune T now =>
    refine ⟨?_, sorted_prune T now s hs⟩
    simp only [runOps, specStep]
    rw [prune_exact T now s hs a]
    cases s.get a with
    | none => rfl
    | some p =>
      simp only [Option.map_some, absRec, alive, Bool.and_eq_true, decide_eq_true_eq]
      split <;> rfl

/-- **refinement**: for every history of frames and expiries, the tracker projected to one address is the abstract
accounting machine of that address -/
theorem account_refines (g : Geo P D) (a : Nat) (ops : List Op) : ∀ (s : Airplanes P D), Sorted s →
    ((runOps g s ops).get a).map absRec = ops.foldl (specStep a) ((s.get a).map absRec) ∧ Sorted (runOps g s ops) := by
  induction ops with
  | nil => intro s hs; exact ⟨rfl, hs⟩
  | cons op rest ih =>
    intro s hs
    obtain ⟨h1, h2⟩ := account_step g a s hs op
    have hrun : runOps g s (op :: rest) = runOps g (runOps g s [op]) rest := by cases op <;> rfl
    rw [hrun, List.foldl_cons, ← h1]
    exact ih _ h2

/-- number of frames of address `a` in a list of operations -/
def framesOf (a : Nat) : List Op → Nat
  | [] => 0
  | .act _ df :: rest => (if concerns a df then 1 else 0) + framesOf a rest
  | .prune _ _ :: rest => framesOf a rest

def noPrune : List Op → Bool
  | [] => true
  | .act _ _ :: rest => noPrune rest
  | .prune _ _ :: _ => false

theorem fold_count (a : Nat) (ops : List Op) (h : noPrune ops = true) : ∀ r : Option (Nat × Nat),
    ((ops.foldl (specStep a) r).map (·.1)).getD 0 = (r.map (·.1)).getD 0 + framesOf a ops := by
  induction ops with
  | nil => intro r; simp [framesOf]
  | cons op rest ih =>
    intro r
    cases op with
    | prune T now => simp [noPrune] at h
    | act now df =>
      simp only [List.foldl_cons, specStep, framesOf]
      rw [ih (by simpa [noPrune] using h)]
      by_cases hc : concerns a df = true
      · simp only [hc, if_true]
        cases r with
        | none => simp
        | some cl => obtain ⟨c, l⟩ := cl; simp; omega
      · simp [hc]

/-- **message count = number of DF17/DF18 frames from the address since it was added** (no expiry in between), starting
from the empty tracker; in particular traffic from other addresses and frames of other formats do not count -/
theorem count_eq_frames (g : Geo P D) (a : Nat) (ops : List Op) (h : noPrune ops = true) :
    (((runOps g [] ops).get a).map (·.numMessages)).getD 0 = framesOf a ops := by
  have hr := (account_refines g a ops [] trivial).1
  have hc := fold_count a ops h none
  have : ((runOps g [] ops).get a).map (·.numMessages) = (((runOps g [] ops).get a).map absRec).map (·.1) := by
    cases (runOps g [] ops).get a <;> rfl
  rw [this, hr]
  simpa [Airplanes.get] using hc

/-- **after an expiry that removes the address, the count restarts**: the count after `pre ++ [prune] ++ post` (the address
absent right after the expiry) is the number of its frames in `post` alone -/
theorem count_restarts (g : Geo P D) (a : Nat) (pre post : List Op) (T now : Nat) (hpost : noPrune post = true)
    (hgone : (runOps g [] (pre ++ [.prune T now])).get a = none) :
    (((runOps g [] (pre ++ [.prune T now] ++ post)).get a).map (·.numMessages)).getD 0 = framesOf a post := by
  have happ : ∀ (l1 l2 : List Op) (s : Airplanes P D), runOps g s (l1 ++ l2) = runOps g (runOps g s l1) l2 := by
    intro l1
    induction l1 with
    | nil => intro l2 s; rfl
    | cons op rest ih => intro l2 s; cases op <;> exact ih _ _
  have hsorted := (account_refines g a (pre ++ [.prune T now]) [] trivial).2
  rw [happ]
  have hr := (account_refines g a post _ hsorted).1
  have hc := fold_count a post hpost none
  have : ∀ s : Airplanes P D, (s.get a).map (·.numMessages) = ((s.get a).map absRec).map (·.1) := by
    intro s; cases s.get a <;> rfl
  rw [this, hr, hgone]
  simpa using hc

/-! ## non-vacuity (tests): a history with a frame, an expiry that removes it, and a frame again -/
example : [Op.act 0 (.adsb ⟨5, 0⟩ 0xABCDEF (.noPosition 0) 0), Op.prune 1 5000, Op.act 6000 (.adsb ⟨5, 0⟩ 0xABCDEF (.noPosition 0) 0)].foldl
    (specStep 0xABCDEF) none = some (1, 6000) := by decide

end Adsb.C12b
