import Adsb.Theorems.C12
/-! # C13 — the tracker publishes only plausible CPR positions and clears stale pairs -/

namespace Adsb.C13
open Adsb Adsb.C12
set_option linter.unusedSimpArgs false
variable {P D : Type}

/-- the slots after storing report `a`: the report replaces the slot of its own parity -/
def store (c : Coor P D) (a : Alt) : Coor P D := if a.f = 0 then { c with even := some a } else { c with odd := some a }

/-- the plausibility test of a candidate position `p` against the published one -/
def plausible (g : Geo P D) (cur : Option P) (p : P) : Bool :=
  !g.outOfRange (g.rxDist p) && (match cur with | some c => !g.jump (g.dist c p) | none => true)

/-- **publish or clear**: with both reports stored, the candidate is the CPR pairing of exactly those two reports;
it is published (with its distance from the receiver) iff it is in range and within the jump limit of the
previously published position; otherwise — also when the pair does not decode — nothing of the record survives -/
theorem update_both_slots (g : Geo P D) (std : Bool) (now : Nat) (c : Coor P D) (e o : Alt)
    (he : c.even = some e) (ho : c.odd = some o) :
    Coor.update g std now c =
      match g.getPos e o with
      | none => none
      | some p => if plausible g c.pos p
                  then some { c with pos := some p, kd := some (g.rxDist p), lastTime := if std then some now else c.lastTime }
                  else none := by
  unfold Coor.update plausible
  rw [he, ho]
  simp only []
  cases hp : g.getPos e o with
  | none => rfl
  | some p =>
    simp only []
    cases hr : g.outOfRange (g.rxDist p) with
    | true => simp
    | false =>
      simp only [Bool.not_false, Bool.true_and]
      cases hc : c.pos with
      | none => simp
      | some cur =>
        simp only []
        by_cases hj : g.jump (g.dist cur p) = true
        · simp [hj]
        · have hj' : g.jump (g.dist cur p) = false := by simpa using hj
          simp [hj']

/-- with only one report stored there is nothing to pair: the slots are kept as they are -/
theorem update_one_slot (g : Geo P D) (std : Bool) (now : Nat) (c : Coor P D) (h : c.even = none ∨ c.odd = none) :
    Coor.update g std now c = some c := by
  unfold Coor.update
  rcases h with h | h
  · rw [h]
  · rw [h]; cases c.even <;> rfl

/-- **the whole position record is cleared** whenever the update is rejected -/
theorem rejected_clears (g : Geo P D) (std : Bool) (now : Nat) (st : Plane P D) (a : Alt)
    (h : Coor.update g std now (store st.coords a) = none) :
    (updatePosition g std now st a).coords.even = none ∧ (updatePosition g std now st a).coords.odd = none ∧
    (updatePosition g std now st a).coords.pos = none ∧ (updatePosition g std now st a).coords.kd = none := by
  unfold updatePosition
  have : (if a.f = 0 then { st.coords with even := some a } else { st.coords with odd := some a } : Coor P D) = store st.coords a := rfl
  simp [this, h]

/-- the invariant of a record's coordinates: a published position is the pairing of the two stored reports,
its distance is the distance from the receiver, and a distance is present exactly when a position is -/
def CoorInv (g : Geo P D) (c : Coor P D) : Prop :=
  (c.pos.isSome = c.kd.isSome) ∧
  (∀ p, c.pos = some p → ∃ e o, c.even = some e ∧ c.odd = some o ∧ g.getPos e o = some p ∧ c.kd = some (g.rxDist p) ∧
      g.outOfRange (g.rxDist p) = false)

theorem coorInv_default (g : Geo P D) : CoorInv g ({} : Coor P D) := ⟨rfl, fun p h => by cases h⟩

theorem store_even_odd (c : Coor P D) (a : Alt) :
    (a.f = 0 → (store c a).even = some a ∧ (store c a).odd = c.odd) ∧ (a.f ≠ 0 → (store c a).odd = some a ∧ (store c a).even = c.even) ∧
    (store c a).pos = c.pos ∧ (store c a).kd = c.kd := by
  unfold store
  by_cases h : a.f = 0 <;> simp [h]

/-- **invariant step**: position updates preserve the invariant -/
theorem coorInv_update (g : Geo P D) (std : Bool) (now : Nat) (st : Plane P D) (a : Alt) (hinv : CoorInv g st.coords) :
    CoorInv g (updatePosition g std now st a).coords := by
  unfold updatePosition
  have hst : (if a.f = 0 then { st.coords with even := some a } else { st.coords with odd := some a } : Coor P D) = store st.coords a := rfl
  simp only [hst]
  cases hu : Coor.update g std now (store st.coords a) with
  | none => simp only []; exact coorInv_default g
  | some t =>
    simp only []
    split
    · exact hinv
    · simp only []
      -- t is either the stored slots unchanged (one slot) or a freshly published pairing
      cases hev : (store st.coords a).even with
      | none =>
        rw [update_one_slot g std now _ (Or.inl hev)] at hu
        cases hu
        have hpos : (store st.coords a).pos = none := by
          have := (store_even_odd st.coords a).2.2.1
          rw [this]
          cases hp : st.coords.pos with
          | none => rfl
          | some p =>
            obtain ⟨e, o, he, ho, _⟩ := hinv.2 p hp
            -- the even slot of the stored coordinates is some: contradiction
            by_cases hf : a.f = 0
            · have := ((store_even_odd st.coords a).1 hf).1; rw [this] at hev; cases hev
            · have := ((store_even_odd st.coords a).2.1 hf).2; rw [this, he] at hev; cases hev
        have hkd : (store st.coords a).kd = none := by
          have h1 := (store_even_odd st.coords a).2.2.2
          have h2 := (store_even_odd st.coords a).2.2.1
          rw [h2] at hpos
          rw [h1]
          have := hinv.1; rw [hpos] at this
          cases hk : st.coords.kd with
          | none => rfl
          | some d => rw [hk] at this; cases this
        exact ⟨by rw [hpos, hkd]; rfl, fun p hp => by rw [hpos] at hp; cases hp⟩
      | some e =>
        cases hod : (store st.coords a).odd with
        | none =>
          rw [update_one_slot g std now _ (Or.inr hod)] at hu
          cases hu
          have hpos : (store st.coords a).pos = none := by
            have := (store_even_odd st.coords a).2.2.1
            rw [this]
            cases hp : st.coords.pos with
            | none => rfl
            | some p =>
              obtain ⟨e', o, he, ho, _⟩ := hinv.2 p hp
              by_cases hf : a.f = 0
              · have := ((store_even_odd st.coords a).1 hf).2; rw [this, ho] at hod; cases hod
              · have := ((store_even_odd st.coords a).2.1 hf).1; rw [this] at hod; cases hod
          have hkd : (store st.coords a).kd = none := by
            have h1 := (store_even_odd st.coords a).2.2.2
            have h2 := (store_even_odd st.coords a).2.2.1
            rw [h2] at hpos
            rw [h1]
            have := hinv.1; rw [hpos] at this
            cases hk : st.coords.kd with
            | none => rfl
            | some d => rw [hk] at this; cases this
          exact ⟨by rw [hpos, hkd]; rfl, fun p hp => by rw [hpos] at hp; cases hp⟩
        | some o =>
          rw [update_both_slots g std now _ e o hev hod] at hu
          cases hp : g.getPos e o with
          | none => rw [hp] at hu; cases hu
          | some p =>
            rw [hp] at hu
            simp only [] at hu
            by_cases hpl : plausible g (store st.coords a).pos p = true
            · rw [if_pos hpl] at hu
              cases hu
              refine ⟨rfl, fun q hq => ?_⟩
              cases hq
              refine ⟨e, o, hev, hod, hp, rfl, ?_⟩
              unfold plausible at hpl
              cases hr : g.outOfRange (g.rxDist p) with
              | false => rfl
              | true => rw [hr] at hpl; simp at hpl
            · rw [if_neg hpl] at hu; cases hu

/-- **every reachable state satisfies the invariant**: by induction over histories, for all records -/
def AllInv (g : Geo P D) (s : Airplanes P D) : Prop := ∀ k p, s.get k = some p → CoorInv g p.coords

theorem allInv_action (g : Geo P D) (std : Bool) (now : Nat) (s : Airplanes P D) (df : DF) (h : AllInv g s) :
    AllInv g (action g std now s df).1 := by
  cases hk : frameKey df with
  | none => rw [other_formats_noop g std now s df hk]; exact h
  | some km =>
    obtain ⟨k, me⟩ := km
    rw [action_tracked g std now s df k me hk]
    intro k2 p hp
    by_cases e : k2 = k
    · subst e
      rw [get_put_same] at hp
      cases hp
      have hold : CoorInv g (entryOrInsert s k2 now).1.coords := by
        unfold entryOrInsert
        cases hg : s.get k2 with
        | none => exact coorInv_default g
        | some q => exact h k2 q hg
      unfold stepPlane
      cases me <;> simp only [] <;> try exact hold
      · exact coorInv_update g std now _ _ hold
      · rename_i v; cases v.calc <;> exact hold
      · exact coorInv_update g std now _ _ hold
    · rw [get_put_other _ _ _ _ e] at hp
      exact h k2 p hp

theorem allInv_run (g : Geo P D) (std : Bool) (hist : List (Nat × DF)) (s : Airplanes P D) (h : AllInv g s) :
    AllInv g (run g std s hist) := by
  induction hist generalizing s with
  | nil => exact h
  | cons e rest ih => obtain ⟨now, df⟩ := e; exact ih _ (allInv_action g std now s df h)

/-- **in every reachable state** a published position is the CPR pairing of the stored even and odd report, lies within
range, and its distance is the distance from the receiver -/
theorem published_is_pairing (g : Geo P D) (std : Bool) (hist : List (Nat × DF)) (k : Nat) (pl : Plane P D) (p : P)
    (hg : (run g std [] hist).get k = some pl) (hp : pl.coords.pos = some p) :
    ∃ e o, pl.coords.even = some e ∧ pl.coords.odd = some o ∧ g.getPos e o = some p ∧ pl.coords.kd = some (g.rxDist p) ∧
      g.outOfRange (g.rxDist p) = false :=
  (allInv_run g std hist [] (fun _ _ h => by cases h) k pl hg).2 p hp

/-! ### the receiver may move between calls

`action` takes the receiver position with every call (radar refreshes it from gpsd), so the geometry `g` of one call need not be the one
of the calls before. Nothing is assumed about the record here — not the invariant, which speaks of one receiver. -/

/-- **the distance is measured from the receiver of *this* call**: whatever happened before, when a position report is processed under
geometry `g` with both slots then filled and the record is not cleared, the reported distance is the distance from `g`'s receiver to the
pairing of the two stored reports — also when the report is the very one already stored and only the receiver has moved (the "nothing new"
shortcut compares the distance too; seed C13_f dropped that comparison). `==` on distances is assumed to be equality (no NaN distance is
ever stored: `outOfRange` rejects it). -/
theorem distance_is_from_this_call (g : Geo P D) (std : Bool) (now : Nat) (st : Plane P D) (a e o : Alt)
    (he : (store st.coords a).even = some e) (ho : (store st.coords a).odd = some o)
    (hdeq : ∀ x y, g.deq x y = true → x = y)
    (hpub : (updatePosition g std now st a).coords.pos.isSome = true) :
    ∃ q, g.getPos e o = some q ∧ (updatePosition g std now st a).coords.kd = some (g.rxDist q) := by
  unfold updatePosition at hpub ⊢
  have hst : (if a.f = 0 then { st.coords with even := some a } else { st.coords with odd := some a } : Coor P D) = store st.coords a := rfl
  simp only [hst] at hpub ⊢
  rw [update_both_slots g std now _ e o he ho] at hpub ⊢
  cases hp : g.getPos e o with
  | none => rw [hp] at hpub; simp at hpub
  | some q =>
    rw [hp] at hpub
    simp only [] at hpub ⊢
    by_cases hpl : plausible g (store st.coords a).pos q = true
    · rw [if_pos hpl] at hpub ⊢
      simp only [] at hpub ⊢
      refine ⟨q, rfl, ?_⟩
      cases hsame : Coor.same g st.coords ⟨(store st.coords a).even, (store st.coords a).odd, some q,
          (if std = true then some now else (store st.coords a).lastTime), some (g.rxDist q)⟩ with
      | false => simp only [Bool.false_eq_true, if_false]
      | true =>
        -- "same coords": the stored distance is `==` to the recomputed one
        simp only [if_true]
        unfold Coor.same at hsame
        simp only [Bool.and_eq_true] at hsame
        have hk := hsame.2
        cases hkd : st.coords.kd with
        | none => rw [hkd] at hk; simp [optEq] at hk
        | some d =>
          rw [hkd] at hk
          simp only [optEq] at hk
          rw [hdeq d _ hk]
    · rw [if_neg hpl] at hpub
      simp at hpub

/-- non-vacuity of `distance_is_from_this_call`, and the moved-receiver case itself, on a toy geometry (positions and distances are numbers,
the receiver stands at `r`): the same odd report again after the receiver moved from 0 to 5 — the distance follows the receiver -/
def toyGeo (r : Nat) : Geo Nat Nat :=
  { getPos := fun e o => some (e.lat + o.lat), rxDist := fun p => if p ≥ r then p - r else r - p, dist := fun p q => if p ≥ q then p - q else q - p,
    outOfRange := fun d => decide (d > 100), jump := fun d => decide (d > 10), peq := fun a b => a == b, deq := fun a b => a == b }
example :
    let e : Alt := ⟨11, 0, 0, none, 0, 0, 20, 0⟩; let o : Alt := ⟨11, 0, 0, none, 0, 1, 22, 0⟩
    let s1 := updatePosition (toyGeo 0) true 0 (updatePosition (toyGeo 0) true 0 ({} : Plane Nat Nat) e) o
    let s2 := updatePosition (toyGeo 5) true 0 s1 o
    s1.coords.pos = some 42 ∧ s1.coords.kd = some 42 ∧ s2.coords.pos = some 42 ∧ s2.coords.kd = some 37 := by decide

end Adsb.C13
