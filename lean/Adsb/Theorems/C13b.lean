import Adsb.TrackerF
import Adsb.Gen.Formulas
import Adsb.Theorems.C13
import Mathlib.Analysis.SpecialFunctions.Trigonometric.Inverse
import Mathlib.Analysis.SpecialFunctions.Complex.Arg
import Mathlib.Tactic.Linarith
import Mathlib.Tactic.Ring
import Mathlib.Tactic.LinearCombination
/-! # C13 (part 2) — the reported distance is the great-circle distance (Mathlib, ℝ)

`haversineG` is the model of `haversine_distance` (generic in the arithmetic and in the `libm` functions; the driver
evaluates it over `Float`, tied to the implementation by the `T`/`H` operations of the correspondence). Here it is
instantiated with the real numbers, `Real.sin`, `Real.cos`, `Real.sqrt` and `atan2 y x = arg (x + y·i)`, and proved equal
to the specification written independently of the formula: *Earth radius × the angle between the two unit vectors*.
What is not covered: the `f64` rounding of the same expression (numeric tie, DESIGN §8). -/

namespace Adsb.C13b
open Real

noncomputable def realHav : HavOps ℝ :=
  { add := (· + ·), sub := (· - ·), mul := (· * ·), div := (· / ·), lit := fun n => (n : ℝ), pi := π,
    sin := Real.sin, cos := Real.cos, sqrt := Real.sqrt,
    atan2 := fun y x => Complex.arg ⟨x, y⟩, max0 := fun d => max d 0 }

/-- `haversine_distance` over the reals; points are `(latitude, longitude)` in degrees -/
noncomputable def hav (p q : ℝ × ℝ) : ℝ := haversineG realHav p q

noncomputable def rad (x : ℝ) : ℝ := x * (π / 180)

/-! ## the specification: radius × central angle -/

/-- the point of the unit sphere at `(lat, lon)` degrees -/
noncomputable def unitVec (p : ℝ × ℝ) : ℝ × ℝ × ℝ :=
  (cos (rad p.1) * cos (rad p.2), cos (rad p.1) * sin (rad p.2), sin (rad p.1))

def dot (u v : ℝ × ℝ × ℝ) : ℝ := u.1 * v.1 + u.2.1 * v.2.1 + u.2.2 * v.2.2

/-- great-circle distance in km on a sphere of radius 6371 km -/
noncomputable def greatCircle (p q : ℝ × ℝ) : ℝ := 6371 * arccos (dot (unitVec p) (unitVec q))

/-! ## helper facts -/

theorem sin_sq_half (x : ℝ) : sin (x / 2) * sin (x / 2) = (1 - cos x) / 2 := by
  have h := Real.cos_two_mul (x / 2)
  have e : 2 * (x / 2) = x := by ring
  rw [e] at h
  nlinarith [Real.sin_sq_add_cos_sq (x / 2)]

/-- the haversine term `a` -/
noncomputable def havA (p q : ℝ × ℝ) : ℝ :=
  sin ((rad q.1 - rad p.1) / 2) * sin ((rad q.1 - rad p.1) / 2)
    + cos (rad p.1) * cos (rad q.1) * sin ((rad q.2 - rad p.2) / 2) * sin ((rad q.2 - rad p.2) / 2)

theorem hav_unfold (p q : ℝ × ℝ) :
    hav p q = 6371 * (2 * Complex.arg ⟨sqrt (max (1 - havA p q) 0), sqrt (havA p q)⟩) := by
  unfold hav haversineG realHav havA rad
  simp only [Gen.earthRadius, Nat.cast_ofNat, Nat.cast_one]

/-- `1 − 2a` is the cosine of the central angle -/
theorem one_sub_two_a (p q : ℝ × ℝ) : 1 - 2 * havA p q = dot (unitVec p) (unitVec q) := by
  unfold havA dot unitVec
  simp only
  have e1 : ∀ x y : ℝ, cos x * cos y * sin ((rad q.2 - rad p.2) / 2) * sin ((rad q.2 - rad p.2) / 2)
      = cos x * cos y * (sin ((rad q.2 - rad p.2) / 2) * sin ((rad q.2 - rad p.2) / 2)) := by intros; ring
  rw [e1, sin_sq_half, sin_sq_half, Real.cos_sub, Real.cos_sub]
  ring

theorem cos_rad_nonneg (x : ℝ) (h : |x| ≤ 90) : 0 ≤ cos (rad x) := by
  have hp := Real.pi_pos
  obtain ⟨h1, h2⟩ := abs_le.mp h
  apply Real.cos_nonneg_of_neg_pi_div_two_le_of_le <;> unfold rad <;> nlinarith

theorem havA_nonneg (p q : ℝ × ℝ) (hp : |p.1| ≤ 90) (hq : |q.1| ≤ 90) : 0 ≤ havA p q := by
  unfold havA
  have h1 := cos_rad_nonneg _ hp
  have h2 := cos_rad_nonneg _ hq
  have := mul_self_nonneg (sin ((rad q.1 - rad p.1) / 2))
  have h3 := mul_self_nonneg (sin ((rad q.2 - rad p.2) / 2))
  have : 0 ≤ cos (rad p.1) * cos (rad q.1) * (sin ((rad q.2 - rad p.2) / 2) * sin ((rad q.2 - rad p.2) / 2)) :=
    mul_nonneg (mul_nonneg h1 h2) h3
  nlinarith

theorem havA_le_one (p q : ℝ × ℝ) (hp : |p.1| ≤ 90) (hq : |q.1| ≤ 90) : havA p q ≤ 1 := by
  unfold havA
  have h1 := cos_rad_nonneg _ hp
  have h2 := cos_rad_nonneg _ hq
  have hs : sin ((rad q.2 - rad p.2) / 2) * sin ((rad q.2 - rad p.2) / 2) ≤ 1 := by
    nlinarith [Real.sin_sq_add_cos_sq ((rad q.2 - rad p.2) / 2), mul_self_nonneg (cos ((rad q.2 - rad p.2) / 2))]
  have hc : cos (rad p.1) * cos (rad q.1) * (sin ((rad q.2 - rad p.2) / 2) * sin ((rad q.2 - rad p.2) / 2))
      ≤ cos (rad p.1) * cos (rad q.1) := by
    have := mul_le_mul_of_nonneg_left hs (mul_nonneg h1 h2)
    linarith
  have e : sin ((rad q.1 - rad p.1) / 2) * sin ((rad q.1 - rad p.1) / 2) = (1 - cos (rad q.1 - rad p.1)) / 2 := sin_sq_half _
  have e2 := Real.cos_sub (rad q.1) (rad p.1)
  have e3 := Real.cos_add (rad q.1) (rad p.1)
  have e4 := Real.cos_le_one (rad q.1 + rad p.1)
  nlinarith

/-- the angle computed by `2·atan2(√a, √(1−a))` is `2·arcsin √a` -/
theorem angle_eq (a : ℝ) (h0 : 0 ≤ a) (h1 : a ≤ 1) :
    Complex.arg ⟨sqrt (max (1 - a) 0), sqrt a⟩ = arcsin (sqrt a) := by
  have hm : max (1 - a) 0 = 1 - a := max_eq_left (by linarith)
  rw [hm, Complex.arg_of_re_nonneg (by simp [Real.sqrt_nonneg])]
  have hn : ‖(⟨sqrt (1 - a), sqrt a⟩ : ℂ)‖ = 1 := by
    rw [Complex.norm_def, Complex.normSq_mk, Real.mul_self_sqrt (by linarith), Real.mul_self_sqrt h0]
    simp
  rw [hn]; simp

theorem sqrt_a_le_one (a : ℝ) (h1 : a ≤ 1) : sqrt a ≤ 1 := by
  rw [show (1 : ℝ) = sqrt 1 by simp]; exact Real.sqrt_le_sqrt h1

/-! ## the property -/

/-- **the haversine formula of the tracker is the great-circle distance on a sphere of radius 6371 km**, for all pairs
of points with latitudes in [−90°, 90°] and arbitrary longitudes (no wrap assumption) -/
theorem haversine_is_great_circle (p q : ℝ × ℝ) (hp : |p.1| ≤ 90) (hq : |q.1| ≤ 90) : hav p q = greatCircle p q := by
  have h0 := havA_nonneg p q hp hq
  have h1 := havA_le_one p q hp hq
  rw [hav_unfold, angle_eq _ h0 h1, greatCircle, ← one_sub_two_a]
  congr 1
  have hs0 : 0 ≤ sqrt (havA p q) := Real.sqrt_nonneg _
  have hs1 := sqrt_a_le_one _ h1
  have ha0 : 0 ≤ arcsin (sqrt (havA p q)) := Real.arcsin_nonneg.mpr hs0
  have ha1 : arcsin (sqrt (havA p q)) ≤ π / 2 := Real.arcsin_le_pi_div_two _
  rw [← Real.arccos_cos (x := 2 * arcsin (sqrt (havA p q))) (by linarith) (by linarith)]
  congr 1
  rw [Real.cos_two_mul, Real.cos_sq', Real.sin_arcsin (by linarith) hs1, Real.sq_sqrt h0]
  ring

/-- the distance is symmetric -/
theorem hav_symm (p q : ℝ × ℝ) (hp : |p.1| ≤ 90) (hq : |q.1| ≤ 90) : hav p q = hav q p := by
  rw [haversine_is_great_circle p q hp hq, haversine_is_great_circle q p hq hp]
  unfold greatCircle dot; congr 2; ring

/-- the distance is never negative and never exceeds half the circumference -/
theorem hav_range (p q : ℝ × ℝ) (hp : |p.1| ≤ 90) (hq : |q.1| ≤ 90) : 0 ≤ hav p q ∧ hav p q ≤ 6371 * π := by
  rw [haversine_is_great_circle p q hp hq]; unfold greatCircle
  constructor
  · exact mul_nonneg (by norm_num) (Real.arccos_nonneg _)
  · exact mul_le_mul_of_nonneg_left (Real.arccos_le_pi _) (by norm_num)

/-- the distance from a point to itself is 0 -/
theorem hav_self (p : ℝ × ℝ) (hp : |p.1| ≤ 90) : hav p p = 0 := by
  rw [haversine_is_great_circle p p hp hp]; unfold greatCircle
  have : dot (unitVec p) (unitVec p) = 1 := by
    unfold dot unitVec; simp only
    nlinarith [Real.sin_sq_add_cos_sq (rad p.1), Real.sin_sq_add_cos_sq (rad p.2)]
  rw [this]; simp

/-- antipodal points are half the circumference apart (the case the `fmax` repair is about) -/
theorem hav_antipodal (lat lon : ℝ) (h : |lat| ≤ 90) : hav (lat, lon) (-lat, lon + 180) = 6371 * π := by
  rw [haversine_is_great_circle _ _ h (by simpa using h)]; unfold greatCircle
  have : dot (unitVec (lat, lon)) (unitVec (-lat, lon + 180)) = -1 := by
    unfold dot unitVec rad; simp only
    have e : (lon + 180) * (π / 180) = lon * (π / 180) + π := by ring
    have e2 : -lat * (π / 180) = -(lat * (π / 180)) := by ring
    rw [e, e2, Real.cos_add_pi, Real.sin_add_pi, Real.cos_neg, Real.sin_neg]
    nlinarith [Real.sin_sq_add_cos_sq (lat * (π / 180)), Real.sin_sq_add_cos_sq (lon * (π / 180))]
  rw [this]; simp

/-- one degree of latitude along a meridian is `6371·π/180` km (≈ 111.19 km): a concrete, non-trivial instance -/
example : hav (10, 20) (11, 20) = 6371 * (π / 180) := by
  rw [haversine_is_great_circle _ _ (by norm_num) (by norm_num)]; unfold greatCircle
  have hp := Real.pi_pos
  have : dot (unitVec (10, 20)) (unitVec (11, 20)) = cos (π / 180) := by
    unfold dot unitVec rad; simp only
    have hc : cos (π / 180) = cos (11 * (π / 180) - 10 * (π / 180)) := by congr 1; ring
    rw [hc, Real.cos_sub]
    linear_combination (cos (10 * (π / 180)) * cos (11 * (π / 180))) * Real.sin_sq_add_cos_sq (20 * (π / 180))
  rw [this, Real.arccos_cos (by positivity) (by nlinarith)]

/-! ## the formula as translated from the source on this run -/

/-- `haversine_distance` as written in `rsadsb_common/src/lib.rs` today (translated by `tools/rust2lean.py`, generic in the number type)
is, term for term, the definition the theorems above are about -/
theorem src_haversine_eq {α : Type} (H : HavOps α) (s o : α × α) : Gen.haversineSrc H s o = haversineG H s o := rfl

/-- **the distance function of the source text is the great-circle distance** (over the reals) -/
theorem src_haversine_is_great_circle (p q : ℝ × ℝ) (hp : |p.1| ≤ 90) (hq : |q.1| ≤ 90) :
    Gen.haversineSrc realHav p q = greatCircle p q := by
  rw [src_haversine_eq]; exact haversine_is_great_circle p q hp hq

/-! ## the plausibility test of the tracker, in great-circle terms -/

open Classical in
/-- the tracker's geometry over the reals: receiver `rx`, maximum range `range` in km; positions are `(latitude, longitude)` in degrees.
The CPR pairing stays a parameter. -/
noncomputable def realGeo (getPos : Alt → Alt → Option (ℝ × ℝ)) (rx : ℝ × ℝ) (range : ℝ) : Geo (ℝ × ℝ) ℝ :=
  { getPos := getPos, rxDist := fun p => hav rx p, dist := fun a b => hav a b,
    outOfRange := fun d => decide (d > range), jump := fun d => decide (d > (Gen.maxAircraftDistance : ℝ)),
    peq := fun a b => decide (a = b), deq := fun a b => decide (a = b) }

/-- **a candidate position passes the tracker's test exactly when it lies within the configured range of the receiver and within 100 km
of the previously published position, both measured along the great circle on a sphere of radius 6371 km** -/
theorem plausible_iff_great_circle (getPos : Alt → Alt → Option (ℝ × ℝ)) (rx : ℝ × ℝ) (range : ℝ) (cur : Option (ℝ × ℝ)) (p : ℝ × ℝ)
    (hrx : |rx.1| ≤ 90) (hp : |p.1| ≤ 90) (hc : ∀ c, cur = some c → |c.1| ≤ 90) :
    C13.plausible (realGeo getPos rx range) cur p = true ↔
      greatCircle rx p ≤ range ∧ ∀ c, cur = some c → greatCircle c p ≤ 100 := by
  unfold C13.plausible realGeo
  simp only [Bool.and_eq_true, Bool.not_eq_true', decide_eq_false_iff_not, not_lt]
  rw [haversine_is_great_circle rx p hrx hp]
  have h100 : ((Gen.maxAircraftDistance : ℕ) : ℝ) = 100 := by norm_num [Gen.maxAircraftDistance]
  cases cur with
  | none => simp
  | some c =>
    have := hc c rfl
    simp only [Bool.not_eq_true', decide_eq_false_iff_not, not_lt, Option.some.injEq, forall_eq']
    rw [haversine_is_great_circle c p this hp, h100]

end Adsb.C13b
