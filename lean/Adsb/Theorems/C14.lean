import Adsb.Theorems.C13
/-! # C14 — latest-wins attributes; derived views agree with the records; the track -/

namespace Adsb.C14
open Adsb Adsb.C12 Adsb.C13
set_option linter.unusedSimpArgs false
variable {P D : Type}

theorem updatePosition_keeps (g : Geo P D) (std : Bool) (now : Nat) (st : Plane P D) (a : Alt) :
    (updatePosition g std now st a).callsign = st.callsign ∧ (updatePosition g std now st a).vel = st.vel := by
  unfold updatePosition
  simp only []
  split
  · split <;> exact ⟨rfl, rfl⟩
  · exact ⟨rfl, rfl⟩

/-- **callsign is latest-wins**: an identification report sets it, every other report keeps it -/
theorem callsign_latest (g : Geo P D) (std : Bool) (now : Nat) (st : Plane P D) (me : ME) :
    (stepPlane g std now st me).callsign = match me with | .ident i => some i.cn | _ => st.callsign := by
  unfold stepPlane
  cases me <;> simp only [] <;> try rfl
  · exact (updatePosition_keeps g std now st _).1
  · rename_i v; cases v.calc <;> rfl
  · exact (updatePosition_keeps g std now st _).1

/-- **heading, ground speed and vertical rate are latest-wins**: a velocity report that carries a derived velocity
sets all three, every other report (also a velocity report without information) keeps them -/
theorem velocity_latest (g : Geo P D) (std : Bool) (now : Nat) (st : Plane P D) (me : ME) :
    (stepPlane g std now st me).vel = match me with
      | .velocity v => (match v.calc with | some r => some r | none => st.vel)
      | _ => st.vel := by
  unfold stepPlane
  cases me <;> simp only [] <;> try rfl
  · exact (updatePosition_keeps g std now st _).2
  · rename_i v; cases v.calc <;> rfl
  · exact (updatePosition_keeps g std now st _).2

/-- **altitude is that of a currently stored (paired) position report** -/
theorem altitude_of_slot (c : Coor P D) (alt : Nat) (h : c.altitude = some alt) : ∃ e, c.even = some e ∧ e.alt = some alt := by
  unfold Coor.altitude at h
  cases he : c.even with
  | none => rw [he] at h; cases h
  | some e => rw [he] at h; exact ⟨e, rfl, h⟩

/-- **details are available exactly for aircraft with a position, an altitude and a distance** -/
theorem details_iff (s : Airplanes P D) (k : Nat) :
    hasDetails s k = true ↔ ∃ p, s.get k = some p ∧ p.coords.pos.isSome ∧ p.coords.altitude.isSome ∧ p.coords.kd.isSome := by
  unfold hasDetails
  cases hg : s.get k with
  | none => simp
  | some p => simp [Bool.and_eq_true, and_assoc]

/-- **the position list holds exactly the aircraft with a position**, in address order -/
theorem all_position_iff (s : Airplanes P D) (k : Nat) (pos : P) :
    (k, pos) ∈ allPosition s ↔ ∃ p, (k, p) ∈ s ∧ p.coords.pos = some pos := by
  unfold allPosition
  simp only [List.mem_filterMap]
  constructor
  · rintro ⟨⟨k', p⟩, hm, hq⟩
    cases hp : p.coords.pos with
    | none => simp [hp] at hq
    | some q =>
      simp [hp] at hq
      obtain ⟨rfl, rfl⟩ := hq
      exact ⟨p, hm, hp⟩
  · rintro ⟨p, hm, hp⟩
    exact ⟨(k, p), hm, by simp [hp]⟩

/-- **a distance is present exactly when a position is**, in every reachable state -/
theorem distance_iff_position (g : Geo P D) (std : Bool) (hist : List (Nat × DF)) (k : Nat) (pl : Plane P D)
    (hg : (run g std [] hist).get k = some pl) : pl.coords.pos.isSome = pl.coords.kd.isSome :=
  (allInv_run g std hist [] (fun _ _ h => by cases h) k pl hg).1

/-- an accepted update never loses a position: if the result has none, the input had none -/
theorem update_pos_mono (g : Geo P D) (std : Bool) (now : Nat) (c t : Coor P D) (hu : Coor.update g std now c = some t)
    (ht : t.pos = none) : c.pos = none := by
  cases he : c.even with
  | none => rw [update_one_slot g std now c (Or.inl he)] at hu; cases hu; exact ht
  | some e =>
    cases ho : c.odd with
    | none => rw [update_one_slot g std now c (Or.inr ho)] at hu; cases hu; exact ht
    | some o =>
      rw [update_both_slots g std now c e o he ho] at hu
      cases hp : g.getPos e o with
      | none => rw [hp] at hu; cases hu
      | some p =>
        rw [hp] at hu
        simp only [] at hu
        split at hu
        · cases hu; simp at ht
        · cases hu

/-- the positions an aircraft has published so far, oldest first: the positioned entries of its track, then the
currently published one -/
def pubList (st : Plane P D) : List P := (st.track.getD []).filterMap (·.pos) ++ st.coords.pos.toList

/-- **the track**: a position update either leaves the published sequence as it is (no change, or the current
position is cleared and thereby moves into the track) or appends the newly published position. Hence the positioned
entries of the track are exactly the previously published positions, in order. -/
theorem track_step (g : Geo P D) (std : Bool) (now : Nat) (st : Plane P D) (a : Alt) :
    pubList (updatePosition g std now st a) = pubList st ∨
    ∃ p, (updatePosition g std now st a).coords.pos = some p ∧ pubList (updatePosition g std now st a) = pubList st ++ [p] := by
  unfold updatePosition
  simp only []
  cases hu : Coor.update g std now (if a.f = 0 then { st.coords with even := some a } else { st.coords with odd := some a }) with
  | none =>
    simp only []
    left
    unfold pubList
    cases hp : st.coords.pos with
    | none => simp [hp]
    | some p => simp [hp, List.filterMap_append]
  | some t =>
    simp only []
    split
    · left; rfl
    · cases ht : t.pos with
      | none =>
        -- an accepted update without a position: only one report is stored, the old record had no position either
        left
        unfold pubList
        simp only [Option.getD_some, List.filterMap_append, ht]
        have hold : st.coords.pos = none := by
          have h1 := update_pos_mono g std now _ t hu ht
          by_cases hf : a.f = 0 <;> simp [hf] at h1 <;> exact h1
        simp [hold]
      | some p =>
        right
        refine ⟨p, rfl, ?_⟩
        unfold pubList
        simp [ht, List.filterMap_append]
        cases hp : st.coords.pos <;> simp [hp]

/-- the track only ever grows at its end -/
theorem track_prefix (g : Geo P D) (std : Bool) (now : Nat) (st : Plane P D) (a : Alt) :
    ∃ ext, ((updatePosition g std now st a).track.getD []) = (st.track.getD []) ++ ext := by
  unfold updatePosition
  simp only []
  split
  · split
    · exact ⟨[], by simp⟩
    · exact ⟨[st.coords], by simp⟩
  · split
    · exact ⟨[st.coords], by simp⟩
    · exact ⟨[], by simp⟩

/-- **the text rendering of the tracker lists exactly the aircraft with details, each once, in address order** -/
theorem display_iff_details (s : Airplanes P D) (k : Nat) : k ∈ displayKeys s ↔ (∃ p, (k, p) ∈ s) ∧ hasDetails s k = true := by
  unfold displayKeys
  simp only [List.mem_map, List.mem_filter]
  constructor
  · rintro ⟨⟨k', p⟩, ⟨hm, hd⟩, rfl⟩; exact ⟨⟨p, hm⟩, hd⟩
  · rintro ⟨⟨p, hm⟩, hd⟩; exact ⟨(k, p), ⟨hm, hd⟩, rfl⟩

theorem display_is_sublist_of_keys (s : Airplanes P D) : (displayKeys s).Sublist (s.map (·.1)) := by
  unfold displayKeys
  exact List.Sublist.map _ List.filter_sublist

end Adsb.C14
