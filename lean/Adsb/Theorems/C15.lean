import Adsb.Theorems.C12
/-! # C15 — expiry removes exactly the aircraft not heard from for the configured time -/

namespace Adsb.C15
open Adsb Adsb.C12
set_option linter.unusedSimpArgs false
variable {P D : Type}

/-- the record survives expiry with threshold `T` seconds at clock reading `now` (milliseconds) -/
def alive (T now : Nat) (p : Plane P D) : Bool := decide (now - p.lastTime < 1000 * T) && decide (p.lastTime ≤ now)

/-- **expiry is exact**: an address is tracked afterwards iff it was tracked and heard less than `T` seconds ago,
and every surviving record is untouched -/
theorem prune_exact (T now : Nat) (s : Airplanes P D) (hs : Sorted s) (k : Nat) :
    (prune T now s).get k = match s.get k with
      | some p => if alive T now p then some p else none
      | none => none := by
  unfold prune
  rw [get_filter s _ k hs]
  rfl

/-- with a monotone clock (`lastTime ≤ now`) the test is simply "elapsed time < T" -/
theorem alive_iff (T now : Nat) (p : Plane P D) (h : p.lastTime ≤ now) : alive T now p = true ↔ now - p.lastTime < 1000 * T := by
  unfold alive; simp [h]

/-- a clock error (record stamped in the future, `elapsed()` fails) removes the record -/
theorem clock_error_removes (T now : Nat) (p : Plane P D) (h : now < p.lastTime) : alive T now p = false := by
  unfold alive
  have : ¬ p.lastTime ≤ now := by omega
  simp [this]

/-- threshold 0 removes everything -/
theorem prune_zero (now : Nat) (s : Airplanes P D) : prune 0 now s = [] := by
  unfold prune
  induction s with
  | nil => rfl
  | cons hd tl ih => simp [List.filter_cons, ih]

/-- the tracked set only shrinks through expiry, and expiry only removes -/
theorem prune_subset (T now : Nat) (s : Airplanes P D) : ∀ kv ∈ prune T now s, kv ∈ s := by
  intro kv h; exact (List.mem_filter.mp h).1

/-- **every tracked frame refreshes the time the aircraft was last heard** (std build) -/
theorem last_time_refreshed (g : Geo P D) (now : Nat) (st : Plane P D) (me : ME) : (stepPlane g true now st me).lastTime = now := by
  unfold stepPlane; rfl

/-- **an expired aircraft that is heard again is reported as newly added and starts from an empty record** -/
theorem reappear_added_fresh (g : Geo P D) (std : Bool) (T t1 now : Nat) (s : Airplanes P D) (hs : Sorted s) (df : DF) (k : Nat) (me : ME)
    (hk : frameKey df = some (k, me)) (p : Plane P D) (hp : s.get k = some p) (hdead : alive T t1 p = false) :
    (action g std now (prune T t1 s) df).2 = true ∧
    (action g std now (prune T t1 s) df).1.get k = some (stepPlane g std now { lastTime := now } me) := by
  have hgone : (prune T t1 s).get k = none := by rw [prune_exact T t1 s hs k, hp]; simp [hdead]
  rw [action_tracked g std now _ df k me hk]
  unfold entryOrInsert
  rw [hgone]
  exact ⟨rfl, get_put_same _ _ _⟩

/-- other records are untouched by expiry of `k`… and by anything else: a surviving record is bit-for-bit the old one -/
theorem prune_keeps (T now : Nat) (s : Airplanes P D) (hs : Sorted s) (k : Nat) (p : Plane P D)
    (hp : s.get k = some p) (ha : alive T now p = true) : (prune T now s).get k = some p := by
  rw [prune_exact T now s hs k, hp]; simp [ha]

/-! ## non-vacuity (tests) -/
example : alive (P := Nat) (D := Nat) 120 119999 { lastTime := 0 } = true := by decide
example : alive (P := Nat) (D := Nat) 120 120000 { lastTime := 0 } = false := by decide

end Adsb.C15
