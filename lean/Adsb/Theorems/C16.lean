import Adsb.Client
/-! # C16 — the clients treat the feed as a byte stream -/

namespace Adsb.C16
open Adsb
set_option linter.unusedSimpArgs false

/-- splitting is compositional: the lines of `a ++ b` are the lines of `a`, then the lines of (remainder of `a`) ++ `b` -/
theorem splitLines_append (a b : List UInt8) :
    splitLines (a ++ b) = ((splitLines a).1 ++ (splitLines ((splitLines a).2 ++ b)).1, (splitLines ((splitLines a).2 ++ b)).2) := by
  induction a with
  | nil => simp [splitLines]
  | cons x xs ih =>
    simp only [List.cons_append, splitLines]
    rw [ih]
    by_cases hx : x = NL
    · simp [hx]
    · simp only [hx, if_false]
      cases hl : (splitLines xs).1 with
      | nil =>
        simp only [List.nil_append]
        -- the remainder of x :: xs is x :: remainder of xs
        simp only [List.cons_append, splitLines, hx, if_false]
      | cons l lt => simp

/-- the lines consist of the bytes of the stream, in order: nothing is lost, duplicated or reordered -/
theorem splitLines_flatten (bs : List UInt8) : (splitLines bs).1.flatten ++ (splitLines bs).2 = bs := by
  induction bs with
  | nil => rfl
  | cons x xs ih =>
    simp only [splitLines]
    by_cases hx : x = NL
    · simp [hx, ih]
    · simp only [hx, if_false]
      cases hl : (splitLines xs).1 with
      | nil => rw [hl] at ih; simp at ih; simp [ih]
      | cons l lt => rw [hl] at ih; simp at ih; simp [ih]

/-- the remainder of a split has no complete line left -/
theorem splitLines_rem (bs : List UInt8) : splitLines (splitLines bs).2 = ([], (splitLines bs).2) := by
  induction bs with
  | nil => rfl
  | cons x xs ih =>
    simp only [splitLines]
    by_cases hx : x = NL
    · simp only [hx, if_true]; exact ih
    · simp only [hx, if_false]
      cases hl : (splitLines xs).1 with
      | nil =>
        simp only []
        simp only [splitLines, hx, if_false, ih]
      | cons l lt => simp only []; exact ih

/-- every complete line ends with the newline -/
theorem splitLines_lines_end (bs : List UInt8) : ∀ l ∈ (splitLines bs).1, l.getLast? = some NL := by
  induction bs with
  | nil => intro l h; cases h
  | cons x xs ih =>
    simp only [splitLines]
    by_cases hx : x = NL
    · simp only [hx, if_true]
      intro l hl
      simp only [List.mem_cons] at hl
      rcases hl with rfl | hl
      · rfl
      · exact ih l hl
    · simp only [hx, if_false]
      cases hl : (splitLines xs).1 with
      | nil => simp only []; intro l h; cases h
      | cons l lt =>
        simp only []
        intro l' hl'
        simp only [List.mem_cons] at hl'
        rcases hl' with rfl | hl'
        · have := ih l (by rw [hl]; exact List.mem_cons_self)
          cases l with
          | nil => simp at this
          | cons y ys => simpa [List.getLast?_cons_cons] using this
        · exact ih l' (by rw [hl]; exact List.mem_cons_of_mem _ hl')

/-- events before the end of the stream -/
def live : List Ev → Prop
  | [] => True
  | .eof :: _ => False
  | _ :: rest => live rest

/-- **every complete line is processed exactly once and in order, however the stream is segmented or delayed**:
after any sequence of chunks and timeouts, the outputs are `process` applied to the complete lines of the concatenated
stream, and the pending input is the unterminated remainder -/
theorem lines_once_in_order_from {Out : Type} (process : List UInt8 → Out) (evs : List Ev) (h : live evs) (s : CS Out)
    (hs : splitLines s.input = ([], s.input)) :
    (evs.foldl (clientStep process) s).outs = s.outs ++ (splitLines (s.input ++ streamOf evs)).1.map process ∧
    (evs.foldl (clientStep process) s).input = (splitLines (s.input ++ streamOf evs)).2 := by
  induction evs generalizing s with
  | nil => simp [streamOf, hs]
  | cons e rest ih =>
    cases e with
    | eof => exact absurd h (fun x => x)
    | gap => exact ih h s hs
    | chunk bs =>
      simp only [List.foldl_cons, streamOf]
      have hl : live rest := h
      have := ih hl (clientStep process s (.chunk bs)) (by simp only [clientStep]; exact splitLines_rem _)
      rw [this.1, this.2]
      simp only [clientStep]
      rw [← List.append_assoc, splitLines_append (s.input ++ bs) (streamOf rest)]
      simp [List.map_append, List.append_assoc]

/-- from the start of the connection: the outputs are exactly the complete lines of the stream, processed once, in order -/
theorem lines_once_in_order {Out : Type} (process : List UInt8 → Out) (evs : List Ev) (h : live evs) :
    (clientRun process evs).outs = (splitLines (streamOf evs)).1.map process ∧
    (clientRun process evs).input = (splitLines (streamOf evs)).2 := by
  have := lines_once_in_order_from process evs h {} rfl
  simpa [clientRun] using this

/-- **segmentation independence**: two event lists carrying the same byte stream produce the same outputs -/
theorem segmentation_independent {Out : Type} (process : List UInt8 → Out) (e1 e2 : List Ev) (h1 : live e1) (h2 : live e2)
    (hs : streamOf e1 = streamOf e2) : (clientRun process e1).outs = (clientRun process e2).outs := by
  rw [(lines_once_in_order process e1 h1).1, (lines_once_in_order process e2 h2).1, hs]

/-- an unterminated partial line at the end of the stream is never processed -/
theorem eof_discards_partial {Out : Type} (process : List UInt8 → Out) (s : CS Out) :
    (clientStep process s .eof).outs = s.outs ∧ (clientStep process s .eof).input = [] := ⟨rfl, rfl⟩

/-- **malformed lines are skipped**: `parse_line` is total — every byte string is either a frame's bytes or skipped;
the too-short, odd-length, non-hex and all-zero lines are among the skipped -/
theorem malformed_skipped :
    parseLine [] = none ∧ parseLine [NL] = none ∧ parseLine [42, NL] = none ∧ parseLine [42, 59, NL] = none ∧
    parseLine [42, 56, 59, NL] = none ∧ parseLine [42, 122, 122, 59, NL] = none ∧ parseLine [42, 48, 48, 48, 48, 59, NL] = none := by
  decide

/-- a well-formed line `*<hex>;\n` yields the bytes of its hex text -/
theorem wellformed_parsed : parseLine [42, 56, 100, 52, 48, 59, NL] = some [0x8d, 0x40] := by decide

/-! ## radar: `--limit-parsing`, `--retry-tcp` -/

/-- **`--limit-parsing` only filters**: a line is handed on with the option exactly when it is handed on without it and is a DF17
frame; in particular whether a line is processed never depends on the lines before it -/
theorem limit_parsing_only_filters (line : List UInt8) :
    radarProcess true line = (radarProcess false line).filter (fun bytes => (bytes.headD 0).toNat / 8 == 17) := by
  unfold radarProcess
  cases h : parseLine line with
  | none => rfl
  | some bytes =>
    simp only [Bool.true_and, Bool.false_and, Bool.false_eq_true, if_false, Option.filter]
    by_cases hd : (bytes.headD 0).toNat / 8 = 17 <;> simp [hd]

/-- **what `parse_line` hands on is never empty** — the all-zero test rejects the empty payload too (`*;`), and that is the only thing that
makes the `bytes[0]` of the `--limit-parsing` filter safe. The model writes that index as `headD 0`; with this theorem the default is never
used, so the totalised definition does not hide a panic (seed C16_f narrowed the test to non-empty payloads and `*;` crashed the client). -/
theorem parse_line_nonempty (line : List UInt8) (bytes : List UInt8) (h : parseLine line = some bytes) : bytes ≠ [] := by
  unfold parseLine at h
  cases hh : hexPart line with
  | none => rw [hh] at h; cases h
  | some hx =>
    rw [hh] at h
    simp only [Option.bind_eq_bind, Option.bind_some] at h
    cases hd : hexDecode hx with
    | none => rw [hd] at h; cases h
    | some bs =>
      rw [hd] at h
      simp only [Option.bind_some] at h
      intro he
      by_cases hz : bs.all (· == 0) = true
      · rw [if_pos hz] at h; cases h
      · rw [if_neg hz] at h
        cases h
        rw [he] at hz
        simp at hz

/-- the index of the `--limit-parsing` filter is in bounds for every line that reaches it -/
theorem limit_filter_index_in_bounds (line : List UInt8) (bytes : List UInt8) (h : parseLine line = some bytes) : 0 < bytes.length := by
  have := parse_line_nonempty line bytes h
  cases bytes with
  | nil => exact absurd rfl this
  | cons b bs => simp

/-- non-vacuity: `*8d;` is handed on; `*;` and the all-zero payload `*0000;` are not (bytes: `*` 42, `8` 56, `d` 100, `0` 48, `;` 59, newline 10) -/
example : parseLine [42, 56, 100, 59, 10] = some [0x8d] ∧ parseLine [42, 59, 10] = none ∧ parseLine [42, 48, 48, 48, 48, 59, 10] = none := by decide

/-- over a whole connection: the frames radar decodes are the complete lines of the stream, parsed and filtered, once and in order -/
theorem radar_stream (limit : Bool) (evs : List Ev) (h : live evs) :
    (clientRun (radarProcess limit) evs).outs = (splitLines (streamOf evs)).1.map (radarProcess limit) :=
  (lines_once_in_order (radarProcess limit) evs h).1

theorem sessions_step {Out : Type} (process : List UInt8 → Out) (evs : List Ev) (h : live evs) (s : CS Out) (hs : s.input = []) :
    (clientStep process (evs.foldl (clientStep process) { s with ended := false }) .eof).outs
      = s.outs ++ (splitLines (streamOf evs)).1.map process ∧
    (clientStep process (evs.foldl (clientStep process) { s with ended := false }) .eof).input = [] := by
  obtain ⟨inp, outs, ended⟩ := s
  simp only at hs
  subst hs
  have := lines_once_in_order_from process evs h { input := [], outs := outs, ended := false } (by simp [splitLines])
  simp only [List.nil_append] at this
  exact ⟨by rw [(eof_discards_partial process _).1, this.1], (eof_discards_partial process _).2⟩

theorem sessions_from {Out : Type} (process : List UInt8 → Out) (sessions : List (List Ev)) (h : ∀ evs ∈ sessions, live evs) :
    ∀ (s : CS Out), s.input = [] →
      (sessions.foldl (fun s evs => clientStep process (evs.foldl (clientStep process) { s with ended := false }) .eof) s).outs
        = s.outs ++ (sessions.map (fun evs => (splitLines (streamOf evs)).1.map process)).flatten := by
  induction sessions with
  | nil => intro s _; simp
  | cons evs rest ih =>
    intro s hs
    have hst := sessions_step process evs (h evs List.mem_cons_self) s hs
    simp only [List.foldl_cons, List.map_cons, List.flatten_cons]
    rw [ih (fun e he => h e (List.mem_cons_of_mem _ he)) _ hst.2, hst.1, List.append_assoc]

/-- **reconnecting keeps everything and loses nothing but the fragment of the dropped connection**: with `--retry-tcp` the outputs after
any number of connections are the complete lines of the first connection's stream, then those of the second, … — each exactly once, in
order; the unterminated fragment at the end of a dropped connection is never joined with the next connection's first line -/
theorem retry_processes_every_connection {Out : Type} (process : List UInt8 → Out) (sessions : List (List Ev))
    (h : ∀ evs ∈ sessions, live evs) :
    (sessionsRun process sessions).outs = (sessions.map (fun evs => (splitLines (streamOf evs)).1.map process)).flatten := by
  have := sessions_from process sessions h {} rfl
  simpa [sessionsRun] using this

/-- the scenario of seed C16_b as an instance: a fragment, a drop, then a complete line — the line is processed, alone -/
example : (sessionsRun (fun l => l) [[.chunk [42, 56]], [.chunk [42, 57, 59, NL]]]).outs = [[42, 57, 59, NL]] := by decide

end Adsb.C16
