import Adsb.Client
/-! # C16 — the clients treat the feed as a byte stream -/

namespace Adsb.C16
open Adsb
set_option linter.unusedSimpArgs false

/-- splitting is compositional: the lines of `a ++ b` are the lines of `a`, then the lines of (remainder of `a`) ++ `b` -/
theorem splitLines_append (a b : List UInt8) :
    splitLines (a ++ b) = ((splitLines a).1 ++ (splitLines ((splitLines a).2 ++ b)).1, (splitLines ((splitLines a).2 ++ b)).2) := by
  induction a with
  | nil => simp [splitLines]
  | cons x xs ih =>
    simp only [List.cons_append, splitLines]
    rw [ih]
    by_cases hx : x = NL
    · simp [hx]
    · simp only [hx, if_false]
      cases hl : (splitLines xs).1 with
      | nil =>
        simp only [List.nil_append]
        -- the remainder of x :: xs is x :: remainder of xs
        simp only [List.cons_append, splitLines, hx, if_false]
      | cons l lt => simp

/-- the lines consist of the bytes of the stream, in order: nothing is lost, duplicated or reordered -/
theorem splitLines_flatten (bs : List UInt8) : (splitLines bs).1.flatten ++ (splitLines bs).2 = bs := by
  induction bs with
  | nil => rfl
  | cons x xs ih =>
    simp only [splitLines]
    by_cases hx : x = NL
    · simp [hx, ih]
    · simp only [hx, if_false]
      cases hl : (splitLines xs).1 with
      | nil => rw [hl] at ih; simp at ih; simp [ih]
      | cons l lt => rw [hl] at ih; simp at ih; simp [ih]

/-- the remainder of a split has no complete line left -/
theorem splitLines_rem (bs : List UInt8) : splitLines (splitLines bs).2 = ([], (splitLines bs).2) := by
  induction bs with
  | nil => rfl
  | cons x xs ih =>
    simp only [splitLines]
    by_cases hx : x = NL
    · simp only [hx, if_true]; exact ih
    · simp only [hx, if_false]
      cases hl : (splitLines xs).1 with
      | nil =>
        simp only []
        simp only [splitLines, hx, if_false, ih]
      | cons l lt => simp only []; exact ih

/-- every complete line ends with the newline -/
theorem splitLines_lines_end (bs : List UInt8) : ∀ l ∈ (splitLines bs).1, l.getLast? = some NL := by
  induction bs with
  | nil => intro l h; cases h
  | cons x xs ih =>
    simp only [splitLines]
    by_cases hx : x = NL
    · simp only [hx, if_true]
      intro l hl
      simp only [List.mem_cons] at hl
      rcases hl with rfl | hl
      · rfl
      · exact ih l hl
    · simp only [hx, if_false]
      cases hl : (splitLines xs).1 with
      | nil => simp only []; intro l h; cases h
      | cons l lt =>
        simp only []
        intro l' hl'
        simp only [List.mem_cons] at hl'
        rcases hl' with rfl | hl'
        · have := ih l (by rw [hl]; exact List.mem_cons_self)
          cases l with
          | nil => simp at this
          | cons y ys => simpa [List.getLast?_cons_cons] using this
        · exact ih l' (by rw [hl]; exact List.mem_cons_of_mem _ hl')

/-- events before the end of the stream -/
def live : List Ev → Prop
  | [] => True
  | .eof :: _ => False
  | _ :: rest => live rest

/-- **every complete line is processed exactly once and in order, however the stream is segmented or delayed**:
after any sequence of chunks and timeouts, the outputs are `process` applied to the complete lines of the concatenated
stream, and the pending input is the unterminated remainder -/
theorem lines_once_in_order_from {Out : Type} (process : List UInt8 → Out) (evs : List Ev) (h : live evs) (s : CS Out)
    (hs : splitLines s.input = ([], s.input)) :
    (evs.foldl (clientStep process) s).outs = s.outs ++ (splitLines (s.input ++ streamOf evs)).1.map process ∧
    (evs.foldl (clientStep process) s).input = (splitLines (s.input ++ streamOf evs)).2 := by
  induction evs generalizing s with
  | nil => simp [streamOf, hs]
  | cons e rest ih =>
    cases e with
    | eof => exact absurd h (fun x => x)
    | gap => exact ih h s hs
    | chunk bs =>
      simp only [List.foldl_cons, streamOf]
      have hl : live rest := h
      have := ih hl (clientStep process s (.chunk bs)) (by simp only [clientStep]; exact splitLines_rem _)
      rw [this.1, this.2]
      simp only [clientStep]
      rw [← List.append_assoc, splitLines_append (s.input ++ bs) (streamOf rest)]
      simp [List.map_append, List.append_assoc]

/-- from the start of the connection: the outputs are exactly the complete lines of the stream, processed once, in order -/
theorem lines_once_in_order {Out : Type} (process : List UInt8 → Out) (evs : List Ev) (h : live evs) :
    (clientRun process evs).outs = (splitLines (streamOf evs)).1.map process ∧
    (clientRun process evs).input = (splitLines (streamOf evs)).2 := by
  have := lines_once_in_order_from process evs h {} rfl
  simpa [clientRun] using this

/-- **segmentation independence**: two event lists carrying the same byte stream produce the same outputs -/
theorem segmentation_independent {Out : Type} (process : List UInt8 → Out) (e1 e2 : List Ev) (h1 : live e1) (h2 : live e2)
    (hs : streamOf e1 = streamOf e2) : (clientRun process e1).outs = (clientRun process e2).outs := by
  rw [(lines_once_in_order process e1 h1).1, (lines_once_in_order process e2 h2).1, hs]

/-- an unterminated partial line at the end of the stream is never processed -/
theorem eof_discards_partial {Out : Type} (process : List UInt8 → Out) (s : CS Out) :
    (clientStep process s .eof).outs = s.outs ∧ (clientStep process s .eof).input = [] := ⟨rfl, rfl⟩

/-- **malformed lines are skipped**: `parse_line` is total — every byte string is either a frame's bytes or skipped;
the too-short, odd-length, non-hex and all-zero lines are among the skipped -/
theorem malformed_skipped :
    parseLine [] = none ∧ parseLine [NL] = none ∧ parseLine [42, NL] = none ∧ parseLine [42, 59, NL] = none ∧
    parseLine [42, 56, 59, NL] = none ∧ parseLine [42, 122, 122, 59, NL] = none ∧ parseLine [42, 48, 48, 48, 48, 59, NL] = none := by
  decide

/-- a well-formed line `*<hex>;\n` yields the bytes of its hex text -/
theorem wellformed_parsed : parseLine [42, 56, 100, 52, 48, 59, NL] = some [0x8d, 0x40] := by decide

end Adsb.C16
