import Adsb.Ui
import Adsb.Theorems.C13
/-! # C17 — no operator action crashes radar -/

namespace Adsb.C17
open Adsb
set_option linter.unusedSimpArgs false

/-- the table selection stays far below `usize::MAX` -/
def SelOk (ui : UI) : Prop := ∀ s, ui.selected = some s → s < usizeMax

theorem ok_np {α} (a : α) : (Res.ok a).NoPanic := trivial

/-- **every key is handled without a panic**, on every tab, with any number of tracked aircraft (also none) -/
theorem key_total (ui : UI) (k : Key) (rows : Nat) (hd : Nat → Bool) (h : SelOk ui) : (handleKey ui k rows hd).NoPanic := by
  unfold handleKey
  simp only []
  split
  all_goals first
    | exact ok_np _
    | (split <;> first | exact ok_np _ | (split <;> first | exact ok_np _ | skip))
  all_goals first
    | exact ok_np _
    | (split
       · next s hs =>
         split
         · next heq => exact absurd heq (Nat.ne_of_lt (h s hs))
         · exact ok_np _
       · exact ok_np _)
    | (split <;> first | exact ok_np _ | (split <;> exact ok_np _))

/-- **every mouse event is handled without a panic** when the touchscreen rectangles lie on a terminal of at most 65535 rows -/
theorem mouse_total (ui : UI) (m : Mouse) (buttons : Option (Rect × Rect × Rect)) (lb : Nat)
    (hb : ∀ b0 b1 b2, buttons = some (b0, b1, b2) → b0.y + b0.h ≤ u16Max ∧ b1.y + b0.h ≤ u16Max ∧ b2.y + b0.h ≤ u16Max) :
    (handleMouse ui m buttons lb).NoPanic := by
  unfold handleMouse
  cases m with
  | down col row =>
    simp only []
    cases hbt : buttons with
    | none => trivial
    | some b =>
      obtain ⟨b0, b1, b2⟩ := b
      have := hb b0 b1 b2 hbt
      simp only []
      split
      · next hc => omega
      · repeat (first | trivial | split)
  | drag col row => simp only []; repeat (first | trivial | split)
  | up => trivial
  | scrollUp => trivial
  | scrollDown => trivial
  | other => trivial

/-- the draw clamp leaves the selection inside the table (or empty when there are no rows): with it, `Enter` always finds a row -/
theorem clamp_in_range (ui : UI) (rows : Nat) (h : ui.tab = .airplanes) :
    ∀ s, (drawClamp ui rows).selected = some s → s < rows := by
  intro s hs
  unfold drawClamp at hs
  rw [if_pos h] at hs
  cases hsel : ui.selected with
  | none => rw [hsel] at hs; simp only [] at hs; rw [hsel] at hs; cases hs
  | some t =>
    rw [hsel] at hs
    simp only [] at hs
    by_cases ht : t ≥ rows
    · rw [if_pos ht] at hs
      simp only [] at hs
      by_cases h0 : rows = 0
      · rw [if_pos h0] at hs; cases hs
      · rw [if_neg h0] at hs; cases hs; omega
    · rw [if_neg ht, hsel] at hs; cases hs; omega

/-- the clamp before the repair panicked exactly on an empty table with a selection (finding F10) -/
theorem old_clamp_panics (ui : UI) (s : Nat) (h : ui.tab = .airplanes) (hs : ui.selected = some s) :
    (drawClampOld ui 0).isPanic = true := by
  unfold drawClampOld; rw [if_pos h, hs]; rfl

/-- the repaired clamp agrees with the old one wherever the old one did not panic -/
theorem clamp_agrees (ui : UI) (rows : Nat) (h : 0 < rows) : drawClampOld ui rows = .ok (drawClamp ui rows) := by
  unfold drawClampOld drawClamp
  by_cases ht : ui.tab = .airplanes
  · rw [if_pos ht, if_pos ht]
    cases hs : ui.selected with
    | none => rfl
    | some s =>
      simp only []
      have h0 : ¬ rows = 0 := by omega
      rw [if_neg h0]
      by_cases hge : s ≥ rows
      · have : s > rows - 1 := by omega
        rw [if_pos hge, if_pos this, if_neg h0]
      · have : ¬ s > rows - 1 := by omega
        rw [if_neg hge, if_neg this]
  · rw [if_neg ht, if_neg ht]

/-- quit is requested only by `q` or Ctrl-C: every other key leaves the quit flag as it was -/
theorem quit_only_on_request (ui ui' : UI) (k : Key) (rows : Nat) (hd : Nat → Bool) (h : handleKey ui k rows hd = .ok ui')
    (hk : ∀ ctrl, k ≠ .char 'q' ctrl) (hc : k ≠ .char 'c' true) : ui'.quit = ui.quit := by
  unfold handleKey at h
  simp only [] at h
  split at h
  all_goals first
    | (cases h <;> rfl)
    | skip
  · -- character keys
    next c ctrl =>
    cases h
    unfold handleChar
    simp only []
    by_cases hq : c = 'q'
    · exact absurd (by rw [hq]) (hk ctrl)
    · rw [if_neg hq]
      by_cases hcc : c = 'c'
      · rw [if_pos hcc]
        cases ctrl with
        | true => exact absurd (by rw [hcc]) hc
        | false => rfl
      · rw [if_neg hcc]
        repeat (first | rfl | split)
  all_goals (repeat (first | (cases h <;> rfl) | split at h))

/-- the statistics tab unwraps the position of the farthest record, which exists whenever a distance does (invariant of C13) -/
theorem stats_unwrap_safe {P D : Type} (g : Geo P D) (c : Coor P D) (h : C13.CoorInv g c) (hk : c.kd.isSome = true) : c.pos.isSome = true := by
  rw [h.1]; exact hk

end Adsb.C17
