import Adsb.Ui
import Adsb.App
import Adsb.Theorems.C13
/-! # C17 — no operator action crashes radar -/

namespace Adsb.C17
open Adsb
set_option linter.unusedSimpArgs false

/-- the table selection stays far below `usize::MAX` -/
def SelOk (ui : UI) : Prop := ∀ s, ui.selected = some s → s < usizeMax

theorem ok_np {α} (a : α) : (Res.ok a).NoPanic := trivial

/-- **every key is handled without a panic**, on every tab, with any number of tracked aircraft (also none) -/
theorem key_total (ui : UI) (k : Key) (rows : Nat) (hd : Nat → Bool) (h : SelOk ui) : (handleKey ui k rows hd).NoPanic := by
  unfold handleKey
  simp only []
  split
  all_goals first
    | exact ok_np _
    | (split <;> first | exact ok_np _ | (split <;> first | exact ok_np _ | skip))
  all_goals first
    | exact ok_np _
    | (split
       · next s hs =>
         split
         · next heq => exact absurd heq (Nat.ne_of_lt (h s hs))
         · exact ok_np _
       · exact ok_np _)
    | (split <;> first | exact ok_np _ | (split <;> exact ok_np _))

/-- **every mouse event is handled without a panic** when the touchscreen rectangles lie on a terminal of at most 65535 rows -/
theorem mouse_total (ui : UI) (m : Mouse) (buttons : Option (Rect × Rect × Rect)) (lb : Nat)
    (hb : ∀ b0 b1 b2, buttons = some (b0, b1, b2) → b0.y + b0.h ≤ u16Max ∧ b1.y + b0.h ≤ u16Max ∧ b2.y + b0.h ≤ u16Max) :
    (handleMouse ui m buttons lb).NoPanic := by
  unfold handleMouse
  cases m with
  | down col row =>
    simp only []
    cases hbt : buttons with
    | none => trivial
    | some b =>
      obtain ⟨b0, b1, b2⟩ := b
      have := hb b0 b1 b2 hbt
      simp only []
      split
      · next hc => omega
      · repeat (first | trivial | split)
  | drag col row => simp only []; repeat (first | trivial | split)
  | up => trivial
  | scrollUp => trivial
  | scrollDown => trivial
  | other => trivial

/-- the draw clamp leaves the selection inside the table (or empty when there are no rows): with it, `Enter` always finds a row -/
theorem clamp_in_range (ui : UI) (rows : Nat) (h : ui.tab = .airplanes) :
    ∀ s, (drawClamp ui rows).selected = some s → s < rows := by
  intro s hs
  unfold drawClamp at hs
  rw [if_pos h] at hs
  cases hsel : ui.selected with
  | none => rw [hsel] at hs; simp only [] at hs; rw [hsel] at hs; cases hs
  | some t =>
    rw [hsel] at hs
    simp only [] at hs
    by_cases ht : t ≥ rows
    · rw [if_pos ht] at hs
      simp only [] at hs
      by_cases h0 : rows = 0
      · rw [if_pos h0] at hs; cases hs
      · rw [if_neg h0] at hs; cases hs; omega
    · rw [if_neg ht, hsel] at hs; cases hs; omega

/-- the clamp before the repair panicked exactly on an empty table with a selection (finding F10) -/
theorem old_clamp_panics (ui : UI) (s : Nat) (h : ui.tab = .airplanes) (hs : ui.selected = some s) :
    (drawClampOld ui 0).isPanic = true := by
  unfold drawClampOld; rw [if_pos h, hs]; rfl

/-- the repaired clamp agrees with the old one wherever the old one did not panic -/
theorem clamp_agrees (ui : UI) (rows : Nat) (h : 0 < rows) : drawClampOld ui rows = .ok (drawClamp ui rows) := by
  unfold drawClampOld drawClamp
  by_cases ht : ui.tab = .airplanes
  · rw [if_pos ht, if_pos ht]
    cases hs : ui.selected with
    | none => rfl
    | some s =>
      simp only []
      have h0 : ¬ rows = 0 := by omega
      rw [if_neg h0]
      by_cases hge : s ≥ rows
      · have : s > rows - 1 := by omega
        rw [if_pos hge, if_pos this, if_neg h0]
      · have : ¬ s > rows - 1 := by omega
        rw [if_neg hge, if_neg this]
  · rw [if_neg ht, if_neg ht]

/-- quit is requested only by `q` or Ctrl-C: every other key leaves the quit flag as it was -/
theorem quit_only_on_request (ui ui' : UI) (k : Key) (rows : Nat) (hd : Nat → Bool) (h : handleKey ui k rows hd = .ok ui')
    (hk : ∀ ctrl, k ≠ .char 'q' ctrl) (hc : k ≠ .char 'c' true) : ui'.quit = ui.quit := by
  unfold handleKey at h
  simp only [] at h
  split at h
  all_goals first
    | (cases h <;> rfl)
    | skip
  · -- character keys
    next c ctrl =>
    cases h
    unfold handleChar
    simp only []
    by_cases hq : c = 'q'
    · exact absurd (by rw [hq]) (hk ctrl)
    · rw [if_neg hq]
      by_cases hcc : c = 'c'
      · rw [if_pos hcc]
        cases ctrl with
        | true => exact absurd (by rw [hcc]) hc
        | false => rfl
      · rw [if_neg hcc]
        repeat (first | rfl | split)
  all_goals (repeat (first | (cases h <;> rfl) | split at h))

/-- the statistics tab unwraps the position of the farthest record, which exists whenever a distance does (invariant of C13) -/
theorem stats_unwrap_safe {P D : Type} (g : Geo P D) (c : Coor P D) (h : C13.CoorInv g c) (hk : c.kd.isSome = true) : c.pos.isSome = true := by
  rw [h.1]; exact hk

/-! ## whole histories: draw / event batches, any table sizes, until quit -/

def selVal (ui : UI) : Nat := ui.selected.getD 0

def ButtonsOk (buttons : Option (Rect × Rect × Rect)) : Prop :=
  ∀ b0 b1 b2, buttons = some (b0, b1, b2) → b0.y + b0.h ≤ u16Max ∧ b1.y + b0.h ≤ u16Max ∧ b2.y + b0.h ≤ u16Max

def evCount : List Iter → Nat
  | [] => 0
  | it :: rest => it.events.length + evCount rest

theorem char_sel (ui : UI) (c : Char) (ctrl : Bool) : (handleChar ui c ctrl).selected = ui.selected := by
  unfold handleChar
  simp only []
  repeat (first | rfl | split)

theorem key_sel (ui ui' : UI) (k : Key) (rows : Nat) (hd : Nat → Bool) (h : handleKey ui k rows hd = .ok ui') :
    selVal ui' ≤ selVal ui + 1 := by
  unfold handleKey at h
  simp only [] at h
  split at h
  all_goals first
    | (cases h; exact Nat.le_succ _)
    | skip
  · next c ctrl => cases h; unfold selVal; rw [char_sel]; exact Nat.le_succ _
  all_goals (repeat' (split at h))
  all_goals first
    | (cases h; done)
    | (cases h; exact Nat.le_succ _)
    | (cases h; unfold selVal; simp only [Option.getD, *]; (repeat' split) <;> simp_all <;> omega)

theorem mouse_sel (ui ui' : UI) (m : Mouse) (b : Option (Rect × Rect × Rect)) (lb : Nat) (h : handleMouse ui m b lb = .ok ui') :
    ui'.selected = ui.selected := by
  unfold handleMouse at h
  cases m with
  | down col row =>
    simp only [] at h
    repeat (first | (cases h; done) | (cases h; (repeat (first | rfl | split))) | split at h)
  | drag col row =>
    simp only [] at h
    repeat (first | (cases h; done) | (cases h; (repeat (first | rfl | split))) | split at h)
  | up => cases h; rfl
  | scrollUp => cases h; rfl
  | scrollDown => cases h; rfl
  | other => cases h; rfl

theorem event_sel (ui ui' : UI) (e : Event) (rows : Nat) (hd : Nat → Bool) (b : Option (Rect × Rect × Rect)) (lb : Nat)
    (h : handleEvent ui e rows hd b lb = .ok ui') : selVal ui' ≤ selVal ui + 1 := by
  cases e with
  | key k => exact key_sel ui ui' k rows hd h
  | mouse m => unfold selVal; rw [mouse_sel ui ui' m b lb h]; exact Nat.le_succ _
  | resize => cases h; exact Nat.le_succ _

theorem clamp_sel (ui : UI) (rows : Nat) : selVal (drawClamp ui rows) ≤ selVal ui := by
  unfold drawClamp
  by_cases ht : ui.tab = .airplanes
  · rw [if_pos ht]
    cases hs : ui.selected with
    | none => simp only [hs]; exact Nat.le_refl _
    | some s =>
      simp only []
      by_cases hge : s ≥ rows
      · rw [if_pos hge]
        by_cases h0 : rows = 0
        · rw [if_pos h0]; unfold selVal; simp only [hs, Option.getD]; omega
        · rw [if_neg h0]; unfold selVal; simp only [hs, Option.getD]; omega
      · rw [if_neg hge]; exact Nat.le_refl _
  · rw [if_neg ht]; exact Nat.le_refl _

theorem selOk_of_lt (ui : UI) (h : selVal ui < usizeMax) : SelOk ui := by
  intro s hs; unfold selVal at h; rw [hs] at h; exact h

theorem event_total (ui : UI) (e : Event) (rows : Nat) (hd : Nat → Bool) (b : Option (Rect × Rect × Rect)) (lb : Nat)
    (h : selVal ui < usizeMax) (hb : ButtonsOk b) : (handleEvent ui e rows hd b lb).NoPanic := by
  cases e with
  | key k => exact key_total ui k rows hd (selOk_of_lt ui h)
  | mouse m => exact mouse_total ui m b lb hb
  | resize => trivial

/-- a batch of events: no panic, and the selection grows by at most one per event -/
theorem batch_total (es : List Event) : ∀ (ui : UI) (rows : Nat) (hd : Nat → Bool) (b : Option (Rect × Rect × Rect)) (lb : Nat),
    selVal ui + es.length < usizeMax → ButtonsOk b →
    (handleBatch ui es rows hd b lb).NoPanic ∧ ∀ ui', handleBatch ui es rows hd b lb = .ok ui' → selVal ui' ≤ selVal ui + es.length := by
  induction es with
  | nil => intro ui rows hd b lb _ _; exact ⟨trivial, fun ui' h => by cases h; exact Nat.le_refl _⟩
  | cons e rest ih =>
    intro ui rows hd b lb h hb
    simp only [List.length_cons] at h
    have he := event_total ui e rows hd b lb (by omega) hb
    unfold handleBatch
    cases hr : handleEvent ui e rows hd b lb with
    | ok u1 =>
      have h1 := event_sel ui u1 e rows hd b lb hr
      have := ih u1 rows hd b lb (by omega) hb
      refine ⟨this.1, fun ui' h' => ?_⟩
      have := this.2 ui' h'
      simp only [List.length_cons]; omega
    | err x => exact ⟨trivial, fun ui' h' => by cases h'⟩
    | panic p => rw [hr] at he; exact absurd he (fun x => x)

/-- **no history of operator actions crashes the handlers**: for every sequence of loop iterations - any number of rows at each draw
(also none, also shrinking), any batches of keys / mouse events / resizes, touchscreen on or off - with fewer than 2^64 events in
total, the run ends without a panic. -/
theorem run_total (its : List Iter) : ∀ (ui : UI), selVal ui + evCount its < usizeMax → (∀ it ∈ its, ButtonsOk it.buttons) →
    (runIters ui its).NoPanic := by
  induction its with
  | nil => intro ui _ _; trivial
  | cons it rest ih =>
    intro ui h hb
    unfold evCount at h
    have hc := clamp_sel ui it.rows
    have hbt := batch_total it.events (drawClamp ui it.rows) it.rows it.hd it.buttons it.lb (by omega) (hb it (List.mem_cons_self))
    unfold runIters
    cases hr : handleBatch (drawClamp ui it.rows) it.events it.rows it.hd it.buttons it.lb with
    | ok u1 =>
      simp only []
      split
      · trivial
      · have := hbt.2 u1 hr
        exact ih u1 (by omega) (fun x hx => hb x (List.mem_cons_of_mem _ hx))
    | err x => trivial
    | panic p => rw [hr] at hbt; exact absurd hbt.1 (fun x => x)

/-- the run stops only on request: while no `q` / Ctrl-C key is among the events, the run ends with `quit = false` -/
def noQuitKey : Event → Prop
  | .key (.char c ctrl) => c ≠ 'q' ∧ ¬ (c = 'c' ∧ ctrl = true)
  | _ => True

theorem mouse_quit (ui ui' : UI) (m : Mouse) (b : Option (Rect × Rect × Rect)) (lb : Nat) (h : handleMouse ui m b lb = .ok ui') :
    ui'.quit = ui.quit := by
  unfold handleMouse at h
  cases m with
  | down col row =>
    simp only [] at h
    repeat (first | (cases h; done) | (cases h; (repeat (first | rfl | split))) | split at h)
  | drag col row =>
    simp only [] at h
    repeat (first | (cases h; done) | (cases h; (repeat (first | rfl | split))) | split at h)
  | up => cases h; rfl
  | scrollUp => cases h; rfl
  | scrollDown => cases h; rfl
  | other => cases h; rfl

theorem event_quit (ui ui' : UI) (e : Event) (rows : Nat) (hd : Nat → Bool) (b : Option (Rect × Rect × Rect)) (lb : Nat)
    (h : handleEvent ui e rows hd b lb = .ok ui') (hq : noQuitKey e) : ui'.quit = ui.quit := by
  cases e with
  | key k =>
    refine quit_only_on_request ui ui' k rows hd h ?_ ?_
    · intro ctrl hk; subst hk; exact hq.1 rfl
    · intro hk; subst hk; exact hq.2 ⟨rfl, rfl⟩
  | mouse m => exact mouse_quit ui ui' m b lb h
  | resize => cases h; rfl

theorem batch_quit (es : List Event) : ∀ (ui ui' : UI) (rows : Nat) (hd : Nat → Bool) (b : Option (Rect × Rect × Rect)) (lb : Nat),
    handleBatch ui es rows hd b lb = .ok ui' → (∀ e ∈ es, noQuitKey e) → ui'.quit = ui.quit := by
  induction es with
  | nil => intro ui ui' rows hd b lb h _; cases h; rfl
  | cons e rest ih =>
    intro ui ui' rows hd b lb h hq
    unfold handleBatch at h
    cases hr : handleEvent ui e rows hd b lb with
    | ok u1 =>
      rw [hr] at h
      rw [ih u1 ui' rows hd b lb h (fun x hx => hq x (List.mem_cons_of_mem _ hx))]
      exact event_quit ui u1 e rows hd b lb hr (hq e List.mem_cons_self)
    | err x => rw [hr] at h; cases h
    | panic p => rw [hr] at h; cases h

theorem clamp_quit (ui : UI) (rows : Nat) : (drawClamp ui rows).quit = ui.quit := by
  unfold drawClamp; repeat (first | rfl | split)

/-- **the client keeps running until quit is requested**: a history without `q` / Ctrl-C never sets the quit flag -/
theorem run_keeps_running (its : List Iter) : ∀ (ui ui' : UI), ui.quit = false → (∀ it ∈ its, ∀ e ∈ it.events, noQuitKey e) →
    runIters ui its = .ok ui' → ui'.quit = false := by
  induction its with
  | nil => intro ui ui' h _ hr; cases hr; exact h
  | cons it rest ih =>
    intro ui ui' h hq hr
    unfold runIters at hr
    cases hb : handleBatch (drawClamp ui it.rows) it.events it.rows it.hd it.buttons it.lb with
    | ok u1 =>
      rw [hb] at hr
      simp only [] at hr
      have e1 := batch_quit it.events _ u1 _ _ _ _ hb (hq it List.mem_cons_self)
      rw [clamp_quit, h] at e1
      rw [e1] at hr
      exact ih u1 ui' e1 (fun x hx => hq x (List.mem_cons_of_mem _ hx)) hr
    | err x => rw [hb] at hr; cases hr
    | panic p => rw [hb] at hr; cases hr

/-- non-vacuity: a concrete history on an empty table (select, select, Enter, tab switches) runs to a state -/
example : (runIters {} [⟨0, fun _ => false, none, 1, [.key (.f 3), .key .down, .key .down, .key .enter]⟩,
                        ⟨2, fun _ => true, none, 1, [.key .down, .key .enter, .mouse (.drag 20 9), .mouse (.drag 22 10)]⟩]).isOk = true := by decide

/-- **whenever `main` exits, the terminal is as it was found**: cooked, mouse reporting off, cursor visible - on every exit path
(quit while waiting for the connection, quit in the loop, disconnect) -/
theorem exit_restores_terminal (waitKeys : List Key) (connects : Bool) (its : List Iter) (disc : Bool) (t : Term)
    (h : mainRun {} waitKeys connects its disc = .ok (some t)) : t = {} := by
  unfold mainRun at h
  simp only [] at h
  split at h
  · cases h; rfl
  · split at h
    · cases h
    · split at h
      · split at h
        · cases h; rfl
        · cases h
      · cases h
      · cases h

/-- and `main` exits when quit is requested while it waits for the connection -/
theorem quit_while_waiting (waitKeys : List Key) (connects : Bool) (its : List Iter) (disc : Bool) (h : waitKeys.any waitQuit = true) :
    mainRun {} waitKeys connects its disc = .ok (some {}) := by
  unfold mainRun; simp only [h, if_true]; rfl

/-! ## the Coverage tab -/

/-- every counter stays a `u32`, whatever traffic is fed for however long -/
theorem cover_counters_bounded (cells : List Cell) (key : Int × Int) (icao : Nat) (h : ∀ c ∈ cells, c.seen ≤ u32Max) :
    ∀ c ∈ coverOne cells key icao, c.seen ≤ u32Max := by
  induction cells with
  | nil => intro c hc; simp [coverOne] at hc; subst hc; simp
  | cons a as ih =>
    intro c hc
    unfold coverOne at hc
    split at hc
    · rcases List.mem_cons.mp hc with rfl | hm
      · exact Nat.min_le_right _ _
      · exact h c (List.mem_cons_of_mem _ hm)
    · split at hc
      · exact h c hc
      · rcases List.mem_cons.mp hc with rfl | hm
        · exact h _ List.mem_cons_self
        · exact ih (fun c hc => h c (List.mem_cons_of_mem _ hc)) c hm

theorem cover_pass_bounded (ps : List ((Int × Int) × Nat)) : ∀ (cells : List Cell), (∀ c ∈ cells, c.seen ≤ u32Max) →
    ∀ c ∈ coverPass cells ps, c.seen ≤ u32Max := by
  induction ps with
  | nil => intro cells h; simpa [coverPass] using h
  | cons p ps ih =>
    intro cells h
    simp only [coverPass, List.foldl_cons]
    exact ih _ (cover_counters_bounded cells p.1 p.2 h)

theorem cap_eq_min (n : Nat) : (if n > 255 then 255 else n) = min n 255 := by
  by_cases h : n > 255
  · rw [if_pos h]; omega
  · rw [if_neg h]; omega

/-- **drawing a cell never panics and yields a colour component in 100..255**, for every counter value -/
theorem cover_colour_total (seen : Nat) : ∃ c, cellColour seen = .ok c ∧ 100 ≤ c ∧ c ≤ 255 := by
  unfold cellColour
  refine ⟨_, rfl, ?_, ?_⟩ <;> simp only [cap_eq_min] <;> omega

/-- brighter for every further aircraft, up to white -/
theorem cover_colour_mono (a b : Nat) (h : a ≤ b) : ∀ ca cb, cellColour a = .ok ca → cellColour b = .ok cb → ca ≤ cb := by
  intro ca cb ha hb
  unfold cellColour at ha hb
  injection ha with ha; injection hb with hb
  subst ha; subst hb
  simp only [cap_eq_min]
  omega

/-- the arithmetic before the repair agreed with today's below the overflow point ... -/
theorem cover_colour_old_agrees (seen : Nat) (h : seen ≤ 85899343) : cellColourOld seen = cellColour seen := by
  unfold cellColourOld cellColour
  have e1 : ¬ (seen * 50 > 4294967295) := by omega
  have e2 : ¬ (100 + seen * 50 > 4294967295) := by omega
  have e3 : min (min (seen * 50) 4294967295 + 100) 4294967295 = 100 + seen * 50 := by omega
  simp only [if_neg e1, if_neg e2, e3]

/-- ... and panicked at it: the finding repaired by /repo commit 3e38a51 (reproduced on the real functions with two aircraft in one cell
and 43 000 000 passes of `populate_coverage`, see /verif/findings/coverage_overflow) -/
theorem cover_colour_old_panics : cellColourOld 85899344 = .panic "coverage.rs: attempt to add with overflow"
    ∧ cellColourOld 85899346 = .panic "coverage.rs: attempt to multiply with overflow" := ⟨rfl, rfl⟩

/-- two aircraft in one cell: the counter grows by two per pass (why the overflow point is reachable at all) -/
example : ((coverPass [{ key := (3910, -7690), seen := 0, icao := 1 }] [((3910, -7690), 1), ((3910, -7690), 2)]).map (·.seen),
           (coverPass (coverPass [{ key := (3910, -7690), seen := 0, icao := 1 }] [((3910, -7690), 1), ((3910, -7690), 2)])
              [((3910, -7690), 1), ((3910, -7690), 2)]).map (·.seen)) = ([1], [3]) := by decide

/-! ## the statistics counter -/

/-- the statistics tab's total of newly added aircraft: the same three statements (with `--filter-time=0` every counted frame is a newly
added aircraft; reproduced on the real `Stats::update`, 2^32 calls, 16 s) -/
theorem total_total (n : Nat) (h : n ≤ u32Max) : ∃ m, totalIncr n = .ok m ∧ m ≤ u32Max ∧ n ≤ m := by
  refine ⟨_, rfl, ?_, ?_⟩ <;> omega

theorem total_agrees_below (n : Nat) (h : n < u32Max) : totalIncr n = .ok (n + 1) ∧ totalIncrOld n = .ok (n + 1) := by
  unfold totalIncr totalIncrOld
  constructor
  · congr 1; omega
  · rw [if_neg (by omega)]

theorem total_old_panics : totalIncrOld u32Max = .panic "stats.rs: attempt to add with overflow" := rfl

end Adsb.C17
