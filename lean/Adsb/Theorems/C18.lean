import Adsb.App
import Adsb.Theorems.C12
import Adsb.Theorems.C17
/-! # C18 — what radar shows is the tracker's data; view controls never change the data -/

namespace Adsb.C18
open Adsb
set_option linter.unusedSimpArgs false
variable {P D : Type}

/-! ## the Airplanes tab -/

/-- **one row per tracked aircraft, in the tracker's (address) order**; the i-th row is built from the i-th record -/
theorem rows_are_records (s : Airplanes P D) :
    (tableRows s).length = s.length ∧ ∀ i (h : i < s.length), (tableRows s)[i]? = some (rowOf s[i]) := by
  refine ⟨by unfold tableRows; rw [List.length_map], fun i h => ?_⟩
  unfold tableRows
  rw [List.getElem?_map, List.getElem?_eq_getElem h]; rfl

/-- **each cell is the record's datum**: address, callsign, message count verbatim; latitude / longitude, altitude and distance are
the record's `aircraft_details` - all present or all blank -/
theorem row_cells (kv : Nat × Plane P D) :
    (rowOf kv).icao = kv.1 ∧ (rowOf kv).callsign = kv.2.callsign ∧ (rowOf kv).msgs = kv.2.numMessages ∧ (rowOf kv).vel = kv.2.vel ∧
    (rowOf kv).pos = (details kv.2).map (·.1) ∧ (rowOf kv).alt = (details kv.2).map (·.2.1) ∧ (rowOf kv).dist = (details kv.2).map (·.2.2) :=
  ⟨rfl, rfl, rfl, rfl, rfl, rfl, rfl⟩

/-- the position cells are blank exactly until a position (with its altitude and distance) is known -/
theorem blank_until_position (kv : Nat × Plane P D) :
    ((rowOf kv).pos.isSome = (details kv.2).isSome) ∧ ((rowOf kv).alt.isSome = (details kv.2).isSome) ∧ ((rowOf kv).dist.isSome = (details kv.2).isSome) := by
  unfold rowOf
  cases details kv.2 <;> exact ⟨rfl, rfl, rfl⟩

/-- a shown position is the record's position, its distance the record's distance -/
theorem shown_position (kv : Nat × Plane P D) (p : P) (h : (rowOf kv).pos = some p) : kv.2.coords.pos = some p := by
  unfold rowOf details at h
  simp only [] at h
  split at h
  · next ps a d h1 h2 h3 => simp only [Option.map] at h; cases h; exact h1
  · simp only [Option.map] at h; cases h

/-- **the tab title counts the tracked aircraft** (the number of table rows, each a distinct address) -/
theorem title_counts_rows (s : Airplanes P D) : titleCount s = (tableRows s).length := by
  unfold titleCount tableRows; rw [List.length_map]

/-! ## data and view are separate: the data of a run is a function of the frames and the clock only -/

/-- the data part of one iteration -/
def dataStep (g : Geo P D) (T : Nat) (d : Airplanes P D × Stats) (fn : Option DF × Nat) : Airplanes P D × Stats :=
  match fn.1 with
  | some df =>
    let r := action g true fn.2 d.1 df
    (prune T fn.2 r.1, d.2.update r.1.length r.2)
  | none => (prune T fn.2 d.1, d.2)

def dataRun (g : Geo P D) (T : Nat) (d : Airplanes P D × Stats) (fs : List (Option DF × Nat)) : Airplanes P D × Stats :=
  fs.foldl (dataStep g T) d

theorem appStep_data (g : Geo P D) (T : Nat) (a a' : App P D) (s : Step) (h : appStep g T a s = .ok a') :
    (a'.planes, a'.stats) = dataStep g T (a.planes, a.stats) (s.frame, s.now) ∧
    ∃ ui0, a'.ui = ui0 ∧ handleBatch (drawClamp a.ui a'.planes.length) s.events a'.planes.length (rowHasDetails a'.planes) s.buttons s.lb = .ok ui0 := by
  unfold appStep at h
  simp only [] at h
  split at h
  · next ui hb =>
    cases h
    refine ⟨?_, ui, rfl, hb⟩
    unfold dataStep feed
    cases s.frame <;> rfl
  · cases h
  · cases h

/-- **the data shown depends only on the traffic**: whatever the operator does (short of quitting) - zoom, pan, reset, tab switches,
selections, drags - the tracker and the statistics after a run are those of the bare sequence of frames and clock readings -/
theorem data_independent_of_view (g : Geo P D) (T : Nat) (ss : List Step) : ∀ (a a' : App P D), a.ui.quit = false →
    (∀ s ∈ ss, ∀ e ∈ s.events, C17.noQuitKey e) → appRun g T a ss = .ok a' →
    (a'.planes, a'.stats) = dataRun g T (a.planes, a.stats) (ss.map (fun s => (s.frame, s.now))) := by
  induction ss with
  | nil => intro a a' _ _ h; cases h; rfl
  | cons s rest ih =>
    intro a a' hq hn h
    unfold appRun at h
    cases hs : appStep g T a s with
    | ok a1 =>
      rw [hs] at h
      simp only [] at h
      obtain ⟨hd, ui0, hu, hb⟩ := appStep_data g T a a1 s hs
      have q1 : a1.ui.quit = false := by
        rw [hu, C17.batch_quit s.events _ ui0 _ _ _ _ hb (hn s List.mem_cons_self), C17.clamp_quit]; exact hq
      rw [q1] at h
      have := ih a1 a' q1 (fun x hx => hn x (List.mem_cons_of_mem _ hx)) h
      rw [this, hd]; rfl
    | err x => rw [hs] at h; cases h
    | panic p => rw [hs] at h; cases h

/-- **zoom, pan and reset change only the view, never the data**: two runs over the same traffic with different operator
actions end with the same tracker contents and the same statistics -/
theorem view_controls_never_change_data (g : Geo P D) (T : Nat) (ss ss' : List Step) (a b a' b' : App P D)
    (hp : a.planes = b.planes) (hst : a.stats = b.stats) (ha : a.ui.quit = false) (hb : b.ui.quit = false)
    (hn : ∀ s ∈ ss, ∀ e ∈ s.events, C17.noQuitKey e) (hn' : ∀ s ∈ ss', ∀ e ∈ s.events, C17.noQuitKey e)
    (same : ss.map (fun s => (s.frame, s.now)) = ss'.map (fun s => (s.frame, s.now)))
    (h : appRun g T a ss = .ok a') (h' : appRun g T b ss' = .ok b') : a'.planes = b'.planes ∧ a'.stats = b'.stats := by
  have e1 := data_independent_of_view g T ss a a' ha hn h
  have e2 := data_independent_of_view g T ss' b b' hb hn' h'
  rw [same, hp, hst] at e1
  rw [← e2] at e1
  exact ⟨congrArg Prod.fst e1, congrArg Prod.snd e1⟩

/-! ## the statistics tab -/

/-- whether the frame is filed under an address that is not tracked yet -/
def isNew (s : Airplanes P D) (f : Option DF) : Bool :=
  match f with
  | some df => (match frameKey df with
    | some (k, _) => (s.get k).isNone
    | none => false)
  | none => false

/-- how many times an aircraft was newly added during the run -/
def newly (g : Geo P D) (T : Nat) (s : Airplanes P D) : List (Option DF × Nat) → Nat
  | [] => 0
  | fn :: rest => (if isNew s fn.1 then 1 else 0) + newly g T (dataStep g T (s, ({} : Stats)) fn).1 rest

theorem newly_cons (g : Geo P D) (T : Nat) (s : Airplanes P D) (fn : Option DF × Nat) (rest : List (Option DF × Nat)) :
    newly g T s (fn :: rest) = (if isNew s fn.1 then 1 else 0) + newly g T (dataStep g T (s, ({} : Stats)) fn).1 rest := rfl

theorem dataStep_planes (g : Geo P D) (T : Nat) (s : Airplanes P D) (st st' : Stats) (fn : Option DF × Nat) :
    (dataStep g T (s, st) fn).1 = (dataStep g T (s, st') fn).1 := by
  unfold dataStep; cases fn.1 <;> rfl

theorem added_eq_isNew (g : Geo P D) (now : Nat) (s : Airplanes P D) (df : DF) : (action g true now s df).2 = isNew s (some df) := by
  have h := C12.added_iff_new g true now s df
  unfold isNew
  simp only []
  cases hk : frameKey df with
  | none =>
    simp only []
    cases ha : (action g true now s df).2 with
    | false => rfl
    | true => obtain ⟨k, me, h1, _⟩ := h.mp ha; rw [hk] at h1; cases h1
  | some km =>
    obtain ⟨k, me⟩ := km
    simp only []
    cases hg : s.get k with
    | none => exact h.mpr ⟨k, me, hk, hg⟩
    | some p =>
      cases ha : (action g true now s df).2 with
      | false => rfl
      | true => obtain ⟨k', me', h1, h2⟩ := h.mp ha; rw [hk] at h1; cases h1; rw [hg] at h2; cases h2

/-- **"Total Airplanes" = the number of times an aircraft was newly added** -/
theorem total_counts_newly_added (g : Geo P D) (T : Nat) (fs : List (Option DF × Nat)) : ∀ (s : Airplanes P D) (st : Stats),
    (dataRun g T (s, st) fs).2.total = st.total + newly g T s fs := by
  induction fs with
  | nil => intro s st; rfl
  | cons fn rest ih =>
    intro s st
    unfold dataRun at *
    rw [List.foldl_cons]
    have e : dataStep g T (s, st) fn = ((dataStep g T (s, st) fn).1, (dataStep g T (s, st) fn).2) := rfl
    rw [e, ih, newly_cons]
    rw [dataStep_planes g T s st {} fn]
    have ht : (dataStep g T (s, st) fn).2.total = st.total + (if isNew s fn.1 then 1 else 0) := by
      unfold dataStep
      cases hf : fn.1 with
      | none => simp [isNew]
      | some df =>
        simp only [Stats.update]
        rw [added_eq_isNew]
        cases isNew s (some df) <;> simp
    rw [ht]; omega

/-- the largest number of aircraft tracked at once during the run (counted when a frame has been filed, before expiry) -/
def peak (g : Geo P D) (T : Nat) (s : Airplanes P D) : List (Option DF × Nat) → Nat
  | [] => 0
  | fn :: rest =>
    max (match fn.1 with | some df => (action g true fn.2 s df).1.length | none => 0) (peak g T (dataStep g T (s, ({} : Stats)) fn).1 rest)

theorem peak_cons (g : Geo P D) (T : Nat) (s : Airplanes P D) (fn : Option DF × Nat) (rest : List (Option DF × Nat)) :
    peak g T s (fn :: rest) = max (match fn.1 with | some df => (action g true fn.2 s df).1.length | none => 0) (peak g T (dataStep g T (s, ({} : Stats)) fn).1 rest) := rfl

/-- **"Most Airplanes" = the largest simultaneous count** -/
theorem most_is_peak (g : Geo P D) (T : Nat) (fs : List (Option DF × Nat)) : ∀ (s : Airplanes P D) (st : Stats),
    (dataRun g T (s, st) fs).2.most = max st.most (peak g T s fs) := by
  induction fs with
  | nil => intro s st; unfold dataRun peak; simp
  | cons fn rest ih =>
    intro s st
    unfold dataRun at *
    rw [List.foldl_cons]
    have e : dataStep g T (s, st) fn = ((dataStep g T (s, st) fn).1, (dataStep g T (s, st) fn).2) := rfl
    rw [e, ih, peak_cons]
    rw [dataStep_planes g T s st {} fn]
    have hm : (dataStep g T (s, st) fn).2.most = max st.most (match fn.1 with | some df => (action g true fn.2 s df).1.length | none => 0) := by
      unfold dataStep
      cases hf : fn.1 with
      | none => simp
      | some df =>
        simp only [Stats.update]
        split <;> omega
    rw [hm]; omega

/-- and the count on screen never exceeds it: at every point of a run that starts empty, `len ≤ most` -/
theorem count_le_most (g : Geo P D) (T : Nat) (fs : List (Option DF × Nat)) : ∀ (s : Airplanes P D) (st : Stats), s.length ≤ st.most →
    (dataRun g T (s, st) fs).1.length ≤ (dataRun g T (s, st) fs).2.most := by
  induction fs with
  | nil => intro s st h; exact h
  | cons fn rest ih =>
    intro s st h
    unfold dataRun at *
    rw [List.foldl_cons]
    have e : dataStep g T (s, st) fn = ((dataStep g T (s, st) fn).1, (dataStep g T (s, st) fn).2) := rfl
    rw [e]
    apply ih
    unfold dataStep
    cases hf : fn.1 with
    | none =>
      simp only []
      exact Nat.le_trans (List.length_filter_le _ _) h
    | some df =>
      simp only [Stats.update]
      refine Nat.le_trans (List.length_filter_le _ _) ?_
      split <;> omega

end Adsb.C18
