import Adsb.App
import Adsb.Gen.Formulas
import Mathlib.Analysis.SpecialFunctions.Trigonometric.Basic
import Mathlib.Analysis.SpecialFunctions.Log.Basic
import Mathlib.Tactic.Linarith
import Mathlib.Tactic.FieldSimp
import Mathlib.Tactic.Ring
/-! # C18 (part 2) — the map projection places the receiver at the centre, north above, east to the right (Mathlib, ℝ)

`toXY` is the model of `Settings::to_xy` / `to_mercator` (generic in the arithmetic; the driver evaluates it over `Float`,
tied to the screen by the end-to-end scenarios). Here it is instantiated with the real numbers and the real Mercator
function `ln tan(π/4 + φ/2)`, whose strict monotonicity on (−90°, 90°) is *proved* (it was an assumption in DESIGN §5/C18). -/

namespace Adsb.C18b
open Adsb Real

noncomputable def realArith : Arith ℝ :=
  { add := (· + ·), sub := (· - ·), mul := (· * ·), div := (· / ·), neg := fun x => -x, lit := fun n => (n : ℝ) }

/-- `ln(tan(π/4 + lat_rad/2))` with `lat` in degrees -/
noncomputable def mercN (lat : ℝ) : ℝ := Real.log (Real.tan (π / 4 + lat * (π / 180) / 2))

/-- `to_xy` over the reals: view centre `(lat0, lon0)`, view scale `scale` -/
noncomputable def xy (scale lat0 lon0 lat lon : ℝ) : ℝ × ℝ := toXY realArith mercN (2 * π) scale lat0 lon0 lat lon

theorem xy_eq (scale lat0 lon0 lat lon : ℝ) :
    xy scale lat0 lon0 lat lon = ((lon - lon0) * (scale / 360), scale * (mercN lat - mercN lat0) / (2 * π)) := by
  unfold xy toXY toMercator realArith
  simp only [Nat.cast_ofNat, Nat.cast_one]
  ext
  · ring
  · simp only; ring

/-- the argument of `tan` stays inside (0, π/2) for latitudes inside (−90°, 90°) -/
theorem arg_range (lat : ℝ) (h1 : -90 < lat) (h2 : lat < 90) :
    0 < π / 4 + lat * (π / 180) / 2 ∧ π / 4 + lat * (π / 180) / 2 < π / 2 := by
  have hp := Real.pi_pos
  constructor <;> nlinarith

/-- **the Mercator function is strictly increasing on (−90°, 90°)** -/
theorem mercN_strictMono (a b : ℝ) (ha : -90 < a) (hab : a < b) (hb : b < 90) : mercN a < mercN b := by
  have hp := Real.pi_pos
  obtain ⟨a0, a1⟩ := arg_range a ha (by linarith)
  obtain ⟨b0, b1⟩ := arg_range b (by linarith) hb
  unfold mercN
  apply Real.log_lt_log (Real.tan_pos_of_pos_of_lt_pi_div_two a0 a1)
  apply Real.tan_lt_tan_of_lt_of_lt_pi_div_two (by linarith) b1
  nlinarith

/-- **the view centre (the receiver, unless the operator panned) is drawn at the centre of the map** -/
theorem centre_at_origin (scale lat0 lon0 : ℝ) : xy scale lat0 lon0 lat0 lon0 = (0, 0) := by
  rw [xy_eq]; simp

/-- **east is to the right, at an offset proportional to the longitude difference** -/
theorem x_proportional (scale lat0 lon0 lat lon : ℝ) : (xy scale lat0 lon0 lat lon).1 = (lon - lon0) * (scale / 360) := by
  rw [xy_eq]

theorem east_is_right (scale lat0 lon0 lat lon : ℝ) (hs : 0 < scale) (h : lon0 < lon) : 0 < (xy scale lat0 lon0 lat lon).1 := by
  rw [x_proportional]; apply mul_pos (by linarith) (by positivity)

/-- **north is up**: a target north of the view centre has a positive y (the canvas's y axis points up), one to the south a
negative y, and of two targets the more northern one is drawn higher -/
theorem north_is_up (scale lat0 lon0 lat lon : ℝ) (hs : 0 < scale) (h0 : -90 < lat0) (h : lat0 < lat) (h1 : lat < 90) :
    0 < (xy scale lat0 lon0 lat lon).2 := by
  rw [xy_eq]
  have := mercN_strictMono lat0 lat h0 h h1
  have hp := Real.pi_pos
  apply div_pos (mul_pos hs (by linarith)) (by positivity)

theorem y_monotone (scale lat0 lon0 la lo lb lo' : ℝ) (hs : 0 < scale) (ha : -90 < la) (hab : la < lb) (hb : lb < 90) :
    (xy scale lat0 lon0 la lo).2 < (xy scale lat0 lon0 lb lo').2 := by
  rw [xy_eq, xy_eq]
  have := mercN_strictMono la lb ha hab hb
  have hp := Real.pi_pos
  simp only
  apply div_lt_div_of_pos_right _ (by positivity)
  apply mul_lt_mul_of_pos_left (by linarith) hs

/-- **zoom and pan change only the view**: the offset of a target scales linearly with the view scale (zoom) and panning
the centre translates every target by the same amount — the data (`lat`, `lon`) never enters except through `xy` -/
theorem zoom_scales (k scale lat0 lon0 lat lon : ℝ) :
    xy (k * scale) lat0 lon0 lat lon = (k * (xy scale lat0 lon0 lat lon).1, k * (xy scale lat0 lon0 lat lon).2) := by
  rw [xy_eq, xy_eq]; ext <;> simp only <;> ring

theorem pan_translates (scale lat0 lon0 lat1 lon1 lat lon : ℝ) :
    (xy scale lat1 lon1 lat lon).1 = (xy scale lat0 lon0 lat lon).1 - (xy scale lat0 lon0 lat1 lon1).1 ∧
    (xy scale lat1 lon1 lat lon).2 = (xy scale lat0 lon0 lat lon).2 - (xy scale lat0 lon0 lat1 lon1).2 := by
  rw [xy_eq, xy_eq, xy_eq]; constructor <;> simp only <;> ring

/-! ## the projection as translated from the source on this run -/

/-- `Settings::to_mercator` / `to_xy` as written in `radar.rs` today (translated by `tools/rust2lean.py`, generic in the number type) are,
term for term, the definitions the theorems above are about -/
theorem src_toMercator_eq {α : Type} (H : MercOps α) (sc lat lon : α) :
    Gen.toMercatorSrc H sc lat lon = toMercator H.arith H.mercN (H.mul (H.lit 2) H.pi) sc lat lon := rfl

theorem src_toXY_eq {α : Type} (H : MercOps α) (sc lat0 lon0 lat lon : α) :
    Gen.toXYSrc H sc lat0 lon0 lat lon = toXY H.arith H.mercN (H.mul (H.lit 2) H.pi) sc lat0 lon0 lat lon := rfl

/-- the real-number instance of the source's operations -/
noncomputable def realMerc : MercOps ℝ :=
  { add := (· + ·), sub := (· - ·), mul := (· * ·), div := (· / ·), neg := fun x => -x, lit := fun n => (n : ℝ), pi := π,
    ln := Real.log, tan := Real.tan }

/-- **the projection of the source text is the projection the map theorems are about** (over the reals) -/
theorem src_xy (scale lat0 lon0 lat lon : ℝ) : Gen.toXYSrc realMerc scale lat0 lon0 lat lon = xy scale lat0 lon0 lat lon := by
  rw [src_toXY_eq]
  unfold xy
  have hm : realMerc.mercN = mercN := by
    funext l; unfold MercOps.mercN realMerc mercN; simp only [Nat.cast_ofNat]
  have ha : realMerc.arith = realArith := rfl
  rw [hm, ha]
  simp [realMerc]

end Adsb.C18b
