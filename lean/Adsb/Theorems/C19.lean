import Adsb.ReaderSched
import Adsb.Lemmas.Reject
/-! # C19 — reader decoding is independent of read fragmentation and transient errors -/

namespace Adsb.C19
open Adsb
set_option linter.unusedSimpArgs false

theorem slice_length (l : List UInt8) (p n : Nat) (h : p + n ≤ l.length) : (slice l p n).length = n := by
  unfold slice; rw [List.length_take, List.length_drop]; omega

theorem take_append_slice (l : List UInt8) (p n : Nat) : l.take p ++ slice l p n = l.take (p + n) := by
  unfold slice; rw [List.take_add]

theorem slice_append (l : List UInt8) (p n m : Nat) : slice l p n ++ slice l (p + n) m = slice l p (n + m) := by
  unfold slice
  rw [List.take_add, List.drop_drop, Nat.add_comm p n]

/-- what one call of the scheduled inner reader does -/
theorem inner_read_spec (r : Inner) (want : Nat) :
    ((r.read want).1 = none ∧ (r.read want).2.pos = r.pos ∧ (r.read want).2.data = r.data ∧ (r.read want).2.sched.length < r.sched.length) ∨
    (∃ n, (r.read want).1 = some (slice r.data r.pos n) ∧ n ≤ want ∧ r.pos + n ≤ max r.pos r.data.length ∧
        (r.read want).2.pos = r.pos + n ∧ (r.read want).2.data = r.data ∧
        (r.read want).2.sched.length ≤ r.sched.length ∧
        (n = 0 → (0 < want → r.data.length ≤ r.pos) ) ∧
        (r.sched = [] → n = min want (r.data.length - r.pos))) := by
  unfold Inner.read
  cases hs : r.sched with
  | nil =>
    right
    refine ⟨min want (r.data.length - r.pos), rfl, by omega, by omega, rfl, rfl, by simp, by omega, fun _ => rfl⟩
  | cons e rest =>
    cases e with
    | intr => left; exact ⟨rfl, rfl, rfl, by simp⟩
    | chunk k =>
      right
      refine ⟨min (min want (k + 1)) (r.data.length - r.pos), rfl, by omega, by omega, rfl, rfl, by simp, by omega, fun h => by cases h⟩

theorem rc_read_none (rc : RC) (want : Nat) (i : Inner) (h : rc.inner.read want = (none, i)) :
    rc.read want = (none, { rc with inner := i }) := by
  unfold RC.read; rw [h]

theorem rc_read_some (rc : RC) (want : Nat) (bs : List UInt8) (i : Inner) (h : rc.inner.read want = (some bs, i)) :
    rc.read want = (some bs, { inner := i, cache := cacheAfter rc.cache rc.pos bs, pos := rc.pos + bs.length }) := by
  unfold RC.read; rw [h]

theorem slice_drop (l : List UInt8) (p n k : Nat) : (slice l p n).drop k = slice l (p + k) (n - k) := by
  unfold slice
  rw [List.drop_take, List.drop_drop]

/-- the cache after reading `n` bytes at offset `p` is the prefix up to the highest offset -/
theorem cache_extend (data cache : List UInt8) (p n : Nat) (hc : cache = data.take cache.length) (hp : p ≤ cache.length)
    (hlen : cache.length ≤ data.length) (hn : p + n ≤ data.length) :
    cacheAfter cache p (slice data p n) = data.take (cacheAfter cache p (slice data p n)).length ∧
    (cacheAfter cache p (slice data p n)).length = max cache.length (p + n) := by
  have hsl : (slice data p n).length = n := slice_length _ _ _ hn
  unfold cacheAfter
  simp only [hsl]
  by_cases hgt : p + n > cache.length
  · rw [if_pos hgt]
    have hm : min n (p + n - cache.length) = p + n - cache.length := by omega
    rw [hm, slice_drop]
    have e1 : p + (n - (p + n - cache.length)) = cache.length := by omega
    have e2 : n - (n - (p + n - cache.length)) = p + n - cache.length := by omega
    rw [e1, e2]
    have hl2 : (slice data cache.length (p + n - cache.length)).length = p + n - cache.length := slice_length _ _ _ (by omega)
    have hsum : cache.length + (p + n - cache.length) = p + n := by omega
    have happ : cache ++ slice data cache.length (p + n - cache.length) = data.take (p + n) := by
      have := congrArg (fun c => c ++ slice data cache.length (p + n - cache.length)) hc
      rw [show cache ++ slice data cache.length (p + n - cache.length) = data.take cache.length ++ slice data cache.length (p + n - cache.length) from this,
        take_append_slice, hsum]
    constructor
    · rw [List.length_append, hl2, hsum]; exact happ
    · rw [List.length_append, hl2]; omega
  · rw [if_neg hgt]
    exact ⟨hc, by omega⟩

/-- **one `ReaderCrc::read` call keeps the invariant**: an interrupted call changes nothing but the schedule; a (possibly
short) read advances the offset and extends the cache by exactly the bytes past its end -/
theorem rc_read_spec (rc : RC) (want : Nat) (h : rc.Good) :
    ((rc.read want).1 = none ∧ (rc.read want).2.Good ∧ (rc.read want).2.pos = rc.pos ∧ (rc.read want).2.cache = rc.cache ∧
        (rc.read want).2.inner.data = rc.inner.data ∧ (rc.read want).2.inner.sched.length < rc.inner.sched.length) ∨
    (∃ n, (rc.read want).1 = some (slice rc.inner.data rc.pos n) ∧ n ≤ want ∧ rc.pos + n ≤ rc.inner.data.length ∧
        (rc.read want).2.Good ∧ (rc.read want).2.pos = rc.pos + n ∧
        (rc.read want).2.cache.length = max rc.cache.length (rc.pos + n) ∧
        (rc.read want).2.inner.data = rc.inner.data ∧ (rc.read want).2.inner.sched.length ≤ rc.inner.sched.length ∧
        (n = 0 → 0 < want → rc.inner.data.length ≤ rc.pos) ∧
        (rc.inner.sched = [] → n = min want (rc.inner.data.length - rc.pos))) := by
  obtain ⟨hpos, hcache, hle, hlen⟩ := h
  rcases inner_read_spec rc.inner want with ⟨h1, h2, h3, h4⟩ | ⟨n, h1, h2, h3, h4, h5, h6, h7, h8⟩
  · left
    have e : rc.inner.read want = (none, (rc.inner.read want).2) := by rw [← h1]
    rw [rc_read_none rc want _ e]
    exact ⟨rfl, ⟨hpos.trans h2.symm, by show rc.cache = List.take rc.cache.length (rc.inner.read want).2.data; rw [h3]; exact hcache, hle,
      by show rc.cache.length ≤ (rc.inner.read want).2.data.length; rw [h3]; exact hlen⟩, rfl, rfl, h3, h4⟩
  · right
    have hn : rc.pos + n ≤ rc.inner.data.length := by rw [hpos]; omega
    have hsl : (slice rc.inner.data rc.pos n).length = n := slice_length _ _ _ hn
    have e : rc.inner.read want = (some (slice rc.inner.data rc.pos n), (rc.inner.read want).2) := by rw [hpos, ← h1]
    have hce := cache_extend rc.inner.data rc.cache rc.pos n hcache hle hlen hn
    rw [rc_read_some rc want _ _ e]
    refine ⟨n, rfl, h2, hn, ⟨?_, ?_, ?_, ?_⟩, ?_, ?_, h5, h6, ?_, ?_⟩
    · show rc.pos + (slice rc.inner.data rc.pos n).length = (rc.inner.read want).2.pos
      rw [hsl, h4, hpos]
    · show _ = List.take _ (rc.inner.read want).2.data
      rw [h5]; exact hce.1
    · show rc.pos + (slice rc.inner.data rc.pos n).length ≤ _
      rw [hsl]
      have := hce.2
      simp only [] at this ⊢
      omega
    · show _ ≤ (rc.inner.read want).2.data.length
      rw [h5]
      have := hce.2
      simp only [] at this ⊢
      omega
    · show rc.pos + (slice rc.inner.data rc.pos n).length = rc.pos + n
      rw [hsl]
    · exact hce.2
    · intro hn0 hw; have := h7 hn0 hw; rw [hpos]; exact this
    · intro hs; rw [hpos]; exact h8 hs

/-- **`read_exact` is independent of the schedule**: on a reader in a good state, for every fragmentation and every
placement of transient `Interrupted` errors, `read_exact(want)` returns exactly the next `want` bytes of the data,
advances the offset by `want`, leaves the cache equal to the data prefix up to the highest offset ever read — and fails
(`UnexpectedEof`) exactly when fewer than `want` bytes remain. It never loops: the fuel `schedule length + want + 1` suffices. -/
theorem readExact_spec (fuel : Nat) : ∀ (rc : RC) (want : Nat), rc.Good → rc.inner.sched.length + want < fuel →
    (rc.pos + want ≤ rc.inner.data.length →
      ∃ rc', readExact fuel rc want = .ok (slice rc.inner.data rc.pos want, rc') ∧ rc'.Good ∧ rc'.pos = rc.pos + want ∧
        rc'.cache.length = max rc.cache.length (rc.pos + want) ∧ rc'.inner.data = rc.inner.data) ∧
    (rc.inner.data.length < rc.pos + want → ∃ e, readExact fuel rc want = .err e) := by
  induction fuel with
  | zero => intro rc want _ hf; omega
  | succ fuel ih =>
    intro rc want hg hf
    cases want with
    | zero =>
      have hpl : rc.pos ≤ rc.inner.data.length := by have := hg.2.2.1; have := hg.2.2.2; omega
      refine ⟨fun _ => ⟨rc, ?_, hg, rfl, ?_, rfl⟩, fun h => by omega⟩
      · simp [readExact, slice]
      · have := hg.2.2.1; omega
    | succ want =>
      have eta : rc.read (want + 1) = ((rc.read (want + 1)).1, (rc.read (want + 1)).2) := rfl
      rcases rc_read_spec rc (want + 1) hg with ⟨h1, hg', hp', hc', hd', hs'⟩ | ⟨n, h1, hnw, hnl, hg', hp', hc', hd', hs', hz, _⟩
      · -- interrupted: retry with a shorter schedule
        have hstep : readExact (fuel + 1) rc (want + 1) = readExact fuel (rc.read (want + 1)).2 (want + 1) := by
          rw [readExact, eta, h1]
        rw [hstep]
        have := ih (rc.read (want + 1)).2 (want + 1) hg' (by omega)
        rw [hp', hd', hc'] at this
        exact this
      · by_cases hn0 : n = 0
        · subst hn0
          have hlen0 : (slice rc.inner.data rc.pos 0).length = 0 := by simp [slice]
          have hstep : readExact (fuel + 1) rc (want + 1) = .err .incomplete := by
            rw [readExact, eta, h1]; simp only [hlen0, if_true]
          rw [hstep]
          refine ⟨fun hfit => ?_, fun _ => ⟨_, rfl⟩⟩
          have := hz rfl (by omega)
          omega
        · have hsl : (slice rc.inner.data rc.pos n).length = n := slice_length _ _ _ hnl
          have := ih (rc.read (want + 1)).2 (want + 1 - n) hg' (by omega)
          rw [hp', hd', hc'] at this
          obtain ⟨ihok, iherr⟩ := this
          constructor
          · intro hfit
            obtain ⟨rc', hr, hgood, hpos, hcl, hdat⟩ := ihok (by omega)
            refine ⟨rc', ?_, hgood, ?_, ?_, hdat⟩
            · rw [readExact, eta, h1]
              simp only [hsl, hn0, if_false, hr]
              rw [slice_append]
              have e : n + (want + 1 - n) = want + 1 := by omega
              rw [e]
            · rw [hpos]; clear ihok iherr ih hr; omega
            · rw [hcl]; clear ihok iherr ih hr; omega
          · intro hshort
            obtain ⟨e, he⟩ := iherr (by omega)
            refine ⟨e, ?_⟩
            rw [readExact, eta, h1]
            simp only [hsl, hn0, if_false, he]

/-- a backward seek keeps the invariant (deku only seeks back over bytes it has read) -/
theorem seekBack_good (rc : RC) (j : Nat) (h : rc.Good) (hj : j ≤ rc.pos) : (rc.seekBack j).Good := by
  obtain ⟨h1, h2, h3, h4⟩ := h
  refine ⟨?_, h2, ?_, h4⟩
  · show rc.pos - j = rc.inner.pos - j; rw [h1]
  · show rc.pos - j ≤ rc.cache.length; omega

/-- **refinement**: for every schedule, every sequence of `read_exact` / backward-seek calls delivers the same bytes as
reading the slice directly, ends at the same offset, and leaves `ReaderCrc`'s cache equal to the first `hi` bytes — the
window the checksum is computed over. Hence `from_reader` computes what `from_bytes` computes. -/
theorem reader_refines_cursor (calls : List Call) : ∀ (rc : RC), rc.Good →
    match specRun rc.inner.data rc.pos rc.cache.length calls with
    | some (outs, pos, hi) => ∃ rc', concRun rc calls = some (outs, rc') ∧ rc'.Good ∧ rc'.pos = pos ∧ rc'.cache.length = hi ∧
        rc'.cache = rc.inner.data.take hi
    | none => concRun rc calls = none := by
  induction calls with
  | nil => intro rc hg; exact ⟨rc, rfl, hg, rfl, rfl, hg.2.1⟩
  | cons c rest ih =>
    intro rc hg
    cases c with
    | read k =>
      simp only [specRun, concRun]
      have hsp := readExact_spec (rc.inner.sched.length + k + 1) rc k hg (by omega)
      by_cases hfit : rc.pos + k ≤ rc.inner.data.length
      · rw [if_pos hfit]
        obtain ⟨rc', hr, hg', hp', hc', hd'⟩ := hsp.1 hfit
        rw [hr]
        have := ih rc' hg'
        rw [hd', hp', hc'] at this
        cases hs : specRun rc.inner.data (rc.pos + k) (max rc.cache.length (rc.pos + k)) rest with
        | none => rw [hs] at this; simp [this]
        | some r =>
          obtain ⟨outs, pos, hi⟩ := r
          rw [hs] at this
          obtain ⟨rc'', h1, h2, h3, h4, h5⟩ := this
          simp only [Option.map_some]
          exact ⟨rc'', by rw [h1]; rfl, h2, h3, h4, h5⟩
      · rw [if_neg hfit]
        obtain ⟨e, he⟩ := hsp.2 (by omega)
        rw [he]
    | seekBack j =>
      simp only [specRun, concRun]
      by_cases hj : j ≤ rc.pos
      · rw [if_pos hj, if_pos hj]
        exact ih (rc.seekBack j) (seekBack_good rc j hg hj)
      · rw [if_neg hj, if_neg hj]

theorem drop_shift (pre d : List UInt8) (p : Nat) : (pre ++ d).drop (p + pre.length) = d.drop p := by
  rw [Nat.add_comm, ← List.drop_drop, List.drop_left]

theorem inner_read_shift (r : Inner) (pre : List UInt8) (want : Nat) :
    ({ r with data := pre ++ r.data, pos := r.pos + pre.length } : Inner).read want =
      ((r.read want).1, { (r.read want).2 with data := pre ++ (r.read want).2.data, pos := (r.read want).2.pos + pre.length }) := by
  unfold Inner.read
  cases hs : r.sched with
  | nil =>
    simp only [drop_shift, List.length_append]
    have : pre.length + r.data.length - (r.pos + pre.length) = r.data.length - r.pos := by omega
    simp [this]; omega
  | cons e rest =>
    cases e with
    | intr => rfl
    | chunk k =>
      simp only [drop_shift, List.length_append]
      have : pre.length + r.data.length - (r.pos + pre.length) = r.data.length - r.pos := by omega
      simp [this]; omega

theorem rc_read_shift (rc : RC) (pre : List UInt8) (want : Nat) :
    (rc.shift pre).read want = ((rc.read want).1, (rc.read want).2.shift pre) := by
  unfold RC.read RC.shift
  simp only [inner_read_shift]
  cases h : rc.inner.read want with
  | mk o i => cases o <;> rfl

def shiftRes (pre : List UInt8) : Res (List UInt8 × RC) → Res (List UInt8 × RC)
  | .ok (bs, rc) => .ok (bs, rc.shift pre)
  | .err e => .err e
  | .panic p => .panic p

theorem readExact_shift (pre : List UInt8) (fuel : Nat) : ∀ (rc : RC) (want : Nat),
    readExact fuel (rc.shift pre) want = shiftRes pre (readExact fuel rc want) := by
  induction fuel with
  | zero => intro rc want; rfl
  | succ fuel ih =>
    intro rc want
    cases want with
    | zero => rfl
    | succ w =>
      simp only [readExact, rc_read_shift]
      cases h : rc.read (w + 1) with
      | mk o rc' =>
        cases o with
        | none => simp only; exact ih rc' (w + 1)
        | some bs =>
          simp only
          split
          · rfl
          · rw [ih]
            cases readExact fuel rc' (w + 1 - bs.length) with
            | ok r => obtain ⟨a, b⟩ := r; rfl
            | err e => rfl
            | panic p => rfl

theorem seekBack_shift (pre : List UInt8) (rc : RC) (j : Nat) (hj : j ≤ rc.inner.pos) :
    (rc.shift pre).seekBack j = (rc.seekBack j).shift pre := by
  unfold RC.seekBack RC.shift
  simp only
  congr 2
  omega

theorem rc_read_pos (rc : RC) (want : Nat) (h : rc.pos = rc.inner.pos) : (rc.read want).2.pos = (rc.read want).2.inner.pos := by
  unfold RC.read Inner.read
  cases hs : rc.inner.sched with
  | nil => simp only [List.length_take, List.length_drop]; omega
  | cons e rest =>
    cases e with
    | intr => exact h
    | chunk k => simp only [List.length_take, List.length_drop]; omega

theorem readExact_pos (fuel : Nat) : ∀ (rc rc' : RC) (want : Nat) (bs : List UInt8), rc.pos = rc.inner.pos →
    readExact fuel rc want = .ok (bs, rc') → rc'.pos = rc'.inner.pos := by
  induction fuel with
  | zero => intro rc rc' want bs _ h; cases h
  | succ fuel ih =>
    intro rc rc' want bs hp h
    cases want with
    | zero => simp only [readExact] at h; cases h; exact hp
    | succ w =>
      simp only [readExact] at h
      have hp' := rc_read_pos rc (w + 1) hp
      cases hr : rc.read (w + 1) with
      | mk o rc1 =>
        rw [hr] at h hp'
        cases o with
        | none => exact ih rc1 rc' _ bs hp' h
        | some b1 =>
          simp only at h
          split at h
          · cases h
          · cases h2 : readExact fuel rc1 (w + 1 - b1.length) with
            | ok r =>
              obtain ⟨a, b⟩ := r
              rw [h2] at h
              cases h
              exact ih rc1 _ _ a hp' h2
            | err e => rw [h2] at h; cases h
            | panic p => rw [h2] at h; cases h

/-- **a frame that does not start at offset 0 of its reader**: with any prefix in front (the reader standing just after it),
every call sequence returns the same bytes and leaves the same cache and offset as at offset 0 -/
theorem concRun_shift (pre : List UInt8) (calls : List Call) : ∀ (rc : RC), rc.pos = rc.inner.pos →
    concRun (rc.shift pre) calls = (concRun rc calls).map (fun r => (r.1, r.2.shift pre)) := by
  induction calls with
  | nil => intro rc _; rfl
  | cons c rest ih =>
    intro rc hp
    cases c with
    | read k =>
      simp only [concRun]
      have hs : (rc.shift pre).inner.sched.length = rc.inner.sched.length := rfl
      rw [hs, readExact_shift]
      cases hr : readExact (rc.inner.sched.length + k + 1) rc k with
      | ok r =>
        obtain ⟨bs, rc'⟩ := r
        simp only [shiftRes]
        rw [ih rc' (readExact_pos _ rc rc' k bs hp hr)]
        cases concRun rc' rest <;> rfl
      | err e => rfl
      | panic p => rfl
    | seekBack j =>
      simp only [concRun]
      have : (rc.shift pre).pos = rc.pos := rfl
      rw [this]
      split
      · rename_i hj
        rw [seekBack_shift pre rc j (by omega)]
        exact ih (rc.seekBack j) (by show rc.pos - j = rc.inner.pos - j; rw [hp])
      · rfl

/-- **refinement at any offset**: `from_reader` on a reader that stands after an arbitrary prefix (a frame inside a longer
stream) behaves, for every schedule, exactly like the slice cursor over the frame's own bytes -/
theorem reader_refines_cursor_at_offset (pre : List UInt8) (calls : List Call) (rc : RC) (hg : rc.Good) :
    match specRun rc.inner.data rc.pos rc.cache.length calls with
    | some (outs, pos, hi) => ∃ rc' : RC, concRun (rc.shift pre) calls = some (outs, rc'.shift pre) ∧ rc'.pos = pos ∧
        (rc'.shift pre).cache = rc.inner.data.take hi
    | none => concRun (rc.shift pre) calls = none := by
  have h := reader_refines_cursor calls rc hg
  rw [concRun_shift pre calls rc hg.1]
  cases hs : specRun rc.inner.data rc.pos rc.cache.length calls with
  | none => rw [hs] at h; simp [h]
  | some r =>
    obtain ⟨outs, pos, hi⟩ := r
    rw [hs] at h
    obtain ⟨rc', h1, _, h3, _, h5⟩ := h
    exact ⟨rc', by rw [h1]; rfl, h3, h5⟩

/-- decoding is a pure function of the bytes (the model is a function; repetition and interleaving cannot matter) -/
theorem decode_pure (B : Buf) : decode B = decode B := rfl

end Adsb.C19
