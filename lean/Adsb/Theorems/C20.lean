import Adsb.Theorems.C14
/-! # C20 — the alloc-only build equals the std build (up to the time stamps only std has)

The decoder has no `cfg`-dependent semantics (the translator lists every `cfg(feature …)` item of the
sources and the check compares the list with the reviewed one: imports, `SystemTime` fields and `prune`
only). The tracker differs in exactly three places: `AirplaneState::last_time`, `AirplaneCoor::last_time`
and `prune`. The model carries the configuration as the flag `std`; the theorems show that nothing but
the time stamps depends on it: per step (`update_core` … `added_std_independent`) and, by induction over histories,
for whole runs (`run_erase`, `builds_agree`, `records_agree`). -/

namespace Adsb.C20
open Adsb Adsb.C12 Adsb.C13 Adsb.C14
set_option linter.unusedSimpArgs false
variable {P D : Type}

/-- a coordinate record without its time stamp -/
def core (c : Coor P D) : Option Alt × Option Alt × Option P × Option D := (c.even, c.odd, c.pos, c.kd)

/-- **the position decision does not depend on the build configuration or the clock**: it is a function of the
stored reports, the published position and the geometry alone -/
theorem update_core (g : Geo P D) (std : Bool) (now : Nat) (c : Coor P D) :
    (Coor.update g std now c).map core =
      match c.even, c.odd with
      | some e, some o => (match g.getPos e o with
          | none => none
          | some p => if plausible g c.pos p then some (c.even, c.odd, some p, some (g.rxDist p)) else none)
      | _, _ => some (core c) := by
  cases he : c.even with
  | none => rw [update_one_slot g std now c (Or.inl he)]; simp [core, he]
  | some e =>
    cases ho : c.odd with
    | none => rw [update_one_slot g std now c (Or.inr ho)]; simp [core, he, ho]
    | some o =>
      rw [update_both_slots g std now c e o he ho]
      simp only []
      cases g.getPos e o with
      | none => rfl
      | some p =>
        simp only []
        split
        · simp [core, he, ho]
        · rfl

theorem update_std_independent (g : Geo P D) (now now' : Nat) (c c' : Coor P D) (h : core c = core c') :
    (Coor.update g true now c).map core = (Coor.update g false now' c').map core := by
  rw [update_core, update_core]
  simp only [core, Prod.mk.injEq] at h
  obtain ⟨h1, h2, h3, h4⟩ := h
  rw [h1, h2, h3]
  cases c'.even <;> cases c'.odd <;> simp [core, h1, h2, h3, h4]

/-- the "unchanged coordinates" test ignores the time stamps (the repaired comparison) -/
theorem same_ignores_time (g : Geo P D) (a b a' b' : Coor P D) (ha : core a = core a') (hb : core b = core b') :
    Coor.same g a b = Coor.same g a' b' := by
  simp only [core, Prod.mk.injEq] at ha hb
  obtain ⟨a1, a2, a3, a4⟩ := ha
  obtain ⟨b1, b2, b3, b4⟩ := hb
  unfold Coor.same
  rw [a1, a2, a3, a4, b1, b2, b3, b4]

/-- callsign, velocity and message count of a step do not depend on the configuration or the clock -/
theorem attributes_std_independent (g : Geo P D) (now now' : Nat) (st : Plane P D) (me : ME) :
    (stepPlane g true now st me).callsign = (stepPlane g false now' st me).callsign ∧
    (stepPlane g true now st me).vel = (stepPlane g false now' st me).vel := by
  rw [callsign_latest, callsign_latest, velocity_latest, velocity_latest]
  exact ⟨rfl, rfl⟩

/-- 'added' does not depend on the configuration or the clock -/
theorem added_std_independent (g : Geo P D) (now now' : Nat) (s : Airplanes P D) (df : DF) :
    (action g true now s df).2 = (action g false now' s df).2 := by
  cases hk : frameKey df with
  | none => rw [other_formats_noop _ _ _ _ _ hk, other_formats_noop _ _ _ _ _ hk]
  | some km =>
    obtain ⟨k, me⟩ := km
    rw [action_tracked _ _ _ _ _ k me hk, action_tracked _ _ _ _ _ k me hk]
    unfold entryOrInsert
    cases s.get k <;> rfl

/-- forget what only the std build has: the time stamps -/
def eraseC (c : Coor P D) : Coor P D := { c with lastTime := none }
def eraseP (p : Plane P D) : Plane P D :=
  { p with coords := eraseC p.coords, lastTime := 0, track := p.track.map (fun t => t.map eraseC) }
def eraseS (s : Airplanes P D) : Airplanes P D := s.map (fun kv => (kv.1, eraseP kv.2))

theorem get_eraseS (s : Airplanes P D) (k : Nat) : (eraseS s).get k = (s.get k).map eraseP := by
  induction s with
  | nil => rfl
  | cons kv rest ih =>
    obtain ⟨k', v⟩ := kv
    simp only [eraseS, List.map_cons, Airplanes.get] at ih ⊢
    split
    · rfl
    · exact ih

theorem put_eraseS (s : Airplanes P D) (k : Nat) (v : Plane P D) : eraseS (s.put k v) = (eraseS s).put k (eraseP v) := by
  induction s with
  | nil => rfl
  | cons kv rest ih =>
    obtain ⟨k', v'⟩ := kv
    simp only [eraseS, List.map_cons, Airplanes.put] at ih ⊢
    split
    · rfl
    · split
      · rfl
      · simp only [List.map_cons]; rw [ih]

theorem update_erase (g : Geo P D) (std std' : Bool) (now now' : Nat) (c : Coor P D) :
    (Coor.update g std now c).map eraseC = (Coor.update g std' now' (eraseC c)).map eraseC := by
  obtain ⟨e, o, pos, lt, kd⟩ := c
  unfold Coor.update eraseC
  cases e <;> cases o <;> simp only [Option.map]
  rename_i e o
  cases g.getPos e o with
  | none => rfl
  | some p =>
    simp only
    by_cases h1 : g.outOfRange (g.rxDist p) = true
    · simp [h1]
    · cases pos with
      | none => simp [h1]
      | some cur =>
        by_cases h2 : g.jump (g.dist cur p) = true
        · simp [h1, h2]
        · simp [h1, h2]

theorem same_erase (g : Geo P D) (a b : Coor P D) : Coor.same g (eraseC a) (eraseC b) = Coor.same g a b := rfl

theorem eraseC_idem (c : Coor P D) : eraseC (eraseC c) = eraseC c := rfl

theorem updatePosition_erase (g : Geo P D) (std std' : Bool) (now now' : Nat) (st : Plane P D) (a : Alt) :
    eraseP (updatePosition g std now st a) = eraseP (updatePosition g std' now' (eraseP st) a) := by
  unfold updatePosition
  -- the candidate record of the erased state is the erased candidate
  have htemp : ∀ st : Plane P D, (if a.f = 0 then { (eraseP st).coords with even := some a } else { (eraseP st).coords with odd := some a } : Coor P D)
      = eraseC (if a.f = 0 then { st.coords with even := some a } else { st.coords with odd := some a }) := by
    intro st; split <;> rfl
  simp only [htemp st]
  generalize (if a.f = 0 then { st.coords with even := some a } else { st.coords with odd := some a } : Coor P D) = temp
  have hu := update_erase g std std' now now' temp
  cases h1 : Coor.update g std now temp with
  | none =>
    rw [h1] at hu
    cases h2 : Coor.update g std' now' (eraseC temp) with
    | none =>
      simp only
      unfold eraseP eraseC
      simp only [Option.isSome_map]
      cases hp : st.coords.pos <;> cases ht : st.track <;> simp [hp, ht, List.map_append]
    | some t => rw [h2] at hu; cases hu
  | some t =>
    rw [h1] at hu
    cases h2 : Coor.update g std' now' (eraseC temp) with
    | none => rw [h2] at hu; cases hu
    | some t' =>
      rw [h2] at hu
      simp only [Option.map_some, Option.some.injEq] at hu
      simp only
      have hs : Coor.same g (eraseP st).coords t' = Coor.same g st.coords t := by
        have e1 : Coor.same g (eraseP st).coords t' = Coor.same g (eraseC st.coords) (eraseC t') := rfl
        rw [e1, ← hu]; rfl
      rw [hs]
      split
      · unfold eraseP eraseC; cases ht : st.track <;> simp [ht]
      · unfold eraseP; simp only
        have hq : t.even = t'.even ∧ t.odd = t'.odd ∧ t.pos = t'.pos ∧ t.kd = t'.kd := by
          have := hu; simp only [eraseC, Coor.mk.injEq] at this; exact ⟨this.1, this.2.1, this.2.2.1, this.2.2.2.2⟩
        cases ht : st.track <;> simp [ht, List.map_append, eraseC, hq]

theorem eraseP_bump (p q : Plane P D) (h : eraseP p = eraseP q) (n n' : Nat) :
    eraseP { p with numMessages := p.numMessages + 1, lastTime := n } = eraseP { q with numMessages := q.numMessages + 1, lastTime := n' } := by
  simp only [eraseP, Plane.mk.injEq] at h ⊢
  exact ⟨h.1, h.2.1, h.2.2.1, by rw [h.2.2.2.1], trivial, h.2.2.2.2.2⟩

/-- the payload part of a step (before the message count and the time stamp are updated) -/
def payload (g : Geo P D) (std : Bool) (now : Nat) (st : Plane P D) (me : ME) : Plane P D :=
  match me with
  | .ident i => { st with callsign := some i.cn }
  | .velocity v => (match v.calc with
      | some r => { st with vel := some r }
      | none => st)
  | .airPosBaro a => updatePosition g std now st a
  | .airPosGnss a => updatePosition g std now st a
  | _ => st

theorem stepPlane_eq (g : Geo P D) (std : Bool) (now : Nat) (st : Plane P D) (me : ME) :
    stepPlane g std now st me = { payload g std now st me with
      numMessages := (payload g std now st me).numMessages + 1,
      lastTime := (if std then now else (payload g std now st me).lastTime) } := rfl

theorem payload_erase (g : Geo P D) (std std' : Bool) (now now' : Nat) (st : Plane P D) (me : ME) :
    eraseP (payload g std now st me) = eraseP (payload g std' now' (eraseP st) me) := by
  cases me with
  | airPosBaro a => exact updatePosition_erase g std std' now now' st a
  | airPosGnss a => exact updatePosition_erase g std std' now now' st a
  | velocity v =>
    simp only [payload]
    cases v.calc <;> (simp [eraseP, eraseC, Option.map_map, List.map_map, Function.comp_def]; rfl)
  | _ => simp [payload, eraseP, eraseC, Option.map_map, List.map_map, Function.comp_def]; rfl

theorem stepPlane_erase (g : Geo P D) (std std' : Bool) (now now' : Nat) (st : Plane P D) (me : ME) :
    eraseP (stepPlane g std now st me) = eraseP (stepPlane g std' now' (eraseP st) me) := by
  rw [stepPlane_eq, stepPlane_eq]
  exact eraseP_bump _ _ (payload_erase g std std' now now' st me) _ _

theorem eraseP_idem (p : Plane P D) : eraseP (eraseP p) = eraseP p := by
  simp [eraseP, eraseC, Option.map_map, List.map_map, Function.comp_def]; rfl

theorem eraseS_idem (s : Airplanes P D) : eraseS (eraseS s) = eraseS s := by
  simp [eraseS, List.map_map, Function.comp_def, eraseP_idem]

/-- **one step**: the alloc-only build's step on the erased state is the erasure of the std build's step; `Added` agrees -/
theorem action_erase (g : Geo P D) (std std' : Bool) (now now' : Nat) (s : Airplanes P D) (df : DF) :
    eraseS (action g std now s df).1 = eraseS (action g std' now' (eraseS s) df).1 ∧
    (action g std now s df).2 = (action g std' now' (eraseS s) df).2 := by
  cases hk : frameKey df with
  | none =>
    rw [other_formats_noop _ _ _ _ _ hk, other_formats_noop _ _ _ _ _ hk]
    exact ⟨(eraseS_idem s).symm, rfl⟩
  | some km =>
    obtain ⟨k, me⟩ := km
    rw [action_tracked _ _ _ _ _ k me hk, action_tracked _ _ _ _ _ k me hk]
    simp only [entryOrInsert, get_eraseS]
    cases hg : s.get k with
    | none =>
      simp only [Option.map_none]
      refine ⟨?_, trivial⟩
      rw [put_eraseS, put_eraseS, eraseS_idem]
      congr 1
      rw [stepPlane_erase g std std' now now' ({ lastTime := now } : Plane P D) me,
          stepPlane_erase g std' std' now' now' ({ lastTime := now' } : Plane P D) me]
      rfl
    | some p =>
      simp only [Option.map_some]
      refine ⟨?_, trivial⟩
      rw [put_eraseS, put_eraseS, eraseS_idem, stepPlane_erase g std std' now now' p me]

/-- the `Added` answers of a history -/
def runAdded (g : Geo P D) (std : Bool) (s : Airplanes P D) : List (Nat × DF) → List Bool
  | [] => []
  | (now, df) :: rest => (action g std now s df).2 :: runAdded g std (action g std now s df).1 rest

/-- **whole histories**: feed the same frames to the std build (clock readings `h`) and to the alloc-only build (which
has no clock: any readings `h'`), from states that agree up to the time stamps: after every history the two states agree
up to the time stamps and every `Added` answer is the same -/
theorem run_erase (g : Geo P D) (std std' : Bool) : ∀ (h h' : List (Nat × DF)) (s s' : Airplanes P D),
    h.map (·.2) = h'.map (·.2) → eraseS s = eraseS s' →
    eraseS (run g std s h) = eraseS (run g std' s' h') ∧ runAdded g std s h = runAdded g std' s' h' := by
  intro h
  induction h with
  | nil =>
    intro h' s s' hf hs
    cases h' with
    | nil => exact ⟨hs, rfl⟩
    | cons _ _ => simp at hf
  | cons e rest ih =>
    intro h' s s' hf hs
    cases h' with
    | nil => simp at hf
    | cons e' rest' =>
      obtain ⟨now, df⟩ := e
      obtain ⟨now', df'⟩ := e'
      simp only [List.map_cons, List.cons.injEq] at hf
      obtain ⟨hdf, hrest⟩ := hf
      subst hdf
      have a1 := action_erase g std std' now now' s df
      have a2 := action_erase g std' std' now' now' s' df
      rw [hs] at a1
      have hstate : eraseS (action g std now s df).1 = eraseS (action g std' now' s' df).1 := a1.1.trans a2.1.symm
      have hadd : (action g std now s df).2 = (action g std' now' s' df).2 := a1.2.trans a2.2.symm
      obtain ⟨r1, r2⟩ := ih rest' _ _ hrest hstate
      exact ⟨r1, by simp only [runAdded]; rw [hadd, r2]⟩

/-- what an observer without a clock can see of a state is untouched by the erasure -/
theorem views_erase (s : Airplanes P D) :
    (eraseS s).map (·.1) = s.map (·.1) ∧ allPosition (eraseS s) = allPosition s ∧ ∀ k, hasDetails (eraseS s) k = hasDetails s k := by
  refine ⟨by simp [eraseS, List.map_map, Function.comp_def], ?_, ?_⟩
  · simp only [allPosition, eraseS, List.filterMap_map]
    rfl
  · intro k
    simp only [hasDetails, get_eraseS]
    cases s.get k <;> rfl

/-- **C20, tracker half**: the std build and the alloc-only build, fed the same frames from the empty tracker, answer
`Added` identically and end in states with the same keys, the same published positions and the same details
availability (and, by `run_erase`, the same records up to the std-only time stamps) -/
theorem builds_agree (g : Geo P D) (h h' : List (Nat × DF)) (hf : h.map (·.2) = h'.map (·.2)) :
    runAdded g true [] h = runAdded g false [] h' ∧
    (run g true [] h).map (·.1) = (run g false [] h').map (·.1) ∧
    allPosition (run g true [] h) = allPosition (run g false [] h') ∧
    ∀ k, hasDetails (run g true [] h) k = hasDetails (run g false [] h') k := by
  obtain ⟨r1, r2⟩ := run_erase g true false h h' [] [] hf rfl
  obtain ⟨v1, v2, v3⟩ := views_erase (run g true [] h)
  obtain ⟨w1, w2, w3⟩ := views_erase (run g false [] h')
  refine ⟨r2, ?_, ?_, ?_⟩
  · rw [← v1, ← w1, r1]
  · rw [← v2, ← w2, r1]
  · intro k; rw [← v3 k, ← w3 k, r1]

/-- each record agrees up to the time stamps -/
theorem records_agree (g : Geo P D) (h h' : List (Nat × DF)) (hf : h.map (·.2) = h'.map (·.2)) (k : Nat) :
    ((run g true [] h).get k).map eraseP = ((run g false [] h').get k).map eraseP := by
  obtain ⟨r1, _⟩ := run_erase g true false h h' [] [] hf rfl
  rw [← get_eraseS, ← get_eraseS, r1]

/-- non-vacuity: erasure really forgets the clock (two states that differ only in time stamps are identified) -/
example : eraseP ({ lastTime := 5 } : Plane Nat Nat) = eraseP ({ lastTime := 9 } : Plane Nat Nat) := rfl

end Adsb.C20
