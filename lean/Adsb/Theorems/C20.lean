import Adsb.Theorems.C14
/-! # C20 — the alloc-only build equals the std build (up to the time stamps only std has)

The decoder has no `cfg`-dependent semantics (the translator lists every `cfg(feature …)` item of the
sources and the check compares the list with the reviewed one: imports, `SystemTime` fields and `prune`
only). The tracker differs in exactly three places: `AirplaneState::last_time`, `AirplaneCoor::last_time`
and `prune`. The model carries the configuration as the flag `std`; the theorems show that nothing but
the time stamps depends on it (partial: the lift to whole histories is checked by running both builds). -/

namespace Adsb.C20
open Adsb Adsb.C12 Adsb.C13 Adsb.C14
set_option linter.unusedSimpArgs false
variable {P D : Type}

/-- a coordinate record without its time stamp -/
def core (c : Coor P D) : Option Alt × Option Alt × Option P × Option D := (c.even, c.odd, c.pos, c.kd)

/-- **the position decision does not depend on the build configuration or the clock**: it is a function of the
stored reports, the published position and the geometry alone -/
theorem update_core (g : Geo P D) (std : Bool) (now : Nat) (c : Coor P D) :
    (Coor.update g std now c).map core =
      match c.even, c.odd with
      | some e, some o => (match g.getPos e o with
          | none => none
          | some p => if plausible g c.pos p then some (c.even, c.odd, some p, some (g.rxDist p)) else none)
      | _, _ => some (core c) := by
  cases he : c.even with
  | none => rw [update_one_slot g std now c (Or.inl he)]; simp [core, he]
  | some e =>
    cases ho : c.odd with
    | none => rw [update_one_slot g std now c (Or.inr ho)]; simp [core, he, ho]
    | some o =>
      rw [update_both_slots g std now c e o he ho]
      simp only []
      cases g.getPos e o with
      | none => rfl
      | some p =>
        simp only []
        split
        · simp [core, he, ho]
        · rfl

theorem update_std_independent (g : Geo P D) (now now' : Nat) (c c' : Coor P D) (h : core c = core c') :
    (Coor.update g true now c).map core = (Coor.update g false now' c').map core := by
  rw [update_core, update_core]
  simp only [core, Prod.mk.injEq] at h
  obtain ⟨h1, h2, h3, h4⟩ := h
  rw [h1, h2, h3]
  cases c'.even <;> cases c'.odd <;> simp [core, h1, h2, h3, h4]

/-- the "unchanged coordinates" test ignores the time stamps (the repaired comparison) -/
theorem same_ignores_time (g : Geo P D) (a b a' b' : Coor P D) (ha : core a = core a') (hb : core b = core b') :
    Coor.same g a b = Coor.same g a' b' := by
  simp only [core, Prod.mk.injEq] at ha hb
  obtain ⟨a1, a2, a3, a4⟩ := ha
  obtain ⟨b1, b2, b3, b4⟩ := hb
  unfold Coor.same
  rw [a1, a2, a3, a4, b1, b2, b3, b4]

/-- callsign, velocity and message count of a step do not depend on the configuration or the clock -/
theorem attributes_std_independent (g : Geo P D) (now now' : Nat) (st : Plane P D) (me : ME) :
    (stepPlane g true now st me).callsign = (stepPlane g false now' st me).callsign ∧
    (stepPlane g true now st me).vel = (stepPlane g false now' st me).vel := by
  rw [callsign_latest, callsign_latest, velocity_latest, velocity_latest]
  exact ⟨rfl, rfl⟩

/-- 'added' does not depend on the configuration or the clock -/
theorem added_std_independent (g : Geo P D) (now now' : Nat) (s : Airplanes P D) (df : DF) :
    (action g true now s df).2 = (action g false now' s df).2 := by
  cases hk : frameKey df with
  | none => rw [other_formats_noop _ _ _ _ _ hk, other_formats_noop _ _ _ _ _ hk]
  | some km =>
    obtain ⟨k, me⟩ := km
    rw [action_tracked _ _ _ _ _ k me hk, action_tracked _ _ _ _ _ k me hk]
    unfold entryOrInsert
    cases s.get k <;> rfl

end Adsb.C20
