import Adsb.Velocity
/-! # rsadsb_common: the aircraft tracker (`Airplanes`) as a pure state machine

`Airplanes` (a `BTreeMap<ICAO, AirplaneState>`) is an association list sorted by address. The geometry
(`cpr::get_position`, the haversine distance, the comparisons with the range limit and with 100 km) and
the clock are parameters: theorems hold for every instance, the driver instantiates them with `Float`. -/

namespace Adsb

/-- the geometry the tracker uses; `P` = position, `D` = distance -/
structure Geo (P D : Type) where
  getPos : Alt → Alt → Option P          -- `cpr::get_position((even, odd))`
  rxDist : P → D                          -- `haversine_distance(receiver, p)`
  dist : P → P → D                        -- `haversine_distance_position(current, new)`
  outOfRange : D → Bool                   -- `kilo_distance > max_range`
  jump : D → Bool                         -- `distance > MAX_AIRCRAFT_DISTANCE`
  peq : P → P → Bool                      -- `==` on `cpr::Position`
  deq : D → D → Bool                      -- `==` on `f64`

/-- `AirplaneCoor`; `altitudes = [even, odd]` -/
structure Coor (P D : Type) where
  even : Option Alt := none
  odd : Option Alt := none
  pos : Option P := none
  lastTime : Option Nat := none           -- only with the `std` feature
  kd : Option D := none

/-- `AirplaneState` -/
structure Plane (P D : Type) where
  coords : Coor P D := {}
  callsign : Option (List Nat) := none
  vel : Option Velocity := none            -- heading / speed / vert_speed (all three are set together)
  numMessages : Nat := 0
  lastTime : Nat := 0
  track : Option (List (Coor P D)) := none

abbrev Airplanes (P D : Type) := List (Nat × Plane P D)

section
variable {P D : Type}

def Airplanes.get (s : Airplanes P D) (k : Nat) : Option (Plane P D) :=
  match s with
  | [] => none
  | (k', v) :: rest => if k' = k then some v else Airplanes.get rest k

/-- sorted insert-or-replace (`BTreeMap` entry) -/
def Airplanes.put (s : Airplanes P D) (k : Nat) (v : Plane P D) : Airplanes P D :=
  match s with
  | [] => [(k, v)]
  | (k', v') :: rest =>
    if k < k' then (k, v) :: (k', v') :: rest
    else if k = k' then (k, v) :: rest
    else (k', v') :: Airplanes.put rest k v

/-- `entry_or_insert`: the record (a fresh default one stamped `now` if absent) and whether it was added -/
def entryOrInsert (s : Airplanes P D) (k now : Nat) : Plane P D × Bool :=
  match s.get k with
  | some p => (p, false)
  | none => ({ lastTime := now }, true)

/-- `AirplaneCoor::update_position`: `none` = "return false" (clear), `some c` = accepted coordinates -/
def Coor.update (g : Geo P D) (std : Bool) (now : Nat) (c : Coor P D) : Option (Coor P D) :=
  match c.even, c.odd with
  | some e, some o =>
    match g.getPos e o with
    | none => none
    | some p =>
      let kd := g.rxDist p
      if g.outOfRange kd then none
      else
        let c := { c with kd := some kd }
        match c.pos with
        | some cur => if g.jump (g.dist cur p) then none
                      else some { c with pos := some p, lastTime := if std then some now else c.lastTime }
        | none => some { c with pos := some p, lastTime := if std then some now else c.lastTime }
  | _, _ => some c

def optEq {α : Type} (eq : α → α → Bool) : Option α → Option α → Bool
  | some a, some b => eq a b
  | none, none => true
  | _, _ => false

/-- the comparison "same coords, the time of the update aside" -/
def Coor.same (g : Geo P D) (a b : Coor P D) : Bool :=
  decide (a.even = b.even) && decide (a.odd = b.odd) && optEq g.peq a.pos b.pos && optEq g.deq a.kd b.kd

/-- `Airplanes::update_position` -/
def updatePosition (g : Geo P D) (std : Bool) (now : Nat) (st : Plane P D) (a : Alt) : Plane P D :=
  let temp : Coor P D := if a.f = 0 then { st.coords with even := some a } else { st.coords with odd := some a }
  match Coor.update g std now temp with
  | some t =>
    if Coor.same g st.coords t then st
    else { st with track := some ((st.track.getD []) ++ [st.coords]), coords := t }
  | none =>
    let tr := if st.coords.pos.isSome then some ((st.track.getD []) ++ [st.coords]) else st.track
    { st with track := tr, coords := {} }

/-- the address a frame is filed under, and its payload: only DF17 and DF18 are tracked -/
def frameKey : DF → Option (Nat × ME)
  | .adsb _ icao me _ => some (icao, me)
  | .tisb _ aa me _ => some (aa, me)
  | _ => none

/-- `Airplanes::action`: new state and `Added` -/
def action (g : Geo P D) (std : Bool) (now : Nat) (s : Airplanes P D) (df : DF) : Airplanes P D × Bool :=
  match frameKey df with
  | none => (s, false)
  | some (k, me) =>
    let (st, added) := entryOrInsert s k now
    let st := match me with
      | .ident i => { st with callsign := some i.cn }
      | .velocity v => (match v.calc with
          | some r => { st with vel := some r }
          | none => st)
      | .airPosBaro a => updatePosition g std now st a
      | .airPosGnss a => updatePosition g std now st a
      | _ => st
    -- incr_messages
    let st := { st with numMessages := st.numMessages + 1, lastTime := if std then now else st.lastTime }
    (s.put k st, added)

/-- `Airplanes::prune(T)` at clock reading `now` (milliseconds); `T` in seconds -/
def prune (T now : Nat) (s : Airplanes P D) : Airplanes P D :=
  s.filter (fun kv => decide (now - kv.2.lastTime < 1000 * T) && decide (kv.2.lastTime ≤ now))

/-- `AirplaneCoor::altitude`: the altitude of the stored even report -/
def Coor.altitude (c : Coor P D) : Option Nat := c.even.bind (·.alt)

/-- `aircraft_details(icao).is_some()` -/
def hasDetails (s : Airplanes P D) (k : Nat) : Bool :=
  match s.get k with
  | some p => p.coords.pos.isSome && p.coords.altitude.isSome && p.coords.kd.isSome
  | none => false

/-- `all_position()` -/
def allPosition (s : Airplanes P D) : List (Nat × P) :=
  s.filterMap (fun kv => kv.2.coords.pos.map (fun p => (kv.1, p)))

/-- `impl Display for Airplanes`: one line per aircraft that has details, in key order; the addresses of those lines -/
def displayKeys (s : Airplanes P D) : List Nat := (s.filter (fun kv => hasDetails s kv.1)).map (·.1)

end
/-- `incr_messages`: the message counter in `u32` arithmetic as written today (`saturating_add(1)`). The tracker model above counts in `Nat`;
the two agree while fewer than 2^32 − 1 frames have been counted for the record (`count_agrees_below` in `Theorems/C01`), beyond that the
implementation stays at `u32::MAX` -/
def incrCount (n : Nat) : Res Nat := .ok (min (n + 1) u32Max)
/-- the same before the repair (`num_messages += 1`, checked because the workspace builds with `overflow-checks = true`) -/
def incrCountOld (n : Nat) : Res Nat := if n + 1 > u32Max then .panic "rsadsb_common lib.rs: attempt to add with overflow" else .ok (n + 1)

end Adsb
