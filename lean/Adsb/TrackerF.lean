import Adsb.Tracker
import Adsb.Cpr
/-! # The `Float` instance of the tracker's geometry (what the driver runs) and the canonical digest -/

namespace Adsb

structure FPos where
  lat : Float
  lon : Float

def piF : Float := 3.14159265358979323846264338327950288
def toRad (x : Float) : Float := x * (piF / 180.0)

/-- the arithmetic and the `libm` functions `haversine_distance` uses, as parameters (instantiated with `Float` for the
driver and with `ℝ` in `Theorems/C13b`) -/
structure HavOps (α : Type) where
  add : α → α → α
  sub : α → α → α
  mul : α → α → α
  div : α → α → α
  lit : Nat → α
  pi : α
  sin : α → α
  cos : α → α
  sqrt : α → α
  atan2 : α → α → α
  max0 : α → α                             -- `fmax(x, 0.0)`

/-- `haversine_distance` (after the repairs: `x_long * x_long`, `1 - a` clamped at 0), generic in the number type -/
def haversineG {α : Type} (H : HavOps α) (s o : α × α) : α :=
  let toRad := fun x => H.mul x (H.div H.pi (H.lit 180))
  let lat1 := toRad s.1; let lat2 := toRad o.1; let lon1 := toRad s.2; let lon2 := toRad o.2
  let xLat := H.sin (H.div (H.sub lat2 lat1) (H.lit 2))
  let xLon := H.sin (H.div (H.sub lon2 lon1) (H.lit 2))
  let a := H.add (H.mul xLat xLat) (H.mul (H.mul (H.mul (H.cos lat1) (H.cos lat2)) xLon) xLon)
  let c := H.mul (H.lit 2) (H.atan2 (H.sqrt a) (H.sqrt (H.max0 (H.sub (H.lit 1) a))))
  H.mul (H.lit Gen.earthRadius) c

def floatHav : HavOps Float :=
  { add := (· + ·), sub := (· - ·), mul := (· * ·), div := (· / ·), lit := Float.ofNat, pi := piF,
    sin := Float.sin, cos := Float.cos, sqrt := Float.sqrt, atan2 := Float.atan2,
    max0 := fun d => if d < 0.0 then 0.0 else d }

def haversine (s o : Float × Float) : Float := haversineG floatHav s o

def geoF (rx : Float × Float) (range : Float) : Geo FPos Float where
  getPos e o := (getPosition (α := Float) e o).map (fun p => { lat := p.lat, lon := p.lon })
  rxDist p := haversine rx (p.lat, p.lon)
  dist a b := haversine (a.lat, a.lon) (b.lat, b.lon)
  outOfRange d := d > range
  jump d := d > Float.ofNat Gen.maxAircraftDistance
  peq a b := a.lat == b.lat && a.lon == b.lon
  deq a b := a == b

def showAltSlot : Option Alt → String
  | none => "-"
  | some a => s!"{a.tc}/{a.ss}/{a.saf}/{match a.alt with | none => "-" | some v => toString v}/{a.t}/{a.f}/{a.lat}/{a.lon}"

def showPos : Option FPos → String
  | none => "-"
  | some p => s!"{p.lat * 1000.0},{p.lon * 1000.0}"

def showCoor (c : Coor FPos Float) : String :=
  s!"e={showAltSlot c.even} o={showAltSlot c.odd} pos={showPos c.pos} kd={match c.kd with | none => "-" | some d => toString d}"

def velTriple (v : Velocity) : String :=
  s!"{(headingG floatTrack v).toFloat32.toFloat},{(speedG floatTrack v).toFloat32.toFloat},{v.vrate}"

def hex6 (n : Nat) : String := hexStr n 6

def showPlane (k : Nat) (p : Plane FPos Float) : String :=
  let cs := match p.callsign with | none => "-" | some c => "\"" ++ String.ofList (c.map Char.ofNat) ++ "\""
  let vel := match p.vel with | none => "-" | some v => velTriple v
  let track := match p.track with
    | none => "-"
    | some t => "[" ++ ";".intercalate (t.map (fun (c : Coor FPos Float) => showPos c.pos)) ++ "]"
  let details := match p.coords.pos, p.coords.altitude, p.coords.kd with
    | some ps, some a, some d => s!"{a}/{d}/{showPos (some ps)}"
    | _, _, _ => "-"
  s!"{hex6 k} msgs={p.numMessages} cs={cs} vel={vel} {showCoor p.coords} track={track} details={details}"

def showMap (s : Airplanes FPos Float) : String :=
  let recs := s.map (fun kv => showPlane kv.1 kv.2)
  let ap := (allPosition s).map (fun kv => hex6 kv.1)
  let shown := (displayKeys s).map hex6      -- the lines of `Display for Airplanes`
  s!"MAP n={s.length} allpos={",".intercalate ap} shown={",".intercalate shown} | {" | ".intercalate recs}"

end Adsb
