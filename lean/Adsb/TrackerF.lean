import Adsb.Tracker
import Adsb.Cpr
/-! # The `Float` instance of the tracker's geometry (what the driver runs) and the canonical digest -/

namespace Adsb

structure FPos where
  lat : Float
  lon : Float

def piF : Float := 3.14159265358979323846264338327950288
def toRad (x : Float) : Float := x * (piF / 180.0)

/-- `haversine_distance` (after the repairs: `x_long * x_long`, `1 - a` clamped at 0) -/
def haversine (s o : Float × Float) : Float :=
  let lat1 := toRad s.1; let lat2 := toRad o.1; let lon1 := toRad s.2; let lon2 := toRad o.2
  let xLat := Float.sin ((lat2 - lat1) / 2.0)
  let xLon := Float.sin ((lon2 - lon1) / 2.0)
  let a := xLat * xLat + Float.cos lat1 * Float.cos lat2 * xLon * xLon
  let d := 1.0 - a
  let d := if d < 0.0 then 0.0 else d          -- `fmax(1 - a, 0)` (after the repair)
  let c := 2.0 * Float.atan2 (Float.sqrt a) (Float.sqrt d)
  6371.0 * c

def geoF (rx : Float × Float) (range : Float) : Geo FPos Float where
  getPos e o := (getPosition (α := Float) e o).map (fun p => { lat := p.lat, lon := p.lon })
  rxDist p := haversine rx (p.lat, p.lon)
  dist a b := haversine (a.lat, a.lon) (b.lat, b.lon)
  outOfRange d := d > range
  jump d := d > Float.ofNat Gen.maxAircraftDistance
  peq a b := a.lat == b.lat && a.lon == b.lon
  deq a b := a == b

def showAltSlot : Option Alt → String
  | none => "-"
  | some a => s!"{a.tc}/{a.ss}/{a.saf}/{match a.alt with | none => "-" | some v => toString v}/{a.t}/{a.f}/{a.lat}/{a.lon}"

def showPos : Option FPos → String
  | none => "-"
  | some p => s!"{p.lat * 1000.0},{p.lon * 1000.0}"

def showCoor (c : Coor FPos Float) : String :=
  s!"e={showAltSlot c.even} o={showAltSlot c.odd} pos={showPos c.pos} kd={match c.kd with | none => "-" | some d => toString d}"

def velTriple (v : Velocity) : String :=
  let ew := Float.ofInt v.vEw
  let ns := Float.ofInt v.vNs
  let h := Float.atan2 ew ns * (360.0 / (2.0 * piF))
  let h := if h < 0.0 then h + 360.0 else h
  let g := Float.sqrt (ew * ew + ns * ns)
  s!"{h.toFloat32.toFloat},{g.toFloat32.toFloat},{v.vrate}"

def hex6 (n : Nat) : String := hexStr n 6

def showPlane (k : Nat) (p : Plane FPos Float) : String :=
  let cs := match p.callsign with | none => "-" | some c => "\"" ++ String.ofList (c.map Char.ofNat) ++ "\""
  let vel := match p.vel with | none => "-" | some v => velTriple v
  let track := match p.track with
    | none => "-"
    | some t => "[" ++ ";".intercalate (t.map (fun (c : Coor FPos Float) => showPos c.pos)) ++ "]"
  let details := match p.coords.pos, p.coords.altitude, p.coords.kd with
    | some ps, some a, some d => s!"{a}/{d}/{showPos (some ps)}"
    | _, _, _ => "-"
  s!"{hex6 k} msgs={p.numMessages} cs={cs} vel={vel} {showCoor p.coords} track={track} details={details}"

def showMap (s : Airplanes FPos Float) : String :=
  let recs := s.map (fun kv => showPlane kv.1 kv.2)
  let ap := (allPosition s).map (fun kv => hex6 kv.1)
  s!"MAP n={s.length} allpos={",".intercalate ap} | {" | ".intercalate recs}"

end Adsb
