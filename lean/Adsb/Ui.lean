import Adsb.Res
/-! # radar: the operator-facing state machine (handle_keyevent, handle_mouseevent, the selection clamp of the draw)

One iteration of radar's main loop: feed/prune (the tracker may grow or shrink), draw (clamps the table selection against
the current number of rows), then *all* pending events are handled before the next draw. Every Rust panic site of the
handlers is an explicit `Res.panic` branch: `usize` arithmetic on the selection, `u16` arithmetic on hit boxes. The view
numbers (scale, custom centre) are floats in the code and never panic; they are abstracted to step counters. -/

namespace Adsb

inductive Tab where
  | map | coverage | airplanes | stats | help
  deriving Repr, DecidableEq

def Tab.next : Tab → Tab
  | .map => .coverage | .coverage => .airplanes | .airplanes => .stats | .stats => .help | .help => .map

inductive Key where
  | f (n : Nat) | tab | char (c : Char) (ctrl : Bool) | up | down | left | right | enter | other
  deriving Repr

structure Rect where
  x : Nat
  y : Nat
  w : Nat
  h : Nat
  deriving Repr

inductive Mouse where
  | down (col row : Nat) | drag (col row : Nat) | up | scrollUp | scrollDown | other
  deriving Repr

inductive Event where
  | key (k : Key)
  | mouse (m : Mouse)
  | resize
  deriving Repr

structure UI where
  tab : Tab := .map
  quit : Bool := false
  selected : Option Nat := none     -- `TableState::selected`
  zoom : Int := 0                    -- net zoom steps (scale /= 1.1 per step)
  panLat : Int := 0                  -- custom_lat - base latitude, in units of 0.005 degrees
  panLon : Int := 0                  -- custom_long - base longitude, in units of 0.01 degrees
  custom : Bool := false             -- custom_lat or custom_long set
  base : Option Nat := none          -- the view was centred on the aircraft in this row (none: on the receiver)
  lastDrag : Option (Nat × Nat) := none
  flags : Nat := 0                   -- toggles l i h t n (bit set)
  deriving Repr

def usizeMax : Nat := 2 ^ 64 - 1
def u16Max : Nat := 65535

/-- the character keys of `handle_keyevent` -/
def handleChar (ui : UI) (c : Char) (ctrl : Bool) : UI :=
  let mapLike := ui.tab = .map ∨ ui.tab = .coverage
  if c = 'q' then { ui with quit := true }
  else if c = 'c' then (if ctrl then { ui with quit := true } else ui)
  else if c = 'l' then { ui with flags := ui.flags ^^^ 1 }
  else if c = 'i' then { ui with flags := ui.flags ^^^ 2 }
  else if c = 'h' then { ui with flags := ui.flags ^^^ 4 }
  else if c = 't' then { ui with flags := ui.flags ^^^ 8 }
  else if c = 'n' then { ui with flags := ui.flags ^^^ 16 }
  else if c = '-' then (if mapLike then { ui with zoom := ui.zoom + 1 } else ui)
  else if c = '+' then (if mapLike then { ui with zoom := ui.zoom - 1 } else ui)
  else ui

/-- `handle_keyevent`; `rows` = number of tracked aircraft (what `keys().nth(selected)` sees), `hasDetails i` = whether the
i-th aircraft has a position -/
def handleKey (ui : UI) (k : Key) (rows : Nat) (hasDetails : Nat → Bool) : Res UI :=
  let mapLike := ui.tab = .map ∨ ui.tab = .coverage
  match k with
  | .f 1 => .ok { ui with tab := .map }
  | .f 2 => .ok { ui with tab := .coverage }
  | .f 3 => .ok { ui with tab := .airplanes }
  | .f 4 => .ok { ui with tab := .stats }
  | .f 5 => .ok { ui with tab := .help }
  | .tab => .ok { ui with tab := ui.tab.next }
  | .char c ctrl => .ok (handleChar ui c ctrl)
  | .up =>
    if mapLike then .ok { ui with panLat := ui.panLat + 1, custom := true }
    else if ui.tab = .airplanes then
      -- selected.and_then(|s| s.checked_sub(1)).unwrap_or(0)
      .ok { ui with selected := some (match ui.selected with | some s => s - 1 | none => 0) }
    else .ok ui
  | .down =>
    if mapLike then .ok { ui with panLat := ui.panLat - 1, custom := true }
    else if ui.tab = .airplanes then
      match ui.selected with
      | some s => if s = usizeMax then .panic "radar.rs handle_keyevent: selected + 1" else .ok { ui with selected := some (s + 1) }
      | none => .ok { ui with selected := some 0 }
    else .ok ui
  | .left => .ok (if mapLike then { ui with panLon := ui.panLon - 3, custom := true } else ui)
  | .right => .ok (if mapLike then { ui with panLon := ui.panLon + 3, custom := true } else ui)
  | .enter =>
    if mapLike then .ok { ui with zoom := 0, panLat := 0, panLon := 0, custom := false, base := none }
    else if ui.tab = .airplanes then
      match ui.selected with
      | some s =>
        -- keys().nth(selected) is `None` past the end (after the repair: no unwrap)
        if s < rows ∧ hasDetails s then .ok { ui with custom := true, tab := .map, panLat := 0, panLon := 0, base := some s } else .ok ui
      | none => .ok ui
    else .ok ui
  | _ => .ok ui

/-- `handle_mouseevent`; `buttons` = the three touchscreen rectangles (if enabled), `leftBound` = x of the map area -/
def handleMouse (ui : UI) (m : Mouse) (buttons : Option (Rect × Rect × Rect)) (leftBound : Nat) : Res UI :=
  match m with
  | .down col row =>
    let ui := if 1 ≤ row ∧ row ≤ 3 then
        (if 3 ≤ col ∧ col ≤ 6 then { ui with tab := .map }
         else if 8 ≤ col ∧ col ≤ 16 then { ui with tab := .coverage }
         else if 20 ≤ col ∧ col ≤ 34 then { ui with tab := .airplanes }
         else if 36 ≤ col ∧ col ≤ 42 then { ui with tab := .stats }
         else if 43 ≤ col ∧ col ≤ 48 then { ui with tab := .help }
         else ui)
      else ui
    match buttons with
    | none => .ok ui
    | some (b0, b1, b2) =>
      -- `btr[i].y + btr[0].height` in u16
      if b0.y + b0.h > u16Max ∨ b1.y + b0.h > u16Max ∨ b2.y + b0.h > u16Max then .panic "radar.rs handle_mouseevent: y + height"
      else if 1 ≤ col ∧ col ≤ 10 ∧ b0.y ≤ row ∧ row ≤ b0.y + b0.h then .ok { ui with zoom := ui.zoom + 1 }
      else if 1 ≤ col ∧ col ≤ 10 ∧ b1.y ≤ row ∧ row ≤ b1.y + b0.h then .ok { ui with zoom := ui.zoom - 1 }
      else if 1 ≤ col ∧ col ≤ 10 ∧ b2.y ≤ row ∧ row ≤ b2.y + b0.h then .ok { ui with zoom := 0, panLat := 0, panLon := 0, custom := false, base := none }
      else .ok ui
  | .drag col row =>
    if ¬ (ui.tab = .map ∨ ui.tab = .coverage) then .ok ui
    else if row < 3 then .ok ui
    else if col < leftBound then .ok ui
    else
      let ui := match ui.lastDrag with
        | some (c0, r0) => { ui with panLat := ui.panLat + 4 * ((row : Int) - r0), panLon := ui.panLon - 2 * ((col : Int) - c0), custom := true }
        | none => ui
      .ok { ui with lastDrag := some (col, row) }
  | .up => .ok { ui with lastDrag := none }
  | .scrollDown => .ok { ui with zoom := ui.zoom + 1 }
  | .scrollUp => .ok { ui with zoom := ui.zoom - 1 }
  | .other => .ok ui

/-- the selection clamp `build_tab_airplanes` applies when the Airplanes tab is drawn with `rows` rows (after the repair) -/
def drawClamp (ui : UI) (rows : Nat) : UI :=
  if ui.tab = .airplanes then
    match ui.selected with
    | some s => if s ≥ rows then { ui with selected := if rows = 0 then none else some (rows - 1) } else ui
    | none => ui
  else ui

/-- the clamp as written before the repair: `selected > rows_len - 1` with `usize` subtraction -/
def drawClampOld (ui : UI) (rows : Nat) : Res UI :=
  if ui.tab = .airplanes then
    match ui.selected with
    | some s => if rows = 0 then .panic "airplanes.rs: rows_len - 1" else .ok (if s > rows - 1 then { ui with selected := some (rows - 1) } else ui)
    | none => .ok ui
  else .ok ui

def handleEvent (ui : UI) (e : Event) (rows : Nat) (hasDetails : Nat → Bool) (buttons : Option (Rect × Rect × Rect)) (leftBound : Nat) : Res UI :=
  match e with
  | .key k => handleKey ui k rows hasDetails
  | .mouse m => handleMouse ui m buttons leftBound
  | .resize => .ok ui

/-- all pending events between two draws, in order -/
def handleBatch (ui : UI) (es : List Event) (rows : Nat) (hasDetails : Nat → Bool) (buttons : Option (Rect × Rect × Rect)) (leftBound : Nat) : Res UI :=
  match es with
  | [] => .ok ui
  | e :: rest =>
    match handleEvent ui e rows hasDetails buttons leftBound with
    | .ok ui' => handleBatch ui' rest rows hasDetails buttons leftBound
    | .err x => .err x
    | .panic p => .panic p

/-- one iteration of the main loop as the handlers see it: the table has `rows` rows when it is drawn, then the pending events are handled -/
structure Iter where
  rows : Nat
  hd : Nat → Bool
  buttons : Option (Rect × Rect × Rect)
  lb : Nat
  events : List Event

/-- the loop: draw (clamp), handle the batch, stop at the first iteration that requested quit -/
def runIters (ui : UI) : List Iter → Res UI
  | [] => .ok ui
  | it :: rest =>
    match handleBatch (drawClamp ui it.rows) it.events it.rows it.hd it.buttons it.lb with
    | .ok ui' => if ui'.quit then .ok ui' else runIters ui' rest
    | .err x => .err x
    | .panic p => .panic p

/-- what `main` changes on the terminal -/
structure Term where
  raw : Bool := false
  mouse : Bool := false
  cursorHidden : Bool := false
  deriving Repr, DecidableEq

def Term.setup (_ : Term) : Term := { raw := true, mouse := true, cursorHidden := true }
/-- `cleanup`: DisableMouseCapture, disable_raw_mode, show_cursor -/
def Term.cleanup (_ : Term) : Term := { raw := false, mouse := false, cursorHidden := false }

/-- keys on the "waiting for connection" screen: only `q` / Ctrl-C matter -/
def waitQuit : Key → Bool
  | .char c ctrl => c = 'q' || (c = 'c' && ctrl)
  | _ => false

/-- `main` from terminal setup to exit: the keys typed before the feed connects (`none`: it never connects), then the loop.
Returns the terminal as it is left, or the panic. A run that neither quits nor loses its connection has not exited: `none`. -/
def mainRun (t : Term) (waitKeys : List Key) (connects : Bool) (its : List Iter) (disconnect : Bool) : Res (Option Term) :=
  let t := t.setup
  if waitKeys.any waitQuit then .ok (some t.cleanup)           -- quit while waiting (after the repair: through `cleanup`)
  else if ¬ connects then .ok none
  else match runIters {} its with
    | .ok ui => if ui.quit ∨ disconnect then .ok (some t.cleanup) else .ok none
    | .err x => .err x
    | .panic p => .panic p

/-- `Location::from_str` (after the repair): `(name,lat,long)`; `none` = a parse error reported by clap as a usage error -/
def parseLocationFields (fields : List String) (parseF : String → Option Int) : Option (String × Int × Int) :=
  match fields with
  | name :: rest =>
    match parseF (rest.getD 0 ""), parseF (rest.getD 1 "") with
    | some a, some b => some (name, a, b)
    | _, _ => none
  | [] => none

end Adsb
