import Adsb.Frame
/-! # `AirborneVelocity::calculate`: the exact integer part

The track angle (`atan2`) and the ground speed (`hypot`) are functions of the exact signed components
`(vEw, vNs)`; the model returns the components, the driver evaluates the two libm functions. Every
intermediate of the Rust code fits its type (`i16`, `u16`), see `calcR` and `calc_no_overflow`. -/

namespace Adsb

def signOf (s : Nat) : Int := if s = 0 then 1 else -1

structure Velocity where
  vEw : Int          -- knots, east positive
  vNs : Int          -- knots, north positive
  vrate : Int        -- ft/min, up positive
  deriving Repr, DecidableEq

/-- `calculate()`; `none` = no derived velocity -/
def Vel.calc (v : Vel) : Option Velocity :=
  match v.sub with
  | .ground ews ewv nss nsv =>
    if ewv = 0 ∨ nsv = 0 then none
    else if v.vrate = 0 then none
    else
      let scale : Int := if v.st = 2 then 4 else 1
      some { vEw := ((ewv : Int) - 1) * scale * signOf ews,
             vNs := ((nsv : Int) - 1) * scale * signOf nss,
             vrate := ((v.vrate : Int) - 1) * 64 * signOf v.vrateSign }
  | _ => none

/-- the same computation with every Rust overflow check written out (`i16` arithmetic, `u16` checked ops) -/
def Vel.calcR (v : Vel) : Res (Option Velocity) :=
  match v.sub with
  | .ground ews ewv nss nsv =>
    if ewv = 0 ∨ nsv = 0 then .ok none else
    let scale : Int := if v.st = 2 then 4 else 1
    let i16 (x : Int) (site : String) : Res Int := if -32768 ≤ x ∧ x ≤ 32767 then .ok x else .panic site
    do
      let a ← i16 ((ewv : Int) - 1) "adsb.rs calculate ew_vel - 1"
      let a ← i16 (a * scale) "adsb.rs calculate ew * scale"
      let a ← i16 (a * signOf ews) "adsb.rs calculate ew * sign"
      let b ← i16 ((nsv : Int) - 1) "adsb.rs calculate ns_vel - 1"
      let b ← i16 (b * scale) "adsb.rs calculate ns * scale"
      let b ← i16 (b * signOf nss) "adsb.rs calculate ns * sign"
      if v.vrate = 0 then pure none                      -- checked_sub(1)
      else if (v.vrate - 1) * 64 ≥ 65536 then pure none  -- checked_mul(64)
      else do
        let r ← i16 (((v.vrate : Int) - 1) * 64) "adsb.rs calculate vrate as i16"   -- `as i16` must not wrap
        let r ← i16 (r * signOf v.vrateSign) "adsb.rs calculate vrate * sign"
        pure (some { vEw := a, vNs := b, vrate := r })
  | _ => .ok none

/-- `x as i16` for a `u16` value: two's-complement reinterpretation (never panics) -/
def asI16 (n : Nat) : Int := if n % 65536 < 32768 then ((n % 65536 : Nat) : Int) else ((n % 65536 : Nat) : Int) - 65536
/-- an `i16` operation whose exact result is `x` overflows (debug builds panic, and so does the crate's release profile with overflow checks) -/
def i16out (x : Int) : Bool := decide (x < -32768) || decide (32767 < x)

/-! ## track angle and ground speed: generic in the number type

`heading = atan2(v_ew, v_ns)·(360/2π)`, `+360` when negative; `speed = hypot(v_ew, v_ns)`.  The driver and the renderer
instantiate this with `Float` (`floatTrack`), `Theorems/C07b` with `ℝ`. -/

structure TrackOps (α : Type) where
  add : α → α → α
  mul : α → α → α
  div : α → α → α
  lit : Nat → α
  ofInt : Int → α
  pi : α
  atan2 : α → α → α
  sqrt : α → α
  neg? : α → Bool                           -- `h < 0.0`

def headingG {α : Type} (T : TrackOps α) (v : Velocity) : α :=
  let h := T.mul (T.atan2 (T.ofInt v.vEw) (T.ofInt v.vNs)) (T.div (T.lit 360) (T.mul (T.lit 2) T.pi))
  if T.neg? h then T.add h (T.lit 360) else h

def speedG {α : Type} (T : TrackOps α) (v : Velocity) : α :=
  let ew := T.ofInt v.vEw; let ns := T.ofInt v.vNs
  T.sqrt (T.add (T.mul ew ew) (T.mul ns ns))

def floatTrack : TrackOps Float :=
  { add := (· + ·), mul := (· * ·), div := (· / ·), lit := Float.ofNat, ofInt := Float.ofInt,
    pi := 3.14159265358979323846264338327950288, atan2 := Float.atan2, sqrt := Float.sqrt, neg? := fun h => h < 0.0 }

end Adsb
