import Adsb.Print
import Adsb.Icao
import Adsb.Velocity
import Adsb.TrackerF
import Adsb.Display
import Adsb.Ui
import Adsb.App
import Adsb.ReaderSched
/-! Line-protocol driver: one operation per input line, one canonical line of output. -/
open Adsb

def parseBuf (h : String) : Option Buf := (parseHexBytes h.toList).map (fun b => { bytes := b })

def pi64 : Float := 3.14159265358979323846264338327950288

/-- `(heading as f32, ground speed)` from the exact components, as the Rust code computes them -/
def trackSpeed (v : Velocity) : Float × Float :=
  ((headingG floatTrack v).toFloat32.toFloat, speedG floatTrack v)

def frameME : DF → Option ME
  | .adsb _ _ me _ => some me
  | .tisb _ _ me _ => some me
  | _ => none

def opVelocity (B : Buf) : String :=
  match decode B with
  | .ok f => match frameME f.df with
    | some (.velocity v) => match v.calc with
      | some r => let (h, g) := trackSpeed r; s!"VEL some hdg={h} gs={g} vr={r.vrate}"
      | none => "VEL none"
    | _ => "VEL n/a"
  | .err e => s!"ERR {e.name}"
  | .panic p => s!"PANIC {p}"

def framePos (B : Buf) : Option Alt :=
  match decode B with
  | .ok f => match frameME f.df with
    | some (.airPosBaro a) => some a
    | some (.airPosGnss a) => some a
    | _ => none
  | _ => none

def opCpr (A B : Buf) : String :=
  match framePos A, framePos B with
  | some a, some b => match getPosition (α := Float) a b with
    | some p =>
      let ok := p.lat >= -90.0 && p.lat <= 90.0 && p.lon >= -180.0 && p.lon < 180.0
      s!"POS some lat={p.lat * 1000.0} lon={p.lon * 1000.0} rng={if ok then "ok" else "out"}"
    | none => "POS none"
  | _, _ => "POS n/a"


/-! ### `RC`: the `ReaderCrc` model on an explicit call sequence over a scheduled reader standing after a prefix -/
def bytesHex (bs : List UInt8) : String := String.join (bs.map (fun b => hexStr b.toNat 2))

def parseSched (s : String) : Option (List Sch) :=
  if s == "-" then some [] else
  (s.splitOn ",").mapM (fun t => if t == "I" then some Sch.intr else match t.toNat? with
    | some k => if k > 0 then some (Sch.chunk (k - 1)) else none
    | none => none)

def parseCalls (s : String) : Option (List Call) :=
  if s == "-" then some [] else
  (s.splitOn ",").mapM (fun t =>
    match t.toList with
    | 'r' :: rest => (String.ofList rest).toNat?.map Call.read
    | 's' :: rest => (String.ofList rest).toNat?.map Call.seekBack
    | _ => none)

def opRC (pre frame : List UInt8) (sched : List Sch) (calls : List Call) : String :=
  let rc : RC := { inner := { data := pre ++ frame, pos := pre.length, sched := sched }, cache := [], pos := 0 }
  match concRun rc calls with
  | some (outs, rc') => s!"RCT outs={String.intercalate ";" (outs.map bytesHex)} cache={bytesHex rc'.cache} pos={rc'.pos}"
  | none => "RCT FAIL"

/-! ### `U`: radar's handlers on a scripted history.  Tokens: `rows:n:bits` (table size and which rows have a position),
`btn:none` | `btn:y0:h0:y1:y2`, `left:n`, `draw` (one draw = selection clamp), `k:…` keys, `m:…` mouse, `rs` resize -/
structure UEnv where
  rows : Nat := 0
  det : List Bool := []
  buttons : Option (Rect × Rect × Rect) := none
  lb : Nat := 1

def tabName : Tab → String
  | .map => "Map" | .coverage => "Coverage" | .airplanes => "Airplanes" | .stats => "Stats" | .help => "Help"

def showUI (u : UI) : String :=
  s!"UI tab={tabName u.tab} quit={u.quit} sel={match u.selected with | some s => toString s | none => "none"} zoom={u.zoom} plat={u.panLat} plon={u.panLon} custom={u.custom} base={match u.base with | some s => toString s | none => "none"} flags={u.flags}"

def parseKey (t : List String) : Option Key :=
  match t with
  | ["F1"] => some (.f 1) | ["F2"] => some (.f 2) | ["F3"] => some (.f 3) | ["F4"] => some (.f 4) | ["F5"] => some (.f 5)
  | ["tab"] => some .tab | ["up"] => some .up | ["down"] => some .down | ["left"] => some .left | ["right"] => some .right
  | ["enter"] => some .enter | ["other"] => some .other
  | ["c", n, ctrl] => match n.toNat? with
    | some k => some (.char (Char.ofNat k) (ctrl == "1"))
    | none => none
  | _ => none

def parseMouse (t : List String) : Option Mouse :=
  match t with
  | ["down", c, r] => match c.toNat?, r.toNat? with | some c, some r => some (.down c r) | _, _ => none
  | ["drag", c, r] => match c.toNat?, r.toNat? with | some c, some r => some (.drag c r) | _, _ => none
  | ["up"] => some .up | ["su"] => some .scrollUp | ["sd"] => some .scrollDown | ["other"] => some .other
  | _ => none

def uStep (env : UEnv) (ui : UI) (tok : String) : Option (UEnv × Res UI) :=
  if ui.quit then some (env, .ok ui) else      -- after a quit request the loop has ended
  match tok.splitOn ":" with
  | ["rows", n, bits] => match n.toNat? with
    | some n => some ({ env with rows := n, det := (if bits == "-" then [] else bits.toList.map (· == '1')) }, .ok ui)
    | none => none
  | ["btn", "none"] => some ({ env with buttons := none }, .ok ui)
  | ["btn", y0, h0, y1, y2] => match y0.toNat?, h0.toNat?, y1.toNat?, y2.toNat? with
    | some y0, some h0, some y1, some y2 => some ({ env with buttons := some (⟨0, y0, 10, h0⟩, ⟨0, y1, 10, h0⟩, ⟨0, y2, 10, h0⟩) }, .ok ui)
    | _, _, _, _ => none
  | ["left", n] => match n.toNat? with | some n => some ({ env with lb := n }, .ok ui) | none => none
  | ["draw"] => some (env, .ok (drawClamp ui env.rows))
  | ["rs"] => some (env, handleEvent ui .resize env.rows (fun i => env.det.getD i false) env.buttons env.lb)
  | "k" :: rest => match parseKey rest with
    | some k => some (env, handleEvent ui (.key k) env.rows (fun i => env.det.getD i false) env.buttons env.lb)
    | none => none
  | "m" :: rest => match parseMouse rest with
    | some m => some (env, handleEvent ui (.mouse m) env.rows (fun i => env.det.getD i false) env.buttons env.lb)
    | none => none
  | _ => none

def uRun : UEnv → UI → List String → String
  | _, ui, [] => showUI ui
  | env, ui, t :: rest => match uStep env ui t with
    | none => "BADOP"
    | some (env', .ok ui') => uRun env' ui' rest
    | some (_, .err e) => s!"ERR {e.name}"
    | some (_, .panic p) => s!"PANIC {p}"

/-- decimal text as the harness' `str::parse::<f64>` reads it, for the forms the operation files use: `12`, `-3.25`, `1e308`, `1e-320`, `inf`,
`-inf`, `NaN` (digits `N`, a scale and an exponent go through `Float.ofScientific`, i.e. correctly rounded like Rust's parser) -/
def parseFloat (s : String) : Option Float :=
  if s == "inf" then some (1.0 / 0.0) else if s == "-inf" then some (-1.0 / 0.0) else if s == "NaN" then some (0.0 / 0.0) else
  let neg := s.startsWith "-"
  let t := if neg then (s.drop 1).toString else s
  let (mant, ex) : String × Option Int := match t.splitOn "e" with
    | [m] => (m, some 0)
    | [m, e] => (m, e.toInt?)
    | _ => (t, none)
  match ex with
  | none => none
  | some k =>
    let digits : Option (Nat × Nat) := match mant.splitOn "." with
      | [a] => a.toNat?.map (fun n => (n, 0))
      | [a, b] => match a.toNat?, b.toNat? with
        | some _, some _ => (a ++ b).toNat?.map (fun n => (n, b.length))
        | _, _ => none
      | _ => none
    match digits with
    | none => none
    | some (n, sc) =>
      let e : Int := k - (sc : Int)
      let v := if e ≥ 0 then Float.ofScientific n false e.toNat else Float.ofScientific n true (-e).toNat
      some (if neg then -v else v)

def runOp (line : String) : String :=
  match line.trimAscii.toString.splitOn " " |>.filter (· ≠ "") with
  | "U" :: toks => uRun {} {} toks
  | ["M", sc, zoom, la0, lo0, la, lo] =>
      -- `to_xy` of (la, lo) for the view centre (la0, lo0) after `zoom` zoom-out steps from the start scale `sc`
      match parseFloat sc, zoom.toInt?, parseFloat la0, parseFloat lo0, parseFloat la, parseFloat lo with
      | some sc, some z, some a0, some o0, some a, some o =>
        let r := toXY floatArith mercNF (2.0 * piApp) (viewScale sc z * 500000.0) a0 o0 a o
        s!"XY {r.1} {r.2}"
      | _, _, _, _, _, _ => "BADOP"
  | ["F", h] => match parseBuf h with
      | some B => showRes Frame.show (decode B)
      | none => "BADOP"
  | ["RC", pre, h, sched, calls] =>
      let preB := if pre == "-" then some [] else parseHexBytes pre.toList
      match preB, parseHexBytes h.toList, parseSched sched, parseCalls calls with
      | some p, some f, some sc, some cs => opRC p f sc cs
      | _, _, _, _ => "BADOP"
  | ["R", h, sched, off] =>
      -- by `C19.reader_refines_cursor_at_offset` neither the schedule nor the reader's starting offset matters
      let okTok (t : String) : Bool := t == "I" || (match t.toNat? with | some k => k > 0 | none => false)
      if off.toNat?.isSome && (sched == "-" || (sched.splitOn ",").all okTok) then
        match parseBuf h with
        | some B => showRes Frame.show (decode B)
        | none => "BADOP"
      else "BADOP"
  | ["R", h, sched] =>
      -- by `C19.reader_refines_cursor` the result does not depend on the schedule; only its syntax is checked here
      let okTok (t : String) : Bool := t == "I" || (match t.toNat? with | some k => k > 0 | none => false)
      if sched == "-" || (sched.splitOn ",").all okTok then
        match parseBuf h with
        | some B => showRes Frame.show (decode B)
        | none => "BADOP"
      else "BADOP"
  | ["D", h] => match parseBuf h with
      | some B => match decode B with
        | .ok f => "TXT " ++ ((render f).replace "\\" "\\\\").replace "\n" "\\n"
        | .err e => s!"ERR {e.name}"
        | .panic p => s!"PANIC {p}"
      | none => "BADOP"
  | ["V", h] => match parseBuf h with
      | some B => opVelocity B
      | none => "BADOP"
  | ["P", a, b] => match parseBuf a, parseBuf b with
      | some A, some B => opCpr A B
      | _, _ => "BADOP"
  | ["I", h] => match parseBuf h with
      | some ⟨[x, y, z]⟩ =>
        let a := x.toNat * 65536 + y.toNat * 256 + z.toNat
        let s := icaoToString a
        match parseRadix16 s with
        | some b => s!"ICAO {String.ofList s} {if b = a then "same" else "DIFF"}"
        | none => s!"ICAO {String.ofList s} parse-error"
      | _ => "BADOP"
  | _ => "BADOP"

structure DState where
  planes : Airplanes FPos Float := []
  rx : Float × Float := (0.0, 0.0)
  range : Float := 500.0
  now : Nat := 0
  stats : Stats := {}

def trackOp (st : DState) (args : List String) : DState × String :=
  match args with
  | ["reset", la, lo, r] => match parseFloat la, parseFloat lo, parseFloat r with
    | some a, some b, some c => ({ planes := [], rx := (a, b), range := c, now := st.now, stats := {} }, "OK")
    | _, _, _ => (st, "BADOP")
  | ["rx", la, lo] => match parseFloat la, parseFloat lo with
    | some a, some b => ({ st with rx := (a, b) }, "OK")
    | _, _ => (st, "BADOP")
  | ["act", h] => match parseBuf h with
    | some B => match decode B with
      | .ok f =>
        let (s', added) := action (geoF st.rx st.range) true st.now st.planes f.df
        ({ st with planes := s', stats := st.stats.update s'.length added }, s!"ADDED {if added then "yes" else "no"} {showMap s'}")
      | .err e => (st, s!"ERR {e.name}")
      | .panic p => (st, s!"PANIC {p}")
    | none => (st, "BADOP")
  | ["actq", h] => match parseBuf h with
    | some B => match decode B with
      | .ok f =>
        let (s', added) := action (geoF st.rx st.range) true st.now st.planes f.df
        ({ st with planes := s', stats := st.stats.update s'.length added }, s!"ADDEDQ {if added then "yes" else "no"} n={s'.length}")
      | .err e => (st, s!"ERR {e.name}")
      | .panic p => (st, s!"PANIC {p}")
    | none => (st, "BADOP")
  | ["age", ms] => match ms.toNat? with
    | some d => ({ st with now := st.now + d }, "OK")
    | none => (st, "BADOP")
  | ["prune", secs] => match secs.toNat? with
    | some t => let s' := prune t st.now st.planes; ({ st with planes := s' }, showMap s')
    | none => (st, "BADOP")
  | ["dump"] => (st, showMap st.planes)
  | ["stats"] => (st, s!"STATS most={st.stats.most} total={st.stats.total} n={titleCount st.planes}")
  | _ => (st, "BADOP")

partial def loop (h : IO.FS.Stream) (out : IO.FS.Stream) (st : DState) : IO Unit := do
  let line ← h.getLine
  if line.isEmpty then return ()
  let t := line.trimAscii.toString
  if t.isEmpty || t.startsWith "#" then loop h out st else
  match t.splitOn " " |>.filter (· ≠ "") with
  | "T" :: args =>
    let (st', o) := trackOp st args
    out.putStrLn o
    loop h out st'
  | _ =>
    out.putStrLn (runOp t)
    loop h out st

def main : IO Unit := do
  let out ← IO.getStdout
  loop (← IO.getStdin) out {}
