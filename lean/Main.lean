import Adsb.Print
import Adsb.Icao
/-! Line-protocol driver: one operation per input line, one canonical line of output. -/
open Adsb

def parseBuf (h : String) : Option Buf := (parseHexBytes h.toList).map (fun b => { bytes := b })

def runOp (line : String) : String :=
  match line.trimAscii.toString.splitOn " " |>.filter (· ≠ "") with
  | ["F", h] => match parseBuf h with
      | some B => showRes Frame.show (decode B)
      | none => "BADOP"
  | ["I", h] => match parseBuf h with
      | some ⟨[x, y, z]⟩ =>
        let a := x.toNat * 65536 + y.toNat * 256 + z.toNat
        let s := icaoToString a
        match parseRadix16 s with
        | some b => s!"ICAO {String.ofList s} {if b = a then "same" else "DIFF"}"
        | none => s!"ICAO {String.ofList s} parse-error"
      | _ => "BADOP"
  | _ => "BADOP"

partial def loop (h : IO.FS.Stream) (out : IO.FS.Stream) : IO Unit := do
  let line ← h.getLine
  if line.isEmpty then return ()
  let t := line.trimAscii.toString
  if t.isEmpty || t.startsWith "#" then loop h out else
  out.putStrLn (runOp t)
  loop h out

def main : IO Unit := do
  let out ← IO.getStdout
  loop (← IO.getStdin) out
