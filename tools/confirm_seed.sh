#!/bin/bash
# usage: confirm_seed.sh <worktree> <name>   -- confirms a seeded change and stores it under /verif/seeded/<name>/
set -u
WT=$1; NAME=$2
OUT=/verif/seeded/$NAME
mkdir -p $OUT
cp $WT/SEEDED/patch.diff $WT/SEEDED/demo.rs $OUT/ || exit 1
cp $WT/SEEDED/meta.json $OUT/agent_meta.json
cd $WT
DEMO=$(git status --porcelain | grep -o '[a-z_/]*tests/seeded_demo.rs' | head -1)
[ -z "$DEMO" ] && DEMO=$(ls */tests/seeded_demo.rs 2>/dev/null | head -1)
PKG=$(echo $DEMO | cut -d/ -f1)
case $PKG in libadsb_deku) P=adsb_deku;; rsadsb_common) P=rsadsb_common;; apps) P=rsadsb_apps;; esac
# 1. with the change: suite (other than demo) passes, demo fails
git checkout -q -- . 2>/dev/null
git checkout -q -- . 2>/dev/null
git apply $OUT/patch.diff || { echo "patch does not apply"; exit 1; }
export CARGO_NET_OFFLINE=true
SUITE=$(cargo test --workspace --no-fail-fast --offline 2>&1 | grep -E "^test result|Running" )
WITH_FAILS=$(echo "$SUITE" | grep "test result" | grep -v " 0 failed" | wc -l)
DEMO_WITH=$(cargo test -p $P --test seeded_demo --offline 2>&1 | grep "test result" | tail -1)
# 2. without the change
git apply -R $OUT/patch.diff
DEMO_WITHOUT=$(cargo test -p $P --test seeded_demo --offline 2>&1 | grep "test result" | tail -1)
git apply $OUT/patch.diff
echo "suite targets failing with change (expect 1 = the demo): $WITH_FAILS"
echo "demo with change:    $DEMO_WITH"
echo "demo without change: $DEMO_WITHOUT"
python3 - <<PY
import json
m=json.load(open("$OUT/agent_meta.json"))
json.dump({"property":m.get("property"),"summary":m.get("summary"),"needs":m.get("needs"),
  "confirmed":{"suite_targets_failing_with_change":int("$WITH_FAILS"),"demo_with_change":"$DEMO_WITH".strip(),"demo_without_change":"$DEMO_WITHOUT".strip(),
  "how":"tools/confirm_seed.sh: applied patch.diff in a scratch worktree, ran cargo test --workspace --offline, ran the demo with and without the patch"},
  "demo_location":"$DEMO"}, open("$OUT/meta.json","w"), indent=1)
PY
rm -f $OUT/agent_meta.json
