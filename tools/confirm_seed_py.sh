#!/bin/bash
# usage: confirm_seed_py.sh <worktree> <name>  -- like confirm_seed.sh, for seeded changes whose demonstration is SEEDED/demo.py
# (drives the client binaries): the suite must pass with the change, demo.py must exit non-zero with it and 0 without it.
set -u
WT=$1; NAME=$2
OUT=/verif/seeded/$NAME
mkdir -p $OUT
cp $WT/SEEDED/patch.diff $WT/SEEDED/demo.py $OUT/ || exit 1
cp $WT/SEEDED/meta.json $OUT/agent_meta.json
cd $WT
git checkout -q -- . 2>/dev/null
git apply $OUT/patch.diff || { echo "patch does not apply"; exit 1; }
export CARGO_NET_OFFLINE=true
SUITE=$(cargo test --workspace --no-fail-fast --offline 2>&1 | grep -E "^test result")
WITH_FAILS=$(echo "$SUITE" | grep -v " 0 failed" | wc -l)
python3 SEEDED/demo.py > /tmp/seed/$NAME.with.log 2>&1; RC_WITH=$?
git apply -R $OUT/patch.diff
python3 SEEDED/demo.py > /tmp/seed/$NAME.without.log 2>&1; RC_WITHOUT=$?
git apply $OUT/patch.diff
echo "suite targets failing with change (expect 0): $WITH_FAILS"
echo "demo.py with change: exit $RC_WITH ($(tail -1 /tmp/seed/$NAME.with.log))"
echo "demo.py without change: exit $RC_WITHOUT ($(tail -1 /tmp/seed/$NAME.without.log))"
python3 - <<PY
import json
m=json.load(open("$OUT/agent_meta.json"))
json.dump({"property":m.get("property"),"summary":m.get("summary"),"needs":m.get("needs"),
  "confirmed":{"suite_targets_failing_with_change":int("$WITH_FAILS"),"demo_with_change":"demo.py exit $RC_WITH","demo_without_change":"demo.py exit $RC_WITHOUT",
  "how":"tools/confirm_seed_py.sh: applied patch.diff in a scratch worktree, ran cargo test --workspace --offline, ran SEEDED/demo.py with and without the patch"},
  "demo_location":"SEEDED/demo.py"}, open("$OUT/meta.json","w"), indent=1)
PY
rm -f $OUT/agent_meta.json
