"""Independent CPR specification in exact arithmetic (DO-260B 2.2.3.2.3.7): encoder, NL from the closed form,
global decoder; haversine great-circle distance. Used to generate consistent flights and as oracle."""
from fractions import Fraction as Fr
import math

def nl_formula(lat_deg):
    """NL(lat) from the closed form (floating evaluation; used for generation and for the table cross-check)"""
    a = abs(float(lat_deg))
    if a == 0: return 59
    if a == 87: return 2
    if a > 87: return 1
    nz = 15
    x = 1 - (1 - math.cos(math.pi / (2 * nz))) / (math.cos(math.pi / 180 * a) ** 2)
    return int(math.floor(2 * math.pi / math.acos(x)))

# transition latitudes of the published table (1090-WP-9-14), NL = 59 .. 2, computed from the closed form
def nl_thresholds():
    out = []
    nz = 15
    for nl in range(59, 1, -1):
        lat = math.degrees(math.acos(math.sqrt((1 - math.cos(math.pi / (2 * nz))) / (1 - math.cos(2 * math.pi / nl)))))
        out.append((lat, nl))
    return out
_THR = nl_thresholds()
def nl_table(lat):
    a = abs(lat)
    for t, nl in _THR:
        if a < t: return nl
    return 1

def fmod_pos(a, b):
    return a - b * math.floor(a / b)

def encode(lat, lon, odd):
    """lat, lon as Fractions (degrees); returns (YZ, XZ) 17-bit"""
    lat = Fr(lat); lon = Fr(lon)
    i = 1 if odd else 0
    dlat = Fr(360, 60 - i)
    yz = math.floor(Fr(2 ** 17) * fmod_pos(lat, dlat) / dlat + Fr(1, 2))
    rlat = dlat * (Fr(yz, 2 ** 17) + math.floor(lat / dlat))
    nl = nl_table(float(rlat))
    dlon = Fr(360, max(nl - i, 1))
    xz = math.floor(Fr(2 ** 17) * fmod_pos(lon, dlon) / dlon + Fr(1, 2))
    return yz % 2 ** 17, xz % 2 ** 17

def decode(even, odd, latest_odd):
    """global decode of (lat,lon) CPR pairs; returns (lat, lon) Fractions or None"""
    yz0, xz0 = even; yz1, xz1 = odd
    j = math.floor(Fr(59 * yz0 - 60 * yz1, 2 ** 17) + Fr(1, 2))
    lat0 = Fr(360, 60) * (j % 60 + Fr(yz0, 2 ** 17))
    lat1 = Fr(360, 59) * (j % 59 + Fr(yz1, 2 ** 17))
    if lat0 >= 270: lat0 -= 360
    if lat1 >= 270: lat1 -= 360
    if not (-90 <= lat0 <= 90 and -90 <= lat1 <= 90): return None
    if nl_table(float(lat0)) != nl_table(float(lat1)): return None
    lat = lat1 if latest_odd else lat0
    nl = nl_table(float(lat))
    ni = max(nl - (1 if latest_odd else 0), 1)
    m = math.floor(Fr(xz0 * (nl - 1) - xz1 * nl, 2 ** 17) + Fr(1, 2))
    lon = Fr(360, ni) * (m % ni + Fr(xz1 if latest_odd else xz0, 2 ** 17))
    if lon >= 180: lon -= 360
    return lat, lon

def great_circle_km(p, q):
    la1, lo1, la2, lo2 = map(math.radians, (p[0], p[1], q[0], q[1]))
    a = math.sin((la2 - la1) / 2) ** 2 + math.cos(la1) * math.cos(la2) * math.sin((lo2 - lo1) / 2) ** 2
    return 2 * 6371.0 * math.asin(min(1.0, math.sqrt(a)))
