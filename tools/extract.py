#!/usr/bin/env python3
"""Translator: regenerates /verif/lean/Adsb/Gen/*.lean from /repo's current sources.

Fails closed: anything it cannot parse raises, and the calling check reports a broken tie.
Emits
  Gen/Tables.lean : crcTable (256 Nat), charLookup (64 Nat), nlTree (the cpr_nl if-tree as data,
                    thresholds as integers scaled by 10^8), constants
  Gen/layout.txt  : normalised text of every #[derive(DekuRead)] item (attributes, order, types)
"""
import re, sys, os, hashlib, json

REPO = os.environ.get("VERIF_REPO", "/repo")
OUT = os.path.join(os.path.dirname(os.path.abspath(__file__)), "..", "lean", "Adsb", "Gen")

def read(p):
    with open(os.path.join(REPO, p)) as f:
        return f.read()

def strip_comments(s):
    s = re.sub(r"/\*.*?\*/", "", s, flags=re.S)
    s = re.sub(r"//[^\n]*", "", s)
    return s

def parse_int(tok):
    tok = tok.replace("_", "")
    if tok.startswith("0x"): return int(tok, 16)
    if tok.startswith("0b"): return int(tok, 2)
    return int(tok)

# ---------------------------------------------------------------- CRC table
def crc_table():
    s = strip_comments(read("libadsb_deku/src/crc.rs"))
    m = re.search(r"pub const CRC_TABLE: \[u32; 256\] = \[(.*?)\];", s, re.S)
    if not m: raise SystemExit("extract: CRC_TABLE not found")
    toks = [t.strip() for t in m.group(1).split(",") if t.strip()]
    vals = [parse_int(t) for t in toks]
    if len(vals) != 256: raise SystemExit("extract: CRC_TABLE has %d entries" % len(vals))
    return vals

def crc_fn_shape():
    """the text of modes_checksum, normalised, so that an edit of the loop is visible"""
    s = strip_comments(read("libadsb_deku/src/crc.rs"))
    m = re.search(r"pub fn modes_checksum.*?\n}\n", s, re.S)
    if not m: raise SystemExit("extract: modes_checksum not found")
    return re.sub(r"\s+", " ", m.group(0)).strip()

# ---------------------------------------------------------------- char table
def char_lookup():
    s = read("libadsb_deku/src/lib.rs")
    m = re.search(r'const CHAR_LOOKUP: &\[u8; 64\] = b"([^"]*)";', s)
    if not m: raise SystemExit("extract: CHAR_LOOKUP not found")
    t = m.group(1)
    if "\\" in t: raise SystemExit("extract: escapes in CHAR_LOOKUP unsupported")
    if len(t) != 64: raise SystemExit("extract: CHAR_LOOKUP has %d chars" % len(t))
    return [ord(c) for c in t]

# ---------------------------------------------------------------- cpr_nl tree
def dec_to_scaled(tok):
    tok = tok.replace("_", "")
    m = re.fullmatch(r"(\d+)\.(\d+)", tok)
    if not m: raise SystemExit("extract: bad decimal " + tok)
    frac = m.group(2)
    if len(frac) > 8: raise SystemExit("extract: more than 8 decimals in " + tok)
    return int(m.group(1)) * 10**8 + int(frac.ljust(8, "0"))

def nl_tree():
    s = strip_comments(read("libadsb_deku/src/cpr.rs"))
    m = re.search(r"pub\(crate\) fn cpr_nl\(lat: f64\) -> u64 \{(.*?)\n\}\n", s, re.S)
    if not m: raise SystemExit("extract: cpr_nl not found")
    body = m.group(1)
    pre = """
    let mut lat = lat;
    if lat < 0.0 {
        lat = -lat;
    }"""
    norm = lambda x: re.sub(r"\s+", " ", x).strip()
    if not norm(body).startswith(norm(pre)):
        raise SystemExit("extract: cpr_nl prologue (abs) changed")
    rest = norm(body)[len(norm(pre)):].strip()
    toks = re.findall(r"if|return|lat|<|\{|\}|;|[0-9][0-9_]*\.[0-9_]+|[0-9]+", rest)
    if "".join(toks) != rest.replace(" ", ""):
        raise SystemExit("extract: unexpected tokens in cpr_nl: " + rest[:80])
    pos = 0
    def stmts(end_at_brace):
        nonlocal pos
        out = []
        while pos < len(toks):
            t = toks[pos]
            if t == "}":
                if not end_at_brace: raise SystemExit("extract: stray } in cpr_nl")
                return out
            if t == "if":
                if toks[pos+1:pos+3] != ["lat", "<"] or toks[pos+4] != "{":
                    raise SystemExit("extract: unsupported condition in cpr_nl")
                thr = dec_to_scaled(toks[pos+3]); pos += 5
                inner = stmts(True)
                if toks[pos] != "}": raise SystemExit("extract: missing }")
                pos += 1
                out.append(("if", thr, inner))
            elif t == "return":
                out.append(("ret", int(toks[pos+1])))
                if toks[pos+2] != ";": raise SystemExit("extract: missing ;")
                pos += 3
            elif re.fullmatch(r"[0-9]+", t) and pos == len(toks) - 1 and not end_at_brace:
                out.append(("ret", int(t))); pos += 1
            else:
                raise SystemExit("extract: unsupported statement in cpr_nl at " + t)
        return out
    tree = stmts(False)
    return tree

def lean_tree(stmts):
    def one(s):
        if s[0] == "ret": return ".ret %d" % s[1]
        return ".ite %d [%s]" % (s[1], ", ".join(one(x) for x in s[2]))
    return "[" + ",\n  ".join(one(s) for s in stmts) + "]"

# ---------------------------------------------------------------- constants
def constants():
    c = {}
    s = strip_comments(read("libadsb_deku/src/cpr.rs"))
    m = re.search(r"const NZ: f64 = ([0-9.]+);", s); c["nz"] = int(float(m.group(1))) if m else None
    m = re.search(r"const CPR_MAX: f64 = ([0-9_.]+);", s); c["cprMax"] = int(float(m.group(1).replace("_",""))) if m else None
    m = re.search(r"const D_LAT_EVEN: f64 = (.*?);", s); c["_dlatEven"] = re.sub(r"\s+","",m.group(1)) if m else None
    m = re.search(r"const D_LAT_ODD: f64 = (.*?);", s); c["_dlatOdd"] = re.sub(r"\s+","",m.group(1)) if m else None
    t = strip_comments(read("rsadsb_common/src/lib.rs"))
    m = re.search(r"const MAX_AIRCRAFT_DISTANCE: f64 = ([0-9.]+);", t); c["maxAircraftDistance"] = int(float(m.group(1))) if m else None
    m = re.search(r"let r = ([0-9.]+);", t); c["earthRadius"] = int(float(m.group(1))) if m else None
    for k, v in c.items():
        if v is None: raise SystemExit("extract: constant %s not found" % k)
    if c["_dlatEven"] != "360.0/(4.0*NZ)" or c["_dlatOdd"] != "360.0/(4.0*NZ-1.0)":
        raise SystemExit("extract: D_LAT_EVEN / D_LAT_ODD definition changed: %s %s" % (c["_dlatEven"], c["_dlatOdd"]))
    return c

# ---------------------------------------------------------------- deku layout
def split_top(s, sep=","):
    out, depth, cur, instr = [], 0, "", False
    i = 0
    while i < len(s):
        ch = s[i]
        if instr:
            cur += ch
            if ch == "\\": cur += s[i+1]; i += 1
            elif ch == '"': instr = False
        elif ch == '"': instr = True; cur += ch
        elif ch in "([{<": depth += 1; cur += ch
        elif ch in ")]}>":
            depth -= 1; cur += ch
        elif ch == sep and depth == 0:
            out.append(cur); cur = ""
        else: cur += ch
        i += 1
    if cur.strip(): out.append(cur)
    return out

def layout():
    lines = []
    for path in ["libadsb_deku/src/lib.rs", "libadsb_deku/src/adsb.rs", "libadsb_deku/src/bds.rs"]:
        s = strip_comments(read(path))
        # items: attribute block + (struct|enum) Name { ... } or tuple struct
        for m in re.finditer(r"((?:#\[[^\]]*\]\s*)+)pub (struct|enum) (\w+)\s*(\(|\{)", s, re.S):
            attrs, kind, name, opener = m.groups()
            if "DekuRead" not in attrs: continue
            # find matching close
            start = m.end() - 1
            close = {"(": ")", "{": "}"}[opener]
            depth, i, instr = 0, start, False
            while True:
                ch = s[i]
                if instr:
                    if ch == "\\": i += 1
                    elif ch == '"': instr = False
                elif ch == '"': instr = True
                elif ch == opener: depth += 1
                elif ch == close:
                    depth -= 1
                    if depth == 0: break
                i += 1
            body = s[start+1:i]
            top = " ".join(re.sub(r"\s+", "", a) for a in re.findall(r"#\[deku\((.*?)\)\]", attrs, re.S))
            lines.append("%s %s %s [%s]" % (path.split("/")[-1], kind, name, top))
            for member in split_top(body):
                mm = re.sub(r"\s+", " ", member).strip()
                if not mm: continue
                d = " ".join(re.sub(r"\s+", "", a) for a in re.findall(r"#\[deku\((.*?)\)\]", mm, re.S))
                rest = re.sub(r"#\[[^\]]*\]", "", mm).strip()
                # nested deku attrs inside tuple variants, e.g. Reserved(#[deku(bits = 3)] u8)
                lines.append("    %s | %s" % (re.sub(r"\s+", " ", rest), d))
    return "\n".join(lines) + "\n"

# ---------------------------------------------------------------- custom readers and maps (text hashes)
def code_shapes():
    """normalised text of the hand-written decoding functions, so any edit trips the tie"""
    out = {}
    lib = strip_comments(read("libadsb_deku/src/lib.rs"))
    adsb = strip_comments(read("libadsb_deku/src/adsb.rs"))
    modeac = strip_comments(read("libadsb_deku/src/mode_ac.rs"))
    cpr = strip_comments(read("libadsb_deku/src/cpr.rs"))
    def grab(src, pat, key):
        m = re.search(pat, src, re.S)
        if not m: raise SystemExit("extract: %s not found" % key)
        out[key] = re.sub(r"\s+", " ", m.group(0)).strip()
    grab(lib, r"impl<R: Read \+ Seek> Read for ReaderCrc<R> \{.*?\n\}\n", "ReaderCrc::read")
    grab(lib, r"impl<R: Read \+ Seek> Seek for ReaderCrc<R> \{.*?\n\}\n", "ReaderCrc::seek")
    grab(lib, r"pub fn from_reader<R: Read \+ Seek>.*?\n    \}\n", "Frame::from_reader")
    grab(lib, r"fn read_crc<R: Read \+ Seek>.*?\n    \}\n", "Frame::read_crc")
    grab(lib, r"impl Altitude \{.*?\n\}\n", "Altitude::read")
    grab(lib, r"impl IdentityCode \{.*?\n\}\n", "IdentityCode::read")
    grab(lib, r"impl AC13Field \{.*?\n\}\n", "AC13Field::read")
    grab(lib, r"impl Capability \{.*?\n\}\n", "Capability::read_reserved")
    grab(lib, r"pub\(crate\) fn aircraft_identification_read.*?\n\}\n", "aircraft_identification_read")
    grab(lib, r"impl core::str::FromStr for ICAO \{.*?\n\}\n", "ICAO::from_str")
    grab(lib, r"impl fmt::Display for ICAO \{.*?\n\}\n", "ICAO::fmt")
    grab(adsb, r"pub fn calculate\(&self\).*?\n    \}\n", "AirborneVelocity::calculate")
    grab(modeac, r"pub\(crate\) fn decode_id13_field.*?\n\}\n", "decode_id13_field")
    grab(modeac, r"pub\(crate\) fn mode_a_to_mode_c.*?\n\}\n", "mode_a_to_mode_c")
    grab(cpr, r"pub fn get_position.*?\n\}\n", "get_position")
    grab(cpr, r"fn positive_mod.*?\n\}\n", "positive_mod")
    grab(cpr, r"fn get_lat_lon.*?\n\}\n", "get_lat_lon")
    out["modes_checksum"] = crc_fn_shape()
    return out

def cfg_items():
    """every cfg / cfg_attr item of the two library crates with the line that follows it"""
    out = []
    for path in ["libadsb_deku/src/lib.rs", "libadsb_deku/src/adsb.rs", "libadsb_deku/src/bds.rs", "libadsb_deku/src/cpr.rs",
                 "libadsb_deku/src/crc.rs", "libadsb_deku/src/mode_ac.rs", "rsadsb_common/src/lib.rs"]:
        lines = strip_comments(read(path)).split("\n")
        for i, l in enumerate(lines):
            t = l.strip()
            if t.startswith("#[cfg(") or t.startswith("#![cfg") or (t.startswith("#[cfg_attr(") and "serde" not in t and "docsrs" not in t):
                nxt = next((x.strip() for x in lines[i + 1:] if x.strip()), "")
                out.append("%s: %s => %s" % (path.split("/")[0] + "/" + path.split("/")[-1], t, nxt[:60]))
    return "\n".join(out) + "\n"

PANIC_PAT = re.compile(r"\.unwrap\(\)|\.expect\(|\bpanic!|\bunreachable!|\bunimplemented!|\btodo!|\bassert(_eq|_ne)?!\(|"
                       r"\b[a-z_][a-z0-9_]*(\.[a-z_][a-z0-9_]*)*\[[^\]\n;]+\]|\bas (u8|u16|u32|i16|i32|usize|f32)\b")
APP_FILES = ["apps/src/1090/1090.rs", "apps/src/radar/radar.rs", "apps/src/radar/airplanes.rs", "apps/src/radar/stats.rs", "apps/src/radar/cli.rs",
             "apps/src/radar/map.rs", "apps/src/radar/coverage.rs", "apps/src/radar/help.rs", "apps/src/radar/airport.rs"]
def panic_sites(files=None):
    """inventory of the constructs that can panic or silently wrap in the two library crates (outside tests and the
    verification hooks): unwrap/expect, panic-family macros, assertions, slice indexing, narrowing casts; one line per
    site, `file::function: normalised statement`. The model writes each of them out as a `Res.panic` branch or a guarded
    narrowing; a new site is a broken tie of C01."""
    out = []
    for path in files or ["libadsb_deku/src/lib.rs", "libadsb_deku/src/adsb.rs", "libadsb_deku/src/bds.rs", "libadsb_deku/src/cpr.rs",
                 "libadsb_deku/src/crc.rs", "libadsb_deku/src/mode_ac.rs", "rsadsb_common/src/lib.rs"]:
        src = strip_comments(read(path))
        src = re.split(r"#\[cfg\(test\)\]", src)[0]
        src = re.split(r"#\[cfg\(rsadsb_adsb_deku_verif\)\]\s*pub mod verif_hooks", src)[0]
        fn = "-"
        for l in src.split("\n"):
            t = l.strip()
            m = re.search(r"\bfn ([a-zA-Z_0-9]+)", t)
            if m: fn = m.group(1)
            if t.startswith("#[") or t.startswith("#!["): continue
            if path.endswith("crc.rs") and re.fullmatch(r"(0x[0-9a-f_]+,\s*)+", t): continue
            if PANIC_PAT.search(t):
                out.append("%s::%s: %s" % (path.split("/")[0] + "/" + path.split("/")[-1], fn, re.sub(r"\s+", " ", t)[:140]))
    return "\n".join(out) + "\n"

def layout_offsets(lay, reader_bits):
    """bit offset and width of every field of the *plain* deku structs (fields with an explicit width, enum-typed fields, nested plain
    structs, byte arrays, pads, and the custom readers whose width the function translator extracted), relative to the start of the struct;
    a struct with a field this cannot size (ctx / cond / count / an unknown reader) is left out. -> {struct: [(field, offset, width)]}"""
    items = []; cur = None
    for line in lay.split("\n"):
        if not line.strip(): continue
        if not line.startswith("    "):
            m = re.match(r"\S+ (struct|enum) (\w+) \[(.*)\]$", line)
            cur = {"kind": m.group(1), "name": m.group(2), "top": m.group(3), "members": []}; items.append(cur)
        else:
            decl, _, attrs = (line.strip() + " ").partition(" | ")
            cur["members"].append((decl.strip(), attrs.strip()))
    by = {i["name"]: i for i in items}
    def attr(a, key):
        m = re.search(r'(?:^|[ ,])%s="?([0-9]+)"?' % key, a)
        return int(m.group(1)) if m else None
    memo = {}
    def enum_bits(name):
        it = by.get(name)
        if not it or it["kind"] != "enum": return None
        # an enum all of whose variants are unit variants is as wide as its id
        if any("(" in d or "{" in d for d, _ in it["members"]): return None
        return attr(it["top"], "bits")
    def struct_fields(name):
        if name in memo: return memo[name]
        memo[name] = None
        it = by.get(name)
        if not it or it["kind"] != "struct": return None
        off = 0; out = []
        for decl, a in it["members"]:
            if any(k in a for k in ("ctx=", "cond=", "count=", "skip", "until=")): return None
            m = re.match(r"(?:pub(?:\([^)]*\))? )?(?:(\w+): )?(.+)$", decl)
            fname, ty = (m.group(1) or "0"), m.group(2).strip()
            off += (attr(a, "pad_bits_before") or 0) + 8 * (attr(a, "pad_bytes_before") or 0)
            w = attr(a, "bits")
            if w is None and "reader=" in a: w = reader_bits.get(name + "." + fname)
            if w is None:
                arr = re.match(r"\[u8; (\d+)\]$", ty)
                if arr: w = 8 * int(arr.group(1))
                elif ty in ("u8", "i8", "bool"): w = 8
                elif ty in ("u16",) and "endian" in a: w = 16
                elif enum_bits(ty) is not None: w = enum_bits(ty)
                elif struct_fields(ty) is not None:
                    sub = struct_fields(ty)
                    for (n2, o2, w2) in sub: out.append((fname + "." + n2, off + o2, w2))
                    w = memo.get(ty + "#width"); 
                    off += w + (attr(a, "pad_bits_after") or 0) + 8 * (attr(a, "pad_bytes_after") or 0)
                    continue
            if w is None: return None
            out.append((fname, off, w))
            off += w + (attr(a, "pad_bits_after") or 0) + 8 * (attr(a, "pad_bytes_after") or 0)
        memo[name] = out; memo[name + "#width"] = off
        return out
    res = {}
    for it in items:
        if it["kind"] == "struct":
            f = struct_fields(it["name"])
            if f is not None: res[it["name"]] = (f, memo[it["name"] + "#width"])
    return res

def fn_bodies():
    """normalised text of every function of the tracker crate and of the two client programs, keyed `<file>::<impl>::<fn>`;
    the tracker / client models were written against these bodies, an edit to one of them is a broken tie of the properties
    that rest on its model (C12-C18, C20)"""
    out = {}
    files = ["rsadsb_common/src/lib.rs", "apps/src/1090/1090.rs"] + sorted("apps/src/radar/" + f for f in os.listdir(os.path.join(REPO, "apps/src/radar")) if f.endswith(".rs"))
    for path in files:
        src = strip_comments(read(path))
        src = re.split(r"#\[cfg\(test\)\]", src)[0]
        # enclosing impl of every position
        impls = [(m.start(), re.sub(r"\s+", " ", m.group(1)).strip()) for m in re.finditer(r"\bimpl(?:<[^>]*>)?\s+([^{;]+?)\s*\{", src)]
        for m in re.finditer(r"\bfn\s+([A-Za-z_0-9]+)", src):
            i = m.end(); depth = 0
            # find the body's opening brace (a `;` first means a declaration without body)
            while i < len(src) and src[i] not in "{;": i += 1
            if i >= len(src) or src[i] == ";": continue
            j = i; instr = False
            while j < len(src):
                ch = src[j]
                if instr:
                    if ch == "\\": j += 1
                    elif ch == '"': instr = False
                elif ch == '"': instr = True
                elif ch == "'" and j + 2 < len(src) and (src[j + 2] == "'" or (src[j + 1] == "\\" and src[j + 3] == "'")):
                    j += 3 if src[j + 1] == "\\" else 2      # char literal
                elif ch == "{": depth += 1
                elif ch == "}":
                    depth -= 1
                    if depth == 0: break
                j += 1
            body = re.sub(r"\s+", " ", src[m.start():j + 1]).strip()
            # signature attributes directly above (cfg) matter too
            imp = ""
            for pos, name in impls:
                if pos < m.start(): imp = name
            # is the fn really inside that impl? (top-level fns after an impl block): check brace balance between impl start and fn
            if imp:
                pos = max(p for p, n in impls if p < m.start())
                seg = src[pos:m.start()]
                if seg.count("{") - seg.count("}") <= 0: imp = ""
            if m.group(1).startswith("verif_"): continue          # the verification hooks are not part of the modelled code
            key = "%s::%s%s" % (path.replace("/src", ""), (imp + "::") if imp else "", m.group(1))
            k = key; n = 2
            while k in out: k = "%s#%d" % (key, n); n += 1
            out[k] = body
    return out

def main():
    os.makedirs(OUT, exist_ok=True)
    crc = crc_table(); chars = char_lookup(); tree = nl_tree(); c = constants()
    def nat_list(xs, per=8):
        rows = [", ".join(str(x) for x in xs[i:i+per]) for i in range(0, len(xs), per)]
        return "[" + ",\n  ".join(rows) + "]"
    lean = """/-! GENERATED by /verif/tools/extract.py from /repo on every run. Do not edit. -/
namespace Adsb.Gen

/-- `CRC_TABLE` of libadsb_deku/src/crc.rs -/
def crcTable : List Nat :=
  %s

/-- `CHAR_LOOKUP` of libadsb_deku/src/lib.rs (ASCII codes) -/
def charLookup : List Nat :=
  %s

/-- statement tree of `cpr_nl` after `lat = |lat|`; thresholds scaled by 10^8 -/
inductive NlStmt where
  | ret (n : Nat)
  | ite (thr : Nat) (body : List NlStmt)

def nlTree : List NlStmt :=
  %s

def nz : Nat := %d
def cprMax : Nat := %d
def maxAircraftDistance : Nat := %d
def earthRadius : Nat := %d

end Adsb.Gen
""" % (nat_list(crc, 6), nat_list(chars, 16), lean_tree(tree), c["nz"], c["cprMax"], c["maxAircraftDistance"], c["earthRadius"])
    p = os.path.join(OUT, "Tables.lean")
    old = open(p).read() if os.path.exists(p) else None
    if old != lean:
        open(p, "w").write(lean)
    lay = layout()
    shapes = code_shapes()
    open(os.path.join(OUT, "layout.txt"), "w").write(lay)
    open(os.path.join(OUT, "cfg_items.txt"), "w").write(cfg_items())
    open(os.path.join(OUT, "panic_sites.txt"), "w").write(panic_sites())
    open(os.path.join(OUT, "shapes.json"), "w").write(json.dumps(shapes, indent=1, sort_keys=True))
    open(os.path.join(OUT, "fns.json"), "w").write(json.dumps(fn_bodies(), indent=1, sort_keys=True))
    # the pure integer functions, translated to Lean definitions (Gen/Fns.lean); when the source has left the fragment the translator
    # handles, the generated file states that as an obligation that cannot be met, so that exactly the theorems resting on it fail
    import rust2lean
    def stub(e):
        return ("import Adsb.MiniRust\n/-! GENERATED: tools/rust2lean.py could not translate the current source: %s -/\n"
                "theorem Adsb.Gen.source_outside_translated_fragment : False := by decide\n" % str(e).replace("-/", "- /"))
    try:
        fns, crcfn = rust2lean.generate(read)
    except rust2lean.Unsupported as e:
        # which of the two files is affected is not known here: translate them separately
        try: fns = rust2lean.generate(read, only="fns")[0]
        except rust2lean.Unsupported as e1: fns = stub(e1)
        try: crcfn = rust2lean.generate(read, only="crc")[1]
        except rust2lean.Unsupported as e2: crcfn = stub(e2).replace("source_outside_translated_fragment", "crc_source_outside_translated_fragment")
    # the numeric formulas (haversine, Mercator projection) as terms generic in the number type (Gen/Formulas.lean)
    try:
        formulas = rust2lean.generate_formulas(read)
    except rust2lean.Unsupported as e3:
        formulas = stub(e3).replace("import Adsb.MiniRust", "import Adsb.TrackerF\nimport Adsb.App").replace("source_outside_translated_fragment", "formulas_outside_translated_fragment")
    # cpr.rs: positive_mod / get_lat_lon / get_position as terms generic in the number type (Gen/CprFn.lean)
    try:
        cprfn = rust2lean.generate_cpr(read)
    except rust2lean.Unsupported as e4:
        cprfn = stub(e4).replace("import Adsb.MiniRust", "import Adsb.Cpr").replace("source_outside_translated_fragment", "cpr_outside_translated_fragment")
    # adsb.rs AirborneVelocity::calculate + Sign::value (Gen/VelFn.lean)
    try:
        velfn = rust2lean.generate_velocity(read)
    except rust2lean.Unsupported as e5:
        velfn = stub(e5).replace("import Adsb.MiniRust", "import Adsb.Velocity").replace("source_outside_translated_fragment", "velocity_outside_translated_fragment")
    for name, txt in (("Fns.lean", fns), ("CrcFn.lean", crcfn), ("Formulas.lean", formulas), ("CprFn.lean", cprfn), ("VelFn.lean", velfn)):
        pf = os.path.join(OUT, name)
        if not os.path.exists(pf) or open(pf).read() != txt: open(pf, "w").write(txt)
    # bit offsets of the plain deku structs (Gen/Layout.lean), with the widths of the custom readers taken from the translated functions
    rb = {}
    for key, pat in (("Altitude.alt", r"def ac12SrcBits : Nat := (\d+)"), ("AC13Field.0", r"def ac13SrcBits : Nat := (\d+)"), ("IdentityCode.0", r"def identitySrcBits : Nat := (\d+)")):
        m = re.search(pat, fns)
        if m: rb[key] = int(m.group(1))
    m = re.search(r"for _ in 0\.\.=?(\d+) \{[^}]*BitSize\((\d+)\)", shapes.get("aircraft_identification_read", ""))
    m2 = re.search(r"for _ in 0\.\.(=?)(\d+)", shapes.get("aircraft_identification_read", ""))
    if m and m2: rb["Identification.cn"] = (int(m2.group(2)) + (1 if m2.group(1) else 0)) * int(m.group(2))
    offs = layout_offsets(lay, rb)
    ll = ["/-! GENERATED by /verif/tools/extract.py from the `#[deku(..)]` attributes of /repo on every run. Do not edit.",
          "For every plain deku struct: `layout_<Name>` = [(bit offset from the start of the struct, width)] in field order, `width_<Name>` = total bits",
          "consumed (pads included). Field names are in the doc comments; the theorems of `Theorems/C10b` compare positions. -/", "namespace Adsb.Gen", ""]
    for name in sorted(offs):
        f, w = offs[name]
        ll.append("/-- %s -/" % ", ".join("%s@%d+%d" % x for x in f))
        ll.append("def layout_%s : List (Nat × Nat) := [%s]" % (name, ", ".join("(%d, %d)" % (x[1], x[2]) for x in f)))
        ll.append("def width_%s : Nat := %d" % (name, w)); ll.append("")
    ll += ["end Adsb.Gen", ""]
    pl = os.path.join(OUT, "Layout.lean"); txt = "\n".join(ll)
    if not os.path.exists(pl) or open(pl).read() != txt: open(pl, "w").write(txt)
    open(os.path.join(OUT, "panic_sites_apps.txt"), "w").write(panic_sites(APP_FILES))
    print(json.dumps({"tables_sha": hashlib.sha256(lean.encode()).hexdigest()[:16],
                      "layout_sha": hashlib.sha256(lay.encode()).hexdigest()[:16],
                      "shapes_sha": hashlib.sha256(json.dumps(shapes, sort_keys=True).encode()).hexdigest()[:16],
                      "tables_changed": old != lean}))

if __name__ == "__main__":
    main()
