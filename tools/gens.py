"""Input generators. Every random choice derives from the Rng passed in."""
from vlib import Rng, with_parity, parity

SHORT = (0, 4, 5, 11)
LONG = (16, 17, 18, 19, 20, 21, 24, 25, 26, 27, 28, 29, 30, 31)
VALID_DF = SHORT + LONG

def put(b, off, w, v):
    """write the w-bit value v at bit offset off (MSB first) into bytearray b"""
    for i in range(w):
        bit = (v >> (w - 1 - i)) & 1
        p = off + i
        if p // 8 >= len(b): continue
        mask = 0x80 >> (p % 8)
        if bit: b[p // 8] |= mask
        else: b[p // 8] &= ~mask & 0xFF

def get(b, off, w):
    v = 0
    for i in range(w):
        p = off + i
        bit = (b[p // 8] >> (7 - p % 8)) & 1 if p // 8 < len(b) else 0
        v = (v << 1) | bit
    return v

def flen(df):
    return 7 if df in SHORT else 14

def rand_frame(rng, df, tc=None, L=None, fix_parity=False, bds=None):
    L = flen(df) if L is None else L
    b = bytearray(rng.bits(8 * L).to_bytes(L, "big")) if L else bytearray()
    if L: put(b, 0, 5, df)
    if tc is not None: put(b, 32, 5, tc)
    if bds is not None: put(b, 32, 8, bds)
    if fix_parity and L == flen(df):
        pb = bytes(b[:L - 3])
        b = bytearray(with_parity(pb))
    return b

def make_opstatus_ok(rng, b, st):
    """make a TC31 subtype 0/1 payload pass the version 0-2 layout checks"""
    put(b, 32, 5, 31); put(b, 37, 3, st)
    put(b, 40, 2, 0)
    if st == 0: put(b, 44, 2, 0)
    put(b, 56, 2, 0)
    put(b, 72, 3, rng.below(3))

def hexop(prefix, b): return prefix + " " + bytes(b).hex()

def grid_df_len(rng, per=4, maxlen=32):
    """all 32 format codes x all lengths 0..maxlen x per payloads (random, zeros, ones)"""
    ops = []
    for df in range(32):
        for L in range(1, maxlen + 1):
            for k in range(per):
                if k == 0: b = bytearray(L)
                elif k == 1: b = bytearray([0xFF] * L)
                else: b = bytearray(rng.bits(8 * L).to_bytes(L, "big"))
                put(b, 0, 5, df)
                if df in (17, 18) and L >= 5 and k >= 2 and rng.chance(1, 2): put(b, 32, 5, rng.below(32))
                ops.append(hexop("F", b))
    return ops

def structured(rng, n):
    """mostly-valid frames: every format, every type code / subtype / BDS, random payload bits"""
    ops = []
    for i in range(n):
        df = rng.choice(VALID_DF)
        b = rand_frame(rng, df)
        if df in (17, 18):
            tc = rng.below(32); put(b, 32, 5, tc)
            if tc == 31 and rng.chance(3, 4):
                make_opstatus_ok(rng, b, rng.below(2))
                # nearly acceptable reports: exactly one gate (version, one reserved group) off
                if rng.chance(1, 3): put(b, 72, 3, rng.below(8))
                elif rng.chance(1, 6): put(b, rng.choice([40, 44, 56]), 2, rng.below(4))
            if tc == 19: put(b, 37, 3, rng.below(8))
        if df in (20, 21):
            put(b, 32, 8, rng.choice([0x00, 0x10, 0x20, rng.below(256)]))
        if rng.chance(1, 2):
            b = bytearray(with_parity(bytes(b[:len(b) - 3]), rng.bits(24) if rng.chance(1, 2) else 0))
        ops.append(hexop("F", b))
    return ops

def malformed(rng, n):
    ops = []
    for i in range(n):
        L = rng.choice([1, 2, 3, 4, 5, 6, 7, 8, 9, 10, 11, 12, 13, 14, 15, 16, 20, 27, 32])
        b = bytearray(rng.bits(8 * L).to_bytes(L, "big"))
        if rng.chance(1, 2): put(b, 0, 5, rng.choice(VALID_DF))
        ops.append(hexop("F", b))
    return ops

def field_sweep(rng, df, off, w, reps, tc=None, bds=None, fixups=None, limit=4096, prefix="F"):
    """every value of the w-bit field at off (up to `limit` values: all if 2^w <= limit, else stratified
    + all single-bit values), other bits random"""
    if (1 << w) <= limit:
        vals = list(range(1 << w))
    else:
        vals = sorted(set([0, (1 << w) - 1] + [1 << i for i in range(w)] + [((1 << w) - 1) ^ (1 << i) for i in range(w)]
                          + [rng.bits(w) for _ in range(limit)]))
    ops = []
    for v in vals:
        for r in range(reps):
            b = rand_frame(rng, df, tc=tc, bds=bds)
            if fixups: fixups(rng, b)
            put(b, off, w, v)
            ops.append(hexop(prefix, b))
    return ops
