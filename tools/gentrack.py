"""Tracker histories: interleaved flights of several aircraft as line-protocol operations."""
from fractions import Fraction as Fr
import math
from gens import put, rand_frame, hexop
from vlib import with_parity
import cprspec

def adsb(icao, me_bits, df=17, cf=None, pi_overlay=0):
    b = bytearray(11)
    put(b, 0, 5, df); put(b, 5, 3, 5 if cf is None else cf); put(b, 8, 24, icao); put(b, 32, 56, me_bits)
    return bytearray(with_parity(bytes(b), pi_overlay))

def me_position(tc, alt12, odd, yz, xz, ss=0, saf=0, t=0):
    v = 0
    for val, w in ((tc, 5), (ss, 2), (saf, 1), (alt12, 12), (t, 1), (odd, 1), (yz, 17), (xz, 17)): v = (v << w) | val
    return v

def alt12_of_feet(ft):
    n = (ft + 1000) // 25
    return ((n >> 4) << 5) | 0x10 | (n & 0xF)

IA5 = {c: i + 1 for i, c in enumerate("ABCDEFGHIJKLMNOPQRSTUVWXYZ")}
IA5.update({str(d): 48 + d for d in range(10)}); IA5[" "] = 32
def me_ident(tc, ca, text):
    v = (tc << 3) | ca
    for ch in (text + " " * 8)[:8]: v = (v << 6) | IA5[ch]
    return v

def me_velocity(st, dew, vew, dns, vns, vrsign, vr):
    v = 0
    for val, w in ((19, 5), (st, 3), (0, 5), (dew, 1), (vew, 10), (dns, 1), (vns, 10), (0, 1), (vrsign, 1), (vr, 9), (0, 2), (0, 1), (1, 7)): v = (v << w) | val
    return v

class Flight:
    def __init__(self, rng, icao, rx, df=17, plain=False):
        # plain: every position report carries the flight's altitude and the flight does not drift (scenarios that count on
        # "a position pair gives details"); histories for the tracker properties use the varied form
        self.icao = icao; self.df = df; self.rx = rx; self.plain = plain
        # start within ~250 km of the receiver
        self.lat = Fr(rx[0]) + Fr(rng.below(4000) - 2000, 1000)
        self.lon = Fr(rx[1]) + Fr(rng.below(4000) - 2000, 1000)
        self.lat = max(Fr(-89), min(Fr(89), self.lat))
        self.alt = 1000 + 25 * rng.below(1500)
        self.tc = rng.choice([9, 11, 13, 18, 20, 22])
        self.odd = rng.below(2)
        self.climb = 0          # ft per position report (set by scenarios that want the even and the odd report of a pair to carry different altitudes)
        # one flight in three heads straight away from the receiver at 2 - 4.5 km per report (inside what CPR pairing tolerates), so that a
        # published aircraft crosses the range limit while every step is far below the jump limit
        self.drift = None
        if not plain and rng.chance(1, 3):
            dl = float(self.lat) - rx[0]; dn = float(self.lon) - rx[1]
            n = max(1e-6, (dl * dl + dn * dn) ** 0.5)
            k = (20 + rng.below(20)) / 1000.0
            self.drift = (Fr(int(dl / n * k * 100000), 100000), Fr(int(dn / n * k * 100000), 100000))
    def frame(self, me): return adsb(self.icao, me, df=self.df, cf=(self.icao >> 3) % 8 if self.df == 18 else None)
    def step(self, rng, big=False):
        if big and rng.chance(1, 2):
            # teleport: next to the receiver (within ~25 km) or 1.2 - 2.6 degrees away from it, so that jumps which END close to the
            # receiver, and jumps that start there, both occur (the jump limit must not depend on the distance to the receiver)
            k = rng.below(4)
            if k == 0: dl, dn = Fr(rng.below(400) - 200, 1000), Fr(rng.below(400) - 200, 1000)
            elif k == 1:
                dl = Fr(rng.choice([-1, 1]) * (1200 + rng.below(1400)), 1000); dn = Fr(rng.below(2000) - 1000, 1000)
            else:
                # one latitude zone (6 or 360/59 degrees) north or south of the receiver at nearly the same longitude: a report from there
                # paired with a report from next to the receiver is a CPR alias, i.e. it decodes to a plausible position one zone off
                z = rng.choice([Fr(6), Fr(360, 59), Fr(12), Fr(720, 59)])
                dl = rng.choice([-1, 1]) * z + Fr(rng.below(200) - 100, 1000); dn = Fr(rng.below(200) - 100, 1000)
            self.lat = max(Fr(-89), min(Fr(89), Fr(self.rx[0]) + dl))
            self.lon = ((Fr(self.rx[1]) + dn + 180) % 360) - 180
            return
        if self.drift and not big:
            self.lat = max(Fr(-89), min(Fr(89), self.lat + self.drift[0]))
            self.lon = ((self.lon + self.drift[1] + 180) % 360) - 180
            return
        d = Fr(rng.below(200) - 100, 100000) if not big else Fr(rng.choice([-2, 2, 3]) , 1)
        self.lat = max(Fr(-89), min(Fr(89), self.lat + d))
        self.lon = ((self.lon + d * 2 + 180) % 360) - 180
    def position(self, rng, odd=None, garbage=False):
        if odd is None:
            self.odd ^= 1 if rng.chance(4, 5) else 0; odd = self.odd
        if garbage: yz, xz = rng.bits(17), rng.bits(17)
        else: yz, xz = cprspec.encode(self.lat, self.lon, odd)
        # altitude field: mostly the flight's altitude; sometimes "no altitude" (all-zero field), a Q=1 value at or below 0 ft, an illegal
        # Gillham code or another level, so that records with a position but without an altitude in one or both slots occur
        r = rng.below(16) if not self.plain else 0
        if self.climb: self.alt = max(1000, min(45000, self.alt + self.climb))
        a12 = alt12_of_feet(self.alt) if r < 11 else (0 if r < 13 else rng.choice([0x010, 0x017, 0x00a, 0x9e0, alt12_of_feet(self.alt + 2500)]))
        return self.frame(me_position(self.tc, a12, odd, yz, xz))

def other_format(rng, icao):
    """a frame of a format the tracker must ignore, carrying the address where that format has one (DF11: AA; others: random payload)"""
    b = rand_frame(rng, rng.choice([0, 4, 5, 11, 11, 16, 19, 20, 21, 24])); put(b, 8, 24, icao)
    return b

def busy_sky(rng, n):
    """more than a thousand aircraft at once: every one heard once (quiet operations), a third heard again, then newcomers one after
    another; the whole map is compared at the end only"""
    ops = ["T reset 39.0 -77.0 500"]
    base = rng.bits(24) & 0xFFF000
    addrs = []
    seen = set()
    while len(addrs) < n:
        a = (base + 7 * len(addrs) * (1 + rng.below(3)) + rng.below(5)) & 0xFFFFFF
        if a not in seen: seen.add(a); addrs.append(a)
    for i, a in enumerate(addrs):
        ops.append(hexop("T actq", adsb(a, me_ident(4, 0, "B%05d" % (i % 100000)), df=18 if i % 9 == 0 else 17, cf=(a >> 3) % 8 if i % 9 == 0 else None)))
        if i % 3 == 0: ops.append(hexop("T actq", adsb(a, me_velocity(1, 0, 100, 1, 200, 0, 10))))
    ops.append("T dump")
    return ops

def alias_history(rng, rx=None):
    """the CPR alias: an aircraft published one latitude zone (6 or 360/59 degrees) north or south of the receiver, then reports from next to the
    receiver - the mixed pair decodes to a plausible position near the receiver, more than 100 km from the published one, which the jump
    limit must reject whatever its distance to the receiver is; then the aircraft continues next to the receiver (fresh pair)"""
    rx = rx or rng.choice([(39.0, -77.0), (52.3, 4.8), (-33.9, 151.2), (0.5, 179.5)])
    ops = ["T reset %s %s %s" % (rx[0], rx[1], rng.choice([1000, 1500, 800]))]
    f = Flight(rng, rng.bits(24), rx, plain=True)
    z = rng.choice([Fr(6), Fr(360, 59)]) * rng.choice([-1, 1])
    f.lat = max(Fr(-89), min(Fr(89), Fr(rx[0]) + z + Fr(rng.below(100) - 50, 1000))); f.lon = Fr(rx[1]) + Fr(rng.below(100) - 50, 1000)
    first = rng.below(2)
    ops.append(hexop("T act", f.position(rng, odd=first))); ops.append(hexop("T act", f.position(rng, odd=1 - first)))
    # next to the receiver
    f.lat = Fr(rx[0]) + Fr(rng.below(400) - 200, 1000); f.lon = ((Fr(rx[1]) + Fr(rng.below(400) - 200, 1000) + 180) % 360) - 180
    p = rng.below(2)
    for odd in (p, 1 - p, p, 1 - p):
        ops.append(hexop("T act", f.position(rng, odd=odd))); f.step(rng)
    ops.append("T dump")
    return ops

def lon_alias_history(rng):
    """the CPR alias along a parallel: a published aircraft, then reports from one longitude zone (360/NL degrees for the even format, 360/(NL-1)
    for the odd one - 400 to 700 km at mid latitudes) further east or west at the same latitude. The first new report pairs with the stored one
    of the other format to a position next to the published one (a small step); the second shows the real place, several hundred km along the
    parallel and not at all north or south: the jump limit must reject it (seed C13_g measured only the north-south part)."""
    rx = rng.choice([(39.0, -77.0), (52.3, 4.8), (-33.9, 151.2), (20.0, 179.0)])
    ops = ["T reset %s %s %s" % (rx[0], rx[1], rng.choice([1500, 2500]))]
    f = Flight(rng, rng.bits(24), rx, plain=True)
    f.lat = Fr(rx[0]) + Fr(rng.below(400) - 200, 1000); f.lon = Fr(rx[1]) + Fr(rng.below(400) - 200, 1000)
    ops += [hexop("T act", f.position(rng, odd=0)), hexop("T act", f.position(rng, odd=1))]
    nl = cprspec.nl_table(f.lat)
    first = rng.below(2)                                            # format of the first report from the new place
    zones = nl - first if nl - first > 0 else 1
    k = rng.choice([1, 1, 2])
    f.lon = ((f.lon + rng.choice([-1, 1]) * (k * Fr(360, zones) + Fr(rng.below(40) - 20, 1000)) + 180) % 360) - 180
    for odd in (first, 1 - first, first):
        ops.append(hexop("T act", f.position(rng, odd=odd)))
    ops.append("T dump")
    return ops

def outbound_history(rng):
    """a published aircraft leaves the configured range in steps far below the jump limit: it starts 6 - 25 km inside the limit and flies
    straight away from the receiver at about 4 km per report (north, south, east or west)"""
    import math
    rx = rng.choice([(39.0, -77.0), (52.3, 4.8), (-33.9, 151.2), (64.1, -21.9)])
    R = rng.choice([150, 200, 300])
    ops = ["T reset %s %s %s" % (rx[0], rx[1], R)]
    f = Flight(rng, rng.bits(24), rx, plain=True)
    d0 = R - 6 - rng.below(20)                                   # km inside the limit
    dirn = rng.below(4)
    klat = 111.19; klon = 111.19 * math.cos(math.radians(rx[0]))
    dl, dn = [(1, 0), (-1, 0), (0, 1), (0, -1)][dirn]
    f.lat = Fr(rx[0]) + Fr(int(dl * d0 / klat * 100000), 100000); f.lon = Fr(rx[1]) + Fr(int(dn * d0 / klon * 100000), 100000)
    step = (Fr(int(dl * 4.0 / klat * 100000), 100000), Fr(int(dn * 4.0 / klon * 100000), 100000))
    odd = rng.below(2)
    for k in range(14):
        ops.append(hexop("T act", f.position(rng, odd=odd))); odd ^= 1
        f.lat += step[0]; f.lon += step[1]
    ops.append("T dump")
    return ops

def moving_receiver_history(rng):
    """the receiver moves between calls (radar takes its position from gpsd) while an aircraft keeps sending: the very same report again, the
    other format from the same place, or a report from a few hundred metres on. After every accepted report the distance must be the one from
    the receiver of that call."""
    rx = rng.choice([(39.0, -77.0), (52.3, 4.8), (-33.9, 151.2), (64.1, -21.9)])
    ops = ["T reset %s %s %s" % (rx[0], rx[1], rng.choice([500, 800]))]
    f = Flight(rng, rng.bits(24), rx, plain=True)
    f.lat = Fr(rx[0]) + Fr(rng.below(600) - 300, 1000); f.lon = Fr(rx[1]) + Fr(rng.below(600) - 300, 1000)
    last = {0: f.position(rng, odd=0), 1: f.position(rng, odd=1)}
    ops += [hexop("T act", last[0]), hexop("T act", last[1])]
    for k in range(10):
        ops.append("T rx %.4f %.4f" % (rx[0] + (rng.below(3000) - 1500) / 1000.0, rx[1] + (rng.below(3000) - 1500) / 1000.0))
        r = rng.below(4)
        if r < 2: ops.append(hexop("T act", last[rng.below(2)]))                 # the same squitter again
        else:
            if r == 3: f.step(rng)
            odd = rng.below(2); last[odd] = f.position(rng, odd=odd); ops.append(hexop("T act", last[odd]))
    ops.append("T dump")
    return ops

def wrap_history(rng):
    """places where a plain difference of coordinates is not a distance: a flight across the 180-degree meridian (eastbound or westbound, at
    several latitudes), and hops over a polar cap (same latitude, longitude 180 degrees apart: 89 km at 89.6 degrees). Every step is within the
    jump limit and in range, so every pair must be published"""
    ops = []
    if rng.chance(2, 3):
        lat0 = rng.choice([0.5, 35.0, -40.0, 64.0, -17.3]); sgn = rng.choice([-1, 1])
        rx = (lat0, 179.9 * sgn)
        ops.append("T reset %s %s 500" % rx)
        f = Flight(rng, rng.bits(24), rx, plain=True)
        f.lat = Fr(lat0) + Fr(1, 10); f.lon = Fr(1799, 10) * sgn if sgn > 0 else Fr(-1799, 10)
        odd = rng.below(2)
        for k in range(24):
            ops.append(hexop("T act", f.position(rng, odd=odd))); odd ^= 1
            f.lon = ((f.lon + Fr(15, 1000) * sgn + 180) % 360) - 180               # towards and across the meridian
    else:
        s = rng.choice([-1, 1]); rx = (89.5 * s, rng.choice([0.0, 10.0, -100.0]))
        ops.append("T reset %s %s 500" % rx)
        f = Flight(rng, rng.bits(24), rx, plain=True)
        f.lat = Fr(896, 10) * s; lon0 = Fr(rng.below(360) - 180)
        for hop in (0, 180, 1, 181):
            f.lon = ((lon0 + hop + 180) % 360) - 180
            o = rng.below(2)
            ops.append(hexop("T act", f.position(rng, odd=o))); ops.append(hexop("T act", f.position(rng, odd=1 - o)))
    ops.append("T dump")
    return ops

def history(rng, n_ops, n_planes=4, with_time=True, rx=None, rng_range=None, addrs=None, dfs=None):
    rx = rx or rng.choice([(39.0, -77.0), (52.3, 4.8), (-33.9, 151.2), (69.7, 19.0), (0.5, 179.5), (64.1, -21.9)])
    rng_range = rng_range or rng.choice([500, 500, 300, 150, 1000, 800, 1500])
    ops = ["T reset %s %s %s" % (rx[0], rx[1], rng_range)]
    # addresses: mostly random; sometimes neighbouring ones; sometimes boundary values (zero, leading zeros, all ones)
    special = [0x000000, 0x000001, 0x00000A, 0x0ABCDE, 0xFFFFFF, 0x100000, 0x00FF00, 0x000100]
    flights = [Flight(rng, rng.choice(special) if rng.chance(1, 8) else (rng.bits(24) if not rng.chance(1, 6) else (0xABC000 + i)), rx, df=18 if rng.chance(1, 5) else 17) for i in range(n_planes)]
    if addrs:
        for f, a in zip(flights, addrs): f.icao = a
    if dfs:
        for f, d in zip(flights, dfs): f.df = d
    seen = set()
    for f in flights:
        while f.icao in seen: f.icao = rng.bits(24)
        seen.add(f.icao)
    names = ["KLM1023", "N3550U", "BAW 12", "", "A1", "DLH4AB  "]
    for k in range(n_ops):
        f = rng.choice(flights)
        r = rng.below(100)
        if r < 50:
            f.step(rng); ops.append(hexop("T act", f.position(rng)))
        elif r < 55:
            f.step(rng, big=True); ops.append(hexop("T act", f.position(rng)))          # a jump / out of range
        elif r < 59:
            ops.append(hexop("T act", f.position(rng, garbage=True)))
        elif r < 62:
            ops.append(hexop("T act", f.position(rng, odd=f.odd)))                       # same parity again / repeat
        elif r < 72:
            ops.append(hexop("T act", f.frame(me_ident(1 + rng.below(4), rng.below(8), rng.choice(names)))))
        elif r < 82:
            # velocity: mostly a fresh random report; one time in three the aircraft's previous components again with another vertical rate
            # (same heading and speed, different rate: every attribute of the latest report must win, not only the ones that changed)
            last = getattr(f, "last_vel", None)
            if last and rng.chance(1, 3): v = last[:5] + (rng.below(2), rng.choice([1, 2, 33, 200, 511]))
            else: v = (rng.choice([1, 1, 2, 3, 0]), rng.below(2), rng.choice([0, 1, 2, 100, 600, 1023]), rng.below(2), rng.choice([0, 1, 50, 400, 1023]), rng.below(2), rng.choice([0, 1, 2, 33, 511]))
            f.last_vel = v
            ops.append(hexop("T act", f.frame(me_velocity(*v))))
        elif r < 87:
            tc = rng.choice([0, 5, 23, 24, 28, 29, 30, 31])
            b = rand_frame(rng, f.df, tc=tc); put(b, 8, 24, f.icao)
            ops.append(hexop("T act", b))
        elif r < 92:
            ops.append(hexop("T act", other_format(rng, f.icao)))
        elif with_time:
            T = rng.choice([0, 1, 2, 120, 120, 1 << 62, (1 << 63) - 1, 1 << 63, (1 << 64) - 1])
            if T > 1000:
                # "never expire": nothing may be removed, however old
                ops.append("T age %d" % rng.choice([0, 500, 130000])); ops.append("T prune %d" % T); continue
            kind = rng.below(4)
            if kind == 0: ops.append("T age %d" % rng.choice([10, 500, 950, 1050, 1950, 2050, 119900, 120100]))
            elif kind == 1: ops.append("T age %d" % max(0, T * 1000 - 60)); ops.append("T prune %d" % T)
            elif kind == 2:
                ops.append("T age %d" % (T * 1000 + 60))
                r2 = rng.below(4)
                if r2 < 2:
                    # heard again after the ageing, but not through a position report: the record survives with an old position fix
                    g = rng.choice(flights)
                    ops.append(hexop("T act", g.frame(me_ident(1 + rng.below(4), rng.below(8), rng.choice(names)))))
                elif r2 == 2:
                    # only a frame of another format (all-call reply, surveillance reply ...) arrives from the aircraft after the ageing:
                    # that is not "heard" in the sense of the tracker, the record must expire
                    g = rng.choice(flights)
                    ops.append(hexop("T act", other_format(rng, g.icao)))
                ops.append("T prune %d" % T)
            else: ops.append("T prune %d" % T)
        else:
            f.step(rng); ops.append(hexop("T act", f.position(rng)))
    ops.append("T dump")
    return ops
