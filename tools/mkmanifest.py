#!/usr/bin/env python3
"""Writes /verif/MANIFEST.json from the property registry (tools/props.py) and tools/manifest_notes.json."""
import json, os, sys
sys.path.insert(0, os.path.dirname(os.path.abspath(__file__)))
import props
VERIF = os.path.dirname(os.path.dirname(os.path.abspath(__file__)))
allp = [json.loads(l) for l in open(os.path.join(VERIF, "properties.jsonl"))]
notes = json.load(open(os.path.join(VERIF, "tools", "manifest_notes.json")))
hooks = notes.get("hook_commits", [])
checks = []
na = []
for p in allp:
    pid = p["id"]
    if pid in props.ALL:
        P = props.ALL[pid]
        n = notes["checks"].get(pid, {})
        checks.append({
            "property_id": pid,
            "quick_cmd": "./verif check %s --tier quick" % pid,
            "thorough_cmd": "./verif check %s --tier thorough" % pid,
            "evidence_file": "/verif/evidence/%s.json" % pid,
            "replay_cmd_template": "./verif replay {path}",
            "engine": "lean4-model+correspondence",
            "level_claimed": {"category": n.get("category", "proof"), "text": n.get("text", P.claim), "design_ref": "DESIGN.md section " + P.design_ref},
            "level_note": n.get("note", "Lean 4.33 kernel; axioms propext/Classical.choice/Quot.sound only (audited per run); hand-written model of deku 0.18.1 and the decoder tied by differential correspondence; Spec transcribed from Annex 10 / DO-260B"),
            "technique": n.get("technique", P.technique),
        })
    else:
        na.append({"property_id": pid, "reason": notes["not_applicable"].get(pid, "check not built yet (construction in progress, see DESIGN.md section 10)")})
m = {"version": 1, "setup_cmd": "./verif setup",
     "hooks": {"guard": "rsadsb_adsb_deku_verif", "enable": "RUSTFLAGS='--cfg rsadsb_adsb_deku_verif' (set by ./verif when it builds /verif/harness against /repo)",
               "baseline_off_cmd": "cd /repo && cargo test --workspace --no-fail-fast --offline", "source_commits": hooks, "add_only": True},
     "engines": [{"name": "lean4-model+correspondence", "path": "/verif/lean, /verif/harness, /verif/tools", "serves_properties": [c["property_id"] for c in checks],
                  "kind_free_text": "Lean 4 theorems over an executable model; translator regenerates tables; Rust harness vs Lean driver line protocol"}],
     "checks": checks, "notes": notes.get("notes", ""), "not_applicable": na}
json.dump(m, open(os.path.join(VERIF, "MANIFEST.json"), "w"), indent=1)
print("checks:", [c["property_id"] for c in checks], "not_applicable:", [x["property_id"] for x in na])
