"""Per-property definitions: theorem module, tie dependencies, generators, projections, spec oracles."""
import re
from gens import *
import pyspec
from vlib import Rng, crc_of, with_parity, parity, run_ops

def tok(line, key):
    m = re.search(r"(?:^|[ {\[])%s=([^ }\]]+)" % re.escape(key), line)
    return m.group(1) if m else None

def head(line):
    p = line.split()
    return " ".join(p[:2]) if p and p[0] == "OK" else (p[0] if p else "")

def opbytes(op):
    return bytearray.fromhex(op.split()[1])

class Prop:
    id = ""; title = ""
    module = None            # Lean module with the property theorems
    deps = []                # tie keys (prefixes of "layout:<kind> <Name>" / "shape:<fn>") this property depends on
    level = "proof"
    design_ref = ""
    def ops(self, rng, tier): return []
    def project(self, op, line): return line
    def spec(self, op, line): return None       # message if the implementation's line violates the independent spec
    def nontrivial(self, op, line): return line.startswith("OK")
    rule = ""
    claim = ""
    note = ""
    technique = "Lean 4 theorems over a hand-written model of the decoder + differential correspondence (Rust harness vs Lean driver) + regenerated tables"
    stateful = False

DECODER_LAYOUT = ["layout:enum DF", "layout:struct ADSB", "layout:enum ME", "layout:enum Capability", "layout:struct ICAO",
                  "shape:ReaderCrc::read", "shape:ReaderCrc::seek", "shape:Frame::from_reader", "shape:Frame::read_crc",
                  "shape:Capability::read_reserved", "shape:modes_checksum"]

class C02(Prop):
    id = "C02"; module = "Adsb.Theorems.C02"; design_ref = "5/C02"
    modules = ["Adsb.Theorems.C02", "Adsb.Theorems.C03b"]
    deps = DECODER_LAYOUT + ["layout:enum OperationStatus", "layout:struct OperationStatusAirborne", "layout:struct OperationStatusSurface",
            "layout:struct CapabilityClassAirborne", "layout:struct CapabilityClassSurface", "layout:struct OperationalMode",
            "layout:enum ADSBVersion", "layout:enum BDS", "layout:struct ControlField"]
    rule = ("all 32 format codes x lengths 1..32 x {zeros, ones, random} payloads; TC31 subtype x reserved groups x version sweep; every payload selector "
            "(32 type codes x control fields, sub-types of types 19/28/29/31, BDS code classes, CA values) at the exact frame length and with 1 / 4 further bytes; "
            "valid frames with 1..18 trailing bytes (compared with the same frame without them); non-trivial = distinct canonical outputs")
    claim = "decode accepts exactly the stated set (accept_iff over all buffers), window = first L bytes, trailing bytes irrelevant"
    def ops(self, rng, tier):
        ops = grid_df_len(rng, per=4 if tier == "quick" else 12)
        # TC31: subtype x the three reserved 2-bit groups x version
        for df in (17, 18):
            for st in range(8):
                for r0 in range(4):
                    for r1 in range(4):
                        for r2 in range(4):
                            for ver in range(8):
                                if tier == "quick" and (r0, r1, r2).count(0) < 2 and rng.chance(3, 4): continue
                                b = rand_frame(rng, df, tc=31)
                                put(b, 37, 3, st); put(b, 40, 2, r0); put(b, 44, 2, r1); put(b, 56, 2, r2); put(b, 72, 3, ver)
                                ops.append(hexop("F", b))
        # every payload selector at the exact frame length and with further bytes behind the frame: all 32 type codes under DF17 and every DF18
        # control field, all sub-types of types 19 / 28 / 29 / 31, every first MB byte class under DF20 / DF21, every CA under DF11 / DF24-31
        # (each variant must consume exactly its format's bits: one bit more and the exact-length frame is rejected, one less and the tail shifts)
        sel = []
        for tc in range(32):
            for st in (range(8) if tc in (19, 28, 29, 31) else (None,)):
                for df, hd in [(17, 5)] + [(18, cf) for cf in ((0, 2, 5, 6, 7) if tier == "quick" else range(8))]:
                    b = rand_frame(rng, df, tc=tc); put(b, 5, 3, hd)
                    if st is not None: put(b, 37, 3, st)
                    if tc == 31 and st is not None and st < 2: make_opstatus_ok(rng, b, st)
                    sel.append(b)
        for df in (20, 21):
            for bds in [0x00, 0x10, 0x20, 0x30, 0x40, 0x50, 0x60, 0xff] + [rng.below(256) for _ in range(8)]:
                sel.append(rand_frame(rng, df, bds=bds))
        for df in (11, 24, 27, 31):
            for ca in range(8):
                b = rand_frame(rng, df); put(b, 5, 3, ca); sel.append(b)
        self._pairs = []
        for b in sel:
            base = len(ops); ops.append(hexop("F", b))
            for k in (1, 4):
                self._pairs.append((base, len(ops), "the bytes after the frame changed the result")); ops.append(hexop("F", b + bytearray(rng.bits(8 * k).to_bytes(k, "big"))))
        # the two formats whose structural parse ends before the frame does (DF19: one byte, DF20: eleven): the tail is pulled in afterwards
        for df in (19, 20):
            for rep in range(12):
                b = rand_frame(rng, df); base = len(ops); ops.append(hexop("F", b))
                for k in (1, 2, 3, 7, 14):
                    self._pairs.append((base, len(ops), "the bytes after the frame changed the result")); ops.append(hexop("F", b + bytearray(rng.bits(8 * k).to_bytes(k, "big"))))
        # trailing garbage
        n = 300 if tier == "quick" else 3000
        for i in range(n):
            df = rng.choice(VALID_DF)
            b = rand_frame(rng, df)
            if df in (17, 18): put(b, 32, 5, rng.below(32))
            if df in (20, 21): put(b, 32, 8, rng.choice([0, 0x10, 0x20, rng.below(256)]))
            base = len(ops); ops.append(hexop("F", b))
            k = 1 + rng.below(18)
            self._pairs.append((base, len(ops), "the bytes after the frame changed the result")); ops.append(hexop("F", b + bytearray(rng.bits(8 * k).to_bytes(k, "big"))))
        # truncated versions of valid frames: every length below L
        for i in range(40 if tier == "quick" else 400):
            df = rng.choice(VALID_DF)
            b = rand_frame(rng, df, fix_parity=True)
            for L in range(1, len(b)):
                ops.append(hexop("F", b[:L]))
        return ops
    def project(self, op, line):
        return line     # the whole result: format, every field, checksum; for rejected buffers only "rejected"
    def spec(self, op, line):
        b = opbytes(op)
        acc = pyspec.accept(b)
        if acc != line.startswith("OK"):
            return "acceptance: spec says %s, implementation says %s" % ("accept" if acc else "reject", line[:40])
        if acc:
            df = get(b, 0, 5); L = pyspec.frame_len(df)
            want = "DF%d" % df if df < 24 else "DF24+"
            if line.split()[1] != want: return "format: expected %s" % want
            if len(b) > L:
                # trailing bytes: the result must be the result of the frame alone (checked against the paired op by the runner)
                pass
        return None
    def norm(self, line):
        return line if line.startswith("OK") else "REJECT"
    def pairs(self, ops): return self._pairs

class C03(Prop):
    id = "C03"; module = "Adsb.Theorems.C03"; design_ref = "5/C03"
    modules = ["Adsb.Theorems.C03", "Adsb.Theorems.C03b"]
    deps = ["shape:modes_checksum", "shape:Frame::read_crc", "shape:ReaderCrc::read", "shape:ReaderCrc::seek"]
    rule = ("every byte value at every byte position of 3 background frames per format length; frames of every format followed by 1..18 further bytes; all single and double bit flips of valid "
            "squitters; random weight<=5 patterns and bursts<=24; address/interrogator overlays; non-trivial = distinct (frame, crc) pairs")
    claim = ("modes_checksum as translated from crc.rs on this run (loop, u32 arithmetic, index and overflow checks written out) never panics and equals the BitVec-24 model for every byte string "
             "(Theorems/C03b: src_modes_checksum, src_checksum_is_syndrome, src_checksum_refuses_short); "
             "crc = remainder mod 0x1FFF409 of the leading bits xor last 24 bits (theorem over all byte strings); table regenerated from source and proved equal to the "
             "polynomial remainders; crc = a iff last 24 bits = parity xor a (address / interrogator overlay); every burst of <= 24 bits and every pattern of 1..5 bit flips "
             "in <= 112 bits has a non-zero syndrome (burst24_detected, weight5_detected: parity of g(1)=0 for odd weights, kernel-checked distinctness of the 6329 sums of at most "
             "two residues x^k mod g for weights 2 and 4), lifted to Frame.crc (corrupted_squitter_crc_ne_zero)")
    def ops(self, rng, tier):
        ops = []
        bases = []
        for df in (17, 18, 11, 0, 4, 5, 16, 20, 21, 19, 24):
            for k in range(2):
                bases.append(rand_frame(rng, df, tc=rng.below(31) if df in (17, 18) else None, fix_parity=(df in (17, 18))))
        for b in bases:
            for pos in range(len(b)):
                for v in range(256):
                    if pos == 0 and (v >> 3) != get(b, 0, 5): continue
                    c = bytearray(b); c[pos] = v
                    if get(c, 0, 5) in (17, 18) and get(c, 32, 5) == 31: continue
                    ops.append(hexop("F", c))
        # overlays
        for i in range(200 if tier == "quick" else 2000):
            df = rng.choice((0, 4, 5, 16, 20, 21, 11, 17, 18))
            b = rand_frame(rng, df, tc=rng.below(31) if df in (17, 18) else None)
            addr = rng.bits(24) if df not in (17, 18) else 0
            if df == 11: addr = rng.bits(7)
            f = bytearray(with_parity(bytes(b[:len(b) - 3]), addr))
            ops.append(hexop("F", f))
        # error patterns on valid squitters
        valid = [rand_frame(rng, rng.choice((17, 18)), tc=rng.choice([0, 4, 11, 19, 28, 29]), fix_parity=True) for _ in range(4 if tier == "quick" else 8)]
        for b in valid:
            for i in range(112):
                c = bytearray(b); c[i // 8] ^= 0x80 >> (i % 8); ops.append(hexop("F", c))
            for i in range(112):
                for j in range(i + 1, 112):
                    if tier == "quick" and rng.chance(3, 4): continue
                    c = bytearray(b); c[i // 8] ^= 0x80 >> (i % 8); c[j // 8] ^= 0x80 >> (j % 8); ops.append(hexop("F", c))
            for k in range(3000 if tier == "quick" else 100000):
                w = 3 + rng.below(3)
                c = bytearray(b)
                for _ in range(w):
                    i = rng.below(112); c[i // 8] ^= 0x80 >> (i % 8)
                if c != b: ops.append(hexop("F", c))
            for off in range(112):
                for k in range(8 if tier == "quick" else 200):
                    ln = 2 + rng.below(23)
                    pat = rng.bits(ln) | 1 | (1 << (ln - 1))
                    if off + ln > 112: continue
                    v = int.from_bytes(b, "big") ^ (pat << (112 - off - ln))
                    ops.append(hexop("F", v.to_bytes(14, "big")))
        # the checksum window when the buffer continues after the frame (the next frames of a recording): 1..18 further bytes after every base
        # frame of every format - the structural parse of DF19 / DF20 stops before the end of the frame, the tail is pulled in afterwards
        for b in bases + valid:
            for extra in (1, 2, 3, 4, 7, 14, 18):
                for rep in range(2):
                    ops.append(hexop("F", bytes(b) + rng.bits(8 * extra).to_bytes(extra, "big")))
        # the checksum window when the frame is read from a reader (fragmented, interrupted) that does not start at offset 0:
        # the second and later frames of a recording held in one reader
        for b in bases + valid:
            for off in (1, 7, 14, 28, 3 + rng.below(40)):
                for sc in ("-", ",".join(["1"] * 40), ",".join(rng.choice(["I", "1", "2", "3", "20"]) for _ in range(30))):
                    ops.append("R %s %s %d" % (bytes(b).hex(), sc, off))
        return ops
    def project(self, op, line):
        return (head(line), tok(line, "crc"))
    def spec(self, op, line):
        b = opbytes(op)
        if not line.startswith("OK"): return None
        want = "%06x" % pyspec.syndrome(b)
        if tok(line, "crc") != want: return "crc=%s, Mode S syndrome of the frame is %s" % (tok(line, "crc"), want)
        return None

class C04(Prop):
    id = "C04"; module = "Adsb.Theorems.C04"; design_ref = "5/C04"
    modules = ["Adsb.Theorems.C04", "Adsb.Theorems.C10b"]
    deps = DECODER_LAYOUT + ["layout:enum DownlinkRequest", "layout:struct UtilityMessage", "layout:enum UtilityMessageType", "layout:enum FlightStatus",
            "layout:struct ControlField", "layout:enum ControlFieldType", "shape:ICAO::from_str", "shape:ICAO::fmt"]
    rule = ("every value of every header field (CA, CF, FS, DR, UM, VS, CC, SL, RI, AA: stratified 24-bit) x every payload type, other bits random; "
            "ICAO text round trip on 2^16 stratified (quick) / all 2^24 (thorough) addresses")
    claim = "announced address = bits 9-32, trailer = last 24 bits, header fields at their Annex 10 positions, for all accepted frames"
    def ops(self, rng, tier):
        ops = []
        reps = 2 if tier == "quick" else 8
        for df in VALID_DF:
            hdr = pyspec.HEADER[df]
            for name, (first, w) in hdr.items():
                if name in ("AC", "ID", "mv"): continue
                tcs = list(range(32)) if df in (17, 18) else [None]
                for tc in tcs:
                    def fix(rng, b, tc=tc, df=df):
                        if tc == 31 and rng.chance(7, 8): make_opstatus_ok(rng, b, rng.below(2))
                    ops += field_sweep(rng, df, first - 1, w, reps if w <= 5 else 1, tc=tc, fixups=fix, limit=64 if tier == "quick" else 1024)
        # the same frames through `Frame::from_reader` over a reader that does not start at the frame (a Beast header, the previous frame of a
        # capture in front of it): the fields are those of the frame's own bits wherever the frame stands (seed C04_f: the id re-read seeked to
        # an absolute offset, so header fields came from the bytes in front)
        fops = [o for o in ops if o.startswith("F ")]
        for k, o in enumerate(fops[::5 if tier == "quick" else 2][:1500 if tier == "quick" else 20000]):
            ops.append("R %s %s %d" % (o.split()[1], rng.choice(["-", "-", "1", "3"]), (3, 9, 14, 1, 27)[k % 5]))
        n = (1 << 16) if tier == "quick" else (1 << 24)
        if tier == "quick":
            for i in range(n):
                a = (i * 257 + (i >> 8)) & 0xFFFFFF if i % 3 else rng.bits(24)
                ops.append("I %06x" % a)
            # boundary addresses: zero, leading zeros, single digits in every position, all ones
            for a in [0, 0xFFFFFF, 0xABCDEF, 0xFEDCBA] + [d << (4 * k) for d in range(1, 16) for k in range(6)] + list(range(1, 300)):
                ops.append("I %06x" % a)
        else:
            for a in range(n): ops.append("I %06x" % a)
        return ops
    def project(self, op, line):
        if op.startswith("I "): return line
        keys = ["ca", "aa", "pi", "ap", "cf", "fs", "dr", "um", "vs", "cc", "sl", "ri", "mv", "af", "df", "tc"]
        return (head(line),) + tuple(tok(line.split(" me=")[0] + " " + line.rsplit("}", 1)[-1], k) for k in keys)
    def spec(self, op, line):
        if op.startswith("I "):
            h = op.split()[1]
            return None if line == "ICAO %s same" % h else "ICAO text: " + line
        if not line.startswith("OK"): return None
        b = opbytes(op); df = get(b, 0, 5)
        outer = line.split(" me=")[0] + " " + line.rsplit("}", 1)[-1] if " me=" in line else line.split(" bds=")[0] + " " + line.rsplit("}", 1)[-1]
        for name, (first, w) in pyspec.HEADER[df].items():
            v = pyspec.field(b, first, w)
            if name in ("aa", "pi", "ap"):
                if tok(outer, name) != "%06x" % v: return "%s=%s but frame bits %d-%d are %06x" % (name, tok(outer, name), first, first + w - 1, v)
            elif name == "ca":
                if tok(outer, "ca").split(":")[0] != str(v): return "ca=%s, frame bits 6-8 are %d" % (tok(outer, "ca"), v)
            elif name == "DR":
                t = tok(outer, "dr")
                if t.lstrip("U") != str(v): return "dr=%s, frame bits 9-13 are %d" % (t, v)
            elif name in ("iis", "ids"):
                um = tok(outer, "um").split(":")
                if um[0 if name == "iis" else 1] != str(v): return "um=%s, %s bits are %d" % (tok(outer, "um"), name, v)
            elif name == "mv":
                if tok(outer, "mv") != "%014x" % v: return "mv mismatch"
            elif name in ("AC", "ID"): pass
            else:
                if tok(outer, name) != str(v): return "%s=%s, frame bits %d-%d are %d" % (name, tok(outer, name), first, first + w - 1, v)
        return None
    def nontrivial(self, op, line): return line.startswith("OK") or line.endswith("same")

def _sweep_ac13(rng, reps):
    ops = []
    for df in (0, 4, 16, 20):
        for c in range(8192):
            for r in range(reps):
                b = rand_frame(rng, df, bds=rng.choice([0, 0x10, 0x20, 0x33]) if df == 20 else None)
                put(b, 19, 13, c); ops.append(hexop("F", b))
    return ops

class C06(Prop):
    id = "C06"; module = "Adsb.Theorems.C06"; design_ref = "5/C06"
    modules = ["Adsb.Theorems.C06", "Adsb.Theorems.C06b"]
    deps = ["layout:struct Altitude", "layout:struct AC13Field", "shape:Altitude::read", "shape:AC13Field::read", "shape:decode_id13_field", "shape:mode_a_to_mode_c"]
    rule = ("exhaustive: all 8192 13-bit codes x {DF0,4,16,20} and all 4096 12-bit codes x 13 type codes x {DF17,DF18}, surrounding bits random "
            "(reps per code); non-trivial = codes with an altitude")
    claim = "ac13/ac12 equal the Annex 10 specification on every code (kernel-checked), and the code is taken from the specified bits of every carrier"
    def ops(self, rng, tier):
        reps = 1 if tier == "quick" else 4
        ops = _sweep_ac13(rng, reps)
        for df in (17, 18):
            for tc in list(range(9, 19)) + [20, 21, 22]:
                for c in range(4096):
                    for r in range(reps):
                        b = rand_frame(rng, df, tc=tc); put(b, 40, 12, c); ops.append(hexop("F", b))
        return ops
    def project(self, op, line): return (head(line), tok(line, "alt"))
    def spec(self, op, line):
        if not line.startswith("OK"): return "altitude carrier rejected: " + line
        b = opbytes(op); df = get(b, 0, 5)
        if df in (17, 18):
            want = pyspec.ac12(get(b, 40, 12)); got = tok(line, "alt")
            w = "-" if want is None else str(want)
            if got != w: return "12-bit code %03x: alt=%s, Annex 10 altitude is %s" % (get(b, 40, 12), got, w)
        else:
            want = pyspec.ac13(get(b, 19, 13)); got = tok(line, "alt")
            w = "0" if want is None else str(want)
            if got != w: return "13-bit code %04x: alt=%s, Annex 10 altitude is %s" % (get(b, 19, 13), got, w)
        return None
    def nontrivial(self, op, line): return tok(line, "alt") not in (None, "0", "-")

class C08(Prop):
    id = "C08"; module = "Adsb.Theorems.C08"; design_ref = "5/C08"
    modules = ["Adsb.Theorems.C08", "Adsb.Theorems.C10b"]
    deps = ["layout:struct Identification", "layout:enum TypeCoding", "shape:aircraft_identification_read", "layout:enum BDS"]
    rule = ("all 64 codes x 8 positions x {DF17,DF18,DF20,DF21} with random other characters; all pairs of positions x sampled code pairs; "
            "random strings; all type codes 1-4 x category 0-7")
    claim = "callsign = the 8 six-bit characters in order through the Annex 10 table (generated table = spec, all 64), code 32 removed"
    def ops(self, rng, tier):
        ops = []
        carriers = [(17, None), (18, None), (20, 0x20), (21, 0x20)]
        reps = 2 if tier == "quick" else 8
        for df, bds in carriers:
            for pos in range(8):
                for code in range(64):
                    for r in range(reps):
                        b = rand_frame(rng, df, tc=1 + rng.below(4) if bds is None else None, bds=bds)
                        if r == 0:
                            for p in range(8): put(b, 40 + 6 * p, 6, 32)
                        put(b, 40 + 6 * pos, 6, code); ops.append(hexop("F", b))
            for p1 in range(8):
                for p2 in range(p1 + 1, 8):
                    for k in range(20 if tier == "quick" else 400):
                        b = rand_frame(rng, df, tc=1 + rng.below(4) if bds is None else None, bds=bds)
                        put(b, 40 + 6 * p1, 6, rng.below(64)); put(b, 40 + 6 * p2, 6, rng.below(64)); ops.append(hexop("F", b))
            for k in range(500 if tier == "quick" else 20000):
                b = rand_frame(rng, df, tc=1 + rng.below(4) if bds is None else None, bds=bds)
                for p in range(8):
                    put(b, 40 + 6 * p, 6, rng.choice([32, 1 + rng.below(26), 48 + rng.below(10), rng.below(64)]))
                ops.append(hexop("F", b))
        for df in (17, 18):
            for tc in range(1, 5):
                for ca in range(8):
                    b = rand_frame(rng, df, tc=tc); put(b, 37, 3, ca); ops.append(hexop("F", b))
        return ops
    def project(self, op, line):
        m = re.search(r'cn="([^"]*)"', line)
        return (head(line), m.group(1) if m else None, tok(line, "tc") if "Ident tc" in line else None, tok(line, "ca") if "Ident tc" in line else None)
    def spec(self, op, line):
        if not line.startswith("OK"): return "identification carrier rejected: " + line
        b = opbytes(op); df = get(b, 0, 5)
        m = re.search(r'cn="([^"]*)"', line)
        if not m: return "no callsign in " + line[:60]
        want = pyspec.ident(b, 40)
        if m.group(1) != want: return 'cn="%s", the eight characters are "%s"' % (m.group(1), want)
        if df in (17, 18):
            seg = line[line.index("Ident tc"):]
            if tok(seg, "tc") != str(get(b, 32, 5)) or tok(seg, "ca") != str(get(b, 37, 3)): return "category fields: " + seg[:30]
        return None
    def nontrivial(self, op, line): return 'cn="' in line and 'cn=""' not in line

class C09(Prop):
    id = "C09"; module = "Adsb.Theorems.C09"; design_ref = "5/C09"
    modules = ["Adsb.Theorems.C09", "Adsb.Theorems.C06b", "Adsb.Theorems.C10b"]
    deps = ["layout:struct IdentityCode", "shape:IdentityCode::read", "shape:decode_id13_field", "layout:struct AircraftStatus",
            "layout:enum AircraftStatusType", "layout:enum EmergencyState"]
    rule = "exhaustive: all 8192 identity codes x {DF5, DF21, DF17/18 type 28}; all 64 subtype/emergency combinations; surrounding bits random"
    claim = "the three carriers decode every 13-bit code to the same four octal digits A B C D of the interleaved bit order (kernel-checked for all 8192)"
    def ops(self, rng, tier):
        ops = []
        reps = 1 if tier == "quick" else 4
        for c in range(8192):
            for r in range(reps):
                b = rand_frame(rng, 5); put(b, 19, 13, c); ops.append(hexop("F", b))
                b = rand_frame(rng, 21, bds=rng.choice([0, 0x10, 0x20, 0x44])); put(b, 19, 13, c); ops.append(hexop("F", b))
                b = rand_frame(rng, rng.choice((17, 18)), tc=28); put(b, 43, 13, c); ops.append(hexop("F", b))
        for st in range(8):
            for em in range(8):
                for df in (17, 18):
                    b = rand_frame(rng, df, tc=28); put(b, 37, 3, st); put(b, 40, 3, em); ops.append(hexop("F", b))
        return ops
    def project(self, op, line):
        return (head(line), tok(line, "id"), tok(line, "sq"), tok(line, "st") if "Status st" in line else None, tok(line, "em"))
    def spec(self, op, line):
        if not line.startswith("OK"): return "identity carrier rejected: " + line
        b = opbytes(op); df = get(b, 0, 5)
        if df in (5, 21):
            want = "%04x" % pyspec.squawk(get(b, 19, 13))
            if tok(line, "id") != want: return "id=%s, identity code %04x is squawk %s" % (tok(line, "id"), get(b, 19, 13), want)
        else:
            want = "%04x" % pyspec.squawk(get(b, 43, 13))
            if tok(line, "sq") != want: return "sq=%s, identity code %04x is squawk %s" % (tok(line, "sq"), get(b, 43, 13), want)
            st = get(b, 37, 3)
            if tok(line, "st") != str(st if st <= 2 else 3): return "subtype"
            if tok(line, "em") != str(get(b, 40, 3)): return "emergency state"
        return None

ME_FIELDS = {   # kind -> list of (ME first bit, width)
    "air": [(1, 5), (6, 2), (8, 1), (9, 12), (21, 1), (22, 1), (23, 17), (40, 17)],
    "surface": [(1, 5), (6, 7), (13, 1), (14, 7), (21, 1), (22, 1), (23, 17), (40, 17)],
    "tss": [(6, 2), (8, 1), (9, 1), (10, 11), (21, 9), (30, 1), (31, 9), (40, 4), (44, 1), (45, 2), (47, 1), (48, 1), (49, 1), (50, 1), (51, 1), (52, 1), (53, 1), (54, 1), (55, 2)],
    "opair": [(9, 2), (11, 1), (12, 1), (13, 2), (15, 1), (16, 1), (17, 2), (19, 6), (25, 2), (27, 1), (28, 1), (29, 1), (30, 1), (31, 2), (33, 8), (41, 3), (44, 1), (45, 4), (49, 2), (51, 2), (53, 1), (54, 1), (55, 1), (56, 1)],
    "opsurf": [(9, 2), (11, 1), (12, 1), (13, 2), (15, 1), (16, 1), (17, 3), (20, 1), (21, 4), (25, 2), (27, 1), (28, 1), (29, 1), (30, 1), (31, 2), (33, 8), (41, 3), (44, 1), (45, 4), (49, 2), (51, 2), (53, 1), (54, 1), (55, 1), (56, 1)],
    "dlc": [(9, 1), (10, 5), (15, 1), (16, 1), (17, 7), (24, 1), (25, 1), (26, 3), (29, 4), (33, 1), (34, 1), (35, 1), (36, 1), (37, 4), (41, 16)],
}

class C10(Prop):
    id = "C10"; module = "Adsb.Theorems.C10"; design_ref = "5/C10"
    modules = ["Adsb.Theorems.C10", "Adsb.Theorems.C06b", "Adsb.Theorems.C10b"]
    deps = ["layout:struct Altitude", "layout:struct SurfacePosition", "layout:struct TargetStateAndStatusInformation", "layout:enum OperationStatus",
            "layout:struct OperationStatusAirborne", "layout:struct OperationStatusSurface", "layout:struct CapabilityClassAirborne",
            "layout:struct CapabilityClassSurface", "layout:struct OperationalMode", "layout:enum ADSBVersion", "layout:struct DataLinkCapability",
            "layout:enum BDS", "layout:enum ME", "layout:enum StatusForGroundTrack", "layout:enum CPRFormat", "layout:enum SurveillanceStatus"]
    rule = ("field-wise: every value of every field (<= 2^12 values; 17-bit CPR: stratified + all single-bit values) of airborne/surface position, "
            "target state, operational status airborne/surface and BDS 1,0, other bits random, under DF17, DF18 (all 8 CF) and DF20/21; "
            "all 32 type codes x 8 subtypes for the dispatch table")
    claim = "each interpreted field equals the standard's bit field (MSB first) under the standard's scaling; type code and subtype alone select the variant"
    def ops(self, rng, tier):
        ops = []
        reps = 1 if tier == "quick" else 4
        lim = 512 if tier == "quick" else 4096
        def sweep(df, tcs, fields, fix=None):
            for (first, w) in fields:
                tc = tcs[rng.below(len(tcs))] if tcs else None
                for r in range(reps):
                    def fx(rng, b, tc=tc):
                        if df == 18: put(b, 5, 3, rng.below(8))
                        if tcs: put(b, 32, 5, tcs[rng.below(len(tcs))])
                        if fix: fix(rng, b)
                    ops.extend(field_sweep(rng, df, 32 + first - 1, w, 1, fixups=fx, limit=lim))
        for df in (17, 18):
            sweep(df, list(range(9, 19)) + [20, 21, 22], ME_FIELDS["air"][1:])
            sweep(df, [5, 6, 7, 8], ME_FIELDS["surface"][1:])
            sweep(df, [29], ME_FIELDS["tss"])
            sweep(df, [31], ME_FIELDS["opair"], fix=lambda rng, b: put(b, 37, 3, 0))
            sweep(df, [31], ME_FIELDS["opsurf"], fix=lambda rng, b: put(b, 37, 3, 1))
            for tc in range(32):
                for st in range(8):
                    for r in range(2 * reps):
                        b = rand_frame(rng, df, tc=tc); put(b, 37, 3, st)
                        if tc == 31 and st < 2 and r % 2 == 0: make_opstatus_ok(rng, b, st)
                        ops.append(hexop("F", b))
        for df in (20, 21):
            for (first, w) in ME_FIELDS["dlc"]:
                ops.extend(field_sweep(rng, df, 32 + first - 1, w, reps, bds=0x10, limit=lim))
        return ops
    def project(self, op, line):
        m = re.search(r"me=\{([^}]*)\}", line) or re.search(r"bds=\{([^}]*)\}", line)
        return (head(line), m.group(1) if m else None)
    def spec(self, op, line):
        b = opbytes(op); df = get(b, 0, 5)
        if df in (17, 18):
            tc = get(b, 32, 5); st = get(b, 37, 3)
            if tc == 31 and not pyspec.op_ok(b):
                return None if line.startswith("ERR") else "operational status outside the version 0-2 layout accepted"
            if not line.startswith("OK"): return "payload rejected: " + line
            m = re.search(r"me=\{([^}]*)\}", line)
            kind, want = pyspec.spec_me(b)
            if not m or m.group(1).split()[0] != kind: return "type code %d subtype %d selects %s, decoded %s" % (tc, st, kind, m.group(1).split()[0] if m else "?")
            if want is not None and m.group(1) != want: return "fields: decoded {%s}, standard {%s}" % (m.group(1), want)
        elif df in (20, 21) and get(b, 32, 8) == 0x10:
            if not line.startswith("OK"): return "payload rejected: " + line
            m = re.search(r"bds=\{([^}]*)\}", line)
            want = pyspec.spec_dlc(b)
            if not m or m.group(1) != want: return "BDS 1,0: decoded {%s}, standard {%s}" % (m.group(1) if m else "?", want)
        return None

class C07(Prop):
    id = "C07"; module = "Adsb.Theorems.C07"; design_ref = "5/C07"
    modules = ["Adsb.Theorems.C07", "Adsb.Theorems.C07b", "Adsb.Theorems.C07c", "Adsb.Theorems.C06b", "Adsb.Theorems.C10b"]
    deps = ["layout:struct AirborneVelocity", "layout:enum AirborneVelocitySubType", "layout:struct GroundSpeedDecoding", "layout:struct AirspeedDecoding",
            "layout:enum Sign", "layout:enum VerticalRateSource"]     # calculate() itself is translated (Gen/VelFn.lean) and re-proved (Theorems/C07c), not tied as text
    tol = 2e-6
    rule = ("direction bits x boundary-biased 10-bit components (0,1,2,3,511,512,1022,1023 + stratified; thorough: all 2^22), all 2^11 vertical-rate codes, "
            "all 8 subtypes, all airspeed/heading/NACv/difference codes; field sweeps of every type-19 field; heading/speed compared numerically "
            "(atan2/hypot in double precision, 2e-6 relative), vertical rate and none/some exactly")
    claim = "components (raw-1)*k signed, vertical rate (raw-1)*64 signed, none iff not ground-speed subtype or a zero field (theorems); track/speed (model generic in the number type) over the reals (Theorems/C07b): speed is the Euclidean norm, track in [0,360), east = speed*sin(track), north = speed*cos(track), and the track is the only such angle"
    note = "the f64/f32 evaluation of atan2 and hypot is outside the kernel: the driver evaluates the same generic definition over Float with libc atan2/sqrt; agreement with the Rust libm port is checked numerically"
    def ops(self, rng, tier):
        ops = []
        edge = [0, 1, 2, 3, 4, 100, 511, 512, 1000, 1021, 1022, 1023]
        vals = edge + ([rng.below(1024) for _ in range(20)] if tier == "quick" else list(range(1024)))
        vals = sorted(set(vals))
        sub = vals if tier == "quick" else vals
        for df in (17, 18):
            for st in range(8):
                for dew in (0, 1):
                    for dns in (0, 1):
                        for vew in (vals if df == 17 else edge):
                            for vns in (sub if (tier == "quick" or st in (1, 2)) else edge):
                                if tier != "quick" and df == 18: continue
                                b = rand_frame(rng, df, tc=19)
                                put(b, 37, 3, st); put(b, 45, 1, dew); put(b, 46, 10, vew); put(b, 56, 1, dns); put(b, 57, 10, vns)
                                if rng.chance(9, 10): put(b, 69, 9, 1 + rng.below(511))
                                ops.append(hexop("V", b))
            for code in range(2048):     # source bit, sign bit, 9-bit rate
                b = rand_frame(rng, df, tc=19); put(b, 37, 3, 1 + rng.below(2)); put(b, 46, 10, 1 + rng.below(1023)); put(b, 57, 10, 1 + rng.below(1023))
                put(b, 67, 2, code >> 9); put(b, 69, 9, code & 511)
                ops.append(hexop("V", b)); ops.append(hexop("F", b))
            for (first, w) in [(6, 3), (9, 5), (14, 1), (15, 10), (25, 1), (26, 10), (36, 1), (37, 1), (38, 9), (47, 2), (49, 1), (50, 7)]:
                ops.extend(field_sweep(rng, df, 32 + first - 1, w, 2, tc=19, limit=1024))
        return ops
    def project(self, op, line):
        if op.startswith("V "): return line
        m = re.search(r"me=\{([^}]*)\}", line)
        return (head(line), m.group(1) if m else None)
    def spec(self, op, line):
        import math
        b = opbytes(op)
        st = get(b, 37, 3); dew = get(b, 45, 1); vew = get(b, 46, 10); dns = get(b, 56, 1); vns = get(b, 57, 10)
        src = get(b, 67, 1); sgn = get(b, 68, 1); vr = get(b, 69, 9); dsg = get(b, 80, 1); dif = get(b, 81, 7)
        if op.startswith("F "):
            if not line.startswith("OK"): return "velocity report rejected: " + line
            sub = {0: "R0", 1: "GS", 2: "GS", 3: "AS", 4: "AS"}.get(st, "R1")
            if sub == "GS": want_sub = "GS %d %d %d %d" % (dew, vew, dns, vns)
            elif sub == "AS": want_sub = "AS %d %d %d %d" % (dew, vew, dns, vns - 1 if vns > 0 else 0)
            else: want_sub = None
            m = re.search(r"sub=\[([^\]]*)\]", line)
            if want_sub and (not m or m.group(1) != want_sub): return "sub-type fields: decoded [%s], standard [%s]" % (m.group(1) if m else "?", want_sub)
            want = "st=%d nacv=%d" % (st, get(b, 40, 5))
            if want not in line: return "subtype / NACv group"
            tail = "src=%d sgn=%d vr=%d rsv=%d gs=%d gd=%d" % (src, sgn, vr, get(b, 78, 2), dsg, (dif - 1) * 25 if dif > 1 else 0)
            if tail not in line: return "rate / difference fields: expected %s in %s" % (tail, line[60:])
            return None
        # V: derived velocity
        if st not in (1, 2) or vew == 0 or vns == 0 or vr == 0:
            return None if line == "VEL none" else "no information expected, got " + line
        k = 4 if st == 2 else 1
        e = (vew - 1) * k * (-1 if dew else 1); n = (vns - 1) * k * (-1 if dns else 1)
        rate = (vr - 1) * 64 * (-1 if sgn else 1)
        m = re.fullmatch(r"VEL some hdg=(-?[0-9.]+) gs=(-?[0-9.]+) vr=(-?\d+)", line)
        if not m: return "derived velocity expected, got " + line
        h = math.degrees(math.atan2(e, n)); h = h + 360 if h < 0 else h
        g = math.hypot(e, n)
        if int(m.group(3)) != rate: return "vertical rate %s, standard %d" % (m.group(3), rate)
        if abs(float(m.group(2)) - g) > 1e-5 * max(1, g): return "ground speed %s, norm of (%d,%d) is %.6f" % (m.group(2), e, n, g)
        hv = float(m.group(1))
        if abs(hv - h) > 2e-4 and abs(abs(hv - h) - 360) > 2e-4: return "track %s, atan2(%d,%d) is %.6f" % (m.group(1), e, n, h)
        if not (0 <= hv < 360): return "track %s outside [0, 360)" % m.group(1)
        return None
    def nontrivial(self, op, line): return line.startswith("VEL some") or line.startswith("OK")

import gentrack, trackref

def numeq(x, y, tol=1e-3):
    px = re.split(r"(-?\d+\.\d+)", x); py = re.split(r"(-?\d+\.\d+)", y)
    if len(px) != len(py): return False
    for i, (u, v) in enumerate(zip(px, py)):
        if i % 2 == 0:
            if u != v: return False
        elif abs(float(u) - float(v)) > tol: return False
    return True

def _recs(line):
    try: return trackref.parse_map(line)
    except Exception: return None

TRACKER_BASE = ["fn:rsadsb_common/lib.rs::Airplanes::action", "fn:rsadsb_common/lib.rs::Airplanes::entry_or_insert", "fn:rsadsb_common/lib.rs::Airplanes::incr_messages", "fn:rsadsb_common/lib.rs::Default for AirplaneState::default", "fn:rsadsb_common/lib.rs::From<bool> for Added::from"]
TRACKER_POS = ["fn:rsadsb_common/lib.rs::Airplanes::update_position", "fn:rsadsb_common/lib.rs::AirplaneCoor::update_position", "fn:rsadsb_common/lib.rs::AirplaneCoor::haversine_distance", "fn:rsadsb_common/lib.rs::AirplaneCoor::haversine_distance_position"]
TRACKER_ATTR = ["fn:rsadsb_common/lib.rs::Airplanes::add_identification", "fn:rsadsb_common/lib.rs::Airplanes::add_airborne_velocity", "fn:rsadsb_common/lib.rs::Airplanes::aircraft_details", "fn:rsadsb_common/lib.rs::Airplanes::all_position",
                "fn:rsadsb_common/lib.rs::AirplaneCoor::altitude", "fn:rsadsb_common/lib.rs::fmt::Display for Airplanes::fmt"]
class TrackerProp(Prop):
    stateful = True
    # the functions of the tracker crate the model was written against (text tie, besides the differential correspondence)
    deps = TRACKER_BASE
    technique = "Lean 4 theorems (induction over histories, invariants) over a model of the tracker generic in geometry and clock + differential correspondence on generated histories + reference oracle"
    histories = (60, 150)
    def ops(self, rng, tier):
        n, ln = self.histories
        if tier != "quick": n *= 8
        ops = []
        for h in range(n):
            ops += gentrack.history(rng, ln, n_planes=1 + rng.below(5), with_time=self.with_time)
        # boundary addresses by construction, through both carriers (DF17 and DF18 / TIS-B): all zero, one, all ones, a zero middle byte
        for dfs in ([18, 18, 18, 18], [17, 17, 17, 17], [18, 17, 17, 18]):
            ops += gentrack.history(rng, 60, n_planes=4, with_time=self.with_time, addrs=[0x000000, 0x000001, 0xFFFFFF, 0x00FF00], dfs=dfs)
        # a range limit that is not a finite number of km ("unlimited"): every decodable pair is in range, and everything else - distance present
        # iff position, details, the text view - holds as for any other limit (seed C14_g skipped the block that records the distance)
        for rg in ("inf", "1e308", "inf"):
            h = gentrack.history(rng, 60, n_planes=3, with_time=self.with_time)
            h[0] = " ".join(h[0].split()[:4] + [rg]); ops += h
        return ops
    with_time = True
    def equal(self, a, m): return a == m or numeq(a, m)
    def spec_seq(self, ops, lines):
        out = []
        # histories are separated by `T reset`
        start = 0
        idx = [i for i, o in enumerate(ops) if o.startswith("T reset")] + [len(ops)]
        for a, b in zip(idx, idx[1:]):
            for (i, pid, msg) in trackref.Ref().check(ops[a:b], lines[a:b]):
                if pid == self.id or (pid == "C01" and self.id == "C12"): out.append((a + i, msg))
        return out
    def nontrivial(self, op, line): return line.startswith("ADDED") or line.startswith("MAP")
    def fields(self, rec): return rec
    def project(self, op, line):
        r = _recs(line) if ("MAP " in line) else None
        if r is None: return line if line.startswith("ADDEDQ") else (line.split()[0] if line else line)
        n, allpos, recs, order = r
        return (line.split()[0], line.split()[1] if line.startswith("ADDED") else "", tuple(order), self.pick(allpos, recs, order))

class C12(TrackerProp):
    id = "C12"; module = "Adsb.Theorems.C12"; design_ref = "5/C12"
    modules = ["Adsb.Theorems.C12", "Adsb.Theorems.C12b"]
    deps = TRACKER_BASE + ["fn:rsadsb_common/lib.rs::Airplanes::prune", "fn:rsadsb_common/lib.rs::Airplanes::add_identification", "fn:rsadsb_common/lib.rs::Airplanes::add_airborne_velocity", "fn:rsadsb_common/lib.rs::Airplanes::update_position"]
    rule = ("generated histories (60 x 150 ops quick): 1-5 interleaved aircraft (DF17 and DF18, announced address != parity), identification / velocity / "
            "position (consistent flights, jumps, garbage, repeats) / other type codes / other downlink formats, waits and expiry calls; after every "
            "operation the whole map is compared; non-trivial = operations on a non-empty tracker")
    claim = ("added iff new, count +1 per tracked frame, other formats no-op, isolation over arbitrary interleavings, keys sorted/unique (theorems for every history); "
             "account_refines: for every history of frames and expiries the tracker projected to one address IS the abstract (count, lastHeard) machine; "
             "count_eq_frames / count_restarts: message count = number of DF17/18 frames of the address since it was (re)added")
    def pick(self, allpos, recs, order): return tuple((k, recs[k]["msgs"]) for k in order)
    def ops(self, rng, tier):
        ops = TrackerProp.ops(self, rng, tier)
        # a busy sky: more than a thousand aircraft tracked at once (any fixed-size shortcut in the table shows only here)
        for k in range(1 if tier == "quick" else 4): ops += gentrack.busy_sky(rng, 1100 + 50 * k)
        return ops

class C13(TrackerProp):
    id = "C13"; module = "Adsb.Theorems.C13"; design_ref = "5/C13"
    modules = ["Adsb.Theorems.C13", "Adsb.Theorems.C13b", "Adsb.Theorems.C05d"]
    deps = TrackerProp.deps + TRACKER_POS
    rule = C12.rule + "; receivers at 6 sites incl. high latitude and the antimeridian, ranges 150-1000 km"
    claim = "publish iff both reports stored, pairing in range and within the jump limit; otherwise the record is cleared; invariant: published position = pairing of stored reports, distance = receiver distance, for every reachable state; the haversine formula of the tracker (model generic in the number type) equals radius x central angle of the two unit vectors over the reals (Theorems/C13b: haversine_is_great_circle, symmetry, range [0, 6371*pi], 0 to itself, antipodes; plausible_iff_great_circle: the tracker's test passes exactly when the candidate is within the range of the receiver and within 100 km of the published position along the great circle; distance_is_from_this_call: with the receiver position changing from call to call, an accepted report leaves the distance measured from the receiver of that call, also when the report is the one already stored)"
    note = "the theorems about histories take the distance and the CPR pairing as parameters; the distance formula itself is proved over the reals (Mathlib), its f64 evaluation and the CPR pairing are tied numerically (reference great-circle distance and exact-arithmetic CPR decode in tools/cprspec.py)"
    with_time = False
    def pick(self, allpos, recs, order): return tuple((k, recs[k]["e"], recs[k]["o"], recs[k]["pos"], recs[k]["kd"]) for k in order)
    def project(self, op, line):
        r = TrackerProp.project(self, op, line)
        return r
    def equalproj(self, a, b): return numeq(str(a), str(b))

    def ops(self, rng, tier):
        ops = TrackerProp.ops(self, rng, tier)
        for k in range(40 if tier == "quick" else 400): ops += gentrack.alias_history(rng)
        for k in range(30 if tier == "quick" else 300): ops += gentrack.wrap_history(rng)
        for k in range(30 if tier == "quick" else 300): ops += gentrack.outbound_history(rng)
        for k in range(30 if tier == "quick" else 300): ops += gentrack.moving_receiver_history(rng)
        for k in range(30 if tier == "quick" else 300): ops += gentrack.lon_alias_history(rng)
        return ops

class C14(TrackerProp):
    id = "C14"; module = "Adsb.Theorems.C14"; design_ref = "5/C14"
    modules = ["Adsb.Theorems.C14", "Adsb.Theorems.C07c"]     # the derived velocity the tracker stores: calculate() as translated from the source
    deps = TrackerProp.deps + TRACKER_POS + TRACKER_ATTR
    rule = C12.rule
    claim = "callsign / velocity latest-wins, altitude of a stored report, details iff position+altitude+distance, position list = records with a position, distance iff position (invariant), track = previously published positions in order"
    with_time = False
    def pick(self, allpos, recs, order): return (tuple(allpos),) + tuple((k, recs[k]["cs"], recs[k]["vel"], recs[k]["details"], recs[k]["track"]) for k in order)
    def equalproj(self, a, b): return numeq(str(a), str(b))

class C15(TrackerProp):
    id = "C15"; module = "Adsb.Theorems.C15"; design_ref = "5/C15"
    modules = ["Adsb.Theorems.C15", "Adsb.Theorems.C12b"]
    deps = TRACKER_BASE + ["fn:rsadsb_common/lib.rs::Airplanes::prune"]
    rule = C12.rule + "; waits on both sides of each threshold T in {0,1,2,120} s by 60 ms (clock advanced through the verif_age_all hook)"
    claim = ("prune(T) keeps exactly the records heard less than T seconds ago, unchanged; a reappearing aircraft is added fresh (theorems; the wall clock is a parameter); "
             "account_refines: over whole histories of frames and expiries each address follows the abstract (count, lastHeard) machine with exactly this expiry rule")
    note = "the real clock is replaced by the cfg-guarded hook Airplanes::verif_age_all in the correspondence (equivalent to advancing the clock); real elapsed time between operations is below the 60 ms margin"
    histories = (80, 120)
    def pick(self, allpos, recs, order): return tuple(order)

class C20(Prop):
    id = "C20"; module = "Adsb.Theorems.C20"; design_ref = "5/C20"
    deps = ["cfg:items"] + TRACKER_BASE + TRACKER_POS + ["fn:rsadsb_common/lib.rs::Airplanes::add_identification", "fn:rsadsb_common/lib.rs::Airplanes::add_airborne_velocity"]
    stateful = True
    level = "proof"
    technique = ("Lean 4 theorems: nothing but the time stamps depends on the std flag (per step); configuration differential: the harness is built "
                 "against /repo in std, alloc, std+serde and alloc+serde and fed identical operations; serde_json round trips")
    rule = ("structured + malformed frames (decode, render, velocity), CPR pairings (random raw pairs and rounding ties of the zone indices) and tracker histories without clock operations through the std and the "
            "alloc-only build: outputs must be byte-identical; serde_json round trip (Debug text equal) of every decodable frame and of the tracker after "
            "every history in the std+serde and alloc+serde builds")
    claim = ("run_erase / builds_agree / records_agree: for EVERY history of frames, the std build (any clock readings) and the alloc-only build end in states equal up to the "
             "std-only time stamps, with identical Added answers, keys, published positions and details availability (induction over histories from the per-step lemmas); "
             "the decoder has no cfg-dependent semantics (regenerated cfg item list); execution of the four builds and serde_json round trips on generated frames and tracker states")
    note = "partial: serde / serde_json internals and float text round trips are exercised, not proved; the decoder's configuration independence rests on the regenerated list of cfg items plus execution of both builds"
    def ops(self, rng, tier):
        n = 3000 if tier == "quick" else 30000
        ops = structured(rng, n) + malformed(rng, n // 4)
        ops += [o.replace("F ", "D ", 1) for o in ops[:n]]
        ops += [o.replace("F ", "V ", 1) for o in ops[:n] if o[2:4] in ("8d", "8c", "8f", "90", "91", "92", "93", "94", "95", "96", "97")][:n // 2]
        for h in range(20 if tier == "quick" else 200):
            ops += gentrack.history(rng, 120, n_planes=1 + rng.below(4), with_time=False)
        # boundary addresses as map keys (the tracker is serialized with the address text as key): zero, leading zeros, all ones
        ops += gentrack.history(rng, 60, n_planes=4, with_time=False, addrs=[0x000000, 0x000001, 0x00000A, 0xFFFFFF])
        ops += gentrack.history(rng, 60, n_planes=4, with_time=False, addrs=[0x0ABCDE, 0x100000, 0x00FF00, 0x000100])
        # CPR pairing where the two builds could use different float primitives: rounding ties of the zone indices, random raw pairs
        ops += cpr_tie_ops(rng, 400 if tier == "quick" else 4000)
        for k in range(2000 if tier == "quick" else 40000):
            fe = gentrack.adsb(0x123456, gentrack.me_position(11, 0x0c5, 0, rng.bits(17), rng.bits(17)))
            fo = gentrack.adsb(0x123456, gentrack.me_position(11, 0x0c5, 1, rng.bits(17), rng.bits(17)))
            ops.append("P %s %s" % ((bytes(fe).hex(), bytes(fo).hex()) if k % 2 else (bytes(fo).hex(), bytes(fe).hex())))
        return ops
    def equal(self, a, m): return a == m or numeq(a, m) or a.startswith("TXT")    # renderings are compared by C11, here std vs alloc
    def project(self, op, line): return line if not line.startswith("TXT") else "TXT"
    def extra_checks(self, ctx, ops, impl):
        failing = []
        import vcheck
        ok, log, alloc = vcheck.build_harness("alloc")
        if not ok: ctx.broken.append("alloc-only harness does not build: " + (re.findall(r"error[^\n]*", log) or ["?"])[0]); return failing
        out = run_ops(alloc, ops)
        for i, (a, b) in enumerate(zip(impl, out)):
            if a != b: failing.append((ops[i], "std build and alloc-only build differ: %s | %s" % (a[:200], b[:200]), a, b, i))
        ctx.extra["alloc_vs_std_ops"] = len(ops)
        # the std build has a clock, the alloc-only build has none: time passing between frames (the std harness ages every timestamp through
        # the cfg-guarded hook; nothing is pruned) must not make the two trackers differ in anything but the timestamps themselves
        # (seed C20_f: a std-only "stored frame older than 10 s is dropped before pairing")
        import vlib
        trng = vlib.Rng(int(os.environ.get("VERIF_SEED", "1")) * 7919 + 20)
        tstd = []
        for h in range(12 if len(ops) < 200000 else 60):
            for o in gentrack.history(trng, 60, n_planes=1 + trng.below(3), with_time=True):
                if not o.startswith("T prune"): tstd.append(o)
        # by construction: a published aircraft, a pause of 11 s / 1 min / 1 h, then the next report of the pair
        for pause in (11000, 60000, 3600000, 9000, 10001):
            f = gentrack.Flight(trng, trng.bits(24), (39.0, -77.0), plain=True)
            tstd += ["T reset 39.0 -77.0 500", gentrack.hexop("T act", f.position(trng, odd=0)), gentrack.hexop("T act", f.position(trng, odd=1)), "T age %d" % pause]
            f.step(trng); tstd += [gentrack.hexop("T act", f.position(trng, odd=0)), "T dump"]
        talloc = [o for o in tstd if not o.startswith("T age")]
        ok2, _, stdb = vcheck.build_harness()
        so = run_ops(stdb, tstd); ao = run_ops(alloc, talloc)
        so = [l for o, l in zip(tstd, so) if not o.startswith("T age")]
        for i, (a, b) in enumerate(zip(so, ao)):
            if a != b: failing.append((talloc[i], "std build (with time passing between the frames) and alloc-only build differ: %s | %s" % (a[:200], b[:200]), a, b, i))
        ctx.extra["alloc_vs_std_ops_with_pauses"] = len(talloc)
        sops = []
        for o in ops:
            if o.startswith("F "): sops.append("S " + o[2:])
            elif o.startswith("T "):
                sops.append(o)
                if o == "T dump": sops.append("T serde")
        for feat in ("std,serde", "alloc,serde"):
            ok, log, hb = vcheck.build_harness(feat)
            if not ok: ctx.broken.append("%s harness does not build: %s" % (feat, (re.findall(r"error[^\n]*", log) or ["?"])[0])); continue
            out = run_ops(hb, sops)
            n = 0
            for i, (o, l) in enumerate(zip(sops, out)):
                if o.startswith("S ") or o == "T serde":
                    n += 1
                    if not (l == "SERDE same" or l.startswith("ERR")): failing.append((o, "serde round trip (%s build): %s" % (feat, l[:300]), l, None, i))
            ctx.extra["serde_roundtrips_" + feat.replace(",", "_")] = n
        return failing

def cpr_tie_ops(rng, n):
    """CPR pairs whose zone index computation lands exactly on a rounding tie: 59*YZ0 - 60*YZ1 (latitude index j) or (NL-1)*XZ0 - NL*XZ1
    (longitude index m) equal to an odd multiple of 2^16, of either sign, so that floor(x + 1/2) is applied to ... -1.5, -0.5, 0.5, 1.5 ...;
    the other coordinate is taken from a consistent position so that the pair passes the latitude / NL checks"""
    import gentrack, cprspec
    from fractions import Fraction as Fr
    ops = []
    def solve(a, c):
        # x0, x1 in [0, 2^17) with (a-1)*x0 - a*x1 = c   ((a-1) = -1 mod a, so x0 = -c mod a)
        if a < 2: return None
        for _ in range(20):
            x0 = (-c) % a + a * rng.below((1 << 17) // a)
            num = (a - 1) * x0 - c
            if num % a: continue
            x1 = num // a
            if 0 <= x0 < (1 << 17) and 0 <= x1 < (1 << 17): return x0, x1
        return None
    while len(ops) < n:
        k = rng.choice([-1, -1, -2, -3, 0, 1, 2, -10, 10, -29, 28, rng.below(119) - 59])
        c = (2 * k + 1) << 16
        if rng.chance(1, 2):
            r = solve(60, c)                       # latitude index on a tie; longitudes from a true position
            if not r: continue
            yz0, yz1 = r
            lo = Fr(rng.below(360000) - 180000, 1000)
            la = cprspec.decode((yz0, 0), (yz1, 0), False)
            la = la[0] if la else Fr(0)
            xz0 = cprspec.encode(la, lo, False)[1]; xz1 = cprspec.encode(la, lo, True)[1]
        else:
            la = Fr(rng.below(170000) - 85000, 1000); lo = Fr(rng.below(360000) - 180000, 1000)
            yz0 = cprspec.encode(la, lo, False)[0]; yz1 = cprspec.encode(la, lo, True)[0]
            d = cprspec.decode((yz0, 0), (yz1, 0), False)
            if not d: continue
            nl = cprspec.nl_table(float(d[0]))
            r = solve(nl, c)
            if not r: continue
            xz0, xz1 = r
        fe = gentrack.adsb(0x123456, gentrack.me_position(11, 0x0c5, 0, yz0, xz0))
        fo = gentrack.adsb(0x123456, gentrack.me_position(11, 0x0c5, 1, yz1, xz1))
        for first_even in (True, False):
            ops.append("P %s %s" % ((bytes(fe).hex(), bytes(fo).hex()) if first_even else (bytes(fo).hex(), bytes(fe).hex())))
    return ops

class C05(Prop):
    id = "C05"; module = "Adsb.Theorems.C05"; design_ref = "5/C05"
    modules = ["Adsb.Theorems.C05", "Adsb.Theorems.C05b", "Adsb.Theorems.C05c", "Adsb.Theorems.C05d"]
    # get_position / get_lat_lon / positive_mod are no longer tied as text: they are translated (Gen/CprFn.lean) and Theorems/C05d re-proves, on
    # every run, that the translated functions are the model; a rewrite that keeps the arithmetic keeps the proof
    deps = []
    abs_tol = 1e-6
    rule = ("true positions on a lattice over the sphere, at the poles, the equator, the antimeridian, on both sides of each of the 58 NL transition "
            "latitudes and of latitude-zone boundaries, encoded exactly (Fractions) for an even and an odd report displaced by 0 / up to 2.9 NM, both orders: "
            "the implementation must return the latest true position within the quantisation error, or nothing when the two latitudes fall in different "
            "NL zones; random raw quadruples and boundary values compared with an exact-arithmetic decoder (none/some, value, range); pairs whose zone index "
            "lands exactly on a rounding tie (odd multiples of 2^16, both signs, latitude and longitude index); equal parities")
    claim = ("cpr_global_decode / cpr_position_error: for ALL rational positions with |lat| <= 90, latitudes within 0.05 deg (3 NM) and longitudes within the stated fraction of a zone, "
             "an even and an odd report produced by the DO-260B encoder decode, in either order, to exactly the latest report's position rounded to its own CPR grid (within half a bin, ~2.6 m), "
             "longitude in [-180,180); different NL bands give none (zone_mismatch_none); re-encoding gives the transmitted values (reencode_lat/lon); every returned position is in range "
             "(position_range); cpr_nl tree = published NL table (cprNl_eq_table, nl_tree_is_table re-checked against the source); equal parity gives none; "
             "the longitude hypothesis follows from 'at most 3 NM east-west at the decoded latitude' for every entry of the code's own NL table (Theorems/C05c: lonClose_of_3NM, cpr_correct_within_3NM; cosine bounded below by 1-x^2/2 and y-y^3/6 with 3.1415 < pi < 3.1416); "
             "get_position / get_lat_lon / positive_mod are translated from cpr.rs on every run (Gen/CprFn.lean, generic in the number type, every u64 subtraction a check) and proved equal, in exact arithmetic "
             "with % as the truncated remainder, to the model for every pair of reports (Theorems/C05d: src_positive_mod, src_get_lat_lon, src_get_position, src_cpr_position_error); "
             "the exact Rat instance and the Float instance are one definition, tied numerically to the f64 code")
    note = "IEEE rounding of the f64 evaluation is not modelled; positions within 1e-9 deg of an NL transition / +-90 are treated as borderline in the comparison"
    def equal(self, a, m): return a == m or numeq(a, m, 1e-6)
    def _pair(self, p_even, p_odd, first_is_even):
        import gentrack, cprspec
        fe = gentrack.adsb(0xABC123, gentrack.me_position(11, gentrack.alt12_of_feet(10000), 0, *cprspec.encode(*p_even, False)))
        fo = gentrack.adsb(0xABC123, gentrack.me_position(11, gentrack.alt12_of_feet(10000), 1, *cprspec.encode(*p_odd, True)))
        return "P %s %s" % ((bytes(fe).hex(), bytes(fo).hex()) if first_is_even else (bytes(fo).hex(), bytes(fe).hex()))
    def ops(self, rng, tier):
        from fractions import Fraction as Fr
        import gentrack, cprspec
        self.truth = {}
        ops = []
        pts = []
        step = 15 if tier == "quick" else 5
        for la in range(-90, 91, step):
            for lo in range(-180, 180, 2 * step):
                pts.append((Fr(la) + Fr(rng.below(1000), 997) if abs(la) < 89 else Fr(la), Fr(lo) + Fr(rng.below(1000), 991)))
        for la in (Fr(90), Fr(-90), Fr(8999999, 100000), Fr(-8999999, 100000), Fr(1, 100000), Fr(-1, 100000), Fr(0), Fr(87), Fr(-87), Fr(8699999, 100000), Fr(8700001, 100000)):
            for lo in (Fr(0), Fr(17999999, 100000), Fr(-180), Fr(-17999999, 100000), Fr(90), Fr(-90), Fr(1234, 10)):
                pts.append((la, lo))
        for t, nl in cprspec._THR:
            for d in (Fr(-1, 2000), Fr(1, 2000), Fr(-1, 100), Fr(1, 100)):
                for sgn in (1, -1):
                    pts.append((sgn * (Fr(t) + d), Fr(rng.below(360000) - 180000, 1000)))
        for k in range(0, 60, 7):      # latitude zone boundaries of both grids
            for d in (Fr(-1, 5000), Fr(0), Fr(1, 5000)):
                pts.append((Fr(6 * k) - 90 + d if 6 * k - 90 + d <= 90 else Fr(84), Fr(rng.below(360) - 180)))
                pts.append((max(Fr(-90), min(Fr(90), Fr(360 * k, 59) - 90 + d)), Fr(rng.below(360) - 180)))
        disp = [(Fr(0), Fr(0)), (Fr(1, 25), Fr(0)), (Fr(-1, 25), Fr(0)), (Fr(0), Fr(1, 30)), (Fr(1, 40), Fr(-1, 40))]
        for (la, lo) in pts:
            la = max(Fr(-90), min(Fr(90), la)); lo = ((lo + 180) % 360) - 180
            for (dla, dlo) in (disp if tier != "quick" else disp[:3]):
                la2 = max(Fr(-90), min(Fr(90), la + dla)); lo2 = ((lo + dlo / max(Fr(1, 50), Fr(abs(float(1 - abs(la) / 90)))) + 180) % 360) - 180 if dlo else lo
                for first_even in (True, False):
                    # even report at p1, odd at p2 (and the other way round); the second frame of the op is the latest
                    for (pe, po) in (((la, lo), (la2, lo2)), ((la2, lo2), (la, lo))):
                        op = self._pair(pe, po, first_even)
                        latest = po if first_even else pe
                        self.truth[op] = (float(latest[0]), float(latest[1]), first_even)
                        ops.append(op)
        # raw quadruples
        edge = [0, 1, 65535, 65536, 65537, 131071]
        for k in range(20000 if tier == "quick" else 400000):
            q = [rng.choice(edge) if rng.chance(1, 8) else rng.bits(17) for _ in range(4)]
            fe = gentrack.adsb(0x123456, gentrack.me_position(11, 0x0c5, 0, q[0], q[1]))
            fo = gentrack.adsb(0x123456, gentrack.me_position(11, 0x0c5, 1, q[2], q[3]))
            ops.append("P %s %s" % ((bytes(fe).hex(), bytes(fo).hex()) if rng.chance(1, 2) else (bytes(fo).hex(), bytes(fe).hex())))
        ops += cpr_tie_ops(rng, 600 if tier == "quick" else 6000)
        for k in range(200):
            f1 = gentrack.adsb(0x123456, gentrack.me_position(11, 0x0c5, k % 2, rng.bits(17), rng.bits(17)))
            f2 = gentrack.adsb(0x123456, gentrack.me_position(18, 0x0c5, k % 2, rng.bits(17), rng.bits(17)))
            ops.append("P %s %s" % (bytes(f1).hex(), bytes(f2).hex()))
        return ops
    def project(self, op, line): return line
    def spec(self, op, line):
        import cprspec
        _, ha, hb = op.split()
        a = bytearray.fromhex(ha); b = bytearray.fromhex(hb)
        fa, fb = get(a, 53, 1), get(b, 53, 1)
        if fa == fb: return None if line == "POS none" else "equal parity must give no position: " + line
        ev, od = (a, b) if fa == 0 else (b, a)
        want = cprspec.decode((get(ev, 54, 17), get(ev, 71, 17)), (get(od, 54, 17), get(od, 71, 17)), fb == 1)
        m = re.fullmatch(r"POS some lat=(-?[0-9.]+) lon=(-?[0-9.]+) rng=\w+", line)
        def borderline():
            # exact latitudes close to an NL transition or to +-90: float evaluation may legitimately fall on the other side
            import math
            from fractions import Fraction as Fr
            yz0, yz1 = get(ev, 54, 17), get(od, 54, 17)
            j = math.floor(Fr(59 * yz0 - 60 * yz1, 2 ** 17) + Fr(1, 2))
            l0 = float(Fr(6) * (j % 60 + Fr(yz0, 2 ** 17))); l1 = float(Fr(360, 59) * (j % 59 + Fr(yz1, 2 ** 17)))
            for l in (l0, l1):
                if l >= 270: l -= 360
                if abs(abs(l) - 90) < 1e-9: return True
                if any(abs(abs(l) - t) < 1e-7 for t, _ in cprspec._THR): return True
            return False
        if want is None:
            if m and not borderline(): return "inconsistent pair (different NL or |lat| > 90) must give no position: " + line
            return None
        if not m:
            return None if borderline() else "position expected (%.9f, %.9f), got %s" % (float(want[0]), float(want[1]), line)
        la, lo = float(m.group(1)) / 1000, float(m.group(2)) / 1000
        if abs(la - float(want[0])) > 1e-8 or min(abs(lo - float(want[1])), 360 - abs(lo - float(want[1]))) > 1e-8:
            return "decoded (%.9f, %.9f), exact decode (%.9f, %.9f)" % (la, lo, float(want[0]), float(want[1]))
        # the range is decided by the implementation on the f64 values (token rng), not on the printed decimals, which round
        if tok(line, "rng") != "ok": return "position out of range: " + line
        t = self.truth.get(op)
        if t:
            tla, tlo, latest_odd = t
            dlat = 360.0 / (59 if latest_odd else 60) / 2 ** 18
            nl = max(cprspec.nl_table(la) - (1 if latest_odd else 0), 1)
            dlon = 360.0 / nl / 2 ** 18
            if abs(la - tla) > dlat + 1e-9: return "latitude %.9f is %.2e deg from the true %.9f (quantisation %.2e)" % (la, abs(la - tla), tla, dlat)
            dl = min(abs(lo - tlo), 360 - abs(lo - tlo))
            if dl > dlon + 1e-9 and abs(tla) < 89.999: return "longitude %.9f is %.2e deg from the true %.9f (quantisation %.2e)" % (lo, dl, tlo, dlon)
        return None
    def nontrivial(self, op, line): return line.startswith("POS some")

def text_equal(a, m, tol=2e-3):
    """compare two rendered texts token by token; numeric tokens within a tolerance (float formatting differs)"""
    ta = a.replace("\\n", " \\n ").split(" "); tm = m.replace("\\n", " \\n ").split(" ")
    if len(ta) != len(tm): return False
    for x, y in zip(ta, tm):
        if x == y: continue
        try:
            fx, fy = float(x), float(y)
        except ValueError:
            return False
        # printed integers (the rounded track, the floored speed, altitudes, rates, counts) must be equal as printed: the tolerance is for the
        # formatting of fractional values only (seed C11_f: a speed one knot off passed as "within 0.2 %")
        # (the model's driver prints a whole number as `4160.000000`)
        # a printed sign is part of the text: `-0` is not `0` (seed C11_g printed the sign field in front of a zero rate)
        if x.startswith("-") != y.startswith("-"): return False
        if fx == int(fx) and fy == int(fy):
            if fx != fy: return False
            continue
        if abs(fx - fy) > tol * max(1.0, abs(fx)): return False
    return True

_NIS = {}
def near_integer_speeds(n):
    """component pairs (scale, |v_ew|, |v_ns|) of airborne-velocity reports whose ground speed scale*sqrt(a^2+b^2) is, among all 2 x 1023^2 pairs,
    closest below an integer, closest above one, or exactly integral (n of each kind per scale, the largest speeds first among ties)"""
    if n in _NIS: return _NIS[n]
    import math
    out = []
    for scale in (1, 4):
        below, above, exact = [], [], []
        for a in range(0, 1023):
            aa = a * a
            for c in range(a, 1023):
                N = scale * scale * (aa + c * c)
                k = math.isqrt(N)
                if k * k == N:
                    if k: exact.append((-k, a, c))
                    continue
                lo = (N - k * k) / (2.0 * k) if k else 9.0            # sqrt(N) - k, first order
                hi = ((k + 1) * (k + 1) - N) / (2.0 * (k + 1))        # (k+1) - sqrt(N)
                if hi < 2e-4: below.append((hi, a, c))
                if lo < 2e-4: above.append((lo, a, c))
        for lst in (below, above, exact):
            lst.sort()
            for (_, a, c) in lst[:n]:
                out.append((scale, a, c)); out.append((scale, c, a))
    _NIS[n] = out
    return out

class C11(Prop):
    id = "C11"; module = "Adsb.Theorems.C11"; design_ref = "5/C11"
    deps = []
    rule = ("every renderer branch on both sides of its condition: every format, type code, subtype, BDS code, flight status / capability / control field / "
            "emergency word, altitude 0 vs >0, heading-status, ACAS + autopilot/vnav/alt-hold/approach flag combinations, velocity with and without "
            "information, airspeed rate 0 vs >0, L/W codes, heading reference, capability-class and operational-mode flags; plus structured random frames; "
            "whole text compared (numbers printed from floats numerically)")
    claim = "templates with the frame's own values as holes, optional lines as explicit conditions (theorems); full-string correspondence on every branch"
    def equal(self, a, m): return a == m or (a.startswith("TXT") and m.startswith("TXT") and text_equal(a, m))
    def ops(self, rng, tier):
        fr = []
        reps = 1 if tier == "quick" else 4
        for r in range(reps):
            for df in (0, 4, 16, 20):
                for c in (0, 0x0040, 0x1fff, 0x0c5, 0x1a38, 0x0a, 0x1eaf):
                    for fs in range(8):
                        b = rand_frame(rng, df, bds=rng.choice([0, 0x10, 0x20, 0x55]) if df == 20 else None)
                        put(b, 19, 13, c)
                        if df in (4, 20): put(b, 5, 3, fs)
                        fr.append(b)
            for fs in range(8):
                b = rand_frame(rng, 5); put(b, 5, 3, fs); fr.append(b)
                for bds in (0, 0x10, 0x20, 0x77):
                    b = rand_frame(rng, 21, bds=bds); put(b, 5, 3, fs); fr.append(b)
            for ca in range(8):
                b = rand_frame(rng, 11); put(b, 5, 3, ca); fr.append(b)
                b = rand_frame(rng, 24 + rng.below(8)); put(b, 5, 3, ca); fr.append(b)
            fr.append(rand_frame(rng, 19))
            for df in (17, 18):
                for hd in range(8):          # CA / CF
                    for tc in range(32):
                        b = rand_frame(rng, df, tc=tc); put(b, 5, 3, hd)
                        if tc == 31: make_opstatus_ok(rng, b, rng.below(2)) if rng.chance(3, 4) else put(b, 37, 3, 2 + rng.below(6))
                        fr.append(b)
                # velocity branches
                for st in range(8):
                    for (vew, vns, vr) in ((0, 5, 3), (7, 0, 3), (7, 9, 0), (7, 9, 1), (1, 1, 2), (1023, 1023, 511), (300, 2, 40)):
                        for bits in range(8):
                            b = rand_frame(rng, df, tc=19); put(b, 37, 3, st); put(b, 46, 10, vew); put(b, 57, 10, vns); put(b, 69, 9, vr)
                            put(b, 45, 1, bits & 1); put(b, 56, 1, (bits >> 1) & 1); put(b, 68, 1, (bits >> 2) & 1); put(b, 67, 1, rng.below(2)); put(b, 80, 1, rng.below(2))
                            put(b, 81, 7, rng.choice([0, 1, 2, 127]))
                            fr.append(b)
                # headings and speeds on and next to the rounding boundaries of the two printed numbers (`ceil` of the track, `floor` of the speed):
                # due north / east / south / west, one knot either side of them (tracks just above 0 and just below 360), Pythagorean speeds
                for (dew, vew, dns, vns) in ((0, 1, 0, 101), (1, 2, 0, 101), (0, 2, 0, 101), (1, 2, 0, 1001), (1, 9, 0, 409), (0, 2, 1, 101), (1, 2, 1, 101),
                                             (0, 101, 0, 1), (0, 101, 0, 2), (0, 101, 1, 2), (1, 101, 0, 1), (1, 101, 0, 2), (1, 101, 1, 2), (0, 1, 1, 101),
                                             (0, 4, 0, 5), (1, 4, 1, 5), (0, 301, 1, 401), (1, 1, 0, 1), (1, 2, 0, 2), (1, 1022, 0, 1023)):
                    for st in (1, 2):
                        b = rand_frame(rng, df, tc=19); put(b, 37, 3, st); put(b, 45, 1, dew); put(b, 46, 10, vew); put(b, 56, 1, dns); put(b, 57, 10, vns)
                        put(b, 69, 9, 5 + rng.below(100)); fr.append(b)
                # ground speeds closest below / above an integer and exactly integral, over ALL component pairs of both scales (the printed speed is the
                # floor of the decoded f64 value: any narrowing or re-rounding of it shows first where sqrt(ew^2 + ns^2) = k - 1/(2k))
                for (scale, a, c) in near_integer_speeds(60 if tier == "quick" else 400):
                    b = rand_frame(rng, df, tc=19); put(b, 37, 3, 2 if scale == 4 else 1); put(b, 45, 1, rng.below(2)); put(b, 46, 10, a + 1); put(b, 56, 1, rng.below(2)); put(b, 57, 10, c + 1)
                    put(b, 69, 9, 5 + rng.below(100)); fr.append(b)
                for k in range(60 if tier == "quick" else 600):
                    # random tracks within a degree of north on the western side (359 < track < 360)
                    b = rand_frame(rng, df, tc=19); put(b, 37, 3, 1); put(b, 45, 1, 1); put(b, 46, 10, 2 + rng.below(4)); put(b, 56, 1, 0); put(b, 57, 10, 300 + rng.below(700))
                    put(b, 69, 9, 5 + rng.below(100)); fr.append(b)
                # target state flags
                for flags in range(128):
                    b = rand_frame(rng, df, tc=29)
                    put(b, 61, 1, flags & 1); put(b, 84, 1, (flags >> 1) & 1); put(b, 79, 1, (flags >> 2) & 1); put(b, 80, 1, (flags >> 3) & 1)
                    put(b, 81, 1, (flags >> 4) & 1); put(b, 83, 1, (flags >> 5) & 1)
                    put(b, 52, 9, rng.choice([0, 1, 2, 267, 511])); put(b, 41, 11, rng.choice([0, 1, 2, 720, 2047]))
                    fr.append(b)
                # operational status flags
                for st in (0, 1):
                    for k in range(96):
                        b = rand_frame(rng, df, tc=31); make_opstatus_ok(rng, b, st)
                        put(b, 42, 2, k & 3); put(b, 46, 4, (k >> 2) & 15); put(b, 52, 4, rng.choice([0, 0, 5, 15])); put(b, 58, 6, rng.bits(6)); put(b, 85, 1, (k >> 6) & 1)
                        fr.append(b)
                # airborne position altitude None / some, parity
                for c in (0, 0x010, 0x0c5, 0x20a, 0x7ff, 0xfff):
                    for tc in (9, 18, 20, 22):
                        b = rand_frame(rng, df, tc=tc); put(b, 40, 12, c); fr.append(b)
                # identification incl. spaces and '#'
                for k in range(20):
                    b = rand_frame(rng, df, tc=1 + rng.below(4))
                    for pch in range(8): put(b, 40 + 6 * pch, 6, rng.choice([32, 1 + rng.below(26), 48 + rng.below(10), rng.below(64)]))
                    fr.append(b)
                # emergency words
                for em in range(8):
                    b = rand_frame(rng, df, tc=28); put(b, 40, 3, em); fr.append(b)
        ops = [hexop("D", b) for b in fr]
        ops += [o.replace("F ", "D ", 1) for o in structured(rng, 3000 if tier == "quick" else 100000)]
        return ops
    def project(self, op, line): return line
    def nontrivial(self, op, line): return line.startswith("TXT") and len(line) > 4

class E2EProp(Prop):
    """properties of the client binaries: theorems over the loop / handler model + end-to-end scenarios on the real binaries"""
    stateful = True
    e2e = True
    level = "proof"
    technique = ("Lean 4 theorems over a model of the client's loop / handlers + end-to-end execution of the real binaries (loopback TCP feed with scripted "
                 "segmentation and gaps, pty with scripted keys / mouse / resizes, reconstructed screen)")
    def ops(self, rng, tier): return []
    def scenarios(self, rng, tier, report): pass
    def extra_checks(self, ctx, ops, impl):
        sys_path = os.path.join(os.path.dirname(os.path.dirname(os.path.abspath(__file__))), "e2e")
        import sys
        if sys_path not in sys.path: sys.path.insert(0, sys_path)
        import e2elib
        ok, log = e2elib.build_apps()
        if not ok:
            ctx.broken.append("client binaries do not build: " + (re.findall(r"error[^\n]*", log) or ["?"])[0]); return []
        failing = []
        seen = []
        def report(name, ok, info):
            seen.append(name)
            ctx.distinct.add(hash(name)); ctx.count("scenario " + name.split("/")[0] + "/" + re.sub(r"\d+", "#", name.split("/")[1]))
            if len(ctx.samples) < 6: ctx.samples.append({"scenario": name, "ok": ok, "observed": {k: (str(v)[:120]) for k, v in list(info.items())[:4]}})
            if not ok: failing.append((name, "end-to-end scenario failed: " + json.dumps(info, default=str)[:1500], json.dumps(info, default=str)[:1500], None, len(seen)))
        self.scenarios(Rng(ctx.seed), ctx.tier, report)
        ctx.evals = len(seen)
        return failing

import os, json

class C16(E2EProp):
    id = "C16"; module = "Adsb.Theorems.C16"; design_ref = "5/C16"
    # the functions the loop model was written against (text tie, besides the end-to-end scenarios)
    deps = ["fn:apps/1090/1090.rs::main", "fn:apps/radar/radar.rs::main", "fn:apps/radar/radar.rs::parse_line", "fn:apps/radar/radar.rs::init_tcp_reader"]
    rule = ("a corpus feed (valid frames of 3 aircraft + 20 kinds of malformed lines: empty, 1-2 bytes, non-hex, odd length, non-ASCII, invalid UTF-8, all-zero, "
            "unsupported format, 300 bytes, CRLF, and five very long lines of 4 KiB - 70 KiB) sent whole / per line / per line with 160 ms gaps / byte by byte / random chunks with gaps; every split "
            "point of one line with a 170 ms gap; malformed-only feed; 1090: rendered frames on stdout = the decodable complete lines in order; radar (pty): "
            "message counts per aircraft on the Airplanes tab, clean exit on disconnect, reconnect with --retry-tcp keeps the aircraft; "
            "non-trivial = distinct scenarios")
    claim = ("the loop processes exactly the complete lines of the stream once, in order, for every segmentation and delay pattern; parse_line total; --limit-parsing only filters "
             "(whether a line is processed never depends on the lines before it); with --retry-tcp the outputs over any number of connections are each connection's complete lines, "
             "the fragment of a dropped connection is never joined to the next connection's first line (theorems over the loop model); e2e on the binaries")
    note = "partial: TCP / BufReader / socket-timeout semantics are modelled as (chunk | gap > 50 ms | eof) events and exercised with gaps of 0 or >= 150 ms; gaps near 50 ms are outside the model"
    def scenarios(self, rng, tier, report):
        import clients
        clients.check_1090(rng, tier, report)
        clients.check_radar_stream(rng, tier, report)

class C17(E2EProp):
    id = "C17"; module = "Adsb.Theorems.C17"; design_ref = "5/C17"
    # every function of the radar program (handlers, draw functions, tabs, command line) and the inventory of its panic / narrowing sites
    deps = ["fn:apps/radar/", "panicapps:"]
    rule = ("radar under a pty: random histories of keys (F1-F5, Tab, arrows, Enter, l/i/h/t/n/+/-/other), SGR mouse events (clicks on and off the tab bar, "
            "drags, releases, scrolls, other buttons, coordinates past the screen edge), resizes (1x1 .. 60x5 .. 7x200) and traffic, with 0 / 1 / 3 / 5 tracked "
            "aircraft (with and without a position), aircraft expiring under a selection (--filter-time=3), touchscreen on/off, --disable-* flags, --locations; "
            "events spaced one per loop iteration and, separately, 300 events in one write; at every 4th event of the readable-size histories the screen "
            "(tab, CUSTOM marker, view centre in the title, selected row, table rows) is compared with the Lean handler model run on the same history; every "
            "history ends with q or Ctrl-C: exit status 0, quit message, termios cooked again, mouse-reporting off sequences after the last on, cursor shown; "
            "quit while waiting for the connection; 22 invalid command lines -> exit status 2 with clap's error; extreme legal values; non-trivial = distinct scenarios")
    claim = ("no history of events makes the handlers / draw clamp panic, the quit flag is set only by q / Ctrl-C, every exit path restores the terminal "
             "(theorems over the handler / loop model); the model's state agrees with the screen of the real binary on scripted histories; liveness, exit status "
             "and terminal restoration observed on the real binary")
    note = ("partial: ratatui's layout and widget code and crossterm's input parser are exercised (sizes down to 1x1), not modelled; the theorems cover "
            "handle_keyevent, handle_mouseevent, the selection clamp, the loop's quit logic and the exit paths of main")
    def scenarios(self, rng, tier, report):
        import ui
        ui.check_cli(rng, tier, report)
        ui.check_waiting(rng, tier, report)
        ui.check_histories(rng, tier, report)
        ui.check_batched(rng, tier, report)
        ui.check_coverage(rng, tier, report)
        ui.check_edges(rng, tier, report)

class C18(E2EProp):
    id = "C18"; module = "Adsb.Theorems.C18"; design_ref = "5/C18"
    modules = ["Adsb.Theorems.C18", "Adsb.Theorems.C18b"]
    deps = ["fn:apps/radar/airplanes.rs", "fn:apps/radar/stats.rs", "fn:apps/radar/map.rs", "fn:apps/radar/radar.rs::Settings::", "fn:apps/radar/radar.rs::main",
            "fn:apps/radar/radar.rs::draw", "fn:apps/radar/radar.rs::handle_keyevent", "fn:apps/radar/radar.rs::handle_mouseevent"]
    rule = ("radar under a pty (40x140 / 50x160): feeds of 0-8 aircraft in the four quadrants around the receiver (positions, identifications, velocities, "
            "other formats, malformed lines) with random view controls (keys, clicks, drags, scrolls - everything but quit) interleaved; then the Airplanes "
            "tab is read cell by cell and compared with the tracker model's records after the same frames (address, callsign, lat, long, heading, altitude, "
            "fpm, speed, distance, message count; blank until a position is known), the tab / table titles with the record count, the Stats tab with the "
            "model's totals; an aircraft expiring and returning (total 4, most 3, shown 2); Map tab with 11 named locations (receiver, N/E/S/W at two "
            "distances, NE, SW) and 4 aircraft: each label's screen cell against to_xy of the model for the view state the model predicts after zoom / pan / "
            "scroll / reset batches, plus the conventions stated outright (receiver at the centre, north above, east right, doubled offset = doubled "
            "distance); non-trivial = distinct scenarios")
    claim = ("rows = records in order, cells = the record's data, title = count, totals = times newly added / peak count, data independent of every "
             "operator action (theorems over the loop model); map projection over the reals (Theorems/C18b): view centre at the origin, x offset = (lon-lon0)*scale/360, "
             "north is up and y strictly monotone in latitude (Mercator function proved strictly increasing on (-90,90)), zoom scales and pan translates every target alike; "
             "table, titles, totals and label placement of the real binary agree with the model")
    note = ("partial: number formatting ({:.3}), ratatui's Table / Canvas widgets and the f64 evaluation of the Mercator formula are observed on the "
            "screen (cell tolerance 1), not proved (the projection theorems are over the reals)")
    def scenarios(self, rng, tier, report):
        import show
        many = show.start_many_messages(rng, tier, report)          # two minutes of wall clock, mostly waiting: runs beside the others
        show.check_table_and_stats(rng, tier, report)
        show.check_table_far_longitudes(rng, tier, report)
        show.check_stats_expiry(rng, tier, report)
        show.check_map(rng, tier, report)
        show.check_map_sites(rng, tier, report)
        show.check_map_aircraft(rng, tier, report)
        many.join(480)

class C19(Prop):
    id = "C19"; module = "Adsb.Theorems.C19"; design_ref = "5/C19"
    deps = ["shape:ReaderCrc::read", "shape:ReaderCrc::seek", "shape:Frame::from_reader", "shape:Frame::read_crc"]
    rule = ("frames of every format / type code / BDS variant (each has its own read/seek pattern), complete and truncated: every chunking with sizes "
            "{1,2,3,all}, every single placement of an Interrupted error over the first 48 read calls, pairs of placements (thorough), random schedules; "
            "each compared with the slice decode of the same bytes; repeated and interleaved decodes")
    claim = "read_exact over ReaderCrc returns the same bytes and leaves the same cache for every schedule; any call sequence refines the slice cursor (theorems)"
    note = "assumes deku's Reader issues only read_exact calls and backward seeks over bytes already read (rules R1-R3 of DESIGN.md), validated by the correspondence"
    def frames(self, rng, tier):
        fr = []
        for df in VALID_DF:
            if df in (17, 18):
                for tc in range(32):
                    b = rand_frame(rng, df, tc=tc)
                    if tc == 31: make_opstatus_ok(rng, b, rng.below(2)) if rng.chance(2, 3) else put(b, 37, 3, 2 + rng.below(6))
                    if tc == 19: put(b, 37, 3, rng.below(8))
                    fr.append(b)
            elif df in (20, 21):
                for bds in (0, 0x10, 0x20, 0x31): fr.append(rand_frame(rng, df, bds=bds))
            else:
                fr.append(rand_frame(rng, df))
            for ca in (1, 2, 3):
                if df in (11, 17, 24, 31):
                    b = rand_frame(rng, df); put(b, 5, 3, ca); fr.append(b)
            if df in (4, 5, 20, 21):
                b = rand_frame(rng, df); put(b, 8, 5, rng.choice([2, 3, 6, 31])); fr.append(b)
        out = list(fr)
        for b in fr[::5]:
            out.append(b[:len(b) - 1 - rng.below(len(b) - 1)])       # truncated
            out.append(b + bytearray(rng.bits(24).to_bytes(3, "big")))  # trailing bytes
        return out
    def ops(self, rng, tier):
        ops = []
        self._pairs = []
        for b in self.frames(rng, tier):
            h = bytes(b).hex()
            base = len(ops); ops.append("F " + h)
            scheds = ["-", "1", "2", "3"] + [",".join([str(k)] * 60) for k in (1, 2, 3)]
            for pos in range(48):
                scheds.append(",".join(["20"] * pos + ["I"]))
                if tier != "quick" or pos % 3 == 0: scheds.append(",".join(["1"] * pos + ["I", "I", "1"]))
            if tier != "quick":
                for p1 in range(0, 30, 2):
                    for p2 in range(p1 + 1, 30, 3):
                        scheds.append(",".join(["20"] * p1 + ["I"] + ["20"] * (p2 - p1 - 1) + ["I"]))
            for k in range(6 if tier == "quick" else 40):
                scheds.append(",".join(rng.choice(["I", "1", "1", "2", "3", "7", "20"]) for _ in range(1 + rng.below(50))))
            for sc in scheds:
                self._pairs.append((base, len(ops), "from_reader under schedule %s differs from from_bytes" % sc[:40]))
                ops.append("R %s %s" % (h, sc))
            # the same frame standing `off` bytes into a longer reader (second and later frames of a stream)
            for off in (1, 2, 7, 14, 21, 1 + rng.below(64)):
                for sc in (scheds[:7] + [rng.choice(scheds[7:]) for _ in range(4 if tier == "quick" else 30)]):
                    self._pairs.append((base, len(ops), "from_reader at offset %d under schedule %s differs from from_bytes" % (off, sc[:40])))
                    ops.append("R %s %s %d" % (h, sc, off))
            self._pairs.append((base, len(ops), "repeated decode differs")); ops.append("F " + h)
            # purity across *failed* decodes: every way a decode can fail (unassigned format, every truncation, a type-31 report that is
            # rejected late) is followed by the frame again, from a slice and from readers - nothing of the failed attempt may survive
            fails = [bytes(b)[:n].hex() for n in range(1, len(b))] + ["0ce19cb02512c3", "38" + "00" * 13, bytes([0x8d]) + bytes(b)[1:4] + bytes([0xf8, 0xc0]) + bytes(8)]
            fails = [x if isinstance(x, str) else x.hex() for x in fails]
            for fl in (fails if tier != "quick" else fails[::3] + fails[-3:]):
                ops.append("F " + fl)
                self._pairs.append((base, len(ops), "decode after a failed decode of %s differs" % fl[:28])); ops.append("F " + h)
                ops.append("F " + fl)
                self._pairs.append((base, len(ops), "from_reader after a failed decode of %s differs" % fl[:28])); ops.append("R %s %s" % (h, rng.choice(["-", "1", "2", "3,I,20"])))
            # ReaderCrc itself (through the cfg-guarded hook) against the RC model on explicit call sequences
            for k in range(6 if tier == "quick" else 40):
                pre = bytes(rng.bits(8) for _ in range(rng.choice([0, 0, 1, 2, 5, 14, 33])))
                kind = rng.below(3)
                if kind == 0:      # what deku issues: byte reads, id re-reads
                    calls = []
                    for _ in range(2 + rng.below(14)):
                        calls.append("r%d" % rng.choice([1, 1, 1, 2, 3]))
                        if rng.chance(1, 3): calls.append("s1")
                elif kind == 1:    # arbitrary reads and backward seeks (within what was read)
                    calls = []; pos = 0
                    for _ in range(2 + rng.below(16)):
                        if pos > 0 and rng.chance(1, 3):
                            j = 1 + rng.below(min(pos, 3)); calls.append("s%d" % j); pos -= j
                        else:
                            n = rng.below(5); calls.append("r%d" % n); pos += n
                else:              # anything, including reads past the end and (at offset 0, where the reader refuses them) seeks before the start;
                                   # behind a prefix a seek before the frame's first byte is outside what deku issues and outside the model
                    calls = []; pos = 0
                    for _ in range(1 + rng.below(12)):
                        c = rng.choice(["r0", "r1", "r2", "r4", "r9", "s1", "s2", "s5"])
                        n = int(c[1:])
                        if c[0] == "s":
                            if n > pos and pre: continue
                            pos = max(0, pos - n)
                        else:
                            if pos + n > len(b): calls.append(c); break
                            pos += n
                        calls.append(c)
                    if not calls: calls = ["r1"]
                sc = rng.choice(scheds)
                ops.append("RC %s %s %s %s" % (pre.hex() or "-", h, sc, ",".join(calls)))
        return ops
    def pairs(self, ops): return self._pairs
    def norm(self, line): return line
    def project(self, op, line): return line

class C01(Prop):
    id = "C01"; module = "Adsb.Theorems.C01"; design_ref = "5/C01"
    modules = ["Adsb.Theorems.C01", "Adsb.Theorems.C06b", "Adsb.Theorems.C03b"]
    # the inventory of unwrap / expect / panic-family macros / indexing / narrowing casts in the two library crates, and - because the
    # totality theorems are about the model of the *whole* decoder - every layout item and every modelled function body
    deps = ["panic:", "layout:", "shape:"]
    stateful = True
    rule = ("all 32 formats x lengths 1..32 x {zeros, ones, random}; every field of every type at extreme values; structured and malformed frames: decode, "
            "render, velocity; all ordered pairs from a pool of position reports (CPR pairing); tracker histories with receivers at poles / antimeridian "
            "and ranges {0, tiny, 500, 1e9}, and at receiver positions / ranges off the globe (infinite, NaN, 1e308, 0..360 longitudes); every operation runs under catch_unwind and a "
            "time limit (an operation that does not complete is reported as a hang); non-trivial = decodable frames")
    claim = "the model never reaches a panic branch: decode, calculate (with every Rust overflow check written out) and the altitude readers are total (theorems); the implementation never panicked on any explored input"
    def ops(self, rng, tier):
        n = 4000 if tier == "quick" else 60000
        fr = grid_df_len(rng, per=4 if tier == "quick" else 10) + structured(rng, n) + malformed(rng, n)
        # extreme field values
        for df in (17, 18):
            for tc in range(32):
                for fill in (0x00, 0xFF):
                    b = bytearray([fill] * 14); put(b, 0, 5, df); put(b, 32, 5, tc); fr.append(hexop("F", b))
                    for st in range(8):
                        c = bytearray(b); put(c, 37, 3, st); fr.append(hexop("F", c))
        for df in (0, 4, 16, 20):
            for c in list(range(0, 8192, 7)) + [0x1eaf, 0x1fff, 0x010a, 0x050a, 0x0a]:
                b = rand_frame(rng, df); put(b, 19, 13, c); fr.append(hexop("F", b))
        # operational status (type 31, subtype 0/1): every version number and every value of each reserved group, one gate at a time,
        # so that a report which is rejected today but would be accepted (and then rendered, tracked ...) after a change is exercised
        for df in (17, 18):
            for st in (0, 1):
                for ver in range(8):
                    for rep in range(3):
                        b = rand_frame(rng, df, tc=31); make_opstatus_ok(rng, b, st); put(b, 72, 3, ver); fr.append(hexop("F", b))
                for off in (40, 44, 56):
                    for v in range(4):
                        b = rand_frame(rng, df, tc=31); make_opstatus_ok(rng, b, st); put(b, off, 2, v); fr.append(hexop("F", b))
        for c in range(0, 4096, 3):
            b = rand_frame(rng, 17, tc=11); put(b, 40, 12, c); fr.append(hexop("F", b))
        ops = list(fr)
        ops += [o.replace("F ", "D ", 1) for o in fr]
        ops += [o.replace("F ", "V ", 1) for o in fr if len(o) == 30]
        pool = [o[2:] for o in fr if len(o) == 30 and o[2:4] in ("8d", "8f", "90", "95")][:60 if tier == "quick" else 200]
        pos = []
        for h in pool:
            b = bytearray.fromhex(h); put(b, 32, 5, rng.choice([9, 11, 18, 20, 22])); pos.append(bytes(b).hex())
        for k in range(40):
            b = rand_frame(rng, 17, tc=11); put(b, 54, 17, rng.choice([0, 1, 65536, 131071, rng.bits(17)])); put(b, 71, 17, rng.choice([0, 65536, 131071, rng.bits(17)]))
            pos.append(bytes(b).hex())
        for a in pos:
            for b in pos: ops.append("P %s %s" % (a, b))
        for rx in [(90.0, 0.0), (-90.0, 0.0), (0.0, 180.0), (0.0, -180.0), (89.999, 179.999), (0.0, 0.0)]:
            for rg in ("0", "0.000000001", "500", "1000000000"):
                h = gentrack.history(rng, 60 if tier == "quick" else 300, n_planes=3, with_time=True, rx=rx, rng_range=500)
                h[0] = "T reset %s %s %s" % (rx[0], rx[1], rg)
                ops += h
        # receiver positions and ranges that are not on the globe at all (a mistyped or uninitialised configuration): infinite, not-a-number,
        # astronomically large, 0..360 style longitudes - the flights themselves are ordinary, so pairs decode and every distance check runs
        for (la, lo) in (("inf", "0"), ("0", "inf"), ("-inf", "-inf"), ("NaN", "NaN"), ("0", "1e308"), ("1e18", "-1e18"), ("39", "283"), ("-91", "541"), ("1e-320", "-0.0")):
            for rg in ("500", "inf", "NaN", "-1"):
                h = gentrack.history(rng, 40 if tier == "quick" else 150, n_planes=2, with_time=True, rx=(39.0, -77.0), rng_range=500)
                h[0] = "T reset %s %s %s" % (la, lo, rg)
                ops += h
        return ops
    def equal(self, a, m): return a == m or numeq(a, m, 1e-3) or a.startswith("TXT") or a.startswith("POS") or a.startswith("VEL")
    def project(self, op, line): return "PANIC" if line.startswith("PANIC") else "ok"
    def nontrivial(self, op, line): return line.startswith(("OK", "TXT", "VEL some", "POS some", "ADDED"))

ALL = {}
for c in [C01, C02, C03, C04, C05, C06, C07, C08, C09, C10, C11, C12, C13, C14, C15, C16, C17, C18, C19, C20]:
    ALL[c.id] = c
