"""Per-property definitions: theorem module, tie dependencies, generators, projections, spec oracles."""
import re
from gens import *
import pyspec
from vlib import Rng, crc_of, with_parity, parity

def tok(line, key):
    m = re.search(r"(?:^|[ {\[])%s=([^ }\]]+)" % re.escape(key), line)
    return m.group(1) if m else None

def head(line):
    p = line.split()
    return " ".join(p[:2]) if p and p[0] == "OK" else (p[0] if p else "")

def opbytes(op):
    return bytearray.fromhex(op.split()[1])

class Prop:
    id = ""; title = ""
    module = None            # Lean module with the property theorems
    deps = []                # tie keys (prefixes of "layout:<kind> <Name>" / "shape:<fn>") this property depends on
    level = "proof"
    design_ref = ""
    def ops(self, rng, tier): return []
    def project(self, op, line): return line
    def spec(self, op, line): return None       # message if the implementation's line violates the independent spec
    def nontrivial(self, op, line): return line.startswith("OK")
    rule = ""
    claim = ""
    note = ""
    technique = "Lean 4 theorems over a hand-written model of the decoder + differential correspondence (Rust harness vs Lean driver) + regenerated tables"
    stateful = False

DECODER_LAYOUT = ["layout:enum DF", "layout:struct ADSB", "layout:enum ME", "layout:enum Capability", "layout:struct ICAO",
                  "shape:ReaderCrc::read", "shape:ReaderCrc::seek", "shape:Frame::from_reader", "shape:Frame::read_crc",
                  "shape:Capability::read_reserved", "shape:modes_checksum"]

class C02(Prop):
    id = "C02"; module = "Adsb.Theorems.C02"; design_ref = "5/C02"
    deps = DECODER_LAYOUT + ["layout:enum OperationStatus", "layout:struct OperationStatusAirborne", "layout:struct OperationStatusSurface",
            "layout:struct CapabilityClassAirborne", "layout:struct CapabilityClassSurface", "layout:struct OperationalMode",
            "layout:enum ADSBVersion", "layout:enum BDS", "layout:struct ControlField"]
    rule = ("all 32 format codes x lengths 1..32 x {zeros, ones, random} payloads; TC31 subtype x reserved groups x version sweep; "
            "valid frames with 1..18 trailing bytes (compared with the same frame without them); non-trivial = distinct canonical outputs")
    claim = "decode accepts exactly the stated set (accept_iff over all buffers), window = first L bytes, trailing bytes irrelevant"
    def ops(self, rng, tier):
        ops = grid_df_len(rng, per=4 if tier == "quick" else 12)
        # TC31: subtype x the three reserved 2-bit groups x version
        for df in (17, 18):
            for st in range(8):
                for r0 in range(4):
                    for r1 in range(4):
                        for r2 in range(4):
                            for ver in range(8):
                                if tier == "quick" and (r0, r1, r2).count(0) < 2 and rng.chance(3, 4): continue
                                b = rand_frame(rng, df, tc=31)
                                put(b, 37, 3, st); put(b, 40, 2, r0); put(b, 44, 2, r1); put(b, 56, 2, r2); put(b, 72, 3, ver)
                                ops.append(hexop("F", b))
        # trailing garbage
        n = 300 if tier == "quick" else 3000
        for i in range(n):
            df = rng.choice(VALID_DF)
            b = rand_frame(rng, df)
            if df in (17, 18): put(b, 32, 5, rng.below(32))
            if df in (20, 21): put(b, 32, 8, rng.choice([0, 0x10, 0x20, rng.below(256)]))
            ops.append(hexop("F", b))
            k = 1 + rng.below(18)
            ops.append(hexop("F", b + bytearray(rng.bits(8 * k).to_bytes(k, "big"))))
        # truncated versions of valid frames: every length below L
        for i in range(40 if tier == "quick" else 400):
            df = rng.choice(VALID_DF)
            b = rand_frame(rng, df, fix_parity=True)
            for L in range(1, len(b)):
                ops.append(hexop("F", b[:L]))
        return ops
    def project(self, op, line):
        return line     # the whole result: format, every field, checksum; for rejected buffers only "rejected"
    def spec(self, op, line):
        b = opbytes(op)
        acc = pyspec.accept(b)
        if acc != line.startswith("OK"):
            return "acceptance: spec says %s, implementation says %s" % ("accept" if acc else "reject", line[:40])
        if acc:
            df = get(b, 0, 5); L = pyspec.frame_len(df)
            want = "DF%d" % df if df < 24 else "DF24+"
            if line.split()[1] != want: return "format: expected %s" % want
            if len(b) > L:
                # trailing bytes: the result must be the result of the frame alone (checked against the paired op by the runner)
                pass
        return None
    def norm(self, line):
        return line if line.startswith("OK") else "REJECT"

class C03(Prop):
    id = "C03"; module = "Adsb.Theorems.C03"; design_ref = "5/C03"
    deps = ["shape:modes_checksum", "shape:Frame::read_crc", "shape:ReaderCrc::read", "shape:ReaderCrc::seek"]
    rule = ("every byte value at every byte position of 3 background frames per format length; all single and double bit flips of valid "
            "squitters; random weight<=5 patterns and bursts<=24; address/interrogator overlays; non-trivial = distinct (frame, crc) pairs")
    claim = "crc = remainder mod 0x1FFF409 of the leading bits xor last 24 bits (theorem over all byte strings); table regenerated from source"
    def ops(self, rng, tier):
        ops = []
        bases = []
        for df in (17, 18, 11, 0, 4, 5, 16, 20, 21, 19, 24):
            for k in range(2):
                bases.append(rand_frame(rng, df, tc=rng.below(31) if df in (17, 18) else None, fix_parity=(df in (17, 18))))
        for b in bases:
            for pos in range(len(b)):
                for v in range(256):
                    if pos == 0 and (v >> 3) != get(b, 0, 5): continue
                    c = bytearray(b); c[pos] = v
                    if get(c, 0, 5) in (17, 18) and get(c, 32, 5) == 31: continue
                    ops.append(hexop("F", c))
        # overlays
        for i in range(200 if tier == "quick" else 2000):
            df = rng.choice((0, 4, 5, 16, 20, 21, 11, 17, 18))
            b = rand_frame(rng, df, tc=rng.below(31) if df in (17, 18) else None)
            addr = rng.bits(24) if df not in (17, 18) else 0
            if df == 11: addr = rng.bits(7)
            f = bytearray(with_parity(bytes(b[:len(b) - 3]), addr))
            ops.append(hexop("F", f))
        # error patterns on valid squitters
        valid = [rand_frame(rng, rng.choice((17, 18)), tc=rng.choice([0, 4, 11, 19, 28, 29]), fix_parity=True) for _ in range(4 if tier == "quick" else 8)]
        for b in valid:
            for i in range(112):
                c = bytearray(b); c[i // 8] ^= 0x80 >> (i % 8); ops.append(hexop("F", c))
            for i in range(112):
                for j in range(i + 1, 112):
                    if tier == "quick" and rng.chance(3, 4): continue
                    c = bytearray(b); c[i // 8] ^= 0x80 >> (i % 8); c[j // 8] ^= 0x80 >> (j % 8); ops.append(hexop("F", c))
            for k in range(3000 if tier == "quick" else 100000):
                w = 3 + rng.below(3)
                c = bytearray(b)
                for _ in range(w):
                    i = rng.below(112); c[i // 8] ^= 0x80 >> (i % 8)
                if c != b: ops.append(hexop("F", c))
            for off in range(112):
                for k in range(8 if tier == "quick" else 200):
                    ln = 2 + rng.below(23)
                    pat = rng.bits(ln) | 1 | (1 << (ln - 1))
                    if off + ln > 112: continue
                    v = int.from_bytes(b, "big") ^ (pat << (112 - off - ln))
                    ops.append(hexop("F", v.to_bytes(14, "big")))
        return ops
    def project(self, op, line):
        return (head(line), tok(line, "crc"))
    def spec(self, op, line):
        b = opbytes(op)
        if not line.startswith("OK"): return None
        want = "%06x" % pyspec.syndrome(b)
        if tok(line, "crc") != want: return "crc=%s, Mode S syndrome of the frame is %s" % (tok(line, "crc"), want)
        return None

class C04(Prop):
    id = "C04"; module = "Adsb.Theorems.C04"; design_ref = "5/C04"
    deps = DECODER_LAYOUT + ["layout:enum DownlinkRequest", "layout:struct UtilityMessage", "layout:enum UtilityMessageType", "layout:enum FlightStatus",
            "layout:struct ControlField", "layout:enum ControlFieldType", "shape:ICAO::from_str", "shape:ICAO::fmt"]
    rule = ("every value of every header field (CA, CF, FS, DR, UM, VS, CC, SL, RI, AA: stratified 24-bit) x every payload type, other bits random; "
            "ICAO text round trip on 2^16 stratified (quick) / all 2^24 (thorough) addresses")
    claim = "announced address = bits 9-32, trailer = last 24 bits, header fields at their Annex 10 positions, for all accepted frames"
    def ops(self, rng, tier):
        ops = []
        reps = 2 if tier == "quick" else 8
        for df in VALID_DF:
            hdr = pyspec.HEADER[df]
            for name, (first, w) in hdr.items():
                if name in ("AC", "ID", "mv"): continue
                tcs = list(range(32)) if df in (17, 18) else [None]
                for tc in tcs:
                    def fix(rng, b, tc=tc, df=df):
                        if tc == 31 and rng.chance(7, 8): make_opstatus_ok(rng, b, rng.below(2))
                    ops += field_sweep(rng, df, first - 1, w, reps if w <= 5 else 1, tc=tc, fixups=fix, limit=64 if tier == "quick" else 1024)
        n = (1 << 16) if tier == "quick" else (1 << 24)
        if tier == "quick":
            for i in range(n):
                a = (i * 257 + (i >> 8)) & 0xFFFFFF if i % 3 else rng.bits(24)
                ops.append("I %06x" % a)
        else:
            for a in range(n): ops.append("I %06x" % a)
        return ops
    def project(self, op, line):
        if op.startswith("I "): return line
        keys = ["ca", "aa", "pi", "ap", "cf", "fs", "dr", "um", "vs", "cc", "sl", "ri", "mv", "af", "df", "tc"]
        return (head(line),) + tuple(tok(line.split(" me=")[0] + " " + line.rsplit("}", 1)[-1], k) for k in keys)
    def spec(self, op, line):
        if op.startswith("I "):
            h = op.split()[1]
            return None if line == "ICAO %s same" % h else "ICAO text: " + line
        if not line.startswith("OK"): return None
        b = opbytes(op); df = get(b, 0, 5)
        outer = line.split(" me=")[0] + " " + line.rsplit("}", 1)[-1] if " me=" in line else line.split(" bds=")[0] + " " + line.rsplit("}", 1)[-1]
        for name, (first, w) in pyspec.HEADER[df].items():
            v = pyspec.field(b, first, w)
            if name in ("aa", "pi", "ap"):
                if tok(outer, name) != "%06x" % v: return "%s=%s but frame bits %d-%d are %06x" % (name, tok(outer, name), first, first + w - 1, v)
            elif name == "ca":
                if tok(outer, "ca").split(":")[0] != str(v): return "ca=%s, frame bits 6-8 are %d" % (tok(outer, "ca"), v)
            elif name == "DR":
                t = tok(outer, "dr")
                if t.lstrip("U") != str(v): return "dr=%s, frame bits 9-13 are %d" % (t, v)
            elif name in ("iis", "ids"):
                um = tok(outer, "um").split(":")
                if um[0 if name == "iis" else 1] != str(v): return "um=%s, %s bits are %d" % (tok(outer, "um"), name, v)
            elif name == "mv":
                if tok(outer, "mv") != "%014x" % v: return "mv mismatch"
            elif name in ("AC", "ID"): pass
            else:
                if tok(outer, name) != str(v): return "%s=%s, frame bits %d-%d are %d" % (name, tok(outer, name), first, first + w - 1, v)
        return None
    def nontrivial(self, op, line): return line.startswith("OK") or line.endswith("same")

def _sweep_ac13(rng, reps):
    ops = []
    for df in (0, 4, 16, 20):
        for c in range(8192):
            for r in range(reps):
                b = rand_frame(rng, df, bds=rng.choice([0, 0x10, 0x20, 0x33]) if df == 20 else None)
                put(b, 19, 13, c); ops.append(hexop("F", b))
    return ops

class C06(Prop):
    id = "C06"; module = "Adsb.Theorems.C06"; design_ref = "5/C06"
    deps = ["layout:struct Altitude", "layout:struct AC13Field", "shape:Altitude::read", "shape:AC13Field::read", "shape:decode_id13_field", "shape:mode_a_to_mode_c"]
    rule = ("exhaustive: all 8192 13-bit codes x {DF0,4,16,20} and all 4096 12-bit codes x 13 type codes x {DF17,DF18}, surrounding bits random "
            "(reps per code); non-trivial = codes with an altitude")
    claim = "ac13/ac12 equal the Annex 10 specification on every code (kernel-checked), and the code is taken from the specified bits of every carrier"
    def ops(self, rng, tier):
        reps = 1 if tier == "quick" else 4
        ops = _sweep_ac13(rng, reps)
        for df in (17, 18):
            for tc in list(range(9, 19)) + [20, 21, 22]:
                for c in range(4096):
                    for r in range(reps):
                        b = rand_frame(rng, df, tc=tc); put(b, 40, 12, c); ops.append(hexop("F", b))
        return ops
    def project(self, op, line): return (head(line), tok(line, "alt"))
    def spec(self, op, line):
        if not line.startswith("OK"): return "altitude carrier rejected: " + line
        b = opbytes(op); df = get(b, 0, 5)
        if df in (17, 18):
            want = pyspec.ac12(get(b, 40, 12)); got = tok(line, "alt")
            w = "-" if want is None else str(want)
            if got != w: return "12-bit code %03x: alt=%s, Annex 10 altitude is %s" % (get(b, 40, 12), got, w)
        else:
            want = pyspec.ac13(get(b, 19, 13)); got = tok(line, "alt")
            w = "0" if want is None else str(want)
            if got != w: return "13-bit code %04x: alt=%s, Annex 10 altitude is %s" % (get(b, 19, 13), got, w)
        return None
    def nontrivial(self, op, line): return tok(line, "alt") not in (None, "0", "-")

class C08(Prop):
    id = "C08"; module = "Adsb.Theorems.C08"; design_ref = "5/C08"
    deps = ["layout:struct Identification", "layout:enum TypeCoding", "shape:aircraft_identification_read", "layout:enum BDS"]
    rule = ("all 64 codes x 8 positions x {DF17,DF18,DF20,DF21} with random other characters; all pairs of positions x sampled code pairs; "
            "random strings; all type codes 1-4 x category 0-7")
    claim = "callsign = the 8 six-bit characters in order through the Annex 10 table (generated table = spec, all 64), code 32 removed"
    def ops(self, rng, tier):
        ops = []
        carriers = [(17, None), (18, None), (20, 0x20), (21, 0x20)]
        reps = 2 if tier == "quick" else 8
        for df, bds in carriers:
            for pos in range(8):
                for code in range(64):
                    for r in range(reps):
                        b = rand_frame(rng, df, tc=1 + rng.below(4) if bds is None else None, bds=bds)
                        if r == 0:
                            for p in range(8): put(b, 40 + 6 * p, 6, 32)
                        put(b, 40 + 6 * pos, 6, code); ops.append(hexop("F", b))
            for p1 in range(8):
                for p2 in range(p1 + 1, 8):
                    for k in range(20 if tier == "quick" else 400):
                        b = rand_frame(rng, df, tc=1 + rng.below(4) if bds is None else None, bds=bds)
                        put(b, 40 + 6 * p1, 6, rng.below(64)); put(b, 40 + 6 * p2, 6, rng.below(64)); ops.append(hexop("F", b))
            for k in range(500 if tier == "quick" else 20000):
                b = rand_frame(rng, df, tc=1 + rng.below(4) if bds is None else None, bds=bds)
                for p in range(8):
                    put(b, 40 + 6 * p, 6, rng.choice([32, 1 + rng.below(26), 48 + rng.below(10), rng.below(64)]))
                ops.append(hexop("F", b))
        for df in (17, 18):
            for tc in range(1, 5):
                for ca in range(8):
                    b = rand_frame(rng, df, tc=tc); put(b, 37, 3, ca); ops.append(hexop("F", b))
        return ops
    def project(self, op, line):
        m = re.search(r'cn="([^"]*)"', line)
        return (head(line), m.group(1) if m else None, tok(line, "tc") if "Ident tc" in line else None, tok(line, "ca") if "Ident tc" in line else None)
    def spec(self, op, line):
        if not line.startswith("OK"): return "identification carrier rejected: " + line
        b = opbytes(op); df = get(b, 0, 5)
        m = re.search(r'cn="([^"]*)"', line)
        if not m: return "no callsign in " + line[:60]
        want = pyspec.ident(b, 40)
        if m.group(1) != want: return 'cn="%s", the eight characters are "%s"' % (m.group(1), want)
        if df in (17, 18):
            seg = line[line.index("Ident tc"):]
            if tok(seg, "tc") != str(get(b, 32, 5)) or tok(seg, "ca") != str(get(b, 37, 3)): return "category fields: " + seg[:30]
        return None
    def nontrivial(self, op, line): return 'cn="' in line and 'cn=""' not in line

class C09(Prop):
    id = "C09"; module = "Adsb.Theorems.C09"; design_ref = "5/C09"
    deps = ["layout:struct IdentityCode", "shape:IdentityCode::read", "shape:decode_id13_field", "layout:struct AircraftStatus",
            "layout:enum AircraftStatusType", "layout:enum EmergencyState"]
    rule = "exhaustive: all 8192 identity codes x {DF5, DF21, DF17/18 type 28}; all 64 subtype/emergency combinations; surrounding bits random"
    claim = "the three carriers decode every 13-bit code to the same four octal digits A B C D of the interleaved bit order (kernel-checked for all 8192)"
    def ops(self, rng, tier):
        ops = []
        reps = 1 if tier == "quick" else 4
        for c in range(8192):
            for r in range(reps):
                b = rand_frame(rng, 5); put(b, 19, 13, c); ops.append(hexop("F", b))
                b = rand_frame(rng, 21, bds=rng.choice([0, 0x10, 0x20, 0x44])); put(b, 19, 13, c); ops.append(hexop("F", b))
                b = rand_frame(rng, rng.choice((17, 18)), tc=28); put(b, 43, 13, c); ops.append(hexop("F", b))
        for st in range(8):
            for em in range(8):
                for df in (17, 18):
                    b = rand_frame(rng, df, tc=28); put(b, 37, 3, st); put(b, 40, 3, em); ops.append(hexop("F", b))
        return ops
    def project(self, op, line):
        return (head(line), tok(line, "id"), tok(line, "sq"), tok(line, "st") if "Status st" in line else None, tok(line, "em"))
    def spec(self, op, line):
        if not line.startswith("OK"): return "identity carrier rejected: " + line
        b = opbytes(op); df = get(b, 0, 5)
        if df in (5, 21):
            want = "%04x" % pyspec.squawk(get(b, 19, 13))
            if tok(line, "id") != want: return "id=%s, identity code %04x is squawk %s" % (tok(line, "id"), get(b, 19, 13), want)
        else:
            want = "%04x" % pyspec.squawk(get(b, 43, 13))
            if tok(line, "sq") != want: return "sq=%s, identity code %04x is squawk %s" % (tok(line, "sq"), get(b, 43, 13), want)
            st = get(b, 37, 3)
            if tok(line, "st") != str(st if st <= 2 else 3): return "subtype"
            if tok(line, "em") != str(get(b, 40, 3)): return "emergency state"
        return None

ALL = {}
for c in [C02, C03, C04, C06, C08, C09]:
    ALL[c.id] = c
