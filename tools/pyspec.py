"""Independent Python transcription of the specifications (DESIGN.md Appendix B), used to search for a
failing input on the implementation when a proof obligation or the correspondence has broken, and as
a second oracle next to the proven model on every run."""
from gens import get
from vlib import crc_of

def bits13(c): return [(c >> (12 - i)) & 1 for i in range(13)]   # C1 A1 C2 A2 C4 A4 M B1 Q B2 D2 B4 D4

def gray(bs):
    out = []; acc = 0
    for b in bs: acc ^= b; out.append(acc)
    return int("".join(map(str, out)), 2)

def gillham_feet(c):
    C1, A1, C2, A2, C4, A4, M, B1, Q, B2, D2, B4, D4 = bits13(c)
    if Q: return None
    n500 = gray([D2, D4, A1, A2, A4, B1, B2, B4])
    g100 = gray([C1, C2, C4])
    if g100 in (0, 5, 6): return None
    n100 = 5 if g100 == 7 else g100
    if n500 % 2 == 1: n100 = 6 - n100
    h = 5 * n500 + n100
    if h < 13: return None
    return 100 * (h - 13)

def representable(v): return v if (v is not None and 0 < v < 65536) else None

def ac13(c):
    """None = no altitude"""
    C1, A1, C2, A2, C4, A4, M, B1, Q, B2, D2, B4, D4 = bits13(c)
    if c == 0 or M: return None
    if Q:
        n = int("".join(map(str, [C1, A1, C2, A2, C4, A4, B1, B2, D2, B4, D4])), 2)
        return representable(25 * n - 1000 if 25 * n > 1000 else None)
    return representable(gillham_feet(c))

def ac12(c):
    if c == 0: return None
    return ac13(((c >> 6) << 7) | (c & 0x3f))

def squawk(c):
    C1, A1, C2, A2, C4, A4, X, B1, D1, B2, D2, B4, D4 = bits13(c)
    a = A4 * 4 + A2 * 2 + A1; b = B4 * 4 + B2 * 2 + B1; cc = C4 * 4 + C2 * 2 + C1; d = D4 * 4 + D2 * 2 + D1
    return (a << 12) | (b << 8) | (cc << 4) | d

def ia5(c):
    if 1 <= c <= 26: return chr(64 + c)
    if c == 32: return " "
    if 48 <= c <= 57: return chr(c)
    return "#"

def ident(b, off):
    cs = [get(b, off + 6 * i, 6) for i in range(8)]
    return "".join(ia5(c) for c in cs if c != 32)

SHORT = (0, 4, 5, 11)
def frame_len(df):
    if df in SHORT: return 7
    if 16 <= df <= 21 or df >= 24: return 14
    return None

def op_ok(b):
    """operational status (TC 31) acceptance: reserved groups zero, version <= 2"""
    st = get(b, 37, 3)
    if st == 0: return get(b, 40, 2) == 0 and get(b, 44, 2) == 0 and get(b, 56, 2) == 0 and get(b, 72, 3) <= 2
    if st == 1: return get(b, 40, 2) == 0 and get(b, 56, 2) == 0 and get(b, 72, 3) <= 2
    return True

def accept(b):
    if len(b) == 0: return False
    df = get(b, 0, 5); L = frame_len(df)
    if L is None or len(b) < L: return False
    if df in (17, 18) and get(b, 32, 5) == 31 and not op_ok(b): return False
    return True

def syndrome(b):
    df = get(b, 0, 5); L = frame_len(df)
    return crc_of(bytes(b[:L]))

# header fields: name -> (first bit (1-based), width), per format (Appendix B)
HEADER = {
    0:  {"vs": (6, 1), "cc": (7, 1), "sl": (9, 3), "ri": (14, 4), "AC": (20, 13), "ap": (33, 24)},
    4:  {"fs": (6, 3), "DR": (9, 5), "iis": (14, 4), "ids": (18, 2), "AC": (20, 13), "ap": (33, 24)},
    5:  {"fs": (6, 3), "DR": (9, 5), "iis": (14, 4), "ids": (18, 2), "ID": (20, 13), "ap": (33, 24)},
    11: {"ca": (6, 3), "aa": (9, 24), "pi": (33, 24)},
    16: {"vs": (6, 1), "sl": (9, 3), "ri": (14, 4), "AC": (20, 13), "mv": (33, 56), "ap": (89, 24)},
    17: {"ca": (6, 3), "aa": (9, 24), "pi": (89, 24)},
    18: {"cf": (6, 3), "aa": (9, 24), "pi": (89, 24)},
    19: {"af": (6, 3)},
    20: {"fs": (6, 3), "DR": (9, 5), "iis": (14, 4), "ids": (18, 2), "AC": (20, 13)},
    21: {"fs": (6, 3), "DR": (9, 5), "iis": (14, 4), "ids": (18, 2), "ID": (20, 13), "ap": (89, 24)},
}
for d in range(24, 32): HEADER[d] = {"df": (1, 5), "ca": (6, 3), "aa": (9, 24), "tc": (33, 5), "ap": (89, 24)}

def field(b, first, w): return get(b, first - 1, w)

# ---------------------------------------------------------------- C10: ME / MB payload fields (Appendix B), ME bit numbers
import struct
def f32(x): return struct.unpack("<f", struct.pack("<f", x))[0]
def f32bits(x): return struct.unpack("<I", struct.pack("<f", x))[0]
def me(b, first, w): return get(b, 32 + first - 1, w)

def spec_airpos(b):
    a = ac12(me(b, 9, 12))
    return "tc=%d ss=%d saf=%d alt=%s t=%d f=%d lat=%d lon=%d" % (me(b, 1, 5), me(b, 6, 2), me(b, 8, 1), "-" if a is None else a,
                                                                 me(b, 21, 1), me(b, 22, 1), me(b, 23, 17), me(b, 40, 17))
def spec_surface(b):
    return "Surface mov=%d s=%d trk=%d t=%d f=%d lat=%d lon=%d" % (me(b, 6, 7), me(b, 13, 1), me(b, 14, 7), me(b, 21, 1), me(b, 22, 1), me(b, 23, 17), me(b, 40, 17))
def spec_tss(b):
    n = me(b, 10, 11); alt = (n - 1) * 32 if n > 1 else 0
    q = me(b, 21, 9); qv = 0.0 if q == 0 else f32(800.0 + f32(f32(float(q - 1)) * f32(0.8)))
    h = me(b, 31, 9); hv = f32(f32(float(h) * 180.0) / 256.0)
    return ("TSS subtype=%d fms=%d alt=%d qnh=%08x ih=%d hdg=%08x nacp=%d nicbaro=%d sil=%d mv=%d ap=%d vnav=%d ah=%d imf=%d app=%d tcas=%d lnav=%d" % (
        me(b, 6, 2), me(b, 9, 1), alt, f32bits(qv), me(b, 30, 1), f32bits(hv), me(b, 40, 4), me(b, 44, 1), me(b, 45, 2), me(b, 47, 1), me(b, 48, 1),
        me(b, 49, 1), me(b, 50, 1), me(b, 51, 1), me(b, 52, 1), me(b, 53, 1), me(b, 54, 1)))
def spec_om(b): return "%d,%d,%d,%d,%d" % (me(b, 27, 1), me(b, 28, 1), me(b, 29, 1), me(b, 30, 1), me(b, 31, 2))
def spec_opair(b):
    return ("OpAir acas=%d cdti=%d arv=%d ts=%d tc=%d om=%s ver=%d nica=%d nacp=%d gva=%d sil=%d nicbaro=%d hrd=%d ss=%d" % (
        me(b, 11, 1), me(b, 12, 1), me(b, 15, 1), me(b, 16, 1), me(b, 17, 2), spec_om(b), me(b, 41, 3), me(b, 44, 1), me(b, 45, 4), me(b, 49, 2),
        me(b, 51, 2), me(b, 53, 1), me(b, 54, 1), me(b, 55, 1)))
def spec_opsurf(b):
    return ("OpSurf poe=%d es=%d b2=%d uat=%d nacv=%d nicc=%d lw=%d om=%s gps=%d ver=%d nica=%d nacp=%d sil=%d nicbaro=%d hrd=%d ss=%d" % (
        me(b, 11, 1), me(b, 12, 1), me(b, 15, 1), me(b, 16, 1), me(b, 17, 3), me(b, 20, 1), me(b, 21, 4), spec_om(b), me(b, 33, 8), me(b, 41, 3),
        me(b, 44, 1), me(b, 45, 4), me(b, 51, 2), me(b, 53, 1), me(b, 54, 1), me(b, 55, 1)))
def spec_dlc(b):
    return ("DLC cont=%d ov=%d acas=%d sub=%d enh=%d spec=%d up=%d down=%d ic=%d sc=%d sic=%d gicb=%d ra=%d ba=%04x" % (
        me(b, 9, 1), me(b, 15, 1), me(b, 16, 1), me(b, 17, 7), me(b, 24, 1), me(b, 25, 1), me(b, 26, 3), me(b, 29, 4), me(b, 33, 1), me(b, 34, 1),
        me(b, 35, 1), me(b, 36, 1), me(b, 37, 4), me(b, 41, 16)))

def spec_me_kind(tc, st):
    if tc == 0: return "NoPosition"
    if tc <= 4: return "Ident"
    if tc <= 8: return "Surface"
    if tc <= 18: return "AirPosBaro"
    if tc == 19: return "Velocity"
    if tc <= 22: return "AirPosGnss"
    if tc == 23: return "Reserved0"
    if tc == 24: return "SurfaceSystemStatus"
    if tc <= 27: return "Reserved1"
    if tc == 28: return "Status"
    if tc == 29: return "TSS"
    if tc == 30: return "OpCoord"
    return {0: "OpAir", 1: "OpSurf"}.get(st, "OpRes")

def spec_me(b):
    """expected text of me={...} for the interpreted types, else None (only the kind is checked)"""
    tc = me(b, 1, 5); st = me(b, 6, 3)
    k = spec_me_kind(tc, st)
    if k in ("AirPosBaro", "AirPosGnss"): return k, k + " " + spec_airpos(b)
    if k == "Surface": return k, spec_surface(b)
    if k == "TSS": return k, spec_tss(b)
    if k == "OpAir": return k, spec_opair(b)
    if k == "OpSurf": return k, spec_opsurf(b)
    return k, None
