"""Independent Python transcription of the specifications (DESIGN.md Appendix B), used to search for a
failing input on the implementation when a proof obligation or the correspondence has broken, and as
a second oracle next to the proven model on every run."""
from gens import get
from vlib import crc_of

def bits13(c): return [(c >> (12 - i)) & 1 for i in range(13)]   # C1 A1 C2 A2 C4 A4 M B1 Q B2 D2 B4 D4

def gray(bs):
    out = []; acc = 0
    for b in bs: acc ^= b; out.append(acc)
    return int("".join(map(str, out)), 2)

def gillham_feet(c):
    C1, A1, C2, A2, C4, A4, M, B1, Q, B2, D2, B4, D4 = bits13(c)
    if Q: return None
    n500 = gray([D2, D4, A1, A2, A4, B1, B2, B4])
    g100 = gray([C1, C2, C4])
    if g100 in (0, 5, 6): return None
    n100 = 5 if g100 == 7 else g100
    if n500 % 2 == 1: n100 = 6 - n100
    h = 5 * n500 + n100
    if h < 13: return None
    return 100 * (h - 13)

def representable(v): return v if (v is not None and 0 < v < 65536) else None

def ac13(c):
    """None = no altitude"""
    C1, A1, C2, A2, C4, A4, M, B1, Q, B2, D2, B4, D4 = bits13(c)
    if c == 0 or M: return None
    if Q:
        n = int("".join(map(str, [C1, A1, C2, A2, C4, A4, B1, B2, D2, B4, D4])), 2)
        return representable(25 * n - 1000 if 25 * n > 1000 else None)
    return representable(gillham_feet(c))

def ac12(c):
    if c == 0: return None
    return ac13(((c >> 6) << 7) | (c & 0x3f))

def squawk(c):
    C1, A1, C2, A2, C4, A4, X, B1, D1, B2, D2, B4, D4 = bits13(c)
    a = A4 * 4 + A2 * 2 + A1; b = B4 * 4 + B2 * 2 + B1; cc = C4 * 4 + C2 * 2 + C1; d = D4 * 4 + D2 * 2 + D1
    return (a << 12) | (b << 8) | (cc << 4) | d

def ia5(c):
    if 1 <= c <= 26: return chr(64 + c)
    if c == 32: return " "
    if 48 <= c <= 57: return chr(c)
    return "#"

def ident(b, off):
    cs = [get(b, off + 6 * i, 6) for i in range(8)]
    return "".join(ia5(c) for c in cs if c != 32)

SHORT = (0, 4, 5, 11)
def frame_len(df):
    if df in SHORT: return 7
    if 16 <= df <= 21 or df >= 24: return 14
    return None

def op_ok(b):
    """operational status (TC 31) acceptance: reserved groups zero, version <= 2"""
    st = get(b, 37, 3)
    if st == 0: return get(b, 40, 2) == 0 and get(b, 44, 2) == 0 and get(b, 56, 2) == 0 and get(b, 72, 3) <= 2
    if st == 1: return get(b, 40, 2) == 0 and get(b, 56, 2) == 0 and get(b, 72, 3) <= 2
    return True

def accept(b):
    if len(b) == 0: return False
    df = get(b, 0, 5); L = frame_len(df)
    if L is None or len(b) < L: return False
    if df in (17, 18) and get(b, 32, 5) == 31 and not op_ok(b): return False
    return True

def syndrome(b):
    df = get(b, 0, 5); L = frame_len(df)
    return crc_of(bytes(b[:L]))

# header fields: name -> (first bit (1-based), width), per format (Appendix B)
HEADER = {
    0:  {"vs": (6, 1), "cc": (7, 1), "sl": (9, 3), "ri": (14, 4), "AC": (20, 13), "ap": (33, 24)},
    4:  {"fs": (6, 3), "DR": (9, 5), "iis": (14, 4), "ids": (18, 2), "AC": (20, 13), "ap": (33, 24)},
    5:  {"fs": (6, 3), "DR": (9, 5), "iis": (14, 4), "ids": (18, 2), "ID": (20, 13), "ap": (33, 24)},
    11: {"ca": (6, 3), "aa": (9, 24), "pi": (33, 24)},
    16: {"vs": (6, 1), "sl": (9, 3), "ri": (14, 4), "AC": (20, 13), "mv": (33, 56), "ap": (89, 24)},
    17: {"ca": (6, 3), "aa": (9, 24), "pi": (89, 24)},
    18: {"cf": (6, 3), "aa": (9, 24), "pi": (89, 24)},
    19: {"af": (6, 3)},
    20: {"fs": (6, 3), "DR": (9, 5), "iis": (14, 4), "ids": (18, 2), "AC": (20, 13)},
    21: {"fs": (6, 3), "DR": (9, 5), "iis": (14, 4), "ids": (18, 2), "ID": (20, 13), "ap": (89, 24)},
}
for d in range(24, 32): HEADER[d] = {"df": (1, 5), "ca": (6, 3), "aa": (9, 24), "tc": (33, 5), "ap": (89, 24)}

def field(b, first, w): return get(b, first - 1, w)
