#!/usr/bin/env python3
"""Translator for the pure integer functions of the decoder: Rust source text -> Lean definitions (`Gen/Fns.lean`).

Handles exactly the fragment those functions are written in (it fails closed on anything else, which the check reports as a broken
obligation): `let [mut] x [: T] = e;`, `x = e;`, `x op= e;`, `if c {..} [else if ..] [else {..}]`, `if let Ok(x) = f(e) {..} else {..}`,
`return r;`, tail expressions, integer expressions over `& | ^ << >> + - * == != < <= > >= && ||`, `as uN`, calls of
`mode_ac::decode_id13_field`, and the result idioms `Err(..)`, `Ok(None)`, `Ok(e)`, `Ok(u16::try_from(e).ok())`,
`Ok(u16::try_from(e).ok().filter(|&x| x > 0))`, `Ok(u16::try_from(e).unwrap_or(0))`.
A reader function starts with `let num = uN::from_reader_with_ctx(reader, (Endian::Big, BitSize(K)))?;` - that read becomes the
function's argument (variable 0) and `K` is recorded."""
import re, sys

class Unsupported(Exception): pass

TOK = re.compile(r"\s*(?:(\"(?:[^\"\\]|\\.)*\")|(0x[0-9a-fA-F_]+|0b[01_]+|[0-9][0-9_]*)(?:_?(u8|u16|u32|u64|usize|i16|i32))?|([A-Za-z_][A-Za-z_0-9]*(?:::[A-Za-z_][A-Za-z_0-9]*)*)|"
                 r"(<<=|>>=|\|=|\^=|&=|\+=|-=|\*=|<<|>>|<=|>=|==|!=|&&|\|\||=>|->|[-+*/%&|^!<>=(){}\[\];:,.?'#]))")

def tokenize(src):
    out = []; i = 0
    src = re.sub(r"/\*.*?\*/", "", src, flags=re.S); src = re.sub(r"//[^\n]*", "", src)
    while True:
        m = TOK.match(src, i)
        if not m:
            if src[i:].strip() == "": return out
            raise Unsupported("cannot tokenize at: " + src[i:i + 40].strip())
        if m.group(1) is not None: out.append(("str", m.group(1)))
        elif m.group(2) is not None:
            t = m.group(2).replace("_", "")
            out.append(("num", int(t, 16) if t.startswith("0x") else int(t[2:], 2) if t.startswith("0b") else int(t), m.group(3)))
        elif m.group(4) is not None: out.append(("id", m.group(4)))
        else: out.append(("op", m.group(5)))
        i = m.end()

WIDTH = {"u8": 8, "u16": 16, "u32": 32, "u64": 64, "usize": 64}
CALLEES = {"mode_ac::decode_id13_field": (0, 32, False), "decode_id13_field": (0, 32, False),
           "mode_ac::mode_a_to_mode_c": (1, 32, True), "mode_a_to_mode_c": (1, 32, True)}      # name -> (index, result width, fallible)
BINOPS = [("||", "lor"), ("&&", "land"), None, ("|", "bor"), ("^", "bxor"), ("&", "band"), None, None, None]
LEVELS = [[("||", "lor")], [("&&", "land")], [("==", "eq"), ("!=", "ne"), ("<", "lt"), ("<=", "le"), (">", "gt"), (">=", "ge")],
          [("|", "bor")], [("^", "bxor")], [("&", "band")], [("<<", "shl"), (">>", "shr")], [("+", "add"), ("-", "sub")], [("*", "mul"), ("/", "div")]]

class P:
    def __init__(self, toks, argname=None, argwidth=32):
        self.t = toks; self.i = 0
        self.scopes = [{}]; self.types = {}; self.nvars = 0
        self.input_bits = None
        self.slices = set()
        if argname is not None: self.bind(argname, argwidth)
    # ---- variables
    def bind(self, name, width):
        idx = self.nvars; self.nvars += 1
        self.scopes[-1][name] = idx; self.types[idx] = width
        return idx
    def lookup(self, name):
        for s in reversed(self.scopes):
            if name in s: return s[name]
        raise Unsupported("unknown variable " + name)
    # ---- token helpers
    def peek(self, k=0): return self.t[self.i + k] if self.i + k < len(self.t) else ("eof", None)
    def isop(self, s, k=0): return self.peek(k) == ("op", s)
    def isid(self, s, k=0): return self.peek(k) == ("id", s)
    def eat(self, kind, val=None):
        tok = self.peek()
        if tok[0] != kind or (val is not None and tok[1] != val): raise Unsupported("expected %s %s, found %s" % (kind, val, tok))
        self.i += 1; return tok
    # ---- expressions: returns (lean_text, width or None)
    def expr(self, lvl=0):
        if lvl == len(LEVELS): return self.unary()
        a, wa = self.expr(lvl + 1)
        while True:
            tok = self.peek()
            hit = None
            if tok[0] == "op":
                for sym, name in LEVELS[lvl]:
                    if tok[1] == sym: hit = name
            # `<` / `>` at comparison level must not swallow `<<` (already distinct tokens); `|` must not be a closure bar here
            if hit is None: return a, wa
            self.i += 1
            b, wb = self.expr(lvl + 1)
            w = wa or wb or 32
            if wa and wb and wa != wb and hit not in ("shl", "shr"): raise Unsupported("operands of different widths")
            a = ("bin", hit, (wa or wb or 32) if hit not in ("shl", "shr") else (wa or 32), a, b)
            wa = None if hit in ("eq", "ne", "lt", "le", "gt", "ge", "land", "lor") else (wa if hit in ("shl", "shr") else w)
    def unary(self):
        e, w = self.atom()
        while self.isid("as"):
            self.i += 1
            ty = self.eat("id")[1]
            if ty not in WIDTH: raise Unsupported("cast to " + ty)
            w = WIDTH[ty]; e = ("cast", w, e)
        return e, w
    def atom(self):
        tok = self.peek()
        if tok[0] == "num":
            self.i += 1
            return ("lit", tok[1]), (WIDTH.get(tok[2]) if tok[2] else None)
        if tok == ("op", "("):
            self.i += 1; e, w = self.expr(); self.eat("op", ")"); return e, w
        if tok == ("id", "if"):              # `if c { a } else { b }` as an expression
            self.i += 1; c, _ = self.expr(); self.eat("op", "{"); a, wa = self.expr(); self.eat("op", "}")
            self.eat("id", "else"); self.eat("op", "{"); b, wb = self.expr(); self.eat("op", "}")
            return ("ifx", c, a, b), (wa or wb)
        if tok == ("op", "*"):               # dereference of a reference binding: same value
            self.i += 1; return self.atom()
        if tok[0] == "id":
            name = tok[1]
            if name in CALLEES and self.isop("(", 1):
                idx, w, fallible = CALLEES[name]
                if fallible: raise Unsupported("fallible call in expression position: " + name)
                self.i += 2; a, _ = self.expr(); self.eat("op", ")")
                return ("call", idx, a), w
            if name in ("u32::from", "u64::from", "usize::from", "u16::from") and self.isop("(", 1):   # lossless widening: the same value
                self.i += 2; a, _ = self.expr(); self.eat("op", ")")
                return a, WIDTH[name.split("::")[0]]
            if name == "CRC_TABLE" and self.isop("[", 1):                      # the constant table: panics when the index is out of bounds
                self.i += 2; a, _ = self.expr(); self.eat("op", "]")
                return ("table", a), 32
            if name in self.slices:
                if self.isop("[", 1):                                          # slice indexing: panics when out of bounds
                    self.i += 2; a, _ = self.expr(); self.eat("op", "]")
                    return ("index", name, a), 8
                if self.isop(".", 1) and self.peek(2) == ("id", "len") and self.isop("(", 3) and self.isop(")", 4):
                    self.i += 5; return ("len", name), 64
                raise Unsupported("use of slice " + name)
            if self.isop("(", 1) or "::" in name: raise Unsupported("call / path not in the fragment: " + name)
            self.i += 1
            idx = self.lookup(name)
            return ("var", idx), self.types[idx]
        raise Unsupported("unexpected token in expression: %s" % (tok,))
    # ---- results
    def ret(self):
        if self.isid("Err"):
            self.i += 1; self.skip_parens(); return ("err",)
        if self.isid("Ok"):
            self.i += 1; self.eat("op", "(")
            if self.isid("None"):
                self.i += 1; self.eat("op", ")"); return ("none",)
            if self.isid("u16::try_from"):
                self.i += 1; self.eat("op", "("); e, _ = self.expr(); self.eat("op", ")"); self.eat("op", ".")
                m = self.eat("id")[1]
                if m == "unwrap_or":
                    self.eat("op", "("); z = self.eat("num"); self.eat("op", ")")
                    if z[1] != 0: raise Unsupported("unwrap_or of a non-zero value")
                    self.eat("op", ")"); return ("tryU16", e, True, False)
                if m != "ok": raise Unsupported("method ." + m)
                self.eat("op", "("); self.eat("op", ")")
                positive = False
                if self.isop("."):
                    self.i += 1
                    if self.eat("id")[1] != "filter": raise Unsupported("method after .ok()")
                    self.eat("op", "("); self.eat("op", "|"); self.eat("op", "&"); x = self.eat("id")[1]; self.eat("op", "|")
                    y = self.eat("id")[1]; self.eat("op", ">"); z = self.eat("num"); self.eat("op", ")")
                    if x != y or z[1] != 0: raise Unsupported("filter closure is not `|&x| x > 0`")
                    positive = True
                self.eat("op", ")"); return ("tryU16", e, False, positive)
            e, _ = self.expr(); self.eat("op", ")"); return ("val", e)
        e, _ = self.expr(); return ("val", e)
    def skip_parens(self):
        self.eat("op", "("); depth = 1
        while depth:
            tok = self.peek()
            if tok[0] == "eof": raise Unsupported("unbalanced parentheses")
            if tok == ("op", "("): depth += 1
            if tok == ("op", ")"): depth -= 1
            self.i += 1
    # ---- statements
    def block(self):
        """statements up to the closing brace (not consumed); returns a list of Lean Stmt texts"""
        out = []
        self.scopes.append({})
        while not self.isop("}") and self.peek()[0] != "eof":
            out.append(self.stmt())
        self.scopes.pop()
        return out
    def braced(self):
        self.eat("op", "{"); b = self.block(); self.eat("op", "}"); return b
    def stmt(self):
        if self.isid("let"):
            self.i += 1
            if self.isid("mut"): self.i += 1
            name = self.eat("id")[1]; ty = None
            if self.isop(":"):
                self.i += 1; ty = self.eat("id")[1]
                if ty not in WIDTH: raise Unsupported("type " + ty)
            self.eat("op", "=")
            # the one reader call
            if self.peek()[0] == "id" and self.peek()[1].endswith("::from_reader_with_ctx"):
                w = WIDTH.get(self.peek()[1].split("::")[0])
                if w is None or self.nvars != 0: raise Unsupported("reader call")
                self.i += 1; self.eat("op", "("); self.eat("id", "reader"); self.eat("op", ","); self.eat("op", "(")
                self.eat("id", "Endian::Big"); self.eat("op", ","); self.eat("id", "BitSize"); self.eat("op", "(")
                self.input_bits = self.eat("num")[1]
                for s in (")", ")", ")", "?", ";"): self.eat("op", s)
                self.bind(name, w)
                return None
            e, w = self.expr(); self.eat("op", ";")
            idx = self.bind(name, WIDTH[ty] if ty else (w or 32))
            return ("assign", idx, e)
        if self.isid("return"):
            self.i += 1; r = self.ret(); self.eat("op", ";"); return ("ret", r)
        if self.isid("if"): return self.ifstmt()
        if self.isid("for"):
            # `for i in 0..E { assignments }`
            self.i += 1; name = self.eat("id")[1]; self.eat("id", "in"); z = self.eat("num")
            if z[1] != 0: raise Unsupported("range does not start at 0")
            self.eat("op", "."); self.eat("op", ".")
            hi, _ = self.expr()
            self.eat("op", "{")
            self.scopes.append({}); idx = self.bind(name, 64); body = clean(self.block()); self.scopes.pop()
            self.eat("op", "}")
            if any(st[0] != "assign" for st in body): raise Unsupported("control flow inside a loop")
            return ("for", idx, hi, body)
        tok = self.peek()
        if tok[0] == "id" and self.peek(1)[0] == "op" and self.peek(1)[1] in ("=", "|=", "^=", "&=", "+=", "-=", "*=", "<<=", ">>="):
            name = tok[1]; op = self.peek(1)[1]; self.i += 2
            idx = self.lookup(name); w = self.types[idx]
            e, _ = self.expr(); self.eat("op", ";")
            if op != "=":
                nm = {"|=": "bor", "^=": "bxor", "&=": "band", "+=": "add", "-=": "sub", "*=": "mul", "<<=": "shl", ">>=": "shr"}[op]
                e = ("bin", nm, w, ("var", idx), e)
            return ("assign", idx, e)
        # tail expression = the value of the block
        r = self.ret()
        if self.isop(";"): raise Unsupported("expression statement")
        return ("ret", r)
    def ifstmt(self):
        self.eat("id", "if")
        if self.isid("let"):
            self.i += 1; self.eat("id", "Ok"); self.eat("op", "("); name = self.eat("id")[1]; self.eat("op", ")"); self.eat("op", "=")
            f = self.eat("id")[1]
            if f not in CALLEES or not CALLEES[f][2]: raise Unsupported("if let on " + f)
            self.eat("op", "("); a, _ = self.expr(); self.eat("op", ")")
            self.eat("op", "{")
            self.scopes.append({}); idx = self.bind(name, CALLEES[f][1]); t = self.block(); self.scopes.pop()
            self.eat("op", "}")
            e = []
            if self.isid("else"):
                self.i += 1; e = self.braced()
            return ("ifletok", idx, CALLEES[f][0], a, clean(t), clean(e))
        c, _ = self.expr()
        t = self.braced(); e = []
        if self.isid("else"):
            self.i += 1
            e = [self.ifstmt()] if self.isid("if") else self.braced()
        return ("ite", c, clean(t), clean(e))

def clean(stmts): return [x for x in stmts if x is not None]

# ---------------------------------------------------------------- emitter: Lean definitions (shallow embedding)
# Semantics written out by the emitter (the part of the translation that is trusted): unsigned integers as `Nat`; every `+ - *` and
# shift carries a condition under which the Rust operation panics (`overflow-checks = true` in every profile); the conditions are
# collected in the Boolean `bad`, threaded through the statements in execution order, and a function that returns while `bad` is set
# yields `.panic`; `<<` keeps the low `w` bits, `as uN` truncates; `&&` / `||` evaluate (and so can panic in) their right operand only
# when it is needed.
FN_NAMES = {0: "decodeId13Src", 1: "modeAToCSrc"}
BOOL_OPS = {"eq", "ne", "lt", "le", "gt", "ge", "land", "lor"}

class Emit:
    def __init__(self): self.tmp = 0
    def v(self, i): return "v%d" % i
    def expr(self, e):
        """-> (lean text, [panic conditions as Bool texts], lets needed before) for a Nat-valued or Bool-valued expression"""
        k = e[0]
        if k == "lit": return str(e[1]), []
        if k == "var": return self.v(e[1]), []
        if k == "cast":
            a, fa = self.expr(e[2]); return "(%s %% %d)" % (a, 1 << e[1]), fa
        if k == "ifx":
            c, fc = self.expr(e[1]); a, fa = self.expr(e[2]); b, fb = self.expr(e[3])
            if not self.isbool(e[1]): raise Unsupported("condition is not Boolean")
            return "(if %s then %s else %s)" % (c, a, b), fc + ["(%s && %s)" % (c, f) for f in fa] + ["(!%s && %s)" % (c, f) for f in fb]
        if k == "table":
            a, fa = self.expr(e[1]); return "(Gen.crcTable.getD %s 0)" % a, fa + ["(Nat.ble 256 %s)" % a]
        if k == "index":
            a, fa = self.expr(e[2]); return "(%s.getD %s 0)" % (e[1], a), fa + ["(Nat.ble %s.length %s)" % (e[1], a)]
        if k == "len": return "%s.length" % e[1], []
        if k == "call":
            a, fa = self.expr(e[2])
            return "(numOf (%s %s))" % (FN_NAMES[e[1]], a), fa + ["(notNum (%s %s))" % (FN_NAMES[e[1]], a)]
        op, w, x, y = e[1], e[2], e[3], e[4]
        a, fa = self.expr(x); b, fb = self.expr(y)
        if op == "land": return "(%s && %s)" % (a, b), fa + ["(%s && %s)" % (a, f) for f in fb]
        if op == "lor": return "(%s || %s)" % (a, b), fa + ["(!%s && %s)" % (a, f) for f in fb]
        f = fa + fb
        if op == "band": return "(%s &&& %s)" % (a, b), f
        if op == "bor": return "(%s ||| %s)" % (a, b), f
        if op == "bxor": return "(%s ^^^ %s)" % (a, b), f
        if op == "shl": return "((%s <<< %s) %% %d)" % (a, b, 1 << w), f + ["(Nat.ble %d %s)" % (w, b)]
        if op == "shr": return "(%s >>> %s)" % (a, b), f + ["(Nat.ble %d %s)" % (w, b)]
        if op == "add": return "(%s + %s)" % (a, b), f + ["(Nat.ble %d (%s + %s))" % (1 << w, a, b)]
        if op == "mul": return "(%s * %s)" % (a, b), f + ["(Nat.ble %d (%s * %s))" % (1 << w, a, b)]
        if op == "sub": return "(%s - %s)" % (a, b), f + ["(Nat.blt %s %s)" % (a, b)]
        if op == "div": return "(%s / %s)" % (a, b), f + ["(%s == 0)" % b]
        if op == "eq": return "(%s == %s)" % (a, b), f
        if op == "ne": return "(%s != %s)" % (a, b), f
        if op == "lt": return "(Nat.blt %s %s)" % (a, b), f
        if op == "le": return "(Nat.ble %s %s)" % (a, b), f
        if op == "gt": return "(Nat.blt %s %s)" % (b, a), f
        if op == "ge": return "(Nat.ble %s %s)" % (b, a), f
        raise Unsupported("operator " + op)
    def isbool(self, e): return e[0] == "bin" and e[1] in BOOL_OPS
    def badlet(self, flags, ind):
        return "%slet bad := bad || %s\n" % (ind, " || ".join(flags)) if flags else ""
    def returns(self, stmts):
        if not stmts: return False
        s = stmts[-1]
        if s[0] == "ret": return True
        if s[0] == "ite": return self.returns(s[2]) and self.returns(s[3])
        if s[0] == "ifletok": return self.returns(s[4]) and self.returns(s[5])
        return False
    def ret(self, r, ind):
        if r[0] == "err": return "%sif bad then .panic \"arithmetic overflow\" else .ok .err\n" % ind
        if r[0] == "none": return "%sif bad then .panic \"arithmetic overflow\" else .ok .none\n" % ind
        e, f = self.expr(r[1])
        if self.isbool(r[1]): raise Unsupported("Boolean result")
        out = self.badlet(f, ind)
        if r[0] == "val": return out + "%sif bad then .panic \"arithmetic overflow\" else .ok (.num %s)\n" % (ind, e)
        orzero, positive = r[2], r[3]
        some = "(if %s == 0 then Val.none else Val.num %s)" % (e, e) if positive else "(Val.num %s)" % e
        other = "(Val.num 0)" if orzero else "Val.none"
        return out + "%sif bad then .panic \"arithmetic overflow\" else .ok (if Nat.blt %s 65536 then %s else %s)\n" % (ind, e, some, other)
    def block(self, stmts, ind):
        """a block all of whose paths return"""
        if not stmts: raise Unsupported("a path of the function ends without a value")
        s, rest = stmts[0], stmts[1:]
        if s[0] == "assign":
            e, f = self.expr(s[2])
            if self.isbool(s[2]): raise Unsupported("Boolean variable")
            # the overflow conditions speak about the operands' values *before* the assignment: they come first
            return self.badlet(f, ind) + "%slet %s := %s\n" % (ind, self.v(s[1]), e) + self.block(rest, ind)
        if s[0] == "ret":
            if rest: raise Unsupported("statements after return")
            return self.ret(s[1], ind)
        if s[0] == "ite":
            c, f = self.expr(s[1])
            if not self.isbool(s[1]): raise Unsupported("condition is not Boolean")
            out = self.badlet(f, ind)
            t, e = s[2], s[3]
            if self.returns(t) and self.returns(e):
                if rest: raise Unsupported("unreachable statements")
                return out + "%sif %s then\n%s%selse\n%s" % (ind, c, self.block(t, ind + "  "), ind, self.block(e, ind + "  "))
            if self.returns(t): return out + "%sif %s then\n%s%selse\n%s" % (ind, c, self.block(t, ind + "  "), ind, self.block(e + rest, ind + "  "))
            if self.returns(e): return out + "%sif %s then\n%s%selse\n%s" % (ind, c, self.block(t + rest, ind + "  "), ind, self.block(e, ind + "  "))
            # both fall through: only plain assignments are handled, as conditional updates in program order
            self.tmp += 1; cv = "c%d" % self.tmp
            out += "%slet %s := %s\n" % (ind, cv, c)
            for branch, taken in ((t, cv), (e, "!" + cv)):
                for a in branch:
                    if a[0] != "assign": raise Unsupported("control flow inside a branch that falls through")
                    x, fx = self.expr(a[2])
                    out += self.badlet(["(%s && %s)" % (taken, g) for g in fx], ind)
                    out += "%slet %s := if %s then %s else %s\n" % (ind, self.v(a[1]), taken, x, self.v(a[1]))
            return out + self.block(rest, ind)
        if s[0] == "for":
            # a fold over 0 .. hi-1; the state is the variables the body assigns, plus `bad`
            hi, fh = self.expr(s[2])
            out = self.badlet(fh, ind)
            assigned = []
            for a in s[3]:
                if a[1] not in assigned: assigned.append(a[1])
            names = [self.v(i) for i in assigned]
            out += "%slet st := (List.range %s).foldl (fun (st : %s) %s =>\n" % (ind, hi, " × ".join(["Nat"] * len(names) + ["Bool"]), self.v(s[1]))
            proj = lambda k, n: ("st" + ".2" * k + (".1" if k < n else ""))
            for k, nm in enumerate(names): out += "%s    let %s := %s\n" % (ind, nm, proj(k, len(names)))
            out += "%s    let bad := %s\n" % (ind, proj(len(names), len(names)))
            for a in s[3]:
                x, fx = self.expr(a[2])
                out += self.badlet(fx, ind + "    ") + "%s    let %s := %s\n" % (ind, self.v(a[1]), x)
            out += "%s    (%s)) (%s)\n" % (ind, ", ".join(names + ["bad"]), ", ".join(names + ["bad"]))
            for k, nm in enumerate(names): out += "%slet %s := %s\n" % (ind, nm, proj(k, len(names)))
            out += "%slet bad := %s\n" % (ind, proj(len(names), len(names)))
            return out + self.block(rest, ind)
        if s[0] == "ifletok":
            if rest or not (self.returns(s[4]) and self.returns(s[5])): raise Unsupported("if let that falls through")
            a, f = self.expr(s[3])
            out = self.badlet(f, ind)
            out += "%smatch %s %s with\n" % (ind, FN_NAMES[s[2]], a)
            out += "%s| .ok (.num %s) =>\n%s" % (ind, self.v(s[1]), self.block(s[4], ind + "  "))
            out += "%s| .ok _ =>\n%s" % (ind, self.block(s[5], ind + "  "))
            out += "%s| .err x => .err x\n%s| .panic p => .panic p\n" % (ind, ind)
            return out
        raise Unsupported("statement " + s[0])

def emit_fn2(lean_name, rust_name, stmts, slice_name, int_index):
    em = Emit()
    body = em.block(stmts, "  ")
    return ("/-- `%s` (the slice as a list of byte values) -/\ndef %s (%s : List Nat) (v%d : Nat) : Res Val :=\n  let bad := false\n%s"
            % (rust_name, lean_name, slice_name, int_index, body))

def emit_fn(lean_name, rust_name, stmts, doc):
    em = Emit()
    body = em.block(stmts, "  ")
    return "/-- `%s`%s -/\ndef %s (v0 : Nat) : Res Val :=\n  let bad := false\n%s" % (rust_name, doc, lean_name, body)

def fn_text(src, pattern):
    """text of the function whose header matches `pattern` (regex up to the opening brace), with its body by brace matching"""
    m = re.search(pattern, src, re.S)
    if not m: raise Unsupported("function not found: " + pattern)
    i = src.index("{", m.end() - 1); depth = 0; j = i
    while True:
        if src[j] == "{": depth += 1
        elif src[j] == "}":
            depth -= 1
            if depth == 0: break
        j += 1
    return m.group(0), src[i + 1:j]

def translate(src, pattern, argname=None, argwidth=32):
    head, body = fn_text(src, pattern)
    p = P(tokenize(body), argname, argwidth)
    stmts = clean(p.block())
    if p.peek()[0] != "eof": raise Unsupported("trailing tokens after the body")
    return stmts, p.input_bits

def strip_comments(s):
    s = re.sub(r"/\*.*?\*/", "", s, flags=re.S)
    return re.sub(r"//[^\n]*", "", s)

def generate(read, only=None):
    """-> (text of Gen/Fns.lean, text of Gen/CrcFn.lean); `only` = "fns" | "crc" translates just that part (the other text is None)"""
    if only == "crc":
        crc = strip_comments(read("libadsb_deku/src/crc.rs"))
        head, body = fn_text(crc, r"pub fn modes_checksum\(message: &\[u8\], bits: usize\) -> result::Result<u32, DekuError> \{")
        pc = P(tokenize(body)); pc.slices.add("message"); pc.bind("bits", 64)
        crc_stmts = clean(pc.block())
        if pc.peek()[0] != "eof": raise Unsupported("trailing tokens after modes_checksum")
        return None, "\n".join(["import Adsb.MiniRust", "import Adsb.Gen.Tables", "/-! GENERATED by /verif/tools/rust2lean.py (called from extract.py) from /repo on every run. Do not edit. -/",
               "namespace Adsb.Gen", "open Adsb.MiniRust", "set_option linter.unusedVariables false", "",
               emit_fn2("modesChecksumSrc", "modes_checksum", crc_stmts, "message", 0), "end Adsb.Gen\n"])
    modeac = strip_comments(read("libadsb_deku/src/mode_ac.rs")); lib = strip_comments(read("libadsb_deku/src/lib.rs"))
    items = []
    b, _ = translate(modeac, r"pub\(crate\) fn decode_id13_field\(id13_field: u32\) -> u32 \{", "id13_field", 32)
    items.append(("decodeId13Src", "decode_id13_field", b, None))
    b, _ = translate(modeac, r"pub\(crate\) fn mode_a_to_mode_c\(mode_a: u32\) -> result::Result<u32, &'static str> \{", "mode_a", 32)
    items.append(("modeAToCSrc", "mode_a_to_mode_c", b, None))
    def reader(impl, lean_name):
        m = re.search(r"impl %s \{" % impl, lib)
        if not m: raise Unsupported("impl %s not found" % impl)
        b, bits = translate(lib[m.start():], r"fn read<R: Read \+ Seek>\(reader: &mut Reader<R>\) -> [^{]*\{")
        if bits is None: raise Unsupported("%s::read does not start with the reader call" % impl)
        items.append((lean_name, impl + "::read", b, bits))
    reader("AC13Field", "ac13Src"); reader("Altitude", "ac12Src"); reader("IdentityCode", "identitySrc")
    # the integer `map` closures of the deku attributes: `|x: uN| -> Result<_, DekuError> { body }`
    adsb = strip_comments(read("libadsb_deku/src/adsb.rs"))
    def closure(src, field, lean_name):
        m = None
        for mm in re.finditer(r'map\s*=\s*"\|(\w+):\s*(\w+)\|\s*->[^{"]*\{([^"]*)\}"[^\]]*\)\]\s*(?:pub\s+)?(\w+)\s*:', src):
            if mm.group(4) == field and mm.group(2) in WIDTH: m = mm
        if not m: raise Unsupported("map closure of field %s not found" % field)
        p = P(tokenize(m.group(3)), m.group(1), WIDTH[m.group(2)])
        stmts = clean(p.block())
        if p.peek()[0] != "eof": raise Unsupported("trailing tokens in the closure of " + field)
        items.append((lean_name, "map closure of `%s`" % field, stmts, None))
    closure(adsb, "airspeed", "airspeedMapSrc"); closure(adsb, "altitude", "selAltMapSrc"); closure(adsb, "gnss_baro_diff", "gnssDiffMapSrc")
    closure(adsb, "squawk", "statusSquawkMapSrc"); closure(lib, "id", "df21IdMapSrc")
    if only == "fns":
        out = ["import Adsb.MiniRust", "/-! GENERATED by /verif/tools/rust2lean.py (called from extract.py) from /repo on every run. Do not edit.",
               "Each definition is the body of the named Rust function, statement by statement; `bad` collects the overflow checks. -/",
               "namespace Adsb.Gen", "open Adsb.MiniRust", "set_option linter.unusedVariables false", ""]
        for lean_name, rust_name, body, bits in items:
            out.append(emit_fn(lean_name, rust_name, body, "" if bits is None else " after its %d-bit read (`v0`)" % bits))
            if bits is not None: out.append("/-- width of the field `%s` reads -/\ndef %sBits : Nat := %d\n" % (rust_name, lean_name, bits))
        out.append("end Adsb.Gen\n")
        return "\n".join(out), None
    # `modes_checksum(message: &[u8], bits: usize)`: a loop over the table
    crc = strip_comments(read("libadsb_deku/src/crc.rs"))
    head, body = fn_text(crc, r"pub fn modes_checksum\(message: &\[u8\], bits: usize\) -> result::Result<u32, DekuError> \{")
    pc = P(tokenize(body)); pc.slices.add("message"); pc.bind("bits", 64)
    crc_stmts = clean(pc.block())
    if pc.peek()[0] != "eof": raise Unsupported("trailing tokens after modes_checksum")
    out = ["import Adsb.MiniRust", "/-! GENERATED by /verif/tools/rust2lean.py (called from extract.py) from /repo on every run. Do not edit.",
           "Each definition is the body of the named Rust function, statement by statement; `bad` collects the overflow checks. -/",
           "namespace Adsb.Gen", "open Adsb.MiniRust", "set_option linter.unusedVariables false", ""]
    for lean_name, rust_name, body, bits in items:
        out.append(emit_fn(lean_name, rust_name, body, "" if bits is None else " after its %d-bit read (`v0`)" % bits))
        if bits is not None: out.append("/-- width of the field `%s` reads -/\ndef %sBits : Nat := %d\n" % (rust_name, lean_name, bits))
    out.append("end Adsb.Gen\n")
    crc_out = ["import Adsb.MiniRust", "import Adsb.Gen.Tables", "/-! GENERATED by /verif/tools/rust2lean.py (called from extract.py) from /repo on every run. Do not edit. -/",
               "namespace Adsb.Gen", "open Adsb.MiniRust", "set_option linter.unusedVariables false", "",
               emit_fn2("modesChecksumSrc", "modes_checksum", crc_stmts, "message", 0), "end Adsb.Gen\n"]
    return "\n".join(out), "\n".join(crc_out)

if __name__ == "__main__":
    import os
    repo = os.environ.get("VERIF_REPO", "/repo")
    for t in generate(lambda p: open(os.path.join(repo, p)).read()): print(t)


# =====================================================================================================================
# Float formulas: the body of a function made of `let` bindings over + - * /, float literals, `.to_radians()`,
# `libm::{sin,cos,sqrt,atan2,fmax}`, `f64::{ln,tan}`, tuple fields and a final expression / tuple, translated to a Lean term
# over a structure of operations (`H.add`, `H.sin`, ...). Nothing is said about floating-point semantics: the generated definition
# is *generic in the number type*; the theorems instantiate it with ℝ (and the driver with Float), and a `rfl` theorem ties it to the
# hand-written generic definition the theorems were proved for.
FTOK = re.compile(r"\s*(?:([0-9][0-9_]*\.[0-9_]*(?![A-Za-z_])|[0-9][0-9_]*)|([A-Za-z_][A-Za-z_0-9]*(?:::[A-Za-z_][A-Za-z_0-9]*)*)|(#\[[^\]]*\])|([-+*/(){};:,.=]))")

def ftokenize(src):
    out = []; i = 0
    src = re.sub(r"/\*.*?\*/", "", src, flags=re.S); src = re.sub(r"//[^\n]*", "", src)
    while True:
        m = FTOK.match(src, i)
        if not m:
            if src[i:].strip() == "": return out
            raise Unsupported("float formula: cannot tokenize at: " + src[i:i + 40].strip())
        if m.group(1) is not None: out.append(("num", m.group(1).replace("_", "")))
        elif m.group(2) is not None: out.append(("id", m.group(2)))
        elif m.group(3) is not None: pass                      # attributes such as #[allow(..)]
        else: out.append(("op", m.group(4)))
        i = m.end()

class FP:
    """H = name of the operations structure in the emitted term; env: Rust name -> Lean text"""
    FUN1 = {"libm::sin": "sin", "libm::cos": "cos", "libm::sqrt": "sqrt", "f64::ln": "ln", "f64::tan": "tan"}
    def __init__(self, toks, env, consts):
        self.t = toks; self.i = 0; self.env = dict(env); self.consts = consts
    def peek(self, k=0): return self.t[self.i + k] if self.i + k < len(self.t) else ("eof", None)
    def eat(self, kind, val=None):
        tok = self.peek()
        if tok[0] != kind or (val is not None and tok[1] != val): raise Unsupported("float formula: expected %s %s, found %s" % (kind, val, tok))
        self.i += 1; return tok
    def lit(self, text):
        # only literals with an integral value occur (2.00, 180.0, 6371.00, 0.0, 4.0, 360.0); anything else is outside the fragment
        if "." in text:
            a, b = text.split(".")
            if b.strip("0") != "": raise Unsupported("float formula: non-integral literal " + text)
            text = a
        return "(H.lit %d)" % int(text)
    def expr(self):
        a = self.term()
        while self.peek() in (("op", "+"), ("op", "-")):
            op = self.eat("op")[1]; b = self.term()
            a = "(H.%s %s %s)" % ("add" if op == "+" else "sub", a, b)
        return a
    def term(self):
        a = self.postfix()
        while self.peek() in (("op", "*"), ("op", "/")):
            op = self.eat("op")[1]; b = self.postfix()
            a = "(H.%s %s %s)" % ("mul" if op == "*" else "div", a, b)
        return a
    def postfix(self):
        a = self.atom()
        while self.peek() == ("op", "."):
            nxt = self.peek(1)
            if nxt == ("id", "to_radians"):
                self.i += 2; self.eat("op", "("); self.eat("op", ")")
                a = "(H.mul %s (H.div H.pi (H.lit 180)))" % a          # f64::to_radians: self * (PI / 180.0)
            else: break
        return a
    def atom(self):
        tok = self.peek()
        if tok[0] == "num":
            self.i += 1; return self.lit(tok[1])
        if tok == ("op", "("):
            self.i += 1; e = self.expr(); self.eat("op", ")"); return e
        if tok == ("op", "-"):
            self.i += 1; return "(H.neg %s)" % self.postfix()
        if tok[0] == "id":
            name = tok[1]
            if name in self.FUN1 and self.peek(1) == ("op", "("):
                self.i += 2; a = self.expr(); self.eat("op", ")"); return "(H.%s %s)" % (self.FUN1[name], a)
            if name == "libm::atan2" and self.peek(1) == ("op", "("):
                self.i += 2; a = self.expr(); self.eat("op", ","); b = self.expr(); self.eat("op", ")"); return "(H.atan2 %s %s)" % (a, b)
            if name == "libm::fmax" and self.peek(1) == ("op", "("):
                self.i += 2; a = self.expr(); self.eat("op", ","); z = self.eat("num")
                if float(z[1]) != 0.0: raise Unsupported("float formula: fmax with a non-zero bound")
                self.eat("op", ")"); return "(H.max0 %s)" % a
            if name in ("std::f64::consts::PI", "f64::consts::PI", "core::f64::consts::PI", "PI"):
                self.i += 1; return "H.pi"
            if name in self.consts:
                self.i += 1; return self.consts[name]
            # tuple field / struct field: `s.0`, `other.1`, `self.scale`
            if self.peek(1) == ("op", ".") and self.peek(2)[0] in ("num", "id") and self.peek(2) != ("id", "to_radians"):
                key = name + "." + self.peek(2)[1]
                if key in self.env:
                    self.i += 3; return self.env[key]
            if name in self.env:
                self.i += 1; return self.env[name]
            raise Unsupported("float formula: unknown name " + name)
        raise Unsupported("float formula: unexpected token %s" % (tok,))
    def body(self):
        """`let` bindings, then a final expression or pair -> Lean text"""
        lets = []
        while self.peek() == ("id", "let"):
            self.i += 1
            if self.peek() == ("op", "("):                                   # `let (x, y) = (e1, e2);`
                self.i += 1; n1 = self.eat("id")[1]; self.eat("op", ","); n2 = self.eat("id")[1]; self.eat("op", ")"); self.eat("op", "=")
                self.eat("op", "("); e1 = self.expr(); self.eat("op", ","); e2 = self.expr(); self.eat("op", ")"); self.eat("op", ";")
                l1 = "x%d" % len(lets); lets.append((l1, e1)); l2 = "x%d" % len(lets); lets.append((l2, e2))
                self.env[n1] = l1; self.env[n2] = l2; continue
            name = self.eat("id")[1]
            if self.peek() == ("op", ":"): self.i += 1; self.eat("id", "f64")
            self.eat("op", "="); e = self.expr(); self.eat("op", ";")
            ln = "x%d" % len(lets); lets.append((ln, e)); self.env[name] = ln
        if self.peek() == ("op", "("):
            save = self.i
            try:
                self.i += 1; e1 = self.expr(); self.eat("op", ","); e2 = self.expr(); self.eat("op", ")")
                res = "(%s, %s)" % (e1, e2)
            except Unsupported:
                self.i = save; res = self.expr()
        else: res = self.expr()
        if self.peek()[0] != "eof": raise Unsupported("float formula: trailing tokens %s" % (self.peek(),))
        return "".join("  let %s := %s\n" % l for l in lets) + "  " + res + "\n"

def generate_formulas(read):
    """-> text of Gen/Formulas.lean"""
    common = strip_comments(read("rsadsb_common/src/lib.rs")); radar = strip_comments(read("apps/src/radar/radar.rs"))
    out = ["import Adsb.TrackerF", "import Adsb.App", "/-! GENERATED by /verif/tools/rust2lean.py (called from extract.py) from /repo on every run. Do not edit.",
           "The numeric formulas of the tracker and of the map, as terms over a structure of operations (generic in the number type). -/", "namespace Adsb.Gen", "open Adsb", ""]
    # haversine_distance(s: (f64, f64), other: (f64, f64)) -> f64
    head, body = fn_text(common, r"fn haversine_distance\(s: \(f64, f64\), other: \(f64, f64\)\) -> f64 \{")
    m = re.search(r"let r = ([0-9_.]+);", body)
    if not m: raise Unsupported("float formula: the radius `let r = ..;` of haversine_distance")
    p = FP(ftokenize(body), {"s.0": "s.1", "s.1": "s.2", "other.0": "o.1", "other.1": "o.2"}, {})
    out.append("/-- `AirplaneCoor::haversine_distance` -/\ndef haversineSrc {α : Type} (H : HavOps α) (s o : α × α) : α :=\n" + p.body())
    # Settings::to_mercator(&self, lat, long) with scale = self.scale * scale::DEFAULT passed in as `sc`
    head, body = fn_text(radar, r"fn to_mercator\(&self, lat: f64, long: f64\) -> \(f64, f64\) \{")
    m = re.match(r"\s*let scale: f64 = self\.scale \* scale::DEFAULT;", body)
    if not m: raise Unsupported("float formula: to_mercator does not start with the scale line")
    p = FP(ftokenize(body[m.end():]), {"scale": "sc", "lat": "lat", "long": "lon"}, {})
    out.append("/-- `Settings::to_mercator`; `sc` = `self.scale * scale::DEFAULT` -/\ndef toMercatorSrc {α : Type} (H : MercOps α) (sc lat lon : α) : α × α :=\n" + p.body())
    # Settings::to_xy: (x - local_x, (y - local_y) * -1.0)
    head, body = fn_text(radar, r"fn to_xy\(&self, latitude: f64, longitude: f64\) -> \(f64, f64\) \{")
    want = "let (local_x, local_y) = self.local_lat_lon(); let (x, y) = self.to_mercator(latitude, longitude); let (x, y) = (x - local_x, y - local_y); (x, y * -1.0)"
    if re.sub(r"\s+", " ", body).strip() != want: raise Unsupported("float formula: to_xy has another shape")
    out.append("/-- `Settings::to_xy` relative to the view centre `(lat0, lon0)` (what `local_lat_lon` projects) -/\n"
               "def toXYSrc {α : Type} (H : MercOps α) (sc lat0 lon0 lat lon : α) : α × α :=\n"
               "  let l := toMercatorSrc H sc lat0 lon0\n  let p := toMercatorSrc H sc lat lon\n  (H.sub p.1 l.1, H.mul (H.sub p.2 l.2) (H.neg (H.lit 1)))\n")
    out.append("end Adsb.Gen\n")
    return "\n".join(out)

# ------------------------------------------------------------------------------------------------------------------------------
# cpr.rs: `positive_mod`, `get_lat_lon`, `get_position` as terms over `CprOps` (generic in the number type), Gen/CprFn.lean.
# Fragment: `let [mut]`, `x -= e` / `x += e` under an `if`, `if c { return None; }`, `let x = if c { e } else { e }`, float
# arithmetic with `%`, `libm::floor`, `f64::from(frame.field)`, the u64 arithmetic `cpr_nl(..) - n`, `cmp::max(.., ..)`, `.. as f64`
# (every u64 subtraction is written out as a check), range `contains`, `cpr_nl(a) != cpr_nl(b)`, the two format comparisons.

CTOK = re.compile(r"\s*(?:([0-9][0-9_]*\.[0-9][0-9_]*|[0-9][0-9_]*\.(?![A-Za-z_.0-9])|[0-9][0-9_]*)|([A-Za-z_][A-Za-z_0-9]*(?:::[A-Za-z_][A-Za-z_0-9]*)*)|(\.\.=|-=|\+=|>=|<=|==|!=|\|\||&&|[-+*/%(){};:,.=!<>&@|]))")

def ctokenize(src):
    out = []; i = 0
    while True:
        m = CTOK.match(src, i)
        if not m:
            if src[i:].strip() == "": return out
            raise Unsupported("cpr: cannot tokenize at: " + src[i:i + 40].strip())
        if m.group(1) is not None: out.append(("num", m.group(1).replace("_", "")))
        elif m.group(2) is not None: out.append(("id", m.group(2)))
        else: out.append(("op", m.group(3)))
        i = m.end()

class CP(FP):
    """float expressions as in FP (H = the CprOps value), plus the u64 sub-expressions; `self.checks` collects the u64 checks of the
    expression being parsed, in evaluation order"""
    def __init__(self, toks, env, consts, ienv=None, fields=None):
        FP.__init__(self, toks, env, consts); self.ienv = dict(ienv or {}); self.fields = fields or {}; self.checks = []
    def lit(self, text):
        if text in ("0.5", "0.50"): return "H.half"
        return FP.lit(self, text)
    def term(self):
        a = self.postfix()
        while self.peek() in (("op", "*"), ("op", "/"), ("op", "%")):
            op = self.eat("op")[1]; b = self.postfix()
            a = "(H.%s %s %s)" % ({"*": "mul", "/": "div", "%": "rem"}[op], a, b)
        return a
    # u64 expressions: literal | name bound to a u64 | cpr_nl(float) | cmp::max(i, i) | ( i ) | i - i
    def iatom(self):
        tok = self.peek()
        if tok[0] == "num" and "." not in tok[1]:
            self.i += 1; return str(int(tok[1]))
        if tok == ("id", "cpr_nl") and self.peek(1) == ("op", "("):
            self.i += 2; a = self.expr(); self.eat("op", ")"); return "(H.nl %s)" % a
        if tok in (("id", "cmp::max"), ("id", "core::cmp::max"), ("id", "std::cmp::max")) and self.peek(1) == ("op", "("):
            self.i += 2; a = self.iexpr(); self.eat("op", ","); b = self.iexpr(); self.eat("op", ")"); return "(max %s %s)" % (a, b)
        if tok == ("op", "("):
            self.i += 1; a = self.iexpr(); self.eat("op", ")"); return a
        if tok[0] == "id" and tok[1] in self.ienv:
            self.i += 1; return self.ienv[tok[1]]
        raise Unsupported("cpr: not a u64 expression at %s" % (tok,))
    def iexpr(self):
        a = self.iatom()
        while self.peek() == ("op", "-"):
            self.i += 1; b = self.iatom()
            self.checks.append("decide (%s < %s)" % (a, b))            # u64 subtraction: panics when it would go below zero
            a = "(%s - %s)" % (a, b)
        return a
    def atom(self):
        tok = self.peek()
        # `<u64 expression> as f64`
        save, nchk = self.i, len(self.checks)
        try:
            a = self.iatom()
            if self.peek() == ("id", "as") and self.peek(1) == ("id", "f64"):
                self.i += 2; return "(H.lit %s)" % a
        except Unsupported: pass
        self.i = save; del self.checks[nchk:]
        if tok == ("id", "f64::from") and self.peek(1) == ("op", "("):
            self.i += 2; fr = self.eat("id")[1]; self.eat("op", "."); fd = self.eat("id")[1]; self.eat("op", ")")
            if (fr, fd) not in self.fields: raise Unsupported("cpr: f64::from(%s.%s)" % (fr, fd))
            return "(H.lit %s)" % self.fields[(fr, fd)]
        if tok == ("id", "libm::floor") and self.peek(1) == ("op", "("):
            self.i += 2; a = self.expr()
            if self.peek() == ("op", ","): self.i += 1                                           # trailing comma of a multi-line call
            self.eat("op", ")"); return "(H.floor %s)" % a
        if tok == ("id", "positive_mod") and self.peek(1) == ("op", "("):
            self.i += 2; a = self.expr(); self.eat("op", ","); b = self.expr(); self.eat("op", ")"); return "(positiveModSrc H %s %s)" % (a, b)
        if tok == ("op", "-") and self.peek(1)[0] == "num":
            self.i += 1; return "(H.sub (H.lit 0) %s)" % self.postfix()
        return FP.atom(self)
    # conditions
    def catom(self):
        tok = self.peek()
        if tok == ("op", "!") and self.peek(1) == ("op", "("):                                   # !(lo..=hi).contains(&x)
            self.i += 2; lo = self.expr(); self.eat("op", "..="); hi = self.expr(); self.eat("op", ")"); self.eat("op", ".")
            self.eat("id", "contains"); self.eat("op", "("); self.eat("op", "&"); x = self.expr(); self.eat("op", ")")
            return "(!(H.leb %s %s && H.leb %s %s))" % (lo, x, x, hi)
        if tok == ("id", "latest_frame") and self.peek(1) == ("op", "==") and self.peek(2) == ("id", "even_frame"):
            self.i += 3; return "(decide (latest = even))"
        if tok == ("id", "cpr_format") and self.peek(1) == ("op", "==") and self.peek(2) == ("op", "&") and self.peek(3) == ("id", "CPRFormat::Even"):
            self.i += 4; return "fmtEven"
        if tok == ("id", "cpr_nl"):
            a = self.iatom(); op = self.eat("op")[1]; b = self.iatom()
            if op not in ("!=", "=="): raise Unsupported("cpr: comparison of zone counts with " + op)
            return "(%s %s %s)" % (a, op, b)
        a = self.expr(); op = self.eat("op")[1]; b = self.expr()
        if op == "<": return "(H.ltb %s %s)" % (a, b)
        if op == "<=": return "(H.leb %s %s)" % (a, b)
        if op == ">": return "(H.ltb %s %s)" % (b, a)
        if op == ">=": return "(H.leb %s %s)" % (b, a)
        raise Unsupported("cpr: comparison " + op)
    def cond(self):
        a = self.catom()
        while self.peek() == ("op", "||"):
            self.i += 1; b = self.catom(); a = "(%s || %s)" % (a, b)
        return a
    def fresh(self, rust):
        self.n = getattr(self, "n", 0) + 1; ln = "x%d" % self.n; self.env[rust] = ln; return ln
    def flush(self, out):
        for c in self.checks: out.append("  let bad := bad || %s" % c)
        self.checks = []
    def stmts(self, kind):
        """-> Lean lines; kind: 'val' (tail is a name), 'pair' (tail is `(a, b)`), 'pos' (tail is Some(Position{..}), early `return None`)"""
        out = []
        while True:
            tok = self.peek()
            if tok == ("id", "let"):
                self.i += 1
                if self.peek() == ("op", "("):
                    self.i += 1; n1 = self.eat("id")[1]; self.eat("op", ","); n2 = self.eat("id")[1]; self.eat("op", ")"); self.eat("op", "=")
                    if self.peek() == ("id", "if"):                       # let (p, c) = if C { (int, e) } else { (int, e) };
                        self.i += 1; c = self.cond(); self.eat("op", "{"); self.eat("op", "("); i1 = int(self.eat("num")[1]); self.eat("op", ","); e1 = self.expr(); self.eat("op", ")"); self.eat("op", "}")
                        self.eat("id", "else"); self.eat("op", "{"); self.eat("op", "("); i2 = int(self.eat("num")[1]); self.eat("op", ","); e2 = self.expr(); self.eat("op", ")"); self.eat("op", "}"); self.eat("op", ";")
                        self.flush(out)
                        self.n = getattr(self, "n", 0) + 1; li = "k%d" % self.n; self.ienv[n1] = li
                        out.append("  let %s : Nat := if %s then %d else %d" % (li, c, i1, i2))
                        lf = self.fresh(n2); out.append("  let %s := if %s then %s else %s" % (lf, c, e1, e2))
                    elif self.peek() == ("id", "get_lat_lon"):          # let (lat, lon) = get_lat_lon(e, e, e, &latest_frame.odd_flag);
                        self.i += 1; self.eat("op", "("); a1 = self.expr(); self.eat("op", ","); a2 = self.expr(); self.eat("op", ","); a3 = self.expr(); self.eat("op", ",")
                        self.eat("op", "&"); self.eat("id", "latest_frame"); self.eat("op", "."); self.eat("id", "odd_flag"); self.eat("op", ")"); self.eat("op", ";")
                        self.flush(out)
                        self.n = getattr(self, "n", 0) + 1; r = "r%d" % self.n
                        out.append("  let %s := getLatLonSrc H %s %s %s (latest.f == 0)" % (r, a1, a2, a3))
                        out.append("  let bad := bad || %s.1" % r)
                        self.env[n1] = "%s.2.1" % r; self.env[n2] = "%s.2.2" % r
                    else: raise Unsupported("cpr: tuple binding")
                    continue
                if self.peek() == ("id", "mut"): self.i += 1
                name = self.eat("id")[1]; self.eat("op", "=")
                if self.peek() == ("id", "if"):
                    self.i += 1; c = self.cond(); self.eat("op", "{"); e1 = self.expr(); self.eat("op", "}"); self.eat("id", "else"); self.eat("op", "{"); e2 = self.expr(); self.eat("op", "}")
                    e = "if %s then %s else %s" % (c, e1, e2)
                else: e = self.expr()
                self.eat("op", ";"); self.flush(out)
                ln = self.fresh(name); out.append("  let %s := %s" % (ln, e)); continue
            if tok == ("id", "if"):
                self.i += 1; c = self.cond(); self.eat("op", "{")
                if self.peek() == ("id", "return"):
                    if kind != "pos": raise Unsupported("cpr: early return outside get_position")
                    self.i += 1; self.eat("id", "None"); self.eat("op", ";"); self.eat("op", "}"); self.flush(out)
                    out.append("  if %s then (bad, none) else" % c); continue
                name = self.eat("id")[1]; op = self.eat("op")[1]
                if op not in ("-=", "+=") or name not in self.env: raise Unsupported("cpr: conditional statement")
                e = self.expr()
                if self.peek() == ("op", ";"): self.i += 1
                self.eat("op", "}"); self.flush(out)
                old = self.env[name]; ln = self.fresh(name)
                out.append("  let %s := if %s then (H.%s %s %s) else %s" % (ln, c, "sub" if op == "-=" else "add", old, e, old)); continue
            break
        # tail
        if kind == "val":
            r = self.expr(); out.append("  " + r)
        elif kind == "pair":
            self.eat("op", "("); a = self.expr(); self.eat("op", ","); b = self.expr(); self.eat("op", ")"); self.flush(out)
            out.append("  (bad, (%s, %s))" % (a, b))
        else:
            self.eat("id", "Some"); self.eat("op", "("); self.eat("id", "Position"); self.eat("op", "{"); self.eat("id", "latitude"); self.eat("op", ":"); a = self.expr(); self.eat("op", ",")
            self.eat("id", "longitude"); self.eat("op", ":"); b = self.expr(); self.eat("op", "}"); self.eat("op", ")")
            out.append("  (bad, some { lat := %s, lon := %s })" % (a, b))
        if self.peek()[0] != "eof": raise Unsupported("cpr: trailing tokens %s" % (self.peek(),))
        return out

GET_POSITION_HEAD = ("let latest_frame = cpr_frames.1; let (even_frame, odd_frame) = match cpr_frames { ( even @ Altitude { odd_flag: CPRFormat::Even, .. }, "
                     "odd @ Altitude { odd_flag: CPRFormat::Odd, .. }, ) | ( odd @ Altitude { odd_flag: CPRFormat::Odd, .. }, even @ Altitude { odd_flag: CPRFormat::Even, .. }, ) "
                     "=> (even, odd), _ => return None, };")

def generate_cpr(read):
    """-> text of Gen/CprFn.lean"""
    src = strip_comments(read("libadsb_deku/src/cpr.rs"))
    # the constants, as terms
    consts = {}
    for name in ("NZ", "D_LAT_EVEN", "D_LAT_ODD", "CPR_MAX"):
        m = re.search(r"const %s: f64 = ([^;]+);" % name, src)
        if not m: raise Unsupported("cpr: constant " + name)
        p = CP(ctokenize(m.group(1)), {}, consts); consts[name] = p.expr()
        if p.peek()[0] != "eof": raise Unsupported("cpr: constant " + name)
    out = ["import Adsb.Cpr", "/-! GENERATED by /verif/tools/rust2lean.py (called from extract.py) from /repo/libadsb_deku/src/cpr.rs on every run. Do not edit.",
           "`positive_mod`, `get_lat_lon`, `get_position` as terms over `CprOps` (generic in the number type); the Boolean in the results collects the",
           "u64 subtraction checks in execution order. -/", "namespace Adsb.Gen", "open Adsb", ""]
    head, body = fn_text(src, r"fn positive_mod\(a: f64, b: f64\) -> f64 \{")
    p = CP(ctokenize(body), {"a": "a", "b": "b"}, consts)
    out += ["/-- `positive_mod` -/", "def positiveModSrc {α : Type} (H : CprOps α) (a b : α) : α :="] + p.stmts("val") + [""]
    head, body = fn_text(src, r"fn get_lat_lon\(\s*lat: f64,\s*cpr_lon_even: f64,\s*cpr_lon_odd: f64,\s*cpr_format: &CPRFormat,?\s*\) -> \(f64, f64\) \{")
    p = CP(ctokenize(body), {"lat": "lat", "cpr_lon_even": "lonE", "cpr_lon_odd": "lonO"}, consts)
    out += ["/-- `get_lat_lon`; `fmtEven` = (`cpr_format` is `CPRFormat::Even`) -/", "def getLatLonSrc {α : Type} (H : CprOps α) (lat lonE lonO : α) (fmtEven : Bool) : Bool × (α × α) :=", "  let bad := false"] + p.stmts("pair") + [""]
    head, body = fn_text(src, r"pub fn get_position\(cpr_frames: \(&Altitude, &Altitude\)\) -> Option<Position> \{")
    norm = re.sub(r"\s+", " ", body).strip()
    if not norm.startswith(GET_POSITION_HEAD): raise Unsupported("cpr: get_position does not start with the pairing of one even and one odd frame")
    rest = norm[len(GET_POSITION_HEAD):]
    fields = {("even_frame", "lat_cpr"): "even.lat", ("even_frame", "lon_cpr"): "even.lon", ("odd_frame", "lat_cpr"): "odd.lat", ("odd_frame", "lon_cpr"): "odd.lon"}
    p = CP(ctokenize(rest), {}, consts, fields=fields)
    out += ["/-- `get_position((a, b))`; the pairing (`match cpr_frames`) is recognised as a whole: one frame of each format, `b` the latest -/",
            "def getPositionSrc {α : Type} (H : CprOps α) (a b : Alt) : Bool × Option (Position α) :=", "  let bad := false",
            "  if a.f = b.f then (bad, none) else", "  let even := if a.f = 0 then a else b", "  let odd := if a.f = 0 then b else a", "  let latest := b"] + p.stmts("pos") + ["", "end Adsb.Gen", ""]
    return "\n".join(out)

# ------------------------------------------------------------------------------------------------------------------------------
# adsb.rs `AirborneVelocity::calculate` (+ `Sign::value`): the i16 / u16 arithmetic with every overflow check written out, and the
# track-angle / speed formulas as terms over `TrackOps` (Gen/VelFn.lean).  The statement skeleton is recognised in order; the
# arithmetic inside it is parsed.

class IP:
    """i16 expressions over named operands: + - * with Rust's overflow checks (collected in evaluation order), `as i16` (wrapping),
    `.value()` of a Sign field.  names: Rust text -> (Lean text, type)"""
    def __init__(self, toks, names, prefix):
        self.t = toks; self.i = 0; self.names = names; self.lines = []; self.n = 0; self.prefix = prefix
    def peek(self, k=0): return self.t[self.i + k] if self.i + k < len(self.t) else ("eof", None)
    def eat(self, kind, val=None):
        tok = self.peek()
        if tok[0] != kind or (val is not None and tok[1] != val): raise Unsupported("velocity: expected %s %s, found %s" % (kind, val, tok))
        self.i += 1; return tok
    def tmp(self, e, check=True):
        self.n += 1; v = "%s%d" % (self.prefix, self.n)
        self.lines.append("  let %s : Int := %s" % (v, e))
        if check: self.lines.append("  let bad := bad || i16out %s" % v)
        return v
    def expr(self):
        a, ta = self.term()
        while self.peek() in (("op", "+"), ("op", "-")):
            op = self.eat("op")[1]; b, tb = self.term()
            if ta != "i16" or tb not in ("i16", "lit"): raise Unsupported("velocity: + / - on %s, %s" % (ta, tb))
            a = self.tmp("%s %s %s" % (a, op, b))
        return a, ta
    def term(self):
        a, ta = self.factor()
        while self.peek() == ("op", "*"):
            self.i += 1; b, tb = self.factor()
            if "i16" not in (ta, tb) or not {ta, tb} <= {"i16", "lit"}: raise Unsupported("velocity: * on %s, %s" % (ta, tb))
            a = self.tmp("%s * %s" % (a, b)); ta = "i16"
        return a, ta
    def factor(self):
        a, ta = self.atom()
        while self.peek() == ("id", "as"):
            self.i += 1; ty = self.eat("id")[1]
            if ty != "i16" or ta not in ("u16", "u8", "i16"): raise Unsupported("velocity: cast %s as %s" % (ta, ty))
            if ta == "u16": a = self.tmp("asI16 %s" % a, check=False)          # wrapping: never panics
            else: a = "(%s : Int)" % a
            ta = "i16"
        return a, ta
    def atom(self):
        tok = self.peek()
        if tok == ("op", "("):
            self.i += 1; r = self.expr(); self.eat("op", ")"); return r
        if tok[0] == "num" and "." not in tok[1]:
            self.i += 1; return tok[1], "lit"
        if tok[0] == "id":
            # longest dotted path known
            path = tok[1]; j = self.i + 1
            while self.t[j:j + 1] == [("op", ".")] and self.t[j + 1:j + 2] and self.t[j + 1][0] == "id" and (path + "." + self.t[j + 1][1]) in set(self.names) | {k.rsplit(".", 1)[0] for k in self.names}:
                path += "." + self.t[j + 1][1]; j += 2
            if path in self.names:
                lean, ty = self.names[path]; self.i = j
                if ty == "sign":
                    self.eat("op", "."); self.eat("id", "value"); self.eat("op", "("); self.eat("op", ")")
                    return "signValueSrc %s" % lean, "i16"
                return lean, ty
        raise Unsupported("velocity: operand %s" % (tok,))

def generate_velocity(read):
    """-> text of Gen/VelFn.lean"""
    lib = strip_comments(read("libadsb_deku/src/lib.rs")); adsb = strip_comments(read("libadsb_deku/src/adsb.rs"))
    nrm = lambda s: re.sub(r"\s+", " ", s).strip()
    # Sign: discriminants and value()
    m = re.search(r"pub enum Sign \{\s*Positive = (\d+),\s*Negative = (\d+),?\s*\}", lib)
    if not m: raise Unsupported("velocity: enum Sign")
    dpos, dneg = int(m.group(1)), int(m.group(2))
    head, body = fn_text(lib, r"pub fn value\(&self\) -> i16 \{")
    m = re.fullmatch(r"match self \{ Self::Positive => (-?\d+), Self::Negative => (-?\d+),? \}", nrm(body))
    if not m: raise Unsupported("velocity: Sign::value has another shape")
    vpos, vneg = int(m.group(1)), int(m.group(2))
    # field types the arithmetic relies on
    for pat in (r"pub ew_vel: u16,", r"pub ns_vel: u16,", r"pub vrate_value: u16,", r"pub st: u8,", r"pub ew_sign: Sign,", r"pub ns_sign: Sign,", r"pub vrate_sign: Sign,"):
        if not re.search(pat, adsb): raise Unsupported("velocity: field type " + pat)
    head, body = fn_text(adsb, r"pub fn calculate\(&self\) -> Option<\(f32, f64, i16\)> \{")
    b = nrm(body)
    def take(pat, what):
        nonlocal b
        m = re.match(pat, b)
        if not m: raise Unsupported("velocity: calculate: expected %s at: %s" % (what, b[:60]))
        b = b[m.end():].lstrip(); return m
    take(r"if let AirborneVelocitySubType::GroundSpeedDecoding\(ground_speed\) = &self\.sub_type \{", "the ground-speed subtype test")
    take(r"if ground_speed\.ew_vel == 0 \|\| ground_speed\.ns_vel == 0 \{ return None; \}", "the zero-velocity test")
    m = take(r"let scale = if self\.st == (\d+) \{ (\d+) \} else \{ (\d+) \};", "the scale")
    sc = (int(m.group(1)), int(m.group(2)), int(m.group(3)))
    names = {"ground_speed.ew_vel": ("ewVel", "u16"), "ground_speed.ns_vel": ("nsVel", "u16"), "ground_speed.ew_sign": ("ewSign", "sign"), "ground_speed.ns_sign": ("nsSign", "sign"),
             "self.vrate_sign": ("vrSign", "sign"), "scale": ("scale", "i16")}
    lines = []
    comps = []
    for var, pre in (("v_ew", "a"), ("v_ns", "b")):
        m = take(r"let %s = f64::from\((.*?)\);(?= let )" % var, "the component " + var)
        p = IP(ctokenize(m.group(1)), names, pre); r, ty = p.expr()
        if p.peek()[0] != "eof" or ty != "i16": raise Unsupported("velocity: component " + var)
        lines += p.lines; comps.append(r)
    m = take(r"let h = (.*?); let heading = if h < 0\.0 \{ h \+ 360\.0 \} else \{ h \};", "the track angle")
    fp = FP(ftokenize(m.group(1)), {"v_ew": "(H.ofInt vEw)", "v_ns": "(H.ofInt vNs)"}, {})
    hexpr = fp.expr()
    if fp.peek()[0] != "eof": raise Unsupported("velocity: track angle expression")
    m = take(r"let vrate = self \.vrate_value \.checked_sub\((\d+)\) \.and_then\(\|v\| v\.checked_mul\((\d+)\)\) \.map\(\|v\| (.*?)\);(?= if let)", "the vertical-rate chain")
    csub, cmul = int(m.group(1)), int(m.group(2))
    p = IP(ctokenize(m.group(3)), dict(names, v=("v", "u16")), "r"); rr, ty = p.expr()
    if p.peek()[0] != "eof" or ty != "i16": raise Unsupported("velocity: vertical rate expression")
    take(r"if let Some\(vrate\) = vrate \{ return Some\(\(heading as f32, libm::hypot\(v_ew, v_ns\), vrate\)\); \} \} None$", "the result")
    out = ["import Adsb.Velocity", "/-! GENERATED by /verif/tools/rust2lean.py (called from extract.py) from /repo/libadsb_deku/src/{adsb,lib}.rs on every run. Do not edit.",
           "`AirborneVelocity::calculate`: the integer part with every i16 check written out (`bad`), and the track angle / speed as terms over `TrackOps`. -/",
           "namespace Adsb.Gen", "open Adsb", "",
           "/-- `Sign::value` on the discriminant read from the frame -/",
           "def signValueSrc (s : Nat) : Int := if s = %d then %d else if s = %d then %d else 0" % (dpos, vpos, dneg, vneg), "",
           "/-- the integer part of `calculate` for the ground-speed subtypes: (a check fired, (v_ew, v_ns, vrate) or no velocity) -/",
           "def calcIntSrc (st ewSign ewVel nsSign nsVel vrSign vrVal : Nat) : Bool × Option (Int × Int × Int) :=", "  let bad := false",
           "  if ewVel = 0 ∨ nsVel = 0 then (bad, none) else", "  let scale : Int := if st = %d then %d else %d" % sc] + lines + [
           "  if vrVal < %d then (bad, none) else                       -- checked_sub" % csub,
           "  let v := vrVal - %d" % csub,
           "  if 65535 < v * %d then (bad, none) else                   -- checked_mul on u16" % cmul,
           "  let v := v * %d" % cmul] + p.lines + [
           "  (bad, some (%s, %s, %s))" % (comps[0], comps[1], rr), "",
           "/-- the track angle of `calculate` (`heading`, before the cast to f32) -/",
           "def headingSrc {α : Type} (H : TrackOps α) (vEw vNs : Int) : α :=", "  let h := %s" % hexpr, "  if H.neg? h then (H.add h (H.lit 360)) else h", "",
           "/-- the ground speed of `calculate`: `libm::hypot(v_ew, v_ns)` -/",
           "def speedSrc {α : Type} (H : TrackOps α) (hypot : α → α → α) (vEw vNs : Int) : α := hypot (H.ofInt vEw) (H.ofInt vNs)", "", "end Adsb.Gen", ""]
    return "\n".join(out)
