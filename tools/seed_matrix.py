#!/usr/bin/env python3
"""Apply every seeded change under /verif/seeded to /repo (one at a time), run the quick check of the
property it breaks, record what the check reported, undo the change.  Writes seeded/RESULTS.json.
usage: seed_matrix.py [name ...]      (default: all)"""
import os, sys, json, subprocess, re, time
V = "/verif"; R = "/repo"
# the checks run here see a deliberately modified /repo: their evidence records must not replace the ones of the unchanged tree
os.environ["VERIF_EVIDENCE_DIR"] = V + "/.work/evidence_seeded"
def sh(cmd, cwd=None, timeout=3600):
    p = subprocess.run(cmd, cwd=cwd, shell=isinstance(cmd, str), stdout=subprocess.PIPE, stderr=subprocess.STDOUT, timeout=timeout)
    return p.returncode, p.stdout.decode(errors="replace")
names = sys.argv[1:] or sorted(d for d in os.listdir(V + "/seeded") if os.path.isdir(V + "/seeded/" + d))
resp = os.environ.get("SEED_MATRIX_OUT") or (V + "/seeded/RESULTS.json")
res = json.load(open(resp)) if os.path.exists(resp) else {}
for n in names:
    d = V + "/seeded/" + n
    meta = json.load(open(d + "/meta.json"))
    pid = meta["property"]
    rc, out = sh("git status --porcelain --untracked-files=no", cwd=R)
    if out.strip(): print("repo not clean, abort:", out); sys.exit(2)
    rc, out = sh(["git", "apply", d + "/patch.diff"], cwd=R)
    if rc != 0: print(n, "patch does not apply:", out); res[n] = {"property": pid, "error": "patch does not apply"}; continue
    t0 = time.time()
    try:
        extra = meta.get("also_check", [])
        entry = {"property": pid, "checks": {}}
        for p in [pid] + extra:
            rc, out = sh(["./verif", "check", p, "--tier", "quick"], cwd=V)
            vio = [l for l in out.split("\n") if l.startswith("VIOLATION")]
            why = []
            for l in vio:
                m = re.search(r"replay=(\S+)", l)
                if m and os.path.exists(m.group(1)):
                    r = json.load(open(m.group(1)))
                    why.append((r.get("why") or "; ".join(r.get("broken", [])[:3]))[:300])
            entry["checks"][p] = {"exit": rc, "violations": vio, "why": why}
        entry["caught"] = any(c["exit"] == 1 and c["violations"] for c in entry["checks"].values())
        entry["with_input"] = any(v and "no-failing-input-found" not in v[0] for v in [c["violations"] for c in entry["checks"].values()])
        entry["wall_s"] = round(time.time() - t0)
        res[n] = entry
        print(n, "CAUGHT" if entry["caught"] else "MISSED", "(concrete input)" if entry["with_input"] else "", "|", "; ".join(w for c in entry["checks"].values() for w in c["why"])[:200], flush=True)
    finally:
        sh("git checkout -- .", cwd=R)
        json.dump(res, open(resp, "w"), indent=1)
sh([sys.executable, V + "/tools/extract.py"])
