"""Reference tracker written from the property texts C12-C15 (not from the code): replays a history of line-protocol
operations and checks the implementation's output lines. Reports (index, property, message)."""
import re, math
from gens import get
import cprspec, pyspec

def parse_map(line):
    """'MAP n=.. allpos=a,b | rec | rec' -> (n, allpos list, {key: {field: text}})"""
    i = line.index("MAP ")
    body = line[i:]
    parts = body.split(" | ")
    headp = parts[0].split()
    n = int(headp[1].split("=")[1]); allpos = [x for x in headp[2].split("=")[1].split(",") if x]
    if len(headp) > 3 and headp[3].startswith("shown="):
        # the text rendering of the tracker lists exactly the aircraft with details; carried along as a pseudo-entry of allpos
        allpos = allpos + ["shown:" + x for x in headp[3].split("=")[1].split(",") if x]
    recs = {}
    order = []
    for r in parts[1:]:
        r = r.strip()
        if not r: continue
        m = re.match(r'(\w{6}) msgs=(\d+) cs=(-|"[^"]*") vel=(\S+) e=(\S+) o=(\S+) pos=(\S+) kd=(\S+) track=(\S+) details=(\S+)', r)
        if not m: raise ValueError("cannot parse record: " + r)
        k = m.group(1); order.append(k)
        recs[k] = dict(msgs=int(m.group(2)), cs=m.group(3), vel=m.group(4), e=m.group(5), o=m.group(6), pos=m.group(7), kd=m.group(8), track=m.group(9), details=m.group(10))
    return n, allpos, recs, order

def slot_of(b):
    return "%d/%d/%d/%s/%d/%d/%d/%d" % (get(b, 32, 5), get(b, 37, 2), get(b, 39, 1),
        "-" if pyspec.ac12(get(b, 40, 12)) is None else pyspec.ac12(get(b, 40, 12)), get(b, 52, 1), get(b, 53, 1), get(b, 54, 17), get(b, 71, 17))

class Ref:
    def __init__(self):
        self.reset(0.0, 0.0, 500.0)
    def reset(self, lat, lon, rng):
        self.rx = (lat, lon); self.range = rng; self.now = 0
        self.recs = {}      # key -> dict(count, last, even, odd, pos, cs, vel, pubs)
    def check(self, ops, lines):
        out = []
        prev_map = None
        for i, (op, line) in enumerate(zip(ops, lines)):
            p = op.split()
            if p[1] == "reset":
                self.reset(float(p[2]), float(p[3]), float(p[4])); prev_map = None; continue
            if p[1] == "rx":
                self.rx = (float(p[2]), float(p[3])); continue          # the receiver moved: later reports are judged from the new position
            if p[1] == "age":
                self.now += int(p[2]); continue
            if line.startswith("PANIC"):
                out.append((i, "C01", "tracker operation panicked: " + line[:120])); continue
            if p[1] == "prune":
                T = int(p[2])
                n, allpos, recs, order = parse_map(line)
                want = sorted(k for k, r in self.recs.items() if self.now - r["last"] < 1000 * T)
                if sorted(recs) != want:
                    out.append((i, "C15", "prune(%d): kept %s, aircraft heard less than %d s ago: %s" % (T, sorted(recs), T, want)))
                for k in want:
                    if prev_map and k in prev_map and k in recs and prev_map[k] != recs[k]:
                        out.append((i, "C15", "prune changed the surviving record %s" % k))
                self.recs = {k: r for k, r in self.recs.items() if k in want}
                prev_map = recs; continue
            if p[1] == "dump":
                continue
            if p[1] == "actq":
                # quiet form: `ADDEDQ yes|no n=<tracked aircraft>`
                if not line.startswith("ADDEDQ"): continue
                b = bytearray.fromhex(p[2]); df = get(b, 0, 5)
                added = line.split()[1] == "yes"; n = int(line.split()[2].split("=")[1])
                if df in (17, 18):
                    k = "%06x" % get(b, 8, 24); was = k in self.recs
                    if added != (not was): out.append((i, "C12", "added=%s but address %s was %stracked before" % (added, k, "" if was else "not ")))
                    r = self.recs.setdefault(k, dict(count=0, last=0, even=None, odd=None, pos=None, cs=None, vel=None, pubs=[]))
                    r["count"] += 1; r["last"] = self.now
                elif added: out.append((i, "C12", "frame of DF%d reported as added" % df))
                if n != len(self.recs): out.append((i, "C12", "%d aircraft tracked, %d distinct addresses were heard and none expired" % (n, len(self.recs))))
                prev_map = None; continue
            # act
            b = bytearray.fromhex(p[2])
            if not line.startswith("ADDED"):
                continue          # undecodable frame: nothing to check here
            added = line.split()[1] == "yes"
            n, allpos, recs, order = parse_map(line)
            df = get(b, 0, 5)
            if order != sorted(order) or len(set(order)) != len(order):
                out.append((i, "C12", "records not one per address in address order: %s" % order))
            if df not in (17, 18):
                if added: out.append((i, "C12", "frame of DF%d reported as added" % df))
                if prev_map is not None and recs != prev_map: out.append((i, "C12", "frame of DF%d changed the tracker" % df))
                prev_map = recs; continue
            k = "%06x" % get(b, 8, 24)
            was = k in self.recs
            if added != (not was): out.append((i, "C12", "added=%s but address %s was %stracked before" % (added, k, "" if was else "not ")))
            if k not in recs:
                out.append((i, "C12", "no record under the announced address %s (keys %s)" % (k, order))); prev_map = recs; continue
            r = self.recs.setdefault(k, dict(count=0, last=0, even=None, odd=None, pos=None, cs=None, vel=None, pubs=[]))
            r["count"] += 1; r["last"] = self.now
            if recs[k]["msgs"] != r["count"]: out.append((i, "C12", "%s: message count %d, frames since (re)added %d" % (k, recs[k]["msgs"], r["count"])))
            if set(recs) != set(self.recs): out.append((i, "C12", "tracked set %s, expected %s" % (sorted(recs), sorted(self.recs))))
            for k2 in recs:
                if k2 != k and prev_map and k2 in prev_map and prev_map[k2] != recs[k2]:
                    out.append((i, "C12", "frame from %s changed the record of %s" % (k, k2)))
            tc = get(b, 32, 5)
            got = recs[k]
            # ---- attributes (C14)
            if 1 <= tc <= 4:
                r["cs"] = '"%s"' % pyspec.ident(b, 40)
            if r["cs"] is not None and got["cs"] != r["cs"]: out.append((i, "C14", "%s: callsign %s, latest identification %s" % (k, got["cs"], r["cs"])))
            if tc == 19:
                st = get(b, 37, 3); vew = get(b, 46, 10); vns = get(b, 57, 10); vr = get(b, 69, 9)
                if st in (1, 2) and vew and vns and vr:
                    kx = 4 if st == 2 else 1
                    e = (vew - 1) * kx * (-1 if get(b, 45, 1) else 1); nn = (vns - 1) * kx * (-1 if get(b, 56, 1) else 1)
                    h = math.degrees(math.atan2(e, nn)); h = h + 360 if h < 0 else h
                    r["vel"] = (h, math.hypot(e, nn), (vr - 1) * 64 * (-1 if get(b, 68, 1) else 1))
            if r["vel"] is None:
                if got["vel"] != "-": out.append((i, "C14", "%s: velocity %s without a velocity report" % (k, got["vel"])))
            else:
                try:
                    hv, sv, vv = got["vel"].split(",")
                    if int(vv) != r["vel"][2] or abs(float(sv) - r["vel"][1]) > 1e-2 + 1e-5 * r["vel"][1] or min(abs(float(hv) - r["vel"][0]), 360 - abs(float(hv) - r["vel"][0])) > 1e-2:
                        out.append((i, "C14", "%s: velocity %s, latest velocity report gives %.3f,%.3f,%d" % (k, got["vel"], *r["vel"])))
                except ValueError:
                    out.append((i, "C14", "%s: velocity %s, expected one" % (k, got["vel"])))
            # ---- position (C13)
            if (9 <= tc <= 18) or (20 <= tc <= 22):
                odd = get(b, 53, 1)
                slot = slot_of(b)
                before = (r["even"], r["odd"])
                r["odd" if odd else "even"] = (slot, get(b, 54, 17), get(b, 71, 17))
                unchanged = before == (r["even"], r["odd"])      # the very same report again: nothing new is published
                prevpos = r["pos"]
                verdict = None; cand = None
                if r["even"] and r["odd"]:
                    cand = cprspec.decode(r["even"][1:], r["odd"][1:], True)
                    if cand is None: verdict = "clear"
                    else:
                        c = (float(cand[0]), float(cand[1]))
                        d = cprspec.great_circle_km(self.rx, c)
                        dj = cprspec.great_circle_km(prevpos, c) if prevpos else 0.0
                        if abs(d - self.range) < 1e-4 or abs(dj - 100.0) < 1e-4: verdict = "borderline"
                        elif d > self.range or dj > 100.0: verdict = "clear"
                        else: verdict = "publish"
                if verdict == "clear":
                    r["even"] = r["odd"] = None; r["pos"] = None
                    if (got["e"], got["o"], got["pos"], got["kd"]) != ("-", "-", "-", "-"):
                        out.append((i, "C13", "%s: implausible / undecodable pair must clear the whole position record, got e=%s o=%s pos=%s kd=%s" % (k, got["e"], got["o"], got["pos"], got["kd"])))
                elif verdict == "publish":
                    c = (float(cand[0]), float(cand[1])); r["pos"] = c
                    if not (unchanged and prevpos is not None): r["pubs"].append(c)
                    if got["pos"] == "-": out.append((i, "C13", "%s: plausible pairing (%.6f, %.6f) not published" % (k, c[0], c[1])))
                    else:
                        la, lo = [float(x) / 1000.0 for x in got["pos"].split(",")]
                        if abs(la - c[0]) > 1e-6 or min(abs(lo - c[1]), 360 - abs(lo - c[1])) > 1e-6:
                            out.append((i, "C13", "%s: published (%.7f, %.7f), CPR pairing of the stored reports is (%.7f, %.7f)" % (k, la, lo, c[0], c[1])))
                        d = cprspec.great_circle_km(self.rx, c)
                        if got["kd"] == "-" or abs(float(got["kd"]) - d) > 1e-3 + 1e-6 * d:
                            out.append((i, "C13", "%s: distance %s, great-circle distance from the receiver is %.6f km" % (k, got["kd"], d)))
                    if got["e"] != r["even"][0] or got["o"] != r["odd"][0]:
                        out.append((i, "C13", "%s: stored reports e=%s o=%s, latest even/odd are %s / %s" % (k, got["e"], got["o"], r["even"][0], r["odd"][0])))
                elif verdict is None:
                    want_e = r["even"][0] if r["even"] else "-"; want_o = r["odd"][0] if r["odd"] else "-"
                    if got["e"] != want_e or got["o"] != want_o or got["pos"] != "-":
                        out.append((i, "C13", "%s: one report stored: e=%s o=%s pos=%s, expected e=%s o=%s pos=-" % (k, got["e"], got["o"], got["pos"], want_e, want_o)))
                else:   # borderline: adopt the implementation's decision
                    if got["pos"] == "-": r["even"] = r["odd"] = None; r["pos"] = None
                    else:
                        r["pos"] = tuple(float(x) / 1000.0 for x in got["pos"].split(","))
                        if not (unchanged and prevpos is not None): r["pubs"].append(r["pos"])
            # ---- derived views (C14)
            for k2, g2 in recs.items():
                if (g2["pos"] != "-") != (g2["kd"] != "-"): out.append((i, "C14", "%s: distance present iff position violated (pos=%s kd=%s)" % (k2, g2["pos"], g2["kd"])))
                has_alt = g2["e"] != "-" and g2["e"].split("/")[3] != "-"
                want_det = g2["pos"] != "-" and g2["kd"] != "-" and has_alt
                if (g2["details"] != "-") != want_det: out.append((i, "C14", "%s: details %s, position/altitude/distance present: %s" % (k2, g2["details"], want_det)))
                if g2["details"] != "-" and g2["details"].split("/")[0] != g2["e"].split("/")[3] and g2["details"].split("/")[0] != g2["o"].split("/")[3]:
                    out.append((i, "C14", "%s: details altitude %s is not the altitude of a stored report" % (k2, g2["details"].split("/")[0])))
            shown = [x[6:] for x in allpos if x.startswith("shown:")]; allpos = [x for x in allpos if not x.startswith("shown:")]
            want_shown = [k2 for k2 in order if recs[k2]["details"] != "-"]
            if shown != want_shown: out.append((i, "C14", "text rendering of the tracker lists %s, aircraft with details %s" % (shown, want_shown)))
            want_ap = [k2 for k2 in order if recs[k2]["pos"] != "-"]
            if allpos != want_ap: out.append((i, "C14", "position list %s, aircraft with a position %s" % (allpos, want_ap)))
            # track: positioned entries = previously published positions (all but the current one)
            tr = got["track"]
            tpos = [x for x in tr.strip("[]").split(";") if x and x != "-"] if tr != "-" else []
            prev_pubs = r["pubs"][:-1] if r["pos"] is not None and r["pubs"] else r["pubs"]
            if len(tpos) != len(prev_pubs):
                out.append((i, "C14", "%s: track has %d positioned entries, %d positions were published before the current one" % (k, len(tpos), len(prev_pubs))))
            else:
                for tp, pp in zip(tpos, prev_pubs):
                    la, lo = [float(x) / 1000.0 for x in tp.split(",")]
                    if abs(la - pp[0]) > 1e-6 or min(abs(lo - pp[1]), 360 - abs(lo - pp[1])) > 1e-6:
                        out.append((i, "C14", "%s: track entry (%.6f, %.6f) is not the published position (%.6f, %.6f)" % (k, la, lo, pp[0], pp[1]))); break
            prev_map = recs
        return out
