#!/bin/bash
# usage: try_seed.sh <seed-name> <property ids...> : applies the seeded change to /repo, runs the checks, reverts
NAME=$1; shift
cd /repo && git apply /verif/seeded/$NAME/patch.diff || { echo "patch does not apply"; exit 1; }
cd /verif
for p in "$@"; do
  ./verif check $p --tier quick 2>&1 | grep -E "VIOLATION|KNOWN|theorems" | sed "s/^/[$NAME] /"
done
cd /repo && git checkout -- . && git status --short | grep -v '^??' | head -3
# restore generated files and binaries to the unchanged tree
cd /verif && python3 tools/extract.py > /dev/null
