"""Generic check flow shared by all properties (see DESIGN.md section 1).

  regenerate Gen/* from /repo, compare layout/shape text with the copy the model was written against
  build the harness from /repo's working tree (hooks on), build the Lean theorem module + driver
  audit axioms / forbidden constructs
  run the correspondence (harness vs driver) on the property's operations, plus independent spec oracles
  classify, write evidence, print VIOLATION lines
"""
import os, sys, json, time, subprocess, hashlib, re, fcntl, shutil
from vlib import *

LEAN_DIR = os.path.join(VERIF, "lean")
EXPECTED = os.path.join(LEAN_DIR, "Adsb", "Expected")
GEN = os.path.join(LEAN_DIR, "Adsb", "Gen")
HARNESS_DIR = os.path.join(VERIF, "harness")
ALLOWED_AXIOMS = {"propext", "Classical.choice", "Quot.sound"}
GUARD = "rsadsb_adsb_deku_verif"

def sh(cmd, cwd=None, env=None, timeout=None):
    e = dict(os.environ)
    if env: e.update(env)
    p = subprocess.run(cmd, cwd=cwd, env=e, stdout=subprocess.PIPE, stderr=subprocess.STDOUT, timeout=timeout)
    return p.returncode, p.stdout.decode(errors="replace")

class Lock:
    def __enter__(self):
        os.makedirs(WORK, exist_ok=True)
        self.f = open(os.path.join(WORK, "build.lock"), "w")
        fcntl.flock(self.f, fcntl.LOCK_EX)
        return self
    def __exit__(self, *a):
        fcntl.flock(self.f, fcntl.LOCK_UN); self.f.close()

def regenerate():
    """run the translator; returns (ok, info, log)"""
    rc, out = sh([sys.executable, os.path.join(VERIF, "tools", "extract.py")])
    if rc != 0: return False, {}, out
    try: info = json.loads(out.strip().split("\n")[-1])
    except Exception: return False, {}, out
    return True, info, out

def tie_diffs():
    """which layout items / code shapes differ from the copy the model was written against"""
    diffs = []
    exp_l = open(os.path.join(EXPECTED, "layout.txt")).read()
    cur_l = open(os.path.join(GEN, "layout.txt")).read()
    if exp_l != cur_l:
        def items(t):
            d = {}; cur = None
            for line in t.split("\n"):
                if not line.startswith("    ") and line.strip():
                    cur = " ".join(line.split()[1:3]); d[cur] = line + "\n"
                elif cur: d[cur] += line + "\n"
            return d
        a, b = items(exp_l), items(cur_l)
        for k in sorted(set(a) | set(b)):
            if a.get(k) != b.get(k): diffs.append("layout:" + k)
    if open(os.path.join(EXPECTED, "cfg_items.txt")).read() != open(os.path.join(GEN, "cfg_items.txt")).read():
        diffs.append("cfg:items")
    exp_p = open(os.path.join(EXPECTED, "panic_sites.txt")).read().split("\n")
    cur_p = open(os.path.join(GEN, "panic_sites.txt")).read().split("\n")
    for l in sorted(set(cur_p) - set(exp_p)): diffs.append("panic:new site " + l[:120])
    for l in sorted(set(exp_p) - set(cur_p)): diffs.append("panic:removed site " + l[:120])
    exp_s = json.load(open(os.path.join(EXPECTED, "shapes.json")))
    cur_s = json.load(open(os.path.join(GEN, "shapes.json")))
    for k in sorted(set(exp_s) | set(cur_s)):
        if exp_s.get(k) != cur_s.get(k): diffs.append("shape:" + k)
    exp_f = json.load(open(os.path.join(EXPECTED, "fns.json")))
    cur_f = json.load(open(os.path.join(GEN, "fns.json")))
    for k in sorted(set(exp_f) | set(cur_f)):
        if exp_f.get(k) != cur_f.get(k): diffs.append("fn:" + k)
    exp_p = open(os.path.join(EXPECTED, "panic_sites_apps.txt")).read().split("\n")
    cur_p = open(os.path.join(GEN, "panic_sites_apps.txt")).read().split("\n")
    for l in sorted(set(cur_p) - set(exp_p)): diffs.append("panicapps:new site " + l[:120])
    for l in sorted(set(exp_p) - set(cur_p)): diffs.append("panicapps:removed site " + l[:120])
    return diffs

def build_harness(features=None, target="release-std"):
    env = {"CARGO_NET_OFFLINE": "true", "RUSTFLAGS": "--cfg " + GUARD, "CARGO_TARGET_DIR": os.path.join(HARNESS_DIR, "target")}
    cmd = ["cargo", "build", "--release", "--offline"]
    if features is not None:
        cmd += ["--no-default-features", "--features", features]
        env["CARGO_TARGET_DIR"] = os.path.join(HARNESS_DIR, "target-" + features.replace(",", "-"))
    rc, out = sh(cmd, cwd=HARNESS_DIR, env=env, timeout=1800)
    binary = os.path.join(env["CARGO_TARGET_DIR"], "release", "vharness")
    return rc == 0, out, binary

def build_lean(targets):
    rc, out = sh(["lake", "build"] + targets, cwd=LEAN_DIR, timeout=3600)
    errs = re.findall(r"error: (Adsb/[^\s:]+\.lean):(\d+):(\d+): (.*)", out)
    return rc == 0, out, errs

def theorem_names(module_file):
    txt = open(os.path.join(LEAN_DIR, module_file)).read()
    ns = re.search(r"^namespace ([\w.]+)", txt, re.M)
    ns = ns.group(1) if ns else ""
    names = re.findall(r"^theorem (\w+)", txt, re.M)
    return [ns + "." + n if ns else n for n in names]

def audit_axioms(module, names):
    """#print axioms for every property theorem; returns ({name: [axioms]}, log)"""
    os.makedirs(WORK, exist_ok=True)
    path = os.path.join(WORK, "audit_%s.lean" % module.replace(".", "_"))
    with open(path, "w") as f:
        f.write("import %s\n" % module)
        for n in names: f.write("#print axioms %s\n" % n)
    rc, out = sh(["lake", "env", "lean", path], cwd=LEAN_DIR, timeout=1800)
    res = {}
    for m in re.finditer(r"'([\w.]+)' (depends on axioms: \[([^\]]*)\]|does not depend on any axioms)", out.replace("\n ", " ")):
        res[m.group(1)] = [a.strip() for a in m.group(3).split(",")] if m.group(3) else []
    return res, out, rc

def adsb_imports(module, seen=None):
    """the project's own modules a module imports, transitively (the generated tables included)"""
    seen = seen if seen is not None else []
    if module in seen: return seen
    seen.append(module)
    path = os.path.join(LEAN_DIR, module.replace(".", "/") + ".lean")
    if os.path.exists(path):
        for m in re.findall(r"^import (Adsb\.[\w.]+)", open(path).read(), re.M): adsb_imports(m, seen)
    return seen

def leancheck(modules):
    """replay the compiled modules with leanchecker, Lean's independent checker of .olean files; {module: ok}"""
    import concurrent.futures
    def one(m):
        rc, out = sh(["lake", "env", "leanchecker", m], cwd=LEAN_DIR, timeout=3600)
        return m, rc == 0, out[-300:]
    with concurrent.futures.ThreadPoolExecutor(8) as ex: return list(ex.map(one, modules))

FORBIDDEN = re.compile(r"\b(sorry|admit|native_decide|bv_decide|implemented_by|unsafe)\b|^axiom |maxHeartbeats 0", re.M)
def grep_forbidden():
    hits = []
    for root, _, files in os.walk(os.path.join(LEAN_DIR, "Adsb")):
        for fn in files:
            if not fn.endswith(".lean"): continue
            p = os.path.join(root, fn)
            txt = open(p).read()
            # drop comments
            t = re.sub(r"/-.*?-/", lambda m: "\n" * m.group(0).count("\n"), txt, flags=re.S)
            t = re.sub(r"--[^\n]*", "", t)
            for m in FORBIDDEN.finditer(t):
                hits.append("%s:%d:%s" % (os.path.relpath(p, LEAN_DIR), t[:m.start()].count("\n") + 1, m.group(0).strip()))
    return hits

def write_replay(pid, kind, payload):
    d = os.path.join(VERIF, "replays"); os.makedirs(d, exist_ok=True)
    h = hashlib.sha256(json.dumps(payload, sort_keys=True).encode()).hexdigest()[:10]
    p = os.path.join(d, "%s-%s-%s.json" % (pid, kind, h))
    json.dump(payload, open(p, "w"), indent=1)
    return p

def load_known():
    p = os.path.join(VERIF, "known_findings.json")
    if not os.path.exists(p): return {"findings": [], "fixed": []}
    return json.load(open(p))

class Result:
    def __init__(self, pid, tier, seed):
        self.pid, self.tier, self.seed = pid, tier, seed
        self.t0 = time.time()
        self.violations = []       # (replay_path, suffix)
        self.known = []
        self.obligations = 0; self.discharged = 0
        self.axioms = {}
        self.evals = 0; self.distinct = set(); self.samples = []
        self.dist = {}
        self.notes = []
        self.broken = []           # broken obligations / ties (strings)
        self.exhaustive = None
        self.extra = {}
    def count(self, key, n=1): self.dist[key] = self.dist.get(key, 0) + n
