"""Shared helpers: PRNG, Mode S parity, frame builders, running harness and driver, diffing."""
import os, subprocess, sys, json, time, hashlib

VERIF = os.path.dirname(os.path.dirname(os.path.abspath(__file__)))
HARNESS = os.path.join(VERIF, "harness", "target", "release", "vharness")
DRIVER = os.path.join(VERIF, "lean", ".lake", "build", "bin", "driver")
WORK = os.path.join(VERIF, ".work")

class Rng:
    """splitmix64: every random choice of a run derives from VERIF_SEED"""
    def __init__(self, seed): self.s = seed & 0xFFFFFFFFFFFFFFFF
    def next(self):
        self.s = (self.s + 0x9E3779B97F4A7C15) & 0xFFFFFFFFFFFFFFFF
        z = self.s
        z = ((z ^ (z >> 30)) * 0xBF58476D1CE4E5B9) & 0xFFFFFFFFFFFFFFFF
        z = ((z ^ (z >> 27)) * 0x94D049BB133111EB) & 0xFFFFFFFFFFFFFFFF
        return z ^ (z >> 31)
    def below(self, n): return self.next() % n
    def bits(self, k):
        v = 0
        while k > 0:
            t = min(k, 64); v = (v << t) | (self.next() >> (64 - t)); k -= t
        return v
    def choice(self, xs): return xs[self.below(len(xs))]
    def chance(self, num, den): return self.below(den) < num

GEN = 0x1FFF409
def parity(bits_val, nbits):
    """remainder of (bits_val * x^24) mod G, bit-serial; bits_val has nbits bits"""
    r = 0
    for i in range(nbits - 1, -1, -1):
        b = (bits_val >> i) & 1
        top = (r >> 23) & 1
        r = (r << 1) & 0xFFFFFF
        if top ^ b: r ^= 0xFFF409
    return r

def crc_of(frame_bytes):
    """Mode S syndrome of a 7 or 14 byte frame: parity(payload) xor last 24 bits"""
    n = len(frame_bytes)
    v = int.from_bytes(frame_bytes[:n-3], "big")
    return parity(v, 8 * (n - 3)) ^ int.from_bytes(frame_bytes[n-3:], "big")

def with_parity(payload_bytes, overlay=0):
    v = int.from_bytes(payload_bytes, "big")
    p = parity(v, 8 * len(payload_bytes)) ^ overlay
    return payload_bytes + p.to_bytes(3, "big")

def frame_from_bits(fields, total_bits):
    """fields: list of (value, width); concatenated MSB first, zero padded to total_bits"""
    v = 0; n = 0
    for val, w in fields:
        v = (v << w) | (val & ((1 << w) - 1)); n += w
    assert n <= total_bits, (n, total_bits)
    v <<= (total_bits - n)
    return v.to_bytes(total_bits // 8, "big")

def run_ops(binary, ops, extra_env=None, timeout=None):
    """feed the operations to the binary, one output line per operation. An operation that does not complete (no output within the
    time limit: 120 s + 1 s per 200 operations) is reported as `HANG ...`, the operations after it as `SKIPPED`."""
    import tempfile
    env = dict(os.environ)
    if extra_env: env.update(extra_env)
    if timeout is None: timeout = 120 + len(ops) / 200.0
    os.makedirs(WORK, exist_ok=True)
    with tempfile.TemporaryFile(dir=WORK) as fo, tempfile.TemporaryFile(dir=WORK) as fe:
        p = subprocess.Popen([binary], stdin=subprocess.PIPE, stdout=fo, stderr=fe, env=env)
        hung = False
        try:
            p.communicate(("\n".join(ops) + "\n").encode(), timeout=timeout)
        except subprocess.TimeoutExpired:
            hung = True; p.kill(); p.wait()
        fo.seek(0); raw = fo.read().decode(errors="replace"); fe.seek(0); err = fe.read().decode(errors="replace")
    out = raw.split("\n")
    if hung:
        out = out[:-1]                                  # the last piece is an incomplete line (or empty)
        k = len(out)
        if k < len(ops):
            out.append("HANG the operation did not complete within %.0f s" % timeout)
            out += ["SKIPPED after the operation that did not complete"] * (len(ops) - k - 1)
        return out[:len(ops)]
    if p.returncode != 0:
        raise RuntimeError("%s exited %d: %s" % (binary, p.returncode, err[-2000:]))
    if out and out[-1] == "": out.pop()
    if len(out) != len(ops):
        raise RuntimeError("%s produced %d lines for %d ops" % (binary, len(out), len(ops)))
    return out

def run_ops_parallel(binary, ops, jobs=8):
    """split ops into chunks; only for stateless ops"""
    from concurrent.futures import ThreadPoolExecutor
    if len(ops) < 2000 or jobs <= 1: return run_ops(binary, ops)
    k = (len(ops) + jobs - 1) // jobs
    chunks = [ops[i:i+k] for i in range(0, len(ops), k)]
    with ThreadPoolExecutor(jobs) as ex:
        res = list(ex.map(lambda c: run_ops(binary, c), chunks))
    out = []
    for r in res: out.extend(r)
    return out
