#!/bin/sh
# runs the repository's pinned test suite offline with the verification guard OFF
cd /repo && CARGO_NET_OFFLINE=true cargo test --workspace --no-fail-fast --offline 2>&1 | grep -E "^test result|FAILED|failed|panicked|error(\[|:)" 
